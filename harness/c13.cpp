// C13 conformance harness (G binding): JMESPath search / make_expression + evaluate against the
// results predicted by spec/Jmespath.tla.
//
// case   {"e":[code points of the expression], "ds":[document numbers], "r":[prediction per document], "se":bool}
// prediction  ["v", <wire value>]   the specification defines this value
//             ["e", <class>]        the specification requires an error (class is informational, never compared)
//             ["dc", <why>]         declared don't-care: not compared
//             ["od", p_asc, p_desc] the result depends on the (unspecified) enumeration order of object members;
//                                   p_asc / p_desc are the predictions for ascending / descending key order
// "dev": per document, the names of the known-deviation classes the (expression, document) falls into (classification
//       only: predictions are always the specification's).
// "se": the expression contains a statically detectable error (unknown function, wrong arity, zero slice
//       step); the specification does not say whether it must be reported when never evaluated, so an error
//       is always acceptable for such a case.
// documents  --docs FILE: ndjson {"doc":n,"d":<wire value>}
//
// Entry points exercised per (case, document), for json and ojson: search(doc, expr, ec), search(doc, expr)
// (throwing), make_expression(expr, ec).evaluate(doc, ec), make_expression(expr).evaluate(doc) (throwing).
// Numbers: documents and predictions carry ["int", n] or ["dec", m, e] (the decimal m * 10^e, exact).  A document number
// ["dec", m, e] is built as the double nearest to the decimal (jc::build_doc; ["dec",10,-1] is the double 1.0, ["int",1] the
// integer 1).  Results are compared BY VALUE, never by C++ storage kind (JSON has one number type): a returned integer or a
// returned double with an integral value is ["int", n]; any other returned double must be bit-for-bit the double nearest
// to the predicted decimal (strtod of "<m>e<e>", correctly rounded) - no tolerance.  A predicted decimal with an integral
// value is the same number as the integer.  The document-unchanged check is strict (storage kind included).
// Observables compared: value (objects as maps, numbers by numeric value) or "an error was reported";
// agreement of the four entry points; the document after the calls equals the document before.
// No oracle logic here beyond equality with the prediction.
#include "harness.hpp"
#include "jconv.hpp"
#include <jsoncons/json.hpp>
#include <jsoncons_ext/jmespath/jmespath.hpp>
#include <cmath>
#include <map>
using namespace jsoncons;

static long nchecks = 0, nnontrivial = 0, ndontcare = 0;

// library value -> canonical wire (members sorted by key).  JSON has one number type: a double with an
// integral value is the integer.  Anything outside the model universe becomes ["other", ...] (never equal).
// a non-integral finite double: its bits, and its shortest round-trip text for the reports
static mj::Value num_wire(double d) { mj::Value r = jc::dbl_wire(d); char b[40]; snprintf(b, sizeof b, "%.17g", d); r.push(b); return r; }
// predicted value -> the same canonical form (by value: a decimal with an integral value is the integer)
static mj::Value canon_expected(const mj::Value& w) {
    const std::string& k = w[0].str();
    if (k == "arr") { mj::Value r = mj::Value::array(); r.push("arr"); mj::Value a = mj::Value::array(); for (auto& e : w[1].a) a.push(canon_expected(e)); r.push(a); return r; }
    if (k == "obj") { mj::Value r = mj::Value::array(); r.push("obj"); mj::Value a = mj::Value::array(); for (auto& kv : w[1].a) { mj::Value p = mj::Value::array(); p.push(kv[0]); p.push(canon_expected(kv[1])); a.push(p); }
        std::stable_sort(a.a.begin(), a.a.end(), jc::key_less); r.push(a); return r; }
    if (k == "dec") { double d = jc::dec_value(w);
        if (std::floor(d) == d && std::fabs(d) < 9e15) { mj::Value r = mj::Value::array(); r.push("int"); r.push((int64_t)d); return r; }
        return num_wire(d); }
    return w;
}
template <class Json>
static mj::Value val_wire(const Json& j) {
    mj::Value r = mj::Value::array();
    switch (j.type()) {
        case json_type::null: r.push("null"); break;
        case json_type::boolean: r.push("bool"); r.push(j.template as<bool>()); break;
        case json_type::int64: r.push("int"); r.push((int64_t)j.template as<int64_t>()); break;
        case json_type::uint64: { uint64_t u = j.template as<uint64_t>(); if (u <= (uint64_t)INT64_MAX) { r.push("int"); r.push((int64_t)u); } else { r.push("other"); r.push("uint64"); r.push(std::to_string(u)); } break; }
        case json_type::float16:
        case json_type::float64: { double d = j.template as<double>();
            if (std::isfinite(d) && std::floor(d) == d && std::fabs(d) < 9e15) { r.push("int"); r.push((int64_t)d); }
            else if (std::isfinite(d)) return num_wire(d);
            else { char b[40]; snprintf(b, sizeof b, "%.17g", d); r.push("other"); r.push("double"); r.push(b); } break; }
        case json_type::string: if (j.tag() == semantic_tag::none || j.tag() == semantic_tag::noesc) { r.push("str"); r.push(jc::cps_of(j.template as<std::string>())); } else { r.push("other"); r.push("tagged-string"); r.push(j.template as<std::string>()); } break;
        case json_type::array: { r.push("arr"); mj::Value a = mj::Value::array(); for (auto& e : j.array_range()) a.push(val_wire(e)); r.push(a); break; }
        case json_type::object: { r.push("obj"); mj::Value a = mj::Value::array(); for (auto& kv : j.object_range()) { mj::Value p = mj::Value::array(); p.push(jc::cps_of(std::string(kv.key()))); p.push(val_wire(kv.value())); a.push(p); }
            std::stable_sort(a.a.begin(), a.a.end(), jc::key_less); r.push(a); break; }
        default: { r.push("other"); r.push((int)j.type()); std::string s; j.dump(s); r.push(s); break; }
    }
    return r;
}

struct Obs { bool ok = false; bool foreign = false; mj::Value v; std::string msg; };

// "dev": names of the known-deviation classes (notes/C13.md) the generator put this (case, document) into.  The harness
// only echoes them and uses them to bucket its output cap, so that a flood of mismatches of one known class can neither
// hide another class nor an unclassified mismatch (caps: 300 unclassified, 40 per (class set, kind) per shard).
static std::string dev_of(const mj::Value& c, int doc) {
    const mj::Value* d = c.find("dev"); std::vector<std::string> names;
    if (d) for (size_t k = 0; k < d->size() && k < c["ds"].size(); ++k)
        if (doc < 0 || c["ds"][k].as_int() == doc) for (auto& n : (*d)[k].a) if (std::find(names.begin(), names.end(), n.str()) == names.end()) names.push_back(n.str());
    std::sort(names.begin(), names.end());
    std::string r; for (auto& n : names) { if (!r.empty()) r += ","; r += n; }
    return r;
}
static std::map<std::string, long> g_bucket;
static void fail(size_t idx, const mj::Value& c, const char* flavour, int doc, const std::string& what, const mj::Value& got) {
    std::string dev = dev_of(c, doc);
    long n = ++g_bucket[dev.empty() ? std::string() : dev + "|" + what];
    if (n > (dev.empty() ? 300 : 40)) return;
    mj::Value m = hz::rec("mismatch"); m.set("idx", (int64_t)idx); m.set("flavour", flavour); m.set("doc", doc); m.set("what", what); m.set("dev", dev); m.set("got", got); m.set("case", c); hz::emit(m);
}
static mj::Value obs_json(const Obs& o) {
    mj::Value r = mj::Value::array();
    if (o.ok) { r.push("v"); r.push(o.v); } else { r.push(o.foreign ? "foreign-exception" : "e"); r.push(o.msg); }
    return r;
}

// does observation o satisfy prediction p ?  (-1: not comparable / don't-care, 0: no, 1: yes)
static int satisfies(const Obs& o, const mj::Value& p, bool se) {
    const std::string& k = p[0].str();
    if (k == "dc") return -1;
    if (k == "e") return o.ok ? 0 : 1;
    if (k == "v") { if (!o.ok) return se ? 1 : 0; return o.v == canon_expected(p[1]) ? 1 : 0; }
    return -1;
}

template <class Json>
struct Flavour {
    const char* name; bool sorted;
    std::map<int, Json> docs; std::map<int, mj::Value> wires;
    void load(const std::vector<std::pair<int, mj::Value>>& ds) { for (auto& d : ds) { docs.emplace(d.first, jc::build_doc<Json>(d.second)); wires.emplace(d.first, jc::canon_doc(d.second)); } }

    void run(size_t idx, const mj::Value& c) {
        std::string expr = jc::cps_to_utf8(c["e"]);
        bool se = c["se"].as_bool();
        // compile once (both overloads)
        std::error_code cec; bool cforeign = false; std::string cmsg;
        std::unique_ptr<jmespath::jmespath_expression<Json>> compiled;
        try { compiled.reset(new jmespath::jmespath_expression<Json>(jmespath::make_expression<Json>(expr, cec))); }
        catch (const std::exception& ex) { cforeign = true; cmsg = ex.what(); }
        bool cok = !cec && !cforeign && compiled;
        if (!cok && !cforeign) cmsg = cec.message();
        bool tok = true; bool tforeign = false; std::string tmsg;
        std::unique_ptr<jmespath::jmespath_expression<Json>> compiled2;
        try { compiled2.reset(new jmespath::jmespath_expression<Json>(jmespath::make_expression<Json>(expr))); }
        catch (const jmespath::jmespath_error& ex) { tok = false; tmsg = ex.what(); }
        catch (const std::exception& ex) { tok = false; tforeign = true; tmsg = ex.what(); }
        ++nchecks;
        // (a compile-time failure is reported per document below, against that document's prediction)
        if (tok != cok) fail(idx, c, name, -1, "make_expression-overloads-disagree", mj::Value(cok));
        for (size_t k = 0; k < c["ds"].size(); ++k) {
            int dn = (int)c["ds"][k].as_int();
            const Json& doc = docs.at(dn);
            const mj::Value& p = c["r"][k];
            Obs o[4];
            try { std::error_code ec; Json r = jmespath::search(doc, expr, ec); o[0].ok = !ec; if (o[0].ok) o[0].v = val_wire(r); else o[0].msg = ec.message(); }
            catch (const std::exception& ex) { o[0].foreign = true; o[0].msg = ex.what(); }
            try { Json r = jmespath::search(doc, expr); o[1].ok = true; o[1].v = val_wire(r); }
            catch (const jmespath::jmespath_error& ex) { o[1].msg = ex.what(); }
            catch (const std::exception& ex) { o[1].foreign = true; o[1].msg = ex.what(); }
            if (cok) {
                try { std::error_code ec; Json r = compiled->evaluate(doc, ec); o[2].ok = !ec; if (o[2].ok) o[2].v = val_wire(r); else o[2].msg = ec.message(); }
                catch (const std::exception& ex) { o[2].foreign = true; o[2].msg = ex.what(); }
            } else { o[2].foreign = cforeign; o[2].msg = cmsg; }
            if (tok && compiled2) {
                try { Json r = compiled2->evaluate(doc); o[3].ok = true; o[3].v = val_wire(r); }
                catch (const jmespath::jmespath_error& ex) { o[3].msg = ex.what(); }
                catch (const std::exception& ex) { o[3].foreign = true; o[3].msg = ex.what(); }
            } else { o[3].foreign = tforeign; o[3].msg = tmsg; }
            ++nchecks;
            static const char* ep[4] = {"search-ec", "search-throw", "evaluate-ec", "evaluate-throw"};
            const std::string& pk = p[0].str();
            bool compared = pk == "v" || pk == "e" || (pk == "od" && p[1][0].str() != "dc" && p[2][0].str() != "dc");
            // errors are reported as JMESPath errors: jmespath_error from the throwing overloads, an error_code from the
            // others - never another exception type (not judged on don't-care cases)
            if (compared) for (int i = 0; i < 4; ++i) if (o[i].foreign) fail(idx, c, name, dn, std::string(ep[i]) + "-foreign-exception", obs_json(o[i]));
            // compiled and one-shot evaluation agree (all four entry points)
            for (int i = 1; i < 4; ++i) if (o[i].ok != o[0].ok || (o[i].ok && !(o[i].v == o[0].v))) { fail(idx, c, name, dn, std::string(ep[i]) + "-differs-from-search-ec", obs_json(o[i])); break; }
            // evaluation never modifies the document
            if (!(jc::doc_wire(doc) == wires.at(dn))) fail(idx, c, name, dn, "document-modified", jc::doc_wire(doc));
            // prediction
            if (pk == "od") {
                int a = satisfies(o[0], p[1], se), b = satisfies(o[0], p[2], se);
                if (a < 0 || b < 0) { ++ndontcare; continue; }
                if (sorted) { if (a == 0 && b == 0) fail(idx, c, name, dn, "result-matches-neither-member-order", obs_json(o[0])); else ++nnontrivial; }
                else {   // insertion-ordered objects: only the verdict, and only if both orders agree on it
                    bool ea = p[1][0].str() == "e", eb = p[2][0].str() == "e";
                    if (ea == eb) { if (ea && o[0].ok) fail(idx, c, name, dn, "error-expected", obs_json(o[0])); else if (!ea && !o[0].ok && !se) fail(idx, c, name, dn, "unexpected-error", obs_json(o[0])); }
                    else ++ndontcare;
                }
                continue;
            }
            int s = satisfies(o[0], p, se);
            if (s < 0) { ++ndontcare; continue; }
            if (s == 0) fail(idx, c, name, dn, pk == "e" ? "error-expected" : (o[0].ok ? "value" : "unexpected-error"), obs_json(o[0]));
            else if (pk == "e" || !(p[1][0].str() == "null")) ++nnontrivial;
        }
    }
};

int main(int argc, char** argv) {
    auto args = hz::parse_args(argc, argv);
    std::vector<std::pair<int, mj::Value>> ds;
    { std::ifstream in(args.opt("--docs")); if (!in) { fprintf(stderr, "cannot open --docs file\n"); return 2; }
      std::string line; while (std::getline(in, line)) { if (line.empty()) continue; mj::Value v = mj::parse(line); ds.emplace_back((int)v["doc"].as_int(), v["d"]); } }
    Flavour<json> fj; fj.name = "json"; fj.sorted = true; fj.load(ds);
    Flavour<ojson> fo; fo.name = "ojson"; fo.sorted = false; fo.load(ds);
    long ncases = 0;
    hz::for_each_case(args, [&](size_t idx, const std::string& line) {
        mj::Value c = mj::parse(line); ++ncases;
        fj.run(idx, c); fo.run(idx, c);
    });
    mj::Value s = hz::rec("stat"); s.set("cases", (int64_t)ncases); s.set("checks", (int64_t)nchecks); s.set("nontrivial", (int64_t)nnontrivial); s.set("dontcare", (int64_t)ndontcare); hz::emit(s);
    return 0;
}
