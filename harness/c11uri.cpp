// C11 conformance harness, reference-resolution family (spec/Uri.tla, spec/gen/MC_C11uri.tla).
// Every case names a base URI, an optional relative identifier of a nested subschema, a reference, the identifier the
// reference addresses per RFC 3986 section 5.2 (computed by the spec) and near-miss identifiers.  The schema built here
// declares a subschema with the target identifier ("type":"integer") and one per decoy ("type":"string"); the reference
// is evaluated from inside the nested subschema.  Required verdicts: 1 is valid, "s" is not - from is_valid, from
// validate with a reporter, and again on a second use; for json and ojson; in every dialect.
#include "harness.hpp"
#include <jsoncons/json.hpp>
#include <jsoncons_ext/jsonschema/jsonschema.hpp>
using namespace jsoncons;

static void put_utf8(std::string& s, uint32_t cp) {
    if (cp < 0x80) s.push_back((char)cp);
    else if (cp < 0x800) { s.push_back((char)(0xC0 | (cp >> 6))); s.push_back((char)(0x80 | (cp & 0x3F))); }
    else if (cp < 0x10000) { s.push_back((char)(0xE0 | (cp >> 12))); s.push_back((char)(0x80 | ((cp >> 6) & 0x3F))); s.push_back((char)(0x80 | (cp & 0x3F))); }
    else { s.push_back((char)(0xF0 | (cp >> 18))); s.push_back((char)(0x80 | ((cp >> 12) & 0x3F))); s.push_back((char)(0x80 | ((cp >> 6) & 0x3F))); s.push_back((char)(0x80 | (cp & 0x3F))); }
}
static std::string str_of(const mj::Value& a) { std::string s; for (size_t i = 0; i < a.size(); ++i) put_utf8(s, (uint32_t)a[i].as_int()); return s; }

struct Dialect { const char* name; const char* schema; const char* id; const char* defs; };
static const Dialect DIALECTS[] = {
    {"d4", "http://json-schema.org/draft-04/schema#", "id", "definitions"},
    {"d6", "http://json-schema.org/draft-06/schema#", "$id", "definitions"},
    {"d7", "http://json-schema.org/draft-07/schema#", "$id", "definitions"},
    {"d2019", "https://json-schema.org/draft/2019-09/schema", "$id", "$defs"},
    {"d2020", "https://json-schema.org/draft/2020-12/schema", "$id", "$defs"},
};

// (ptr) "$ref": "#/<defs>/<token>": the token is the fragment form (RFC 6901 section 6) of a member name; the members literally named
// like the encoded forms are decoys
template <class Json>
static void run_ptr_case(size_t idx, const mj::Value& c, const Dialect& d, const char* flavour, long& nchecks) {
    const std::string key = str_of(c["key"]), tok = str_of(c["tok"]);
    auto fail = [&](const char* what, const std::string& got) {
        mj::Value m = hz::rec("mismatch"); m.set("idx", (int64_t)idx); m.set("flavour", flavour); m.set("dialect", d.name); m.set("what", what);
        m.set("got", got); m.set("key_s", key); m.set("tok_s", tok); m.set("case", c); hz::emit_mismatch(m);
    };
    Json s(json_object_arg);
    s["$schema"] = d.schema;
    s[d.id] = str_of(c["base"]);
    Json use(json_object_arg); use["$ref"] = std::string("#/") + d.defs + "/" + tok;
    Json all(json_array_arg); all.push_back(use); s["allOf"] = all;
    Json defs(json_object_arg);
    {   Json x(json_object_arg); x["type"] = "integer"; defs[key] = x; }
    for (size_t i = 0; i < c["decoys"].size(); ++i) { Json y(json_object_arg); y["type"] = "string"; defs[str_of(c["decoys"][i])] = y; }
    s[d.defs] = defs;
    ++nchecks;
    try {
        auto compiled = jsonschema::make_json_schema(s);
        bool vi = compiled.is_valid(Json(1)), vs = compiled.is_valid(Json("s"));
        if (!vi || vs) fail("verdict", std::string("int=") + (vi ? "valid" : "invalid") + " str=" + (vs ? "valid" : "invalid"));
    } catch (const std::exception& e) {
        fail("schema-rejected", e.what());
    }
}

template <class Json>
static void run_case(size_t idx, const mj::Value& c, const Dialect& d, const char* flavour, long& nchecks) {
    const std::string base = str_of(c["base"]), inner = str_of(c["inner"]), ref = str_of(c["ref"]), target = str_of(c["target"]);
    auto fail = [&](const char* what, const std::string& got) {
        mj::Value m = hz::rec("mismatch"); m.set("idx", (int64_t)idx); m.set("flavour", flavour); m.set("dialect", d.name); m.set("what", what);
        m.set("got", got); m.set("base_s", base); m.set("inner_s", inner); m.set("ref_s", ref); m.set("target_s", target); m.set("case", c); hz::emit_mismatch(m);
    };
    Json s(json_object_arg);
    s["$schema"] = d.schema;
    s[d.id] = base;
    Json use(json_object_arg); use["$ref"] = std::string("#/") + d.defs + "/m";
    Json all(json_array_arg); all.push_back(use); s["allOf"] = all;
    Json defs(json_object_arg);
    {   Json m(json_object_arg);
        if (!inner.empty()) m[d.id] = inner;
        Json r(json_object_arg); r["$ref"] = ref; Json a2(json_array_arg); a2.push_back(r); m["allOf"] = a2;
        defs["m"] = m; }
    {   Json x(json_object_arg); x[d.id] = target; x["type"] = "integer"; defs["x"] = x; }
    for (size_t i = 0; i < c["decoys"].size(); ++i) {
        Json y(json_object_arg); y[d.id] = str_of(c["decoys"][i]); y["type"] = "string"; defs["y" + std::to_string(i)] = y;
    }
    s[d.defs] = defs;
    ++nchecks;
    try {
        auto compiled = jsonschema::make_json_schema(s);
        for (int round = 0; round < 2; ++round) {
            bool vi = compiled.is_valid(Json(1)), vs = compiled.is_valid(Json("s"));
            if (!vi || vs) { fail(round ? "verdict-second-use" : "verdict", std::string("int=") + (vi ? "valid" : "invalid") + " str=" + (vs ? "valid" : "invalid")); return; }
        }
        size_t ni = 0, ns = 0;
        compiled.validate(Json(1), [&](const jsonschema::validation_message&) { ++ni; return jsonschema::walk_result::advance; });
        compiled.validate(Json("s"), [&](const jsonschema::validation_message&) { ++ns; return jsonschema::walk_result::advance; });
        if (ni != 0 || ns == 0) fail("reporter-disagrees", "errors int=" + std::to_string(ni) + " str=" + std::to_string(ns));
    } catch (const std::exception& e) {
        fail("schema-rejected", e.what());
    }
}

int main(int argc, char** argv) {
    auto args = hz::parse_args(argc, argv);
    long ncases = 0, nchecks = 0;
    hz::for_each_case(args, [&](size_t idx, const std::string& line) {
        mj::Value c = mj::parse(line); ++ncases;
        const bool ptr = c["cls"].str() == "ptr" || c["cls"].str() == "ptrx";
        for (const Dialect& d : DIALECTS) {
            if (ptr) { run_ptr_case<json>(idx, c, d, "json", nchecks); run_ptr_case<ojson>(idx, c, d, "ojson", nchecks); continue; }
            run_case<json>(idx, c, d, "json", nchecks);
            run_case<ojson>(idx, c, d, "ojson", nchecks);
        }
    });
    mj::Value s = hz::rec("stat"); s.set("cases", (int64_t)ncases); s.set("checks", (int64_t)nchecks); hz::emit(s);
    return 0;
}
