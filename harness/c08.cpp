// C08 conformance harness (V binding): pushes TLC-generated, grammatically well-formed event
// sequences (declared lengths right / wrong / absent) into the real encoders and records
// {enc, ev, v, right, out: ok|err, bytes}; Trace_C08 validates the recorded output with the
// independent reference decoders / the RFC 8259 recogniser.
#include "harness.hpp"
#include "jconv.hpp"
#include "binval.hpp"
#include <jsoncons/json.hpp>
#include <jsoncons_ext/cbor/cbor.hpp>
#include <jsoncons_ext/msgpack/msgpack.hpp>
#include <jsoncons_ext/ubjson/ubjson.hpp>
#include <jsoncons_ext/bson/bson.hpp>
using namespace jsoncons;

template <class Visitor>
static void push(Visitor& enc, const mj::Value& evs) {
    for (auto& e : evs.a) {
        const std::string& k = e[0].str();
        if (k == "ba") { long n = (long)e[1].as_int(); if (n < 0) enc.begin_array(); else enc.begin_array((size_t)n); }
        else if (k == "bo") { long n = (long)e[1].as_int(); if (n < 0) enc.begin_object(); else enc.begin_object((size_t)n); }
        else if (k == "ea") enc.end_array();
        else if (k == "eo") enc.end_object();
        else if (k == "key") { auto b = bv::bytes_of(e[1]); enc.key(std::string((const char*)b.data(), b.size())); }
        else if (k == "val") {
            const mj::Value& v = e[1]; const std::string& vk = v[0].str();
            if (vk == "uint") { uint64_t u = 0; bv::be_to_u64(v[1], u); enc.uint64_value(u); }
            else if (vk == "nint") { uint64_t n = 0; bv::be_to_u64(v[1], n); enc.int64_value(-1 - (int64_t)n); }
            else if (vk == "tstr") { auto b = bv::bytes_of(v[1]); enc.string_value(std::string((const char*)b.data(), b.size())); }
            else if (vk == "bstr") { auto b = bv::bytes_of(v[1]); enc.byte_string_value(b); }
            else if (vk == "null") enc.null_value();
            else if (vk == "bool") enc.bool_value(v[1].as_bool());
            else if (vk == "f64") { auto b = bv::bytes_of(v[1]); uint64_t u = 0; for (int i = 0; i < 8; ++i) u = (u << 8) | b[i]; double d; memcpy(&d, &u, 8); enc.double_value(d); }
        }
    }
    enc.flush();
}

static long g_extra_every = 1;
template <class MakeAndPush>
static void one(size_t idx, const mj::Value& c, const char* name, MakeAndPush f) {
    mj::Value t = hz::rec("trace"); t.set("idx", (int64_t)idx); t.set("enc", name); t.set("ev", c["ev"]); t.set("v", c["v"]); t.set("right", c["right"]);
    std::vector<uint8_t> out; bool ok = true; std::string err;
    try { f(out); } catch (const ser_error& e) { ok = false; err = e.code().message(); } catch (const json_exception& e) { ok = false; err = e.what(); }
    t.set("out", ok ? "ok" : "err"); t.set("err", err); t.set("bytes", bv::raw(out.data(), out.size()));
    hz::emit(t);
}

int main(int argc, char** argv) {
    auto args = hz::parse_args(argc, argv);
    std::string only = args.opt("--encoder", ""); g_extra_every = std::stol(args.opt("--extra-every", "1"));
    long ncases = 0;
    hz::for_each_case(args, [&](size_t idx, const std::string& line) {
        mj::Value c = mj::parse(line); ++ncases;
        if (c.has("b")) {      // a C07 case: bytes of some format; decode and transcode to JSON text and to CBOR
            if (!c["ok"].as_bool()) return;
            std::vector<uint8_t> in = bv::bytes_of(c["b"]); const std::string& f = c["f"].str();
            json j; bool dec = true;
            try { if (f == "cbor") j = cbor::decode_cbor<json>(in); else if (f == "msgpack") j = msgpack::decode_msgpack<json>(in); else if (f == "ubjson") j = ubjson::decode_ubjson<json>(in); else j = bson::decode_bson<json>(in); }
            catch (const std::exception&) { dec = false; }
            if (!dec) return;
            for (int pretty = 0; pretty < 2; ++pretty) {
                mj::Value t = hz::rec("trace"); t.set("idx", (int64_t)idx); t.set("enc", "transcode-json"); t.set("src", f); t.set("in", c["b"]);
                if (line.find("hpn_malformed") != std::string::npos) t.set("dev", "ubjson-hpn-malformed-input");   // classification of the input by the C07 spec (known C07 finding), not an oracle
                std::string text; bool ok = true; std::string err;
                try { if (pretty) j.dump_pretty(text); else j.dump(text); } catch (const ser_error& e) { ok = false; err = e.code().message(); } catch (const json_exception& e) { ok = false; err = e.what(); }
                t.set("out", ok ? "ok" : "err"); t.set("err", err); t.set("bytes", bv::raw(text.data(), text.size()));
                hz::emit(t);
            }
            return;
        }
        auto want = [&](const char* n) { return only.empty() || only == n; };
        // encoder reuse: the same sequence pushed once more by the same encoder object after reset(new sink) is judged like any other output
        // (only for sequences whose declared lengths are right: after a refused sequence nothing is promised about the object)
        const bool extra = g_extra_every <= 1 || idx % (size_t)g_extra_every == 0;      // (the thorough tier runs the reuse and layout variants on every k-th sequence)
        const bool reuse = extra && c["right"].as_bool();
        if (reuse && want("cbor")) one(idx, c, "cbor", [&](std::vector<uint8_t>& o) { std::vector<uint8_t> first; cbor::cbor_bytes_encoder e(first); push(e, c["ev"]); e.reset(o); push(e, c["ev"]); });
        if (reuse && want("msgpack")) one(idx, c, "msgpack", [&](std::vector<uint8_t>& o) { std::vector<uint8_t> first; msgpack::msgpack_bytes_encoder e(first); push(e, c["ev"]); e.reset(o); push(e, c["ev"]); });
        if (reuse && want("ubjson")) one(idx, c, "ubjson", [&](std::vector<uint8_t>& o) { std::vector<uint8_t> first; ubjson::ubjson_bytes_encoder e(first); push(e, c["ev"]); e.reset(o); push(e, c["ev"]); });
        if (reuse && want("bson")) one(idx, c, "bson", [&](std::vector<uint8_t>& o) { std::vector<uint8_t> first; bson::bson_bytes_encoder e(first); push(e, c["ev"]); e.reset(o); push(e, c["ev"]); });
        if (reuse && want("json")) one(idx, c, "json", [&](std::vector<uint8_t>& o) { std::string first, s; compact_json_string_encoder e(first); push(e, c["ev"]); e.reset(s); push(e, c["ev"]); o.assign(s.begin(), s.end()); });
        if (reuse && want("jsonpretty")) one(idx, c, "jsonpretty", [&](std::vector<uint8_t>& o) { std::string first, s; json_string_encoder e(first); push(e, c["ev"]); e.reset(s); push(e, c["ev"]); o.assign(s.begin(), s.end()); });
        if (want("cbor")) one(idx, c, "cbor", [&](std::vector<uint8_t>& o) { cbor::cbor_bytes_encoder e(o); push(e, c["ev"]); });
        if (want("msgpack")) one(idx, c, "msgpack", [&](std::vector<uint8_t>& o) { msgpack::msgpack_bytes_encoder e(o); push(e, c["ev"]); });
        if (want("ubjson")) one(idx, c, "ubjson", [&](std::vector<uint8_t>& o) { ubjson::ubjson_bytes_encoder e(o); push(e, c["ev"]); });
        if (want("bson")) one(idx, c, "bson", [&](std::vector<uint8_t>& o) { bson::bson_bytes_encoder e(o); push(e, c["ev"]); });
        if (want("json")) one(idx, c, "json", [&](std::vector<uint8_t>& o) { std::string s; compact_json_string_encoder e(s); push(e, c["ev"]); o.assign(s.begin(), s.end()); });
        if (want("jsonpretty")) one(idx, c, "jsonpretty", [&](std::vector<uint8_t>& o) { std::string s; json_string_encoder e(s); push(e, c["ev"]); o.assign(s.begin(), s.end()); });
        // the pretty encoder under layout options (every spacing of commas and colons x line splits x padding x line length, rotating with the case index):
        // whatever the layout, the text must be RFC 8259 JSON denoting the pushed data (judged like "jsonpretty")
        if (extra && want("jsonpretty")) for (int k = 0; k < 3; ++k) one(idx, c, "jsonpretty", [&](std::vector<uint8_t>& o) {
            size_t h = idx * 3 + (size_t)k; json_options op;
            op.spaces_around_comma((spaces_option)(h % 4)).spaces_around_colon((spaces_option)((h / 4) % 4));
            line_split_kind ls = (line_split_kind)((h / 16) % 3); op.object_array_line_splits(ls).array_array_line_splits((line_split_kind)((h / 48) % 3)).array_object_line_splits(ls).object_object_line_splits((line_split_kind)((h / 144) % 3));
            op.pad_inside_array_brackets((h / 5) % 2 == 0).pad_inside_object_braces((h / 7) % 2 == 0).indent_size((uint8_t)(h % 5)).line_length_limit((h / 11) % 3 == 0 ? 8 : 120);
            std::string s; json_string_encoder e(s, op); push(e, c["ev"]); o.assign(s.begin(), s.end()); });
    });
    mj::Value s = hz::rec("stat"); s.set("cases", (int64_t)ncases); hz::emit(s);
    return 0;
}
