// C01 conformance harness (V binding): value -> dump(opts) -> parse -> dump(opts).
// Records {v, o, flavour, out1 (code units), back (projection of the parsed value), out2}; Trace_C01
// validates: out1 is strict RFC 8259 text whose value is v (integer/double distinction, big numbers
// digit for digit), option post-conditions, back = v, out1 = out2.
#include "harness.hpp"
#include "jconv.hpp"
#include "binval.hpp"
#include <jsoncons/json.hpp>
using namespace jsoncons;

static std::string digits_of(const mj::Value& u) { return jc::units_to_string(u); }
template <class J> static J build(const mj::Value& w) {
    const std::string& k = w[0].str();
    if (k == "null") return J::null();
    if (k == "bool") return J(w[1].as_bool());
    if (k == "int") return J((int64_t)strtoll(digits_of(w[1]).c_str(), nullptr, 10));
    if (k == "uint") return J((uint64_t)strtoull(digits_of(w[1]).c_str(), nullptr, 10));
    if (k == "big") return J(digits_of(w[1]), semantic_tag::bigint);
    if (k == "dbl") { auto b = bv::bytes_of(w[1]); uint64_t u = 0; for (int i = 0; i < 8; ++i) u = (u << 8) | b[i]; double d; memcpy(&d, &u, 8); return J(d); }
    if (k == "str") return J(jc::cps_to_utf8(w[1]));
    if (k == "arr") { J a(json_array_arg); for (auto& e : w[1].a) a.push_back(build<J>(e)); return a; }
    if (k == "obj") { J o(json_object_arg); for (auto& kv : w[1].a) o.insert_or_assign(jc::cps_to_utf8(kv[0]), build<J>(kv[1])); return o; }
    throw std::runtime_error("build " + k);
}
static mj::Value units(const std::string& s) { mj::Value a = mj::Value::array(); for (unsigned char c : s) a.push((int)c); return a; }
template <class J> static mj::Value project(const J& j) {
    mj::Value r = mj::Value::array();
    switch (j.type()) {
        case json_type::null: r.push("null"); break;
        case json_type::boolean: r.push("bool"); r.push(j.template as<bool>()); break;
        case json_type::int64: r.push("int"); r.push(units(std::to_string(j.template as<int64_t>()))); break;
        case json_type::uint64: { uint64_t u = j.template as<uint64_t>(); r.push(u <= (uint64_t)INT64_MAX ? "int" : "uint"); r.push(units(std::to_string(u))); break; }
        case json_type::float16: case json_type::float64: { double d = j.template as<double>(); uint64_t u; memcpy(&u, &d, 8); mj::Value b = mj::Value::array(); for (int i = 7; i >= 0; --i) b.push((int)((u >> (8 * i)) & 0xff)); r.push("dbl"); r.push(b); break; }
        case json_type::string: if (j.tag() == semantic_tag::bigint) { r.push("big"); r.push(units(j.template as<std::string>())); } else if (j.tag() == semantic_tag::bigdec) { r.push("bigdec"); r.push(units(j.template as<std::string>())); } else { r.push("str"); r.push(jc::cps_of(j.template as<std::string>())); } break;
        case json_type::array: { r.push("arr"); mj::Value a = mj::Value::array(); for (auto& e : j.array_range()) a.push(project(e)); r.push(a); break; }
        case json_type::object: { r.push("obj"); mj::Value a = mj::Value::array(); for (auto& kv : j.object_range()) { mj::Value p = mj::Value::array(); p.push(jc::cps_of(std::string(kv.key()))); p.push(project(kv.value())); a.push(p); } r.push(a); break; }
        default: r.push("other"); break;
    }
    return r;
}
static json_options mkopts(const mj::Value& o) {
    auto g = [&](int i) { return (int)o[i - 1].as_int(); };
    static const int indents[] = {0, 1, 4}; static const size_t lens[] = {120, 1, 8, 40};
    json_options op;
    op.indent_size((uint8_t)indents[g(2)]).indent_char(g(3) ? '\t' : ' ').spaces_around_colon((spaces_option)g(4)).spaces_around_comma((spaces_option)g(5))
      .pad_inside_object_braces(g(6) != 0).pad_inside_array_brackets(g(7) != 0)
      .root_line_splits((line_split_kind)g(8)).object_object_line_splits((line_split_kind)g(9)).object_array_line_splits((line_split_kind)g(10))
      .array_array_line_splits((line_split_kind)g(11)).array_object_line_splits((line_split_kind)g(12))
      .new_line_chars(g(14) ? "\r\n" : "\n").escape_all_non_ascii(g(15) != 0).escape_solidus(g(16) != 0);
    if (g(13)) op.line_length_limit(lens[g(13)]);
    return op;
}
template <class J> static void one(size_t idx, const mj::Value& c, const char* flavour) {
    mj::Value t = hz::rec("trace"); t.set("idx", (int64_t)idx); t.set("flavour", flavour); t.set("v", c["v"]); t.set("o", c["o"]);
    bool pretty = c["o"][0].as_int() != 0; json_options op = mkopts(c["o"]);
    std::string out1, out2, err; bool ok = true; mj::Value back = mj::Value::array(); back.push("none");
    try {
        J v = build<J>(c["v"]);
        if (pretty) v.dump_pretty(out1, op); else v.dump(out1, op);
        J p = J::parse(out1);
        back = project(p);
        if (pretty) p.dump_pretty(out2, op); else p.dump(out2, op);
    } catch (const std::exception& e) { ok = false; err = e.what(); }
    t.set("ok", ok); t.set("err", err); t.set("out1", units(out1)); t.set("back", back); t.set("same", out1 == out2);
    if (!(out1 == out2)) t.set("out2", units(out2));
    hz::emit(t);
}
// ---- wchar_t instantiation: one wchar_t per code point; the produced wide text is recorded as its UTF-8 encoding, so that the
// same trace specification lexes it
static std::wstring widen(const std::string& u8) { std::wstring w; mj::Value cps = jc::cps_of(u8); for (auto& x : cps.a) w.push_back((wchar_t)x.as_int()); return w; }
static std::string narrow(const std::wstring& w) { mj::Value a = mj::Value::array(); for (wchar_t c : w) a.push((int64_t)(uint32_t)c); return jc::cps_to_utf8(a); }
template <class J> static J wbuild(const mj::Value& w) {
    const std::string& k = w[0].str();
    if (k == "null") return J::null();
    if (k == "bool") return J(w[1].as_bool());
    if (k == "int") return J((int64_t)strtoll(digits_of(w[1]).c_str(), nullptr, 10));
    if (k == "uint") return J((uint64_t)strtoull(digits_of(w[1]).c_str(), nullptr, 10));
    if (k == "big") return J(widen(digits_of(w[1])), semantic_tag::bigint);
    if (k == "dbl") { auto b = bv::bytes_of(w[1]); uint64_t u = 0; for (int i = 0; i < 8; ++i) u = (u << 8) | b[i]; double d; memcpy(&d, &u, 8); return J(d); }
    if (k == "str") return J(widen(jc::cps_to_utf8(w[1])));
    if (k == "arr") { J a(json_array_arg); for (auto& e : w[1].a) a.push_back(wbuild<J>(e)); return a; }
    if (k == "obj") { J o(json_object_arg); for (auto& kv : w[1].a) o.insert_or_assign(widen(jc::cps_to_utf8(kv[0])), wbuild<J>(kv[1])); return o; }
    throw std::runtime_error("wbuild " + k);
}
template <class J> static mj::Value wproject(const J& j) {
    mj::Value r = mj::Value::array();
    switch (j.type()) {
        case json_type::null: r.push("null"); break;
        case json_type::boolean: r.push("bool"); r.push(j.template as<bool>()); break;
        case json_type::int64: r.push("int"); r.push(units(std::to_string(j.template as<int64_t>()))); break;
        case json_type::uint64: { uint64_t u = j.template as<uint64_t>(); r.push(u <= (uint64_t)INT64_MAX ? "int" : "uint"); r.push(units(std::to_string(u))); break; }
        case json_type::float16: case json_type::float64: { double d = j.template as<double>(); uint64_t u; memcpy(&u, &d, 8); mj::Value b = mj::Value::array(); for (int i = 7; i >= 0; --i) b.push((int)((u >> (8 * i)) & 0xff)); r.push("dbl"); r.push(b); break; }
        case json_type::string: { std::string s8 = narrow(j.template as<std::wstring>());
            if (j.tag() == semantic_tag::bigint) { r.push("big"); r.push(units(s8)); } else if (j.tag() == semantic_tag::bigdec) { r.push("bigdec"); r.push(units(s8)); } else { r.push("str"); r.push(jc::cps_of(s8)); } break; }
        case json_type::array: { r.push("arr"); mj::Value a = mj::Value::array(); for (const auto& e : j.array_range()) a.push(wproject(e)); r.push(a); break; }
        case json_type::object: { r.push("obj"); mj::Value a = mj::Value::array(); for (const auto& kv : j.object_range()) { mj::Value p = mj::Value::array(); p.push(jc::cps_of(narrow(std::wstring(kv.key())))); p.push(wproject(kv.value())); a.push(p); } r.push(a); break; }
        default: r.push("other"); break;
    }
    return r;
}
static basic_json_options<wchar_t> wmkopts(const mj::Value& o) {
    auto g = [&](int i) { return (int)o[i - 1].as_int(); };
    static const int indents[] = {0, 1, 4}; static const size_t lens[] = {120, 1, 8, 40};
    basic_json_options<wchar_t> op;
    op.indent_size((uint8_t)indents[g(2)]).indent_char(g(3) ? L'\t' : L' ').spaces_around_colon((spaces_option)g(4)).spaces_around_comma((spaces_option)g(5))
      .pad_inside_object_braces(g(6) != 0).pad_inside_array_brackets(g(7) != 0)
      .root_line_splits((line_split_kind)g(8)).object_object_line_splits((line_split_kind)g(9)).object_array_line_splits((line_split_kind)g(10))
      .array_array_line_splits((line_split_kind)g(11)).array_object_line_splits((line_split_kind)g(12))
      .new_line_chars(g(14) ? L"\r\n" : L"\n").escape_all_non_ascii(g(15) != 0).escape_solidus(g(16) != 0);
    if (g(13)) op.line_length_limit(lens[g(13)]);
    return op;
}
template <class J> static void wone(size_t idx, const mj::Value& c, const char* flavour) {
    mj::Value t = hz::rec("trace"); t.set("idx", (int64_t)idx); t.set("flavour", flavour); t.set("v", c["v"]); t.set("o", c["o"]);
    bool pretty = c["o"][0].as_int() != 0; auto op = wmkopts(c["o"]);
    std::wstring out1, out2; std::string err; bool ok = true; mj::Value back = mj::Value::array(); back.push("none");
    try {
        J v = wbuild<J>(c["v"]);
        if (pretty) v.dump_pretty(out1, op); else v.dump(out1, op);
        J p = J::parse(out1);
        back = wproject(p);
        if (pretty) p.dump_pretty(out2, op); else p.dump(out2, op);
    } catch (const std::exception& e) { ok = false; err = e.what(); }
    t.set("ok", ok); t.set("err", err); t.set("out1", units(narrow(out1))); t.set("back", back); t.set("same", out1 == out2);
    if (!(out1 == out2)) t.set("out2", units(narrow(out2)));
    hz::emit(t);
}
int main(int argc, char** argv) {
    auto args = hz::parse_args(argc, argv);
    long ncases = 0;
    hz::for_each_case(args, [&](size_t idx, const std::string& line) {
        mj::Value c = mj::parse(line); ++ncases;
        one<json>(idx, c, "json"); one<ojson>(idx, c, "ojson");
        wone<wjson>(idx, c, "wjson"); wone<wojson>(idx, c, "wojson");
    });
    mj::Value s = hz::rec("stat"); s.set("cases", (int64_t)ncases); hz::emit(s);
    return 0;
}
