// C15 conformance harness: RFC 6902 apply_patch (G: predicted outcome/document, atomicity)
// and from_diff (V: recorded diff validated by Trace_C15; library round trip compared here).
#include "harness.hpp"
#include "jconv.hpp"
#include <jsoncons/json.hpp>
#include <jsoncons_ext/jsonpatch/jsonpatch.hpp>
using namespace jsoncons;
static long nchecks = 0;

static void fail(size_t idx, const mj::Value& c, const char* flavour, const std::string& what, const mj::Value& got) {
    mj::Value m = hz::rec("mismatch"); m.set("idx", (int64_t)idx); m.set("flavour", flavour); m.set("what", what); m.set("got", got); m.set("case", c); hz::emit_mismatch(m);
}

template <class Json>
static void patch_case(size_t idx, const mj::Value& c, const char* flavour) {
    Json target = jc::build_doc<Json>(c["d"]); Json patch = jc::build_doc<Json>(c["patch"]);
    std::error_code ec; ++nchecks;
    bool raised = false;      // (an exception from the error_code overload is an error reported, too: which channel is C05's business)
    try { jsonpatch::apply_patch(target, patch, ec); } catch (const std::exception&) { raised = true; }
    bool ok = !ec && !raised, expect = c["ok"].as_bool();
    if (ok != expect) fail(idx, c, flavour, expect ? "patch-rejected" : "patch-accepted", mj::Value(ok ? "ok" : ec.message()));
    if (ok && expect && !jc::doc_equals(target, c["r"])) fail(idx, c, flavour, "result-document", jc::doc_wire(target));
    if (!ok && !jc::doc_equals(target, c["d"])) fail(idx, c, flavour, "not-atomic", jc::doc_wire(target));
    // throwing overload must agree
    Json t2 = jc::build_doc<Json>(c["d"]); bool threw = false;
    try { jsonpatch::apply_patch(t2, patch); } catch (const jsonpatch::jsonpatch_error&) { threw = true; } catch (const std::exception&) { threw = true; }
    if (threw == ok) fail(idx, c, flavour, "throwing-overload-disagrees", mj::Value(threw));
    if (threw && !jc::doc_equals(t2, c["d"])) fail(idx, c, flavour, "not-atomic-throwing", jc::doc_wire(t2));
}

template <class Json>
static void diff_case(size_t idx, const mj::Value& c, const char* flavour, bool trace) {
    Json a = jc::build_doc<Json>(c["a"]); Json b = jc::build_doc<Json>(c["b"]); ++nchecks;
    Json d = jsonpatch::from_diff(a, b);
    Json a2 = a; std::error_code ec; jsonpatch::apply_patch(a2, d, ec);
    if (ec) fail(idx, c, flavour, "from_diff-does-not-apply", jc::doc_wire(d));
    else if (!jc::doc_equals(a2, c["b"])) fail(idx, c, flavour, "from_diff-roundtrip", jc::doc_wire(a2));
    if (trace) { mj::Value tr = hz::rec("trace"); tr.set("idx", (int64_t)idx); tr.set("a", jc::canon_doc(c["a"])); tr.set("d", jc::doc_wire(d, true)); tr.set("b", jc::canon_doc(c["b"])); hz::emit(tr); }
}

int main(int argc, char** argv) {
    auto args = hz::parse_args(argc, argv);
    long ncases = 0;
    hz::for_each_case(args, [&](size_t idx, const std::string& line) {
        mj::Value c = mj::parse(line); ++ncases;
        if (c.has("patch")) { patch_case<json>(idx, c, "json"); patch_case<ojson>(idx, c, "ojson");
                              jc::parsed_mode() = true; patch_case<json>(idx, c, "json-parsed"); patch_case<ojson>(idx, c, "ojson-parsed"); jc::parsed_mode() = false; }   // documents as the parser builds them
        else { diff_case<json>(idx, c, "json", true); diff_case<ojson>(idx, c, "ojson", false);
               jc::parsed_mode() = true; diff_case<json>(idx, c, "json-parsed", false); diff_case<ojson>(idx, c, "ojson-parsed", false); jc::parsed_mode() = false; }
    });
    mj::Value s = hz::rec("stat"); s.set("cases", (int64_t)ncases); s.set("checks", (int64_t)nchecks); hz::emit(s);
    return 0;
}
