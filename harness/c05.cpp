// C05 conformance harness, built with clang -fsanitize=address,undefined (-fno-sanitize-recover):
// feeds the inputs of the other generators (and truncations / character substitutions of expression strings)
// to every decoder / compiler / encoder entry point and records the OUTCOME of each call:
// Return | ErrorCode | JsonException | ForeignException(type) | AssertionError.  Fatal signals and sanitizer
// reports abort the shard; the SIGABRT handler names the case in flight and the driver resumes after it.
#include "harness.hpp"
#include "jconv.hpp"
#include "binval.hpp"
#include <jsoncons/json.hpp>
#include <jsoncons_ext/cbor/cbor.hpp>
#include <jsoncons_ext/msgpack/msgpack.hpp>
#include <jsoncons_ext/ubjson/ubjson.hpp>
#include <jsoncons_ext/bson/bson.hpp>
#include <jsoncons_ext/csv/csv.hpp>
#include <jsoncons_ext/toon/toon.hpp>
#include <jsoncons_ext/toon/decode_toon.hpp>
#include <jsoncons_ext/toon/encode_toon.hpp>
#include <jsoncons_ext/jsonpath/jsonpath.hpp>
#include <jsoncons_ext/jmespath/jmespath.hpp>
#include <jsoncons_ext/jsonpointer/jsonpointer.hpp>
#include <jsoncons_ext/jsonpatch/jsonpatch.hpp>
#include <jsoncons_ext/mergepatch/mergepatch.hpp>
#include <jsoncons_ext/jsonschema/jsonschema.hpp>
#include <jsoncons/utility/uri.hpp>
#include <cxxabi.h>
#include <sstream>
using namespace jsoncons;

static long g_calls = 0, g_sampled = 0; static long g_by[5] = {0, 0, 0, 0, 0};
static size_t g_idx = 0; static const mj::Value* g_case = nullptr; static std::string g_variant;   // the truncation / substitution of the expression in flight
static void record(const char* ep, const char* out, const std::string& detail) {
    bool bad = !(strcmp(out, "Return") == 0 || strcmp(out, "ErrorCode") == 0 || strcmp(out, "JsonException") == 0);
    if (bad || g_sampled < 40) {
        mj::Value t = hz::rec(bad ? "mismatch" : "trace"); t.set("idx", (int64_t)g_idx); t.set("ep", ep); t.set("out", out); t.set("detail", detail);
        if (bad) { t.set("what", out); t.set("x", g_variant); t.set("case", *g_case); hz::emit_mismatch(t); } else { hz::emit(t); ++g_sampled; }
    }
}
template <class F> static void call(const char* ep, F f) {
    ++g_calls;
    try { bool ec = f(); ++g_by[ec ? 1 : 0]; record(ep, ec ? "ErrorCode" : "Return", ""); }
    catch (const assertion_error& e) { ++g_by[3]; record(ep, "AssertionError", e.what()); }
    catch (const json_exception& e) { ++g_by[2]; record(ep, "JsonException", ""); }
    catch (const std::exception& e) { ++g_by[4]; int st = 0; char* n = abi::__cxa_demangle(typeid(e).name(), nullptr, nullptr, &st); std::string tn = n ? n : typeid(e).name(); free(n); record(ep, "ForeignException", tn + ": " + e.what()); }
    catch (...) { ++g_by[4]; record(ep, "ForeignException", "unknown"); }
}

static void text_inputs(const std::string& s) {
    for (int oc = 0; oc < 2; ++oc) { json_options o; o.allow_comments(oc).allow_trailing_comma(!oc).max_nesting_depth(oc ? 1024 : 3);
        call("json::parse", [&] { json j = json::parse(s, o); std::string d; j.dump(d); j.dump_pretty(d); return false; });
        call("json_reader(ec)", [&] { json_decoder<json> dec; std::error_code ec; json_string_reader r(s, dec, o); r.read(ec); return (bool)ec; });
        call("json_cursor(ec)", [&] { std::error_code ec; json_string_cursor c(s, o, ec); while (!ec && !c.done()) c.next(ec); return (bool)ec; });
    }
    call("ojson::parse(stream)", [&] { std::istringstream is(s); ojson j = ojson::parse(is); return false; });
    call("csv::decode_csv n_rows", [&] { auto j = csv::decode_csv<json>(s, csv::csv_options{}.mapping_kind(csv::csv_mapping_kind::n_rows)); return false; });
    call("csv::decode_csv n_objects", [&] { auto j = csv::decode_csv<json>(s, csv::csv_options{}.assume_header(true).mapping_kind(csv::csv_mapping_kind::n_objects).infer_types(true)); return false; });
    call("csv::decode_csv m_columns", [&] { auto j = csv::decode_csv<ojson>(s, csv::csv_options{}.assume_header(true).mapping_kind(csv::csv_mapping_kind::m_columns).quote_char('\'').field_delimiter(';')); return false; });
    call("toon::decode_toon", [&] { auto j = jsoncons::toon::decode_toon<json>(s); std::string t; jsoncons::toon::encode_toon(j, t); return false; });
    call("uri::parse", [&] { std::error_code ec; auto u = uri::parse(s, ec); if (!ec) { std::string x = u.string(); auto r = uri("http://a/b/c/d;p?q").resolve(u); (void)r; } return (bool)ec; });
}
// CSV texts under the option combinations that change the shape of what the parser builds: mapping kind x subfield delimiter (space and ';')
// x ignore_empty_values x trim, with and without a header
static void csv_inputs(const std::string& s) {
    static const csv::csv_mapping_kind kinds[] = {csv::csv_mapping_kind::n_rows, csv::csv_mapping_kind::n_objects, csv::csv_mapping_kind::m_columns};
    static const char* names[] = {"n_rows", "n_objects", "m_columns"};
    for (int mk = 0; mk < 3; ++mk) for (int sub = 0; sub < 2; ++sub) for (int ig = 0; ig < 2; ++ig) {
        std::string ep = std::string("csv::decode_csv ") + names[mk] + (sub ? " subfield(;)" : " subfield(space)") + (ig ? " ignore_empty_values" : "");
        call(ep.c_str(), [&] { auto o = csv::csv_options{}.assume_header(mk != 0).mapping_kind(kinds[mk]).subfield_delimiter(sub ? ';' : ' ').ignore_empty_values(ig != 0).infer_types(true);
                               auto j = csv::decode_csv<json>(s, o); return false; });
    }
    call("csv::decode_csv trim+types", [&] { auto o = csv::csv_options{}.assume_header(true).trim(true).column_types("integer,string,float*").column_defaults("0,x").ignore_empty_lines(false).comment_starter('#').max_lines(3);
                                              auto j = csv::decode_csv<ojson>(s, o); return false; });
    call("csv cursor", [&] { std::error_code ec; csv::csv_string_cursor cur(s, csv::csv_options{}.assume_header(true).subfield_delimiter(';'), ec); while (!ec && !cur.done()) cur.next(ec); return (bool)ec; });
}
static void binary_inputs(const std::string& f, const std::vector<uint8_t>& b) {
    std::string s((const char*)b.data(), b.size());
    auto dec = [&](auto tag) -> json { (void)tag; if (f == "cbor") return cbor::decode_cbor<json>(b); if (f == "msgpack") return msgpack::decode_msgpack<json>(b); if (f == "ubjson") return ubjson::decode_ubjson<json>(b); return bson::decode_bson<json>(b); };
    call("decode_X(bytes)+reencode", [&] { json j = dec(0); std::string t; j.dump(t); j.dump_pretty(t); std::vector<uint8_t> o; cbor::encode_cbor(j, o); o.clear(); msgpack::encode_msgpack(j, o); o.clear(); ubjson::encode_ubjson(j, o); return false; });
    call("decode_X(stream)", [&] { std::istringstream is(s); if (f == "cbor") cbor::decode_cbor<ojson>(is); else if (f == "msgpack") msgpack::decode_msgpack<ojson>(is); else if (f == "ubjson") ubjson::decode_ubjson<ojson>(is); else bson::decode_bson<ojson>(is); return false; });
    call("X_cursor(ec)", [&] { std::error_code ec;
        if (f == "cbor") { cbor::cbor_bytes_cursor c(b, ec); while (!ec && !c.done()) c.next(ec); } else if (f == "msgpack") { msgpack::msgpack_bytes_cursor c(b, ec); while (!ec && !c.done()) c.next(ec); }
        else if (f == "ubjson") { ubjson::ubjson_bytes_cursor c(b, ec); while (!ec && !c.done()) c.next(ec); } else { bson::bson_bytes_cursor c(b, ec); while (!ec && !c.done()) c.next(ec); }
        return (bool)ec; });
    call("decode_X<vector<double>>", [&] { if (f == "cbor") cbor::decode_cbor<std::vector<double>>(b); else if (f == "msgpack") msgpack::decode_msgpack<std::vector<double>>(b); else if (f == "ubjson") ubjson::decode_ubjson<std::vector<double>>(b); return false; });
    if (f == "bson") call("encode_bson(decoded)", [&] { json j = bson::decode_bson<json>(b); std::vector<uint8_t> o; bson::encode_bson(j, o); return false; });
}
static const json& sample_doc() { static const json d = json::parse(R"({"a":[1,2,{"b":"x","c":[true,null,1.5]}],"b":{"a":{"b":[0,"1"]}},"s":"str","n":null,"":0,"a/b":1,"m~n":2})"); return d; }
static int g_lite = 0;
static std::vector<std::string> variants(const std::string& e) {
    std::vector<std::string> v{e}; static const char subs[] = "[](){}'\"\\*?@.,:|&!<>=0- `$^~/\xc3";
    for (size_t i = 0; i < e.size() && i < 24; ++i) { v.push_back(e.substr(0, i)); for (size_t k = (g_lite ? i % 5 : 0); k < sizeof subs - 1; k += (g_lite ? 5 : 1 + (i % 3))) { std::string m = e; m[i] = subs[k]; v.push_back(m); } }
    // every maximal digit run replaced by numerals at and beyond the 64-bit boundaries (slice bounds and steps, indices, literals)
    static const char* big[] = {"9223372036854775807", "9223372036854775808", "18446744073709551616", "99999999999999999999999"};
    for (size_t i = 0; i < e.size(); ++i) if (e[i] >= '0' && e[i] <= '9' && (i == 0 || !(e[i - 1] >= '0' && e[i - 1] <= '9'))) {
        size_t k = i; while (k < e.size() && e[k] >= '0' && e[k] <= '9') ++k;
        for (const char* b : big) { v.push_back(e.substr(0, i) + b + e.substr(k)); if (i == 0 || e[i - 1] != '-') v.push_back(e.substr(0, i) + "-" + b + e.substr(k)); }
    }
    return v;
}
static void expr_inputs(const std::string& kind, const std::string& e) {
    for (const std::string& x : variants(e)) {
        g_variant = x;
        if (kind == "jmespath") { call("jmespath::search(ec)", [&] { std::error_code ec; auto r = jmespath::search(sample_doc(), x, ec); return (bool)ec; });
                                  call("jmespath::make_expression", [&] { auto ex = jmespath::make_expression<json>(x); auto r = ex.evaluate(sample_doc()); return false; }); }
        else if (kind == "jsonpath") { call("jsonpath::json_query", [&] { auto r = jsonpath::json_query(sample_doc(), x, jsonpath::result_options::path | jsonpath::result_options::nodups); auto r2 = jsonpath::json_query(sample_doc(), x); return false; });
                                       call("jsonpath::make_expression(ec)", [&] { std::error_code ec; auto ex = jsonpath::make_expression<json>(x, ec); if (!ec) { auto r = ex.evaluate(sample_doc()); } return (bool)ec; });
                                       call("jsonpath::json_replace", [&] { json d = sample_doc(); jsonpath::json_replace(d, x, 7); return false; }); }
        else { call("json_pointer::parse(ec)", [&] { std::error_code ec; auto p = jsonpointer::json_pointer::parse(x, ec); if (!ec) { std::string s = p.to_string(); } return (bool)ec; });
               call("jsonpointer ops(ec)", [&] { json d = sample_doc(); std::error_code ec; jsonpointer::get(d, x, ec); std::error_code e2; jsonpointer::add(d, x, json(1), true, e2); std::error_code e3; jsonpointer::remove(d, x, e3); std::error_code e4; jsonpointer::replace(d, x, json(2), e4); return (bool)ec; });
               call("jsonpointer::get (throwing)", [&] { const json& r = jsonpointer::get(sample_doc(), x); (void)r; return false; }); }
    }
    g_variant.clear();
}
static void schema_inputs(const mj::Value& w) {
    json schema = jc::build_doc<json>(w);
    call("jsonschema::make_json_schema+validate", [&] { auto c = jsonschema::make_json_schema(schema); bool v = c.is_valid(sample_doc()); (void)v; return false; });
    // one keyword value replaced by each JSON type
    if (schema.is_object()) for (const auto& kv : schema.object_range()) for (const char* repl : {"null", "true", "-1", "\"x\"", "[]", "{}", "[1,\"a\"]", "1.5"}) {
        json m = schema; m[kv.key()] = json::parse(repl);
        call("jsonschema::make_json_schema(mutated)", [&] { auto c = jsonschema::make_json_schema(m); bool v = c.is_valid(sample_doc()); (void)v; return false; });
    }
}
static void patch_inputs(const mj::Value& d, const mj::Value& p) {
    call("jsonpatch::apply_patch(ec)", [&] { json doc = jc::build_doc<json>(d); json patch = jc::build_doc<json>(p); std::error_code ec; jsonpatch::apply_patch(doc, patch, ec); return (bool)ec; });
    call("jsonpatch::apply_patch(malformed)", [&] { json doc = jc::build_doc<json>(d); json patch = jc::build_doc<json>(p); if (patch.is_array() && patch.size() > 0) { patch[0] = json(5); patch.push_back(json::parse("{\"op\":7,\"path\":\"/a\"}")); patch.push_back(json::parse("{\"op\":\"add\",\"path\":1,\"value\":1}")); } std::error_code ec; jsonpatch::apply_patch(doc, patch, ec); return (bool)ec; });
}

// an output stream that gives up after 64 MiB: an encoder that is still writing then does not terminate
struct OutputLimit : std::exception { const char* what() const noexcept override { return "output exceeds 64 MiB: the encoder does not terminate"; } };
struct LimitBuf : std::streambuf {
    std::size_t n = 0; char buf[4096];
    LimitBuf() { setp(buf, buf + sizeof buf); }
    int_type overflow(int_type c) override { n += (std::size_t)(pptr() - pbase()); setp(buf, buf + sizeof buf); if (n > (64u << 20)) throw OutputLimit(); if (c != traits_type::eof()) { *pptr() = (char)c; pbump(1); } return 0; }
    std::streamsize xsputn(const char* s, std::streamsize k) override { n += (std::size_t)k; if (n > (64u << 20)) throw OutputLimit(); return k; }
};
// ---- encoder side: (value, option set) through every text / binary encoder
static json_options enc_options(const mj::Value& o) {
    json_options r; auto I = [&](const char* k) { return (long)o[k].as_int(); };
    r.float_format((float_chars_format)I("ff")); r.precision((int8_t)I("prec"));
    r.bignum_format((bignum_format_kind)I("bignum")); if (I("bsf")) r.byte_string_format((byte_string_chars_format)I("bsf"));
    switch (I("nan")) { case 1: r.nan_to_num("0").inf_to_num("1e9999").neginf_to_num("-1e9999"); break; case 2: r.nan_to_num("").inf_to_num("Infinity").neginf_to_num("\"x"); break;
                        case 3: r.nan_to_str("NaN").inf_to_str("Inf").neginf_to_str("-Inf"); break; case 4: r.nan_to_num("null").nan_to_str("NaN").inf_to_str("").neginf_to_num("-0"); break; default: break; }
    r.escape_all_non_ascii(I("eana") != 0).escape_solidus(I("esol") != 0).indent_size((uint8_t)I("indent")).indent_char((char)I("ichar"));
    r.spaces_around_colon((spaces_option)I("sac")).spaces_around_comma((spaces_option)I("scm")).pad_inside_object_braces(I("pob") != 0).pad_inside_array_brackets(I("pab") != 0);
    r.object_object_line_splits((line_split_kind)I("oo")).array_object_line_splits((line_split_kind)I("ao")).object_array_line_splits((line_split_kind)I("oa")).array_array_line_splits((line_split_kind)I("aa")).root_line_splits((line_split_kind)I("root"));
    r.line_length_limit((std::size_t)I("lll")); { static const char* nls[] = {"\n", "\r\n", "", "<br>"}; r.new_line_chars(nls[I("nl")]); }
    r.max_nesting_depth((int)I("depth"));
    return r;
}
static void enc_inputs(const mj::Value& v, const mj::Value& o) {
    json j; ojson oj;
    if (v[0].str() == "tagstr" || v[0].str() == "tagmap") {      // a string with the semantic tag whose enumerator is v[1], bare or as the value of the member "k"
        semantic_tag tg = (semantic_tag)v[1].as_int(); json t(v[2].str(), tg); ojson ot(v[2].str(), tg);
        if (v[0].str() == "tagmap") { j = json(json_object_arg); j.try_emplace("k", t); oj = ojson(json_object_arg); oj.try_emplace("k", ot); } else { j = t; oj = ot; }
    } else {
        j = v[0].str() == "big" ? json(v[2].str(), v[1].str() == "bigint" ? semantic_tag::bigint : semantic_tag::bigdec) : bv::build<json>(v);
        oj = v[0].str() == "big" ? ojson(v[2].str(), v[1].str() == "bigint" ? semantic_tag::bigint : semantic_tag::bigdec) : bv::build<ojson>(v);
    }
    json_options opt = enc_options(o);
    call("json::dump(options)", [&] { std::string s; j.dump(s, opt); return false; });
    call("json::dump_pretty(options)", [&] { std::string s; j.dump_pretty(s, opt); return false; });
    call("json::dump(options, ec)", [&] { std::string s; std::error_code ec; j.dump(s, opt, ec); std::string t; std::error_code e2; oj.dump_pretty(t, opt, e2); return (bool)ec || (bool)e2; });
    call("ostream << pretty_print(options)", [&] { std::ostringstream os; os << pretty_print(oj, opt); std::ostringstream os2; os2 << print(j, opt); return false; });
    call("json_stream_encoder(options)", [&] { std::ostringstream os; json_stream_encoder e(os, opt); j.dump(e); return false; });
    call("encode_json(options, indent)", [&] { std::string s; encode_json(j, s, opt, indenting::indent); std::string t; encode_json(oj, t, opt, indenting::no_indent); return false; });
    call("encode_cbor(options)", [&] { std::vector<uint8_t> b; cbor::encode_cbor(j, b, cbor::cbor_options{}.pack_strings(o["eana"].as_int() != 0).max_nesting_depth((int)o["depth"].as_int())); return false; });
    call("encode_msgpack(options)", [&] { std::vector<uint8_t> b; msgpack::encode_msgpack(j, b, msgpack::msgpack_options{}.max_nesting_depth((int)o["depth"].as_int())); return false; });
    call("encode_ubjson(options)", [&] { std::vector<uint8_t> b; ubjson::encode_ubjson(j, b, ubjson::ubjson_options{}.max_nesting_depth((int)o["depth"].as_int())); return false; });
    call("encode_bson(options)", [&] { std::vector<uint8_t> b; bson::encode_bson(j, b, bson::bson_options{}.max_nesting_depth((int)o["depth"].as_int())); return false; });
    call("encode_csv(options)", [&] { std::string s; csv::csv_options co; co.float_format((float_chars_format)o["ff"].as_int()).precision((int8_t)o["prec"].as_int()).quote_style((csv::quote_style_kind)(o["sac"].as_int() % 4));
                                       if (o["ichar"].as_int() == 9) co.field_delimiter('\t'); csv::encode_csv(j, s, co); return false; });
    for (int cn = 0; cn < 3; ++cn) call(cn == 0 ? "encode_csv(column_names)" : cn == 1 ? "encode_csv(column_mapping)" : "encode_csv(m_columns options)", [&] {
        LimitBuf lb; std::ostream os(&lb); os.exceptions(std::ios::badbit); csv::csv_options co;
        if (cn == 0) co.column_names("x,y"); else if (cn == 1) co.column_names("a,zz").column_types("integer,string").column_defaults("0,none"); else co.header_lines(2).column_names("k").quote_style(csv::quote_style_kind::all).line_delimiter("\r\n");
        csv::encode_csv(oj, os, co); os.flush(); return false; });
    call("encode_toon(options)", [&] { std::string s; jsoncons::toon::encode_toon(j, s, jsoncons::toon::toon_options{}.indent((int)o["indent"].as_int() % 9)); return false; });
}

int main(int argc, char** argv) {
    auto args = hz::parse_args(argc, argv);
    size_t start = std::stoul(args.opt("--start", "0")); g_lite = args.flag("--lite") ? 1 : 0;
    long ncases = 0;
    hz::for_each_case(args, [&](size_t idx, const std::string& line) {
        if (idx < start) return;
        mj::Value c = mj::parse(line); ++ncases; g_idx = idx; g_case = &c;
        if (c.has("t") && c["t"].is_arr() && (c["t"].size() == 0 || c["t"][0].is_int())) text_inputs(jc::units_to_string(c["t"]));
        else if (c.has("csv")) { std::string t = jc::units_to_string(c["csv"]); csv_inputs(t); for (char& ch : t) if (ch == 'a') ch = ';'; csv_inputs(t); }   // (the same text with every 'a' turned into ';')
        else if (c.has("f") && c.has("b")) binary_inputs(c["f"].str(), bv::bytes_of(c["b"]));
        else if (c.has("e") && c["e"].is_arr()) expr_inputs("jmespath", jc::units_to_string(c["e"]));
        else if (c.has("ex")) { for (auto& x : c["ex"].a) expr_inputs("jsonpath", jc::units_to_string(x)); }
        else if (c.has("k") && c["k"].is_str() && c["k"].str() == "str") expr_inputs("pointer", jc::cps_to_utf8(c["s"]));
        else if (c.has("k") && c["k"].is_str() && c["k"].str() == "c" && c.has("s")) schema_inputs(c["s"]);
        else if (c.has("patch")) patch_inputs(c["d"], c["patch"]);
        else if (c.has("k") && c["k"].is_str() && c["k"].str() == "enc") enc_inputs(c["v"], c["o"]);
    });
    mj::Value s = hz::rec("stat"); s.set("cases", (int64_t)ncases); s.set("calls", g_calls); s.set("returned", g_by[0]); s.set("error_codes", g_by[1]); s.set("json_exceptions", g_by[2]); s.set("assertion_errors", g_by[3]); s.set("foreign_exceptions", g_by[4]);
    hz::emit(s);
    return 0;
}
