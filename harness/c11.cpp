// C11 conformance harness (G binding): JSON Schema validation verdicts against the verdicts predicted by
// spec/JsonSchema.tla.
//
// case   {"k":"c","d":"d4|d6|d7|d2019|d2020","s":<wire schema>,"dev":[..],"dc":[..],
//         "r":[verdict per base instance],"x":[[<wire instance>,verdict],...]}
//        verdict 1 = valid, 0 = invalid, 2 = don't-care (the evaluation would not terminate: never run),
//        3 = don't-care (multipleOf on numbers that binary floating point cannot represent exactly: run, the
//        verdict is not compared with the prediction, only the agreement of the entry points with one another is)
//        numbers: ["int", n] -> int64, ["dec", m, e] -> the double nearest to m * 10^e (jc::dec_value)
//        "dc" non-empty: declared don't-care class - the verdict is not compared with the prediction, only the
//        agreement of the entry points with one another is.
//        "dev": known-deviation classes of the implementation the schema falls into (echoed into mismatch records).
// base instances  --base FILE: ndjson with one record {"k":"base","v":[<wire instance>,...]}
//
// Entry points exercised per (schema, instance): make_json_schema (dialect through evaluation_options::default_version
// and through a "$schema" member), json_schema::is_valid, validate with a collecting reporter, the default (throwing)
// validate, validate into a json_visitor, validate with a reporter that stops at the first error, walk (both reporter
// signatures); the same compiled schema is used for every instance and three times per instance; schema and instance
// are also presented as ojson with their member order reversed (consistently, and alternating so that equal
// objects differ in member order) and under evaluation options that cannot change a verdict by definition.
// Observable compared: valid / invalid.  No oracle logic here beyond equality with the prediction.
#include "harness.hpp"
#include "jconv.hpp"
#include <jsoncons/json.hpp>
#include <jsoncons_ext/jsonschema/jsonschema.hpp>
#include <map>
#include <set>
#include <memory>
using namespace jsoncons;

static long nchecks = 0, ninst = 0, ndontcare = 0, nwalk = 0, nfpdc = 0;

// order modes: 0 forward (wire order), 1 every object reversed, 2 alternating (objects that are elements of an
// array at an odd position, and everything below them, reversed; so two equal objects get different orders)
template <class Json>
static Json build(const mj::Value& w, int mode, bool flip = false) {
    const std::string& k = w[0].str();
    if (k == "null") return Json::null();
    if (k == "bool") return Json(w[1].as_bool());
    if (k == "int") return Json((int64_t)w[1].as_int());
    if (k == "dec") return Json(jc::dec_value(w));
    if (k == "str") return Json(jc::cps_to_utf8(w[1]));
    if (k == "arr") {
        Json a(json_array_arg); size_t i = 0;
        for (auto& e : w[1].a) { a.push_back(build<Json>(e, mode, mode == 2 ? ((i % 2) == 1) != flip : flip)); ++i; }
        return a;
    }
    if (k == "obj") {
        Json o(json_object_arg);
        bool rev = mode == 1 || (mode == 2 && flip);
        const auto& m = w[1].a;
        if (!rev) for (size_t i = 0; i < m.size(); ++i) o.insert_or_assign(jc::cps_to_utf8(m[i][0]), build<Json>(m[i][1], mode, flip));
        else for (size_t i = m.size(); i-- > 0;) o.insert_or_assign(jc::cps_to_utf8(m[i][0]), build<Json>(m[i][1], mode, flip));
        return o;
    }
    throw std::runtime_error("build: unknown kind " + k);
}

static std::string version_of(const std::string& d) {
    if (d == "d4") return jsonschema::schema_version::draft4();
    if (d == "d6") return jsonschema::schema_version::draft6();
    if (d == "d7") return jsonschema::schema_version::draft7();
    if (d == "d2019") return jsonschema::schema_version::draft201909();
    return jsonschema::schema_version::draft202012();
}

static std::map<std::string, long> g_bucket;
// does the wire value contain a decimal with a zero fractional part (1.0)?
static bool has_zero_fraction(const mj::Value& w) {
    const std::string& k = w[0].str();
    if (k == "dec") { int64_t m = w[1].as_int(), e = w[2].as_int(); return e == -1 ? m % 10 == 0 : m % 100 == 0; }
    if (k == "arr") { for (auto& e : w[1].a) if (has_zero_fraction(e)) return true; return false; }
    if (k == "obj") { for (auto& kv : w[1].a) if (has_zero_fraction(kv[1])) return true; return false; }
    return false;
}
// does the wire value contain an object with at least two members one of which is a non-empty object?
static bool has_member_beside_object(const mj::Value& w) {
    const std::string& k = w[0].str();
    if (k == "arr") { for (auto& e : w[1].a) if (has_member_beside_object(e)) return true; return false; }
    if (k == "obj") {
        if (w[1].size() >= 2) for (auto& kv : w[1].a) if (kv[1][0].str() == "obj" && kv[1][1].size() > 0) return true;
        for (auto& kv : w[1].a) if (has_member_beside_object(kv[1])) return true;
    }
    return false;
}
// known-deviation classes of the case that can explain a mismatch on THIS instance: the class
// d4-integer-zero-fraction (an integer-valued double accepted as "integer" in Draft 4) needs such a number in the instance,
// unevaluatedProperties-leaks-child-properties (names evaluated inside a member value hide later members of the parent)
// needs an object that has a non-empty object among two or more members
static std::string dev_of(const mj::Value& c, const mj::Value* inst = nullptr) {
    std::vector<std::string> names; const mj::Value* d = c.find("dev");
    if (d) for (auto& n : d->a) {
        if (inst && n.str() == "d4-integer-zero-fraction" && !has_zero_fraction(*inst)) continue;
        if (inst && n.str() == "unevaluatedProperties-leaks-child-properties" && !has_member_beside_object(*inst)) continue;
        names.push_back(n.str()); }
    std::sort(names.begin(), names.end());
    std::string r; for (auto& n : names) { if (!r.empty()) r += ","; r += n; }
    return r;
}
// one record per (case, what); caps: 300 unclassified per shard (hz::emit_mismatch), 40 per (class set, kind)
static void fail(size_t idx, const mj::Value& c, const std::string& variant, const std::string& what, const mj::Value* inst, int expected, const mj::Value& got) {
    std::string dev = dev_of(c, inst);
    if (!dev.empty()) { long n = ++g_bucket[dev + "|" + what]; if (n > 40) return; }
    mj::Value m = hz::rec("mismatch"); m.set("idx", (int64_t)idx); m.set("variant", variant); m.set("what", what); m.set("dev", dev);
    if (inst) m.set("inst", *inst);
    m.set("expected", expected); m.set("got", got); m.set("case", c);
    if (dev.empty()) hz::emit_mismatch(m); else hz::emit(m);
}

template <class Json>
struct Compiled {
    std::string name; int inst_mode = 0; bool full = false;
    bool reordered = false;   // schema and instance are presented with different member orders
    std::unique_ptr<jsonschema::json_schema<Json>> js;
};

// resolve a JSON Pointer (already tokenised by the library) in our own copy of the instance wire value
static const mj::Value* resolve_wire(const mj::Value& w, const std::vector<std::string>& toks, size_t i = 0) {
    if (i == toks.size()) return &w;
    const std::string& k = w[0].str();
    if (k == "obj") { for (auto& kv : w[1].a) if (jc::cps_to_utf8(kv[0]) == toks[i]) return resolve_wire(kv[1], toks, i + 1); return nullptr; }
    if (k == "arr") { if (toks[i].empty() || toks[i].size() > 6) return nullptr; size_t n = 0; for (char ch : toks[i]) { if (ch < '0' || ch > '9') return nullptr; n = n * 10 + (size_t)(ch - '0'); }
        if (n >= w[1].size()) return nullptr; return resolve_wire(w[1][n], toks, i + 1); }
    return nullptr;
}

template <class Json>
static void run_instance(size_t idx, const mj::Value& c, Compiled<Json>& cs, const mj::Value& iw, int expected, bool dontcare, std::vector<int>& verdicts) {
    const jsonschema::json_schema<Json>& js = *cs.js;
    Json inst = build<Json>(iw, cs.inst_mode);
    const std::string& vn = cs.name;
    bool v1;
    try { v1 = js.is_valid(inst); }
    catch (const std::exception& e) { fail(idx, c, vn, "is_valid-exception", &iw, expected, mj::Value(e.what())); return; }
    ++nchecks;
    verdicts.push_back(v1 ? 1 : 0);
    if (!dontcare && (int)v1 != expected) { fail(idx, c, vn, cs.reordered ? "verdict-reordered" : "verdict", &iw, expected, mj::Value((int)v1)); }
    // collecting reporter
    try {
        size_t nerr = 0;
        js.validate(inst, [&](const jsonschema::validation_message&) -> jsonschema::walk_state { ++nerr; return jsonschema::walk_state::advance; });
        ++nchecks;
        if ((nerr == 0) != v1) fail(idx, c, vn, "validate-collecting-vs-is_valid", &iw, (int)v1, mj::Value((int64_t)nerr));
    } catch (const std::exception& e) { fail(idx, c, vn, "validate-collecting-exception", &iw, expected, mj::Value(e.what())); }
    if (cs.full) {
        // throwing default reporter
        bool threw = false;
        try { js.validate(inst); } catch (const jsonschema::validation_error&) { threw = true; }
        catch (const std::exception& e) { fail(idx, c, vn, "validate-throwing-foreign-exception", &iw, expected, mj::Value(e.what())); threw = !v1; }
        ++nchecks;
        if (threw == v1) fail(idx, c, vn, "validate-throwing-vs-is_valid", &iw, (int)v1, mj::Value(threw));
        // reporter that stops at the first error
        try {
            size_t nerr = 0;
            js.validate(inst, [&](const jsonschema::validation_message&) -> jsonschema::walk_state { ++nerr; return jsonschema::walk_state::abort; });
            ++nchecks;
            if ((nerr == 0) != v1) fail(idx, c, vn, "validate-aborting-vs-is_valid", &iw, (int)v1, mj::Value((int64_t)nerr));
        } catch (const std::exception& e) { fail(idx, c, vn, "validate-aborting-exception", &iw, expected, mj::Value(e.what())); }
        // reporter with the (message, patch) signature, and the overload that also returns a patch document
        try {
            size_t nerr = 0;
            js.validate(inst, [&](const jsonschema::validation_message&, jsoncons::optional<Json>&) -> jsonschema::walk_state { ++nerr; return jsonschema::walk_state::advance; });
            size_t nerr2 = 0; Json patch;
            js.validate(inst, [&](const jsonschema::validation_message&) -> jsonschema::walk_state { ++nerr2; return jsonschema::walk_state::advance; }, patch);
            ++nchecks;
            if ((nerr == 0) != v1 || (nerr2 == 0) != v1) fail(idx, c, vn, "validate-patch-reporters-vs-is_valid", &iw, (int)v1, mj::Value((int64_t)(nerr * 1000 + nerr2)));
        } catch (const std::exception& e) { fail(idx, c, vn, "validate-patch-reporters-exception", &iw, expected, mj::Value(e.what())); }
        // json_visitor output
        try {
            json_decoder<ojson> dec; js.validate(inst, dec); ojson out = dec.get_result();
            ++nchecks;
            if (!out.is_array() || (out.size() == 0) != v1) fail(idx, c, vn, "validate-visitor-vs-is_valid", &iw, (int)v1, mj::Value((int64_t)(out.is_array() ? out.size() : -1)));
        } catch (const std::exception& e) { fail(idx, c, vn, "validate-visitor-exception", &iw, expected, mj::Value(e.what())); }
        // reuse: the compiled schema gives the same verdict again (after validate / walk were run on it)
        try {
            bool v2 = js.is_valid(inst); bool v3 = js.is_valid(inst); ++nchecks;
            if (v2 != v1 || v3 != v1) fail(idx, c, vn, "reuse", &iw, (int)v1, mj::Value((int)v2 + 2 * (int)v3));
        } catch (const std::exception& e) { fail(idx, c, vn, "is_valid-exception", &iw, expected, mj::Value(e.what())); }
        // walk: terminates without exception, every visit names a location of the instance and passes the value there,
        // both reporter signatures and a second walk see the same visits
        try {
            std::vector<std::string> seq1, seq2, seq3; bool badloc = false;
            auto rep1 = [&](const std::string& kw, const Json&, const uri& loc, const Json& in, const jsonpointer::json_pointer& ip) -> jsonschema::walk_result {
                seq1.push_back(kw + " " + loc.string() + " " + ip.string());
                std::vector<std::string> toks; for (const auto& tk : ip) toks.push_back(std::string(tk));
                if (!resolve_wire(iw, toks)) badloc = true;
                return jsonschema::walk_result::advance; };
            js.walk(inst, rep1);
            auto rep2 = [&](const jsonschema::schema_property<Json>& p, const Json&, const jsonpointer::json_pointer& ip, jsoncons::optional<Json>&) -> jsonschema::walk_state {
                seq2.push_back(p.keyword() + " " + p.schema_location().string() + " " + ip.string()); return jsonschema::walk_state::advance; };
            js.walk(inst, rep2);
            auto rep3 = [&](const std::string& kw, const Json&, const uri& loc, const Json&, const jsonpointer::json_pointer& ip) -> jsonschema::walk_result {
                seq3.push_back(kw + " " + loc.string() + " " + ip.string()); return jsonschema::walk_result::advance; };
            js.walk(inst, rep3);
            ++nchecks; ++nwalk;
            (void)badloc;   // not compared: instance locations are report layout, not part of the property (see notes/C11.md)
            // a reporter that answers abort is not called again (doc/ref/jsonschema/json_schema/walk.md: "whether to keep walking ... or stop")
            { size_t calls = 0;
              js.walk(inst, [&](const std::string&, const Json&, const uri&, const Json&, const jsonpointer::json_pointer&) -> jsonschema::walk_result { ++calls; return jsonschema::walk_result::abort; });
              if (calls != (seq1.empty() ? 0u : 1u)) fail(idx, c, vn, "walk-abort-ignored", &iw, expected, mj::Value((int64_t)calls)); }
            if (seq1 != seq2) fail(idx, c, vn, "walk-reporters-disagree", &iw, expected, mj::Value((int64_t)seq1.size()));
            if (seq1 != seq3) fail(idx, c, vn, "walk-reuse", &iw, expected, mj::Value((int64_t)seq1.size()));
            bool v4 = js.is_valid(inst);
            if (v4 != v1) fail(idx, c, vn, "reuse-after-walk", &iw, (int)v1, mj::Value((int)v4));
        } catch (const std::exception& e) { fail(idx, c, vn, "walk-exception", &iw, expected, mj::Value(e.what())); }
        if (!jc::doc_equals(inst, iw)) fail(idx, c, vn, "instance-modified", &iw, expected, jc::doc_wire(inst));
    }
}

template <class Json>
static bool compile(size_t idx, const mj::Value& c, Compiled<Json>& cs, int schema_mode, bool schema_kw, const jsonschema::evaluation_options& base_opts) {
    const std::string& d = c["d"].str();
    Json s = build<Json>(c["s"], schema_mode);
    jsonschema::evaluation_options o = base_opts;
    if (schema_kw && s.is_object()) {
        s.insert_or_assign("$schema", version_of(d));
        o.default_version(d == "d7" ? jsonschema::schema_version::draft202012() : jsonschema::schema_version::draft7());   // must be overridden by "$schema"
    } else o.default_version(version_of(d));
    try { cs.js.reset(new jsonschema::json_schema<Json>(jsonschema::make_json_schema(std::move(s), o))); ++nchecks; return true; }
    catch (const std::exception& e) { fail(idx, c, cs.name, "compile-exception", nullptr, 1, mj::Value(e.what())); return false; }
}

int main(int argc, char** argv) {
    auto args = hz::parse_args(argc, argv);
    std::vector<mj::Value> base;
    { std::ifstream in(args.opt("--base")); std::string line;
      while (std::getline(in, line)) { if (line.empty()) continue; mj::Value b = mj::parse(line); if (b.has("k") && b["k"].str() == "base") for (auto& w : b["v"].a) base.push_back(w); }
      if (base.empty()) { fprintf(stderr, "no base instances (--base)\n"); return 2; } }
    long ncases = 0;
    hz::for_each_case(args, [&](size_t idx, const std::string& line) {
        mj::Value c = mj::parse(line);
        if (!c.has("k") || c["k"].str() != "c") return;
        ++ncases;
        bool case_dontcare = c.has("dc") && c["dc"].size() > 0;
        if (case_dontcare) ++ndontcare;
        if (c["r"].size() != base.size()) { fprintf(stderr, "base table size mismatch\n"); exit(2); }
        jsonschema::evaluation_options plain;
        jsonschema::evaluation_options odd; odd.require_format_validation(true).enable_custom_error_message(true).default_base_uri("http://verif.example/root.json");
        Compiled<json> j0; j0.name = "json"; j0.full = true;
        Compiled<ojson> o0; o0.name = "ojson"; o0.full = true;
        Compiled<ojson> o3; o3.name = "ojson/schema-reversed+$schema+options"; o3.reordered = true;
        Compiled<ojson> o4; o4.name = "ojson/schema-alternating"; o4.reordered = true;
        bool ok = compile(idx, c, j0, 0, false, plain);
        ok = compile(idx, c, o0, 0, false, plain) && ok;
        ok = compile(idx, c, o3, 1, true, odd) && ok;
        ok = compile(idx, c, o4, 2, false, plain) && ok;
        if (!ok) return;
        auto one = [&](const mj::Value& iw, int expected) {
            if (expected == 2) return;
            ++ninst;
            bool dontcare = case_dontcare || expected == 3;
            if (expected == 3) ++nfpdc;
            std::vector<int> v;
            run_instance(idx, c, j0, iw, expected, dontcare, v);
            run_instance(idx, c, o0, iw, expected, dontcare, v);
            { Compiled<ojson> t; t.name = "ojson/instance-reversed"; t.inst_mode = 1; t.reordered = true; t.js = std::move(o0.js); run_instance(idx, c, t, iw, expected, dontcare, v); o0.js = std::move(t.js); }
            { Compiled<ojson> t; t.name = "ojson/instance-alternating"; t.inst_mode = 2; t.reordered = true; t.js = std::move(o0.js); run_instance(idx, c, t, iw, expected, dontcare, v); o0.js = std::move(t.js); }
            run_instance(idx, c, o3, iw, expected, dontcare, v);
            run_instance(idx, c, o4, iw, expected, dontcare, v);
            bool same = true; for (int x : v) if (x != v[0]) same = false;
            if (!same) { mj::Value g = mj::Value::array(); for (int x : v) g.push(x); fail(idx, c, "all", "member-order-or-options-change-verdict", &iw, expected, g); }
        };
        for (size_t i = 0; i < base.size(); ++i) one(base[i], (int)c["r"][i].as_int());
        for (auto& x : c["x"].a) one(x[0], (int)x[1].as_int());
    });
    mj::Value s = hz::rec("stat"); s.set("cases", (int64_t)ncases); s.set("checks", (int64_t)nchecks); s.set("instances", (int64_t)ninst);
    s.set("dontcare", (int64_t)ndontcare); s.set("fp_dontcare_instances", (int64_t)nfpdc); s.set("walks", (int64_t)nwalk); hz::emit(s);
    return 0;
}
