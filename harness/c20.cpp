// C20 conformance harness, built with clang -fsanitize=thread: N threads run operation streams on shared
// immutable artefacts (compiled schema, compiled JSONPath / JMESPath expressions, a const json); per-thread
// histories (thread, seq, op, result) are recorded together with the single-threaded results; ThreadSanitizer
// reports go to stderr (the driver turns them into Race events).
#include "harness.hpp"
#include "jconv.hpp"
#include <jsoncons/json.hpp>
#include <jsoncons_ext/jsonpath/jsonpath.hpp>
#include <jsoncons_ext/jmespath/jmespath.hpp>
#include <jsoncons_ext/jsonschema/jsonschema.hpp>
#include <atomic>
#include <deque>
#include <fstream>
#include <functional>
#include <map>
#include <thread>
using namespace jsoncons;

// ThreadSanitizer calls this (weak in the runtime) for every report it prints; the count is turned into Race events.
static volatile int g_reports = 0;
extern "C" __attribute__((no_sanitize("thread"))) void __tsan_on_report(void*) { g_reports = g_reports + 1; }

static const json g_doc = json::parse(R"({"store":{"book":[{"category":"reference","author":"Nigel Rees","title":"Sayings of the Century","price":8.95},
 {"category":"fiction","author":"Evelyn Waugh","title":"Sword of Honour","price":12.99},{"category":"fiction","author":"Herman Melville","title":"Moby Dick","isbn":"0-553-21311-3","price":8.99}],
 "bicycle":{"color":"red","price":19.95}},"tags":["a","b","a long string value 0123456789"],"n":123456789012345678901234567890,"k":{"x":[1,2,3],"y":null}})");
static const json g_schema_doc = json::parse(R"({"$schema":"https://json-schema.org/draft/2020-12/schema","type":"object","properties":{"store":{"type":"object","properties":{"book":{"type":"array",
 "items":{"$ref":"#/$defs/book"},"minItems":1,"uniqueItems":true},"bicycle":{"type":"object","required":["color"],"unevaluatedProperties":{"type":"number"}}}},"tags":{"type":"array","contains":{"pattern":"^a"}}},
 "required":["store"],"$defs":{"book":{"type":"object","required":["title","price"],"properties":{"price":{"type":"number","exclusiveMinimum":0},"isbn":{"type":"string","pattern":"^[0-9-]+$"}},"if":{"required":["isbn"]},"then":{"properties":{"category":{"const":"fiction"}}}}}})");
static const json g_bad = json::parse(R"({"store":{"book":[{"title":"t","price":-1}],"bicycle":{"color":1,"extra":"s"}},"tags":["b"]})");
static const jsonschema::json_schema<json> g_schema = jsonschema::make_json_schema(g_schema_doc);
static const auto g_jp1 = jsonpath::make_expression<json>("$.store.book[?(@.price < 10)].title");
static const auto g_jp2 = jsonpath::make_expression<json>("$..book[?(@.author =~ /.*Waugh/)].price");
static const auto g_jp3 = jsonpath::make_expression<json>("$..*");
static const auto g_jm1 = jmespath::make_expression<json>("store.book[?price < `10`].{t: title, a: author} | [0]");
static const auto g_jm2 = jmespath::make_expression<json>("sort_by(store.book, &price)[*].title");

static std::map<std::string, std::function<std::string()>> make_ops() {
    std::map<std::string, std::function<std::string()>> m;
    m["schema_valid_ok"] = [] { return std::string(g_schema.is_valid(g_doc) ? "valid" : "invalid"); };
    m["schema_valid_bad"] = [] { return std::string(g_schema.is_valid(g_bad) ? "valid" : "invalid"); };
    m["schema_validate_report"] = [] { std::string out; auto rep = [&](const jsonschema::validation_message& msg) -> jsonschema::walk_result { out += msg.keyword(); out += msg.instance_location().string(); out += ';'; return jsonschema::walk_result::advance; }; g_schema.validate(g_bad, rep); return out; };
    m["schema_walk"] = [] { std::string out; auto rep = [&](const std::string& kw, const json&, const jsoncons::uri&, const json&, const jsonpointer::json_pointer& loc) -> jsonschema::walk_result { out += kw; out += loc.to_string(); out += ';'; return jsonschema::walk_result::advance; }; g_schema.walk(g_doc, rep); return out; };
    m["jsonpath_plain"] = [] { return g_jp1.evaluate(g_doc).to_string(); };
    m["jsonpath_regex"] = [] { return g_jp2.evaluate(g_doc).to_string(); };
    m["jsonpath_paths"] = [] { return g_jp3.evaluate(g_doc, jsonpath::result_options::path | jsonpath::result_options::nodups).to_string(); };
    m["jmespath_eval"] = [] { return g_jm1.evaluate(g_doc).to_string(); };
    m["jmespath_sort"] = [] { return g_jm2.evaluate(g_doc).to_string(); };
    m["json_lookup"] = [] { std::string s = g_doc.at("store").at("book")[1].at("title").as<std::string>(); s += g_doc.contains("tags") ? "+" : "-"; s += std::to_string(g_doc["k"]["x"].size()); s += g_doc.at("k").find("y") != g_doc.at("k").object_range().end() ? "y" : "n"; return s; };
    m["json_compare"] = [] { json c2 = g_doc; return std::string((c2 == g_doc && !(g_doc < c2) && g_doc["store"] != g_doc["tags"]) ? "eq" : "ne"); };
    m["json_copy"] = [] { json c2(g_doc); c2["store"]["bicycle"]["color"] = "blue"; return c2["store"]["bicycle"]["color"].as<std::string>() + g_doc["store"]["bicycle"]["color"].as<std::string>(); };
    m["json_dump"] = [] { std::string s; g_doc.dump(s); std::string p; g_doc.dump_pretty(p); return s + std::to_string(p.size()); };
    m["json_iterate"] = [] { std::string s; for (const auto& kv : g_doc.object_range()) { s += kv.key(); s += ':'; s += std::to_string((int)kv.value().type()); } for (const auto& e : g_doc["tags"].array_range()) s += e.as<std::string>(); return s; };
    return m;
}
// Artefact pool (spec/validation/C20_pool.json): every artefact is compiled ONCE and shared by all threads of all cases.
struct Pool {
    std::deque<json> files;
    std::deque<jsonpath::jsonpath_expression<json>> paths;
    std::deque<decltype(jmespath::make_expression<json>(std::string()))> jms;
    std::deque<jsonschema::json_schema<json>> schemas;
    std::vector<std::pair<std::string, std::function<std::string()>>> ops;
    void load(const std::string& path) {
        std::ifstream is(path); if (!is) { fprintf(stderr, "cannot open pool %s\n", path.c_str()); exit(2); }
        files.emplace_back(json::parse(is)); const json& file = files.back();
        const json& docs = file.at("docs");
        int ai = (int)ops.size() * 1000;
        for (const auto& a : file.at("artefacts").array_range()) {
            const std::string kind = a.at("kind").as<std::string>(); ++ai;
            if (kind == "jsonpath") { paths.emplace_back(jsonpath::make_expression<json>(a.at("text").as<std::string>())); auto* e = &paths.back();
                for (const auto& d : a.at("docs").array_range()) { const json* doc = &docs.at(d.as<std::string>());
                    ops.emplace_back("pool/" + std::to_string(ai) + "/" + d.as<std::string>(), [e, doc] { return e->evaluate(*doc).to_string() + e->evaluate(*doc, jsonpath::result_options::path | jsonpath::result_options::nodups).to_string(); }); } }
            else if (kind == "jmespath") { jms.emplace_back(jmespath::make_expression<json>(a.at("text").as<std::string>())); auto* e = &jms.back();
                for (const auto& d : a.at("docs").array_range()) { const json* doc = &docs.at(d.as<std::string>());
                    ops.emplace_back("pool/" + std::to_string(ai) + "/" + d.as<std::string>(), [e, doc] { return e->evaluate(*doc).to_string(); }); } }
            else { schemas.emplace_back(jsonschema::make_json_schema(a.at("text"), jsonschema::evaluation_options{}.require_format_validation(a.at("format_assertion").as<bool>()))); auto* sc = &schemas.back();
                for (const auto& d : a.at("docs").array_range()) { const json* doc = &docs.at(d.as<std::string>());
                    ops.emplace_back("pool/" + std::to_string(ai) + "/" + d.as<std::string>(), [sc, doc] { std::string out = sc->is_valid(*doc) ? "valid;" : "invalid;";
                        auto rep = [&](const jsonschema::validation_message& msg) -> jsonschema::walk_result { out += msg.keyword(); out += msg.instance_location().string(); out += ';'; return jsonschema::walk_result::advance; };
                        sc->validate(*doc, rep); return out; }); } }
        }
    }
};
static std::string hash(const std::string& s) { uint64_t h = 1469598103934665603ULL; for (unsigned char c : s) { h ^= c; h *= 1099511628211ULL; } char b[20]; snprintf(b, sizeof b, "%016llx", (unsigned long long)h); return b; }

int main(int argc, char** argv) {
    auto args = hz::parse_args(argc, argv);
    auto ops = make_ops(); long ncases = 0, nops = 0;
    Pool pool; std::string pool_path = args.opt("--pool", "");
    if (!pool_path.empty()) { try { size_t a = 0; while (a <= pool_path.size()) { size_t b = pool_path.find(',', a); if (b == std::string::npos) b = pool_path.size(); if (b > a) pool.load(pool_path.substr(a, b - a)); a = b + 1; } } catch (const std::exception& e) { fprintf(stderr, "pool artefact does not compile: %s\n", e.what()); mj::Value r = hz::rec("pool-error"); r.set("what", e.what()); hz::emit(r); return 0; } }
    for (auto& o : pool.ops) ops[o.first] = o.second;
    auto op_name = [&](const mj::Value& o) -> std::string { if (o.is_str()) return o.str(); if (pool.ops.empty()) return "json_lookup"; return pool.ops[(size_t)o.as_int() % pool.ops.size()].first; };
    hz::for_each_case(args, [&](size_t idx, const std::string& line) {
        mj::Value c = mj::parse(line); ++ncases;
        int n = (int)c["n"].as_int(); int reps = (int)c["reps"].as_int();
        { mj::Value r = hz::rec("trace"); r.set("idx", (int64_t)idx); r.set("e", "Reset"); hz::emit(r); }
        for (auto& kv : ops) { mj::Value t = hz::rec("trace"); t.set("idx", (int64_t)idx); t.set("e", "Seq"); t.set("op", kv.first); t.set("result", hash(kv.second())); hz::emit(t); }
        int reports0 = g_reports;
        struct Rec { int thread, seq; std::string op, result; };
        std::vector<std::vector<Rec>> hist((size_t)n);
        std::atomic<int> ready{0}; std::atomic<bool> go{false};
        std::vector<std::thread> th;
        for (int t = 0; t < n; ++t) th.emplace_back([&, t] {
            std::vector<std::string> stream; for (auto& o : c["streams"][t].a) stream.push_back(op_name(o));
            int skew = (int)c["skew"][t].as_int();
            ++ready; while (!go.load(std::memory_order_acquire)) {}
            for (volatile int s = 0; s < skew * 2000; ++s) {}
            int seq = 0;
            for (int r = 0; r < reps; ++r) for (auto& o : stream) { std::string res = hash(ops.at(o)()); hist[(size_t)t].push_back(Rec{t + 1, ++seq, o, res}); }
        });
        while (ready.load() < n) {} go.store(true, std::memory_order_release);
        for (auto& x : th) x.join();
        for (int k = reports0; k < g_reports; ++k) { mj::Value t = hz::rec("trace"); t.set("idx", (int64_t)idx); t.set("e", "Race"); t.set("report", k + 1); hz::emit(t); }
        for (auto& h : hist) for (auto& r : h) { mj::Value t = hz::rec("trace"); t.set("idx", (int64_t)idx); t.set("e", "Par"); t.set("thread", r.thread); t.set("seq", r.seq); t.set("op", r.op); t.set("result", r.result); hz::emit(t); ++nops; }
    });
    mj::Value s = hz::rec("stat"); s.set("cases", (int64_t)ncases); s.set("ops", (int64_t)nops); hz::emit(s);
    return 0;
}
