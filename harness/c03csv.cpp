// C03, CSV part (differential): each generated text is read contiguously (csv_string_reader / csv_string_cursor) and through every
// other delivery - stream_source with buffer sizes 1..n+1 (reader and cursor), an iterator source, and the push parser fed with
// every composition of the text into chunks (n <= 6; single splits and uniform sizes beyond) - for several option sets.  Events
// and the error (by code value) must be identical.
#include "harness.hpp"
#include "jconv.hpp"
#include "events.hpp"
#include <jsoncons/json.hpp>
#include <jsoncons_ext/csv/csv.hpp>
#include <sstream>
using namespace jsoncons;

struct Out { std::string ev; int ec = 0; std::string cat; bool operator==(const Out& o) const { return ev == o.ev && ec == o.ec && cat == o.cat; } };
static Out finish(evr::Recorder& r, std::error_code ec) { Out o; o.ev = evr::join(r.ev); o.ec = ec.value(); o.cat = ec ? ec.category().name() : ""; return o; }
static csv::csv_options opts(int k) {
    csv::csv_options o;
    switch (k) {
        case 0: o.mapping_kind(csv::csv_mapping_kind::n_rows); break;
        case 1: o.assume_header(true).mapping_kind(csv::csv_mapping_kind::n_objects); break;
        case 2: o.assume_header(true).mapping_kind(csv::csv_mapping_kind::m_columns).infer_types(false); break;
        case 3: o.mapping_kind(csv::csv_mapping_kind::n_rows).trim(true).ignore_empty_lines(false).comment_starter('#'); break;
        case 4: o.mapping_kind(csv::csv_mapping_kind::n_rows).field_delimiter(';').quote_char('\'').unquoted_empty_value_is_null(true); break;
        default: o.header_lines(1).mapping_kind(csv::csv_mapping_kind::n_objects).column_names("x,y").lossless_number(true); break;
    }
    return o;
}
static Out via_string(const std::string& s, const csv::csv_options& o) { evr::Recorder r; std::error_code ec; try { csv::csv_string_reader rd(s, r, o); rd.read(ec); } catch (const std::exception& e) { Out x; x.ev = std::string("EXC ") + e.what(); return x; } return finish(r, ec); }
static Out via_stream(const std::string& s, const csv::csv_options& o, std::size_t k) { evr::Recorder r; std::error_code ec; std::istringstream is(s); try { csv::csv_stream_reader rd(stream_source<char>(is, k), r, o); rd.read(ec); } catch (const std::exception& e) { Out x; x.ev = std::string("EXC ") + e.what(); return x; } return finish(r, ec); }
static Out via_iter(const std::string& s, const csv::csv_options& o) { evr::Recorder r; std::error_code ec; try { csv::basic_csv_reader<char, iterator_source<std::string::const_iterator>> rd(iterator_source<std::string::const_iterator>(s.begin(), s.end()), r, o); rd.read(ec); } catch (const std::exception& e) { Out x; x.ev = std::string("EXC ") + e.what(); return x; } return finish(r, ec); }
static Out via_push(const std::vector<std::string>& chunks, const csv::csv_options& o) {
    evr::Recorder r; std::error_code ec; size_t k = 0;
    try {
        csv::csv_parser p(o); bool fed_empty = false;
        while (!p.stopped()) {
            if (p.source_exhausted()) { if (k < chunks.size()) { p.update(chunks[k].data(), chunks[k].size()); ++k; } else { if (fed_empty) {} fed_empty = true; } }
            p.parse_some(r, ec);
            if (ec) break;
        }
    } catch (const std::exception& e) { Out x; x.ev = std::string("EXC ") + e.what(); return x; }
    return finish(r, ec);
}
template <class Cursor> static Out drain(Cursor& c, std::error_code& ec) {
    Out o; std::vector<std::string> ev;
    while (!ec && !c.done()) { ev.push_back(evr::of_event(c.current())); c.next(ec); }
    o.ev = evr::join(ev); o.ec = ec.value(); o.cat = ec ? ec.category().name() : ""; return o;
}
static Out cur_string(const std::string& s, const csv::csv_options& o) { std::error_code ec; try { csv::csv_string_cursor c(s, o, ec); return drain(c, ec); } catch (const std::exception& e) { Out x; x.ev = std::string("EXC ") + e.what(); return x; } }
static Out cur_stream(const std::string& s, const csv::csv_options& o, std::size_t k) { std::error_code ec; std::istringstream is(s); try { csv::csv_stream_cursor c(stream_source<char>(is, k), o, ec); return drain(c, ec); } catch (const std::exception& e) { Out x; x.ev = std::string("EXC ") + e.what(); return x; } }

int main(int argc, char** argv) {
    auto args = hz::parse_args(argc, argv);
    long ncases = 0, nchecks = 0;
    hz::for_each_case(args, [&](size_t idx, const std::string& line) {
        mj::Value c = mj::parse(line); ++ncases;
        std::string text = jc::units_to_string(c["csv"]); size_t n = text.size();
        for (int ok = 0; ok < 6; ++ok) {
            csv::csv_options o = opts(ok);
            Out ref = via_string(text, o), cref = cur_string(text, o);
            auto cmp = [&](const char* entry, const Out& got, const Out& want, const std::string& how) {
                ++nchecks;
                if (got == want) return;
                mj::Value m = hz::rec("mismatch"); m.set("idx", (int64_t)idx); m.set("entry", entry); m.set("opts", ok); m.set("delivery", how); m.set("what", got.ev == want.ev ? "error-differs" : "events-differ");
                m.set("want", want.ev + " | ec=" + std::to_string(want.ec) + " " + want.cat); m.set("got", got.ev + " | ec=" + std::to_string(got.ec) + " " + got.cat); m.set("case", c); hz::emit_mismatch(m);
            };
            for (size_t k = 1; k <= n + 1; ++k) { cmp("stream-reader", via_stream(text, o, k), ref, "buffer " + std::to_string(k)); cmp("stream-cursor", cur_stream(text, o, k), cref, "buffer " + std::to_string(k)); }
            cmp("iterator-reader", via_iter(text, o), ref, "iterator");
            // push parser: compositions
            if (n >= 1 && n <= 6) {
                for (unsigned mask = 0; mask < (1u << (n - 1)); ++mask) { std::vector<std::string> ch; std::string curc; for (size_t i = 0; i < n; ++i) { curc.push_back(text[i]); if (i + 1 == n || (mask >> i) & 1) { ch.push_back(curc); curc.clear(); } }
                    std::string how; for (auto& x : ch) how += std::to_string(x.size()) + "|"; cmp("push-parser", via_push(ch, o), ref, "chunks " + how); }
            } else if (n > 6) {
                for (size_t sp = 1; sp < n; ++sp) cmp("push-parser", via_push({text.substr(0, sp), text.substr(sp)}, o), ref, "split " + std::to_string(sp));
                for (size_t sz = 1; sz <= 3; ++sz) { std::vector<std::string> ch; for (size_t i = 0; i < n; i += sz) ch.push_back(text.substr(i, sz)); cmp("push-parser", via_push(ch, o), ref, "uniform " + std::to_string(sz)); }
            } else cmp("push-parser", via_push({}, o), ref, "empty");
        }
    });
    mj::Value s = hz::rec("stat"); s.set("cases", (int64_t)ncases); s.set("checks", (int64_t)nchecks); hz::emit(s);
    return 0;
}
