// Long-length families of C06 / C07 (lengths at the 2^8 / 2^15 / 2^16 width boundaries).
//  --mode enc : case {f, shape, n}: the shape is built as a jsoncons value and encoded by every route; recorded are the
//               first 24 and the last 2 bytes of the output, its total size and whether the library reads it back to an
//               equal value (Trace_C06big checks the header against BinHeads!Forms).
//  --mode dec : case {f, head, prog, trailer, expect}: head + expanded run-length program + trailer is decoded by
//               decode_X, from a stream and through a cursor; verdict, kind and size are compared with the prediction.
#include "harness.hpp"
#include "jconv.hpp"
#include <jsoncons/json.hpp>
#include <jsoncons_ext/cbor/cbor.hpp>
#include <jsoncons_ext/msgpack/msgpack.hpp>
#include <jsoncons_ext/ubjson/ubjson.hpp>
#include <jsoncons_ext/bson/bson.hpp>
#include <sstream>
using namespace jsoncons;

static std::string key5(long i) { char b[8]; snprintf(b, sizeof b, "%05ld", i); return b; }
static json build(const std::string& f, const std::string& shape, long n) {
    json v;
    if (shape == "tstr") v = json(std::string((size_t)n, 'a'));
    else if (shape == "bstr") v = json(byte_string_arg, std::vector<uint8_t>((size_t)n, 1));
    else if (shape == "arr") { v = json(json_array_arg); v.reserve((size_t)n); for (long i = 0; i < n; ++i) v.push_back(json::null()); }
    else if (shape == "strs") { v = json(json_array_arg); v.reserve((size_t)n); for (long i = 0; i < n; ++i) { std::string t(100, (char)('a' + i % 26)); std::string k = key5(i); t.replace(0, 5, k); v.push_back(json(t)); } }   // 100 bytes each, all different
    else if (shape == "map") { v = json(json_object_arg); for (long i = 0; i < n; ++i) v.try_emplace(key5(i), json::null()); }
    else { v = json(json_object_arg); v.try_emplace(std::string((size_t)n, 'k'), json::null()); }
    if (f == "bson" && (shape == "tstr" || shape == "bstr" || shape == "arr" || shape == "strs")) { json d(json_object_arg); d.try_emplace("a", std::move(v)); return d; }
    return v;
}
static std::string observe(const json& j0, const std::string& f, const std::string& shape, long& size);
template <class Enc, class Dec>
static void enc_one(size_t idx, const mj::Value& c, const char* route, const json& v, Enc enc, Dec dec) {
    mj::Value t = hz::rec("trace"); t.set("idx", (int64_t)idx); t.set("f", c["f"]); t.set("shape", c["shape"]); t.set("n", c["n"]); t.set("route", route);
    std::vector<uint8_t> b; bool ok = true;
    try { enc(v, b); } catch (const std::exception& e) { ok = false; t.set("err", e.what()); }
    t.set("enc", ok ? "ok" : "err");
    mj::Value h = mj::Value::array(), l = mj::Value::array();
    for (size_t i = 0; i < b.size() && i < 24; ++i) h.push((int64_t)b[i]);
    for (size_t i = b.size() >= 2 ? b.size() - 2 : 0; i < b.size(); ++i) l.push((int64_t)b[i]);
    t.set("head", h); t.set("last", l); t.set("total", (int64_t)b.size());
    bool rt = false; std::string kind = "none"; long size = -1;
    if (ok) { try { json back = dec(b); rt = (back == v); kind = observe(back, c["f"].str(), c["shape"].str(), size); } catch (const std::exception& e) { t.set("derr", e.what()); } }
    t.set("rt", rt); t.set("back_kind", kind); t.set("back_size", (int64_t)size);
    hz::emit(t);
}
// streaming encoder fed event by event WITHOUT declared lengths where the format has an undeclared form
template <class Encoder>
static void feed_undeclared(Encoder& e, const json& v) {
    if (v.is_array()) { e.begin_array(); for (const auto& x : v.array_range()) feed_undeclared(e, x); e.end_array(); }
    else if (v.is_object()) { e.begin_object(); for (const auto& kv : v.object_range()) { e.key(kv.key()); feed_undeclared(e, kv.value()); } e.end_object(); }
    else v.dump(e);
}
static void expand(const mj::Value& prog, std::vector<uint8_t>& out) {
    for (auto& seg : prog.a) {
        const std::string kind = seg[0].str();
        if (kind == "rep") { long cnt = (long)seg[2].as_int(); for (long i = 0; i < cnt; ++i) for (auto& x : seg[1].a) out.push_back((uint8_t)x.as_int()); }
        else { long cnt = (long)seg[3].as_int();
            for (long i = 0; i < cnt; ++i) { for (auto& x : seg[1].a) out.push_back((uint8_t)x.as_int());
                std::string d = kind == "seq5" ? key5(i) : std::to_string(i); out.insert(out.end(), d.begin(), d.end());
                for (auto& x : seg[2].a) out.push_back((uint8_t)x.as_int()); } }
    }
}
static std::string observe(const json& j0, const std::string& f, const std::string& shape, long& size) {
    const json* j = &j0;
    if (f == "bson" && (shape == "tstr" || shape == "bstr" || shape == "arr" || shape == "strs")) { if (!j0.is_object() || j0.size() != 1 || !j0.contains("a")) { size = -1; return "not-wrapped"; } j = &j0.at("a"); }
    if (shape == "key") { if (!j->is_object() || j->size() != 1) { size = -1; return "not-one-member"; } size = (long)j->object_range().begin()->key().size(); return "key"; }
    if (j->is_string()) { size = (long)j->as_string_view().size(); return "tstr"; }
    if (j->is_byte_string()) { size = (long)j->as_byte_string_view().size(); return "bstr"; }
    if (j->is_array()) { size = (long)j->size(); return shape == "strs" ? "strs" : "arr"; }
    if (j->is_object()) { size = (long)j->size(); return "map"; }
    size = -1; return "other";
}
template <class DecodeBytes, class DecodeStream, class Cursor>
static void dec_one(size_t idx, const mj::Value& c, const std::string& line, long& nchecks) {
    std::vector<uint8_t> b; for (auto& x : c["head"].a) b.push_back((uint8_t)x.as_int());
    expand(c["prog"], b); for (auto& x : c["trailer"].a) b.push_back((uint8_t)x.as_int());
    const std::string f = c["f"].str(), shape = c["shape"].str(); bool exp_ok = c["expect"][0].str() == "ok"; long n = (long)c["n"].as_int();
    auto report = [&](const char* entry, bool ok, const std::string& kind, long size, const std::string& err) {
        ++nchecks;
        bool kind_ok = kind == shape || (f == "ubjson" && shape == "bstr" && (kind == "arr" || kind == "bstr"));   // UBJSON has no byte string type: uint8 arrays
        if (ok != exp_ok || (ok && (!kind_ok || size != n))) {
            mj::Value m = hz::rec("mismatch"); m.set("idx", (int64_t)idx); m.set("entry", entry); m.set("what", ok != exp_ok ? (exp_ok ? "rejected-wellformed" : "accepted-malformed") : "wrong-value");
            m.set("got_kind", kind); m.set("got_size", (int64_t)size); m.set("err", err); m.set("case", c); hz::emit_mismatch(m); }
    };
    { bool ok = false; std::string kind, err; long size = -1; try { json j = DecodeBytes()(b); ok = true; kind = observe(j, f, shape, size); } catch (const std::exception& e) { err = e.what(); } report("bytes", ok, kind, size, err); }
    { bool ok = false; std::string kind, err; long size = -1; std::string s(b.begin(), b.end()); std::istringstream is(s);
      try { json j = DecodeStream()(is); ok = true; kind = observe(j, f, shape, size); } catch (const std::exception& e) { err = e.what(); } report("stream", ok, kind, size, err); }
    { bool ok = false; std::string kind, err; long size = -1;
      try { std::error_code ec; Cursor cur(b, ec); json_decoder<json> d; if (!ec) cur.read_to(d, ec); if (ec || !d.is_valid()) { err = ec ? ec.message() : "no value"; } else { json j = d.get_result(); ok = true; kind = observe(j, f, shape, size); } }
      catch (const std::exception& e) { err = e.what(); } report("cursor", ok, kind, size, err); }
}
#define DECODERS(NS, FN, CUR) struct NS##_b { json operator()(const std::vector<uint8_t>& b) { return NS::FN<json>(b); } }; struct NS##_s { json operator()(std::istream& is) { return NS::FN<json>(is); } };
DECODERS(cbor, decode_cbor, x) DECODERS(msgpack, decode_msgpack, x) DECODERS(ubjson, decode_ubjson, x) DECODERS(bson, decode_bson, x)

int main(int argc, char** argv) {
    auto args = hz::parse_args(argc, argv);
    std::string mode = args.opt("--mode", "enc");
    long ncases = 0, nchecks = 0;
    hz::for_each_case(args, [&](size_t idx, const std::string& line) {
        mj::Value c = mj::parse(line); ++ncases;
        const std::string f = c["f"].str();
        if (mode == "enc") {
            json v = build(f, c["shape"].str(), (long)c["n"].as_int());
            if (f == "cbor") {
                auto dec = [](const std::vector<uint8_t>& b) { return cbor::decode_cbor<json>(b); };
                enc_one(idx, c, "dom", v, [](const json& j, std::vector<uint8_t>& b) { cbor::encode_cbor(j, b); }, dec);
                enc_one(idx, c, "ostream", v, [](const json& j, std::vector<uint8_t>& b) { std::ostringstream os; cbor::encode_cbor(j, os); std::string s = os.str(); b.assign(s.begin(), s.end()); }, dec);
                enc_one(idx, c, "stream", v, [](const json& j, std::vector<uint8_t>& b) { cbor::cbor_bytes_encoder e(b); j.dump(e); }, dec);
                enc_one(idx, c, "packed", v, [](const json& j, std::vector<uint8_t>& b) { cbor::encode_cbor(j, b, cbor::cbor_options{}.pack_strings(true)); }, dec);
                enc_one(idx, c, "undeclared", v, [](const json& j, std::vector<uint8_t>& b) { cbor::cbor_bytes_encoder e(b); feed_undeclared(e, j); e.flush(); }, dec);
            } else if (f == "msgpack") {
                auto dec = [](const std::vector<uint8_t>& b) { return msgpack::decode_msgpack<json>(b); };
                enc_one(idx, c, "dom", v, [](const json& j, std::vector<uint8_t>& b) { msgpack::encode_msgpack(j, b); }, dec);
                enc_one(idx, c, "ostream", v, [](const json& j, std::vector<uint8_t>& b) { std::ostringstream os; msgpack::encode_msgpack(j, os); std::string s = os.str(); b.assign(s.begin(), s.end()); }, dec);
                enc_one(idx, c, "stream", v, [](const json& j, std::vector<uint8_t>& b) { msgpack::msgpack_bytes_encoder e(b); j.dump(e); }, dec);
            } else if (f == "ubjson") {
                auto dec = [](const std::vector<uint8_t>& b) { return ubjson::decode_ubjson<json>(b); };
                enc_one(idx, c, "dom", v, [](const json& j, std::vector<uint8_t>& b) { ubjson::encode_ubjson(j, b); }, dec);
                enc_one(idx, c, "ostream", v, [](const json& j, std::vector<uint8_t>& b) { std::ostringstream os; ubjson::encode_ubjson(j, os); std::string s = os.str(); b.assign(s.begin(), s.end()); }, dec);
                enc_one(idx, c, "stream", v, [](const json& j, std::vector<uint8_t>& b) { ubjson::ubjson_bytes_encoder e(b); j.dump(e); }, dec);
                enc_one(idx, c, "undeclared", v, [](const json& j, std::vector<uint8_t>& b) { ubjson::ubjson_bytes_encoder e(b); feed_undeclared(e, j); e.flush(); }, dec);
            } else {
                auto dec = [](const std::vector<uint8_t>& b) { return bson::decode_bson<json>(b); };
                enc_one(idx, c, "dom", v, [](const json& j, std::vector<uint8_t>& b) { bson::encode_bson(j, b); }, dec);
                enc_one(idx, c, "ostream", v, [](const json& j, std::vector<uint8_t>& b) { std::ostringstream os; bson::encode_bson(j, os); std::string s = os.str(); b.assign(s.begin(), s.end()); }, dec);
                enc_one(idx, c, "stream", v, [](const json& j, std::vector<uint8_t>& b) { bson::bson_bytes_encoder e(b); j.dump(e); }, dec);
            }
        } else {
            if (f == "cbor") dec_one<cbor_b, cbor_s, cbor::cbor_bytes_cursor>(idx, c, line, nchecks);
            else if (f == "msgpack") dec_one<msgpack_b, msgpack_s, msgpack::msgpack_bytes_cursor>(idx, c, line, nchecks);
            else if (f == "ubjson") dec_one<ubjson_b, ubjson_s, ubjson::ubjson_bytes_cursor>(idx, c, line, nchecks);
            else dec_one<bson_b, bson_s, bson::bson_bytes_cursor>(idx, c, line, nchecks);
        }
    });
    mj::Value s = hz::rec("stat"); s.set("cases", (int64_t)ncases); s.set("checks", (int64_t)nchecks); hz::emit(s);
    return 0;
}
