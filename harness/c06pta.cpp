// C06 conformance harness, "string references next to typed arrays" family (spec/gen/MC_C06pta.tla, spec/trace/Trace_C06pta.tla).
// Pushes the named items, inside one array, into the CBOR encoder with pack_strings and use_typed_arrays; records the bytes and what the
// library reads back (per element: the item name for strings / byte strings whose content matches, "arr" for an array of numbers with the
// pushed values, "?" otherwise).  No verdict here: Trace_C06pta judges both the bytes (reference decoder) and the read-back.
#include "harness.hpp"
#include "binval.hpp"
#include <jsoncons/json.hpp>
#include <jsoncons_ext/cbor/cbor.hpp>
using namespace jsoncons;

int main(int argc, char** argv) {
    auto args = hz::parse_args(argc, argv);
    long ncases = 0;
    static const uint16_t U16[] = {1, 2, 3, 4}; static const double F64[] = {1.0}; static const uint8_t U8[] = {1, 2, 3};
    const std::vector<uint8_t> B1{'c', 'c', 'c', 'c'};
    hz::for_each_case(args, [&](size_t idx, const std::string& line) {
        mj::Value c = mj::parse(line); ++ncases;
        for (int pass = 0; pass < 2; ++pass) {      // pass 1: the same items written again by the same encoder after reset(new sink)
        mj::Value t = hz::rec("trace"); t.set("idx", (int64_t)(idx * 2 + pass)); t.set("items", c["items"]); t.set("reset", pass == 1);
        std::vector<uint8_t> first, out; std::string err; bool ok = true;
        try {
            cbor::cbor_options op; op.pack_strings(true).use_typed_arrays(true);
            cbor::cbor_bytes_encoder e(pass == 0 ? out : first, op);
            if (pass == 1) { e.begin_array(2); e.string_value("aaaa"); e.string_value("aaaa"); e.end_array(); e.flush(); e.reset(out); }
            e.begin_array(c["items"].size());
            for (size_t i = 0; i < c["items"].size(); ++i) {
                const std::string& n = c["items"][i].str();
                if (n == "s1") e.string_value("aaaa"); else if (n == "s2") e.string_value("bbbbb"); else if (n == "short") e.string_value("z");
                else if (n == "b1") e.byte_string_value(B1);
                else if (n == "u16") e.typed_array(jsoncons::span<const uint16_t>(U16, 4));
                else if (n == "f64") e.typed_array(jsoncons::span<const double>(F64, 1));
                else e.typed_array(jsoncons::span<const uint8_t>(U8, 3));
            }
            e.end_array(); e.flush();
        } catch (const std::exception& ex) { ok = false; err = ex.what(); }
        t.set("enc", ok ? "ok" : "err"); t.set("err", err); t.set("bytes", bv::raw((const char*)out.data(), out.size()));
        mj::Value back = mj::Value::array(); std::string dec = "ok";
        try {
            json j = cbor::decode_cbor<json>(out);
            if (!j.is_array()) dec = "not-array";
            else for (const auto& x : j.array_range()) {
                std::string k = "?";
                if (x.is_string()) { auto s = x.as<std::string>(); k = s == "aaaa" ? "s1" : s == "bbbbb" ? "s2" : s == "z" ? "short" : "?"; }
                else if (x.is_byte_string()) { auto v = x.as_byte_string_view(); k = (v.size() == 4 && v[0] == 'c' && v[3] == 'c') ? "b1" : "?"; }
                else if (x.is_array()) { bool good = x.size() >= 1; for (const auto& y : x.array_range()) good = good && y.is_number(); k = good ? "arr" : "?"; }
                back.push(k);
            }
        } catch (const std::exception& ex) { dec = ex.what(); }
        t.set("dec", dec); t.set("back", back);
        hz::emit(t);
        }
    });
    mj::Value s = hz::rec("stat"); s.set("cases", (int64_t)ncases); hz::emit(s);
    return 0;
}
