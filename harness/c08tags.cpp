// C08 "tagged events" family - conformance harness (V binding), recording only (no oracle logic here).
//
// Case (one JSON object per line, produced by spec/gen/MC_C08tags.tla):
//   {"ev": [event..], "v": value, "right": bool, "dev": [names]}
// events: ["ba",n] ["bo",n] (n = -1: length not declared) ["ea"] ["eo"] ["key",bytes] ["bmd",order,shape] ["emd"] ["val",X] with X =
//   ["uint",be] ["nint",be] ["tstr",bytes] ["bstr",bytes] ["null"] ["bool",b] ["f64",b8] ["f16",b2]      untagged scalar events
//   ["tagged",tag,base]      the same events carrying a semantic_tag (base = tstr | bstr | uint | nint | f64 | f16)
//   ["ext",tagbe,bytes]      byte_string_value(bytes, uint64_t raw_tag)
//   ["ta",et,[be-bits..]]    typed_array(span<const T>) / typed_array(half_arg, span<const uint16_t>)
// Every sequence is pushed through the visitor interface into each encoder exactly as harness/c08.cpp does; one trace line per
// (sequence, encoder):  {k:"trace", idx, enc, ev, v, right, dev, out: ok|err|foreign, err, bytes}
//   out = err      the encoder reported an error (ser_error, or another jsoncons exception that is not an assertion)
//   out = foreign  an assertion_error or an exception that is not a jsoncons exception escaped
// Encoders: json (compact), jsonpretty, cbor, cborpacked (pack_strings), cborta (use_typed_arrays; only for sequences with
// typed_array / multi_dim events), msgpack, ubjson, bson.  spec/trace/Trace_C08tags.tla judges the lines.
#include "harness.hpp"
#include "binval.hpp"
#include <jsoncons/json.hpp>
#include <jsoncons_ext/cbor/cbor.hpp>
#include <jsoncons_ext/msgpack/msgpack.hpp>
#include <jsoncons_ext/ubjson/ubjson.hpp>
#include <jsoncons_ext/bson/bson.hpp>
using namespace jsoncons;

static semantic_tag tag_of(const std::string& s) {
    static const std::pair<const char*, semantic_tag> all[] = {{"none", semantic_tag::none}, {"bigint", semantic_tag::bigint}, {"bigdec", semantic_tag::bigdec},
        {"bigfloat", semantic_tag::bigfloat}, {"datetime", semantic_tag::datetime}, {"epoch_second", semantic_tag::epoch_second}, {"epoch_milli", semantic_tag::epoch_milli},
        {"epoch_nano", semantic_tag::epoch_nano}, {"base16", semantic_tag::base16}, {"base64", semantic_tag::base64}, {"base64url", semantic_tag::base64url}, {"uri", semantic_tag::uri}};
    for (auto& p : all) if (s == p.first) return p.second;
    throw std::runtime_error("c08tags: unknown tag " + s);
}
static uint64_t be_u64(const mj::Value& bs) { uint64_t u = 0; if (!bv::be_to_u64(bs, u)) throw std::runtime_error("c08tags: integer wider than 64 bits"); return u; }

template <class T, class Visitor>
static void push_ta(Visitor& enc, const mj::Value& el) {
    std::vector<T> v;
    for (auto& e : el.a) { uint64_t u = be_u64(e); typename std::make_unsigned<T>::type raw = (typename std::make_unsigned<T>::type)u; T x; memcpy(&x, &raw, sizeof x); v.push_back(x); }
    enc.typed_array(jsoncons::span<const T>(v.data(), v.size()));
}
template <class Visitor>
static void push_typed_array(Visitor& enc, const std::string& et, const mj::Value& el) {
    if (et == "u8") push_ta<uint8_t>(enc, el); else if (et == "u16") push_ta<uint16_t>(enc, el); else if (et == "u32") push_ta<uint32_t>(enc, el); else if (et == "u64") push_ta<uint64_t>(enc, el);
    else if (et == "i8") push_ta<int8_t>(enc, el); else if (et == "i16") push_ta<int16_t>(enc, el); else if (et == "i32") push_ta<int32_t>(enc, el); else if (et == "i64") push_ta<int64_t>(enc, el);
    else if (et == "half") { std::vector<uint16_t> v; for (auto& e : el.a) v.push_back((uint16_t)be_u64(e)); enc.typed_array(half_arg, jsoncons::span<const uint16_t>(v.data(), v.size())); }
    else if (et == "f32") { std::vector<float> v; for (auto& e : el.a) { uint32_t u = (uint32_t)be_u64(e); float f; memcpy(&f, &u, 4); v.push_back(f); } enc.typed_array(jsoncons::span<const float>(v.data(), v.size())); }
    else if (et == "f64") { std::vector<double> v; for (auto& e : el.a) { uint64_t u = be_u64(e); double d; memcpy(&d, &u, 8); v.push_back(d); } enc.typed_array(jsoncons::span<const double>(v.data(), v.size())); }
    else throw std::runtime_error("c08tags: unknown element type " + et);
}

template <class Visitor>
static void push_scalar(Visitor& enc, const mj::Value& v, semantic_tag t) {
    const std::string& vk = v[0].str();
    if (vk == "uint") enc.uint64_value(be_u64(v[1]), t);
    else if (vk == "nint") enc.int64_value((int64_t)(-1 - (int64_t)be_u64(v[1])), t);
    else if (vk == "tstr") { auto b = bv::bytes_of(v[1]); enc.string_value(std::string((const char*)b.data(), b.size()), t); }
    else if (vk == "bstr") { auto b = bv::bytes_of(v[1]); enc.byte_string_value(b, t); }
    else if (vk == "null") enc.null_value(t);
    else if (vk == "bool") enc.bool_value(v[1].as_bool(), t);
    else if (vk == "f64") { uint64_t u = be_u64(v[1]); double d; memcpy(&d, &u, 8); enc.double_value(d, t); }
    else if (vk == "f16") enc.half_value((uint16_t)be_u64(v[1]), t);
    else throw std::runtime_error("c08tags: unknown scalar kind " + vk);
}

template <class Visitor>
static void push(Visitor& enc, const mj::Value& evs) {
    for (auto& e : evs.a) {
        const std::string& k = e[0].str();
        if (k == "ba") { long n = (long)e[1].as_int(); if (n < 0) enc.begin_array(); else enc.begin_array((size_t)n); }
        else if (k == "bo") { long n = (long)e[1].as_int(); if (n < 0) enc.begin_object(); else enc.begin_object((size_t)n); }
        else if (k == "ea") enc.end_array();
        else if (k == "eo") enc.end_object();
        else if (k == "key") { auto b = bv::bytes_of(e[1]); enc.key(std::string((const char*)b.data(), b.size())); }
        else if (k == "bmd") {
            std::vector<size_t> shape; for (auto& x : e[2].a) shape.push_back((size_t)x.as_int());
            enc.begin_multi_dim(jsoncons::span<const size_t>(shape.data(), shape.size()), e[1].str() == "col" ? semantic_tag::multi_dim_column_major : semantic_tag::multi_dim_row_major);
        }
        else if (k == "emd") enc.end_multi_dim();
        else if (k == "val") {
            const mj::Value& v = e[1]; const std::string& vk = v[0].str();
            if (vk == "tagged") push_scalar(enc, v[2], tag_of(v[1].str()));
            else if (vk == "ext") { auto b = bv::bytes_of(v[2]); enc.byte_string_value(b, be_u64(v[1])); }
            else if (vk == "ta") push_typed_array(enc, v[1].str(), v[2]);
            else push_scalar(enc, v, semantic_tag::none);
        }
        else throw std::runtime_error("c08tags: unknown event " + k);
    }
    enc.flush();
}

template <class MakeAndPush>
static void one(size_t idx, const mj::Value& c, const char* name, MakeAndPush f) {
    mj::Value t = hz::rec("trace"); t.set("idx", (int64_t)idx); t.set("enc", name); t.set("ev", c["ev"]); t.set("v", c["v"]); t.set("right", c["right"]);
    t.set("dev", c.has("dev") ? c["dev"] : mj::Value::array());
    std::vector<uint8_t> out; const char* res = "ok"; std::string err;
    try { f(out); }
    catch (const ser_error& e) { res = "err"; err = e.code().message(); }
    catch (const assertion_error& e) { res = "foreign"; err = std::string("assertion_error: ") + e.what(); }
    catch (const json_exception& e) { res = "err"; err = e.what(); }
    catch (const std::exception& e) { res = "foreign"; err = std::string(typeid(e).name()) + ": " + e.what(); }
    t.set("out", res); t.set("err", err); t.set("bytes", bv::raw(out.data(), out.size()));
    hz::emit(t);
}

int main(int argc, char** argv) {
    auto args = hz::parse_args(argc, argv);
    std::string only = args.opt("--encoder", "");
    long ncases = 0;
    hz::for_each_case(args, [&](size_t idx, const std::string& line) {
        mj::Value c = mj::parse(line); ++ncases;
        bool arrays = false;
        for (auto& e : c["ev"].a) if (e[0].str() == "bmd" || (e[0].str() == "val" && e[1][0].str() == "ta")) arrays = true;
        auto want = [&](const char* n) { return only.empty() || only == n; };
        if (want("json")) one(idx, c, "json", [&](std::vector<uint8_t>& o) { std::string s; compact_json_string_encoder e(s); push(e, c["ev"]); o.assign(s.begin(), s.end()); });
        if (want("jsonpretty")) one(idx, c, "jsonpretty", [&](std::vector<uint8_t>& o) { std::string s; json_string_encoder e(s); push(e, c["ev"]); o.assign(s.begin(), s.end()); });
        if (want("cbor")) one(idx, c, "cbor", [&](std::vector<uint8_t>& o) { cbor::cbor_bytes_encoder e(o); push(e, c["ev"]); });
        if (want("cborpacked")) one(idx, c, "cborpacked", [&](std::vector<uint8_t>& o) { cbor::cbor_options op; op.pack_strings(true); cbor::cbor_bytes_encoder e(o, op); push(e, c["ev"]); });
        if (arrays && want("cborta")) one(idx, c, "cborta", [&](std::vector<uint8_t>& o) { cbor::cbor_options op; op.use_typed_arrays(true); cbor::cbor_bytes_encoder e(o, op); push(e, c["ev"]); });
        if (want("msgpack")) one(idx, c, "msgpack", [&](std::vector<uint8_t>& o) { msgpack::msgpack_bytes_encoder e(o); push(e, c["ev"]); });
        if (want("ubjson")) one(idx, c, "ubjson", [&](std::vector<uint8_t>& o) { ubjson::ubjson_bytes_encoder e(o); push(e, c["ev"]); });
        if (want("bson")) one(idx, c, "bson", [&](std::vector<uint8_t>& o) { bson::bson_bytes_encoder e(o); push(e, c["ev"]); });
    });
    mj::Value s = hz::rec("stat"); s.set("cases", (int64_t)ncases); hz::emit(s);
    return 0;
}
