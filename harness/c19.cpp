// C19 conformance harness (V binding): allocation-failure sweep.
// For every (scenario, input) from TLC and every n in 1..N (N = allocations of the operation in a
// dry run) one forked child runs the scenario with the n-th allocation of the OPERATION WINDOW
// failing (one-shot std::bad_alloc), and records AllocLedger events (Reset, Alloc, Free, Begin,
// Fail, End, Probe, Destroyed).  The parent prints the events as trace lines; a child that dies
// contributes a Crash event, for which the specification has no action.
// Injection discipline (DESIGN section 5/C19): the window is the operation itself; it is disarmed
// before results or survivors are probed/destroyed (destructors may allocate by design).
#include "harness.hpp"
#include "jconv.hpp"
#include <jsoncons/json.hpp>
#include <jsoncons_ext/cbor/cbor.hpp>
#include <jsoncons_ext/msgpack/msgpack.hpp>
#include <jsoncons_ext/ubjson/ubjson.hpp>
#include <jsoncons_ext/bson/bson.hpp>
#include <jsoncons_ext/jsonpath/jsonpath.hpp>
#include <jsoncons_ext/jmespath/jmespath.hpp>
#include <jsoncons_ext/jsonpointer/jsonpointer.hpp>
#include <jsoncons_ext/jsonpatch/jsonpatch.hpp>
#include <jsoncons_ext/jsonschema/jsonschema.hpp>
#include <jsoncons_ext/mergepatch/mergepatch.hpp>
#include <jsoncons_ext/csv/csv.hpp>
#include <jsoncons_ext/toon/encode_toon.hpp>
#include <jsoncons_ext/toon/decode_toon.hpp>
#include <map>
#include <scoped_allocator>
#include <optional>
#include <sys/wait.h>
#include <unistd.h>
using namespace jsoncons;

// ------------------------------------------------------------------ event log (no allocation inside)
struct Ev { char type; uint32_t id, size; int al; };
static Ev g_ev[400000]; static size_t g_nev = 0;
static bool g_logging = false, g_armed = false; static long g_countdown = 0; static long g_op_allocs = 0; static bool g_inop = false;
static struct { void* p; uint32_t id; } g_tab[1 << 17]; static uint32_t g_next_id = 1;
static void logev(char t, uint32_t id, uint32_t size, int al) { if (g_nev < sizeof g_ev / sizeof g_ev[0]) g_ev[g_nev++] = Ev{t, id, size, al}; }
static uint32_t id_new(void* p) { size_t h = ((size_t)p >> 4) & ((1 << 17) - 1); while (g_tab[h].p && g_tab[h].p != (void*)1) h = (h + 1) & ((1 << 17) - 1); g_tab[h].p = p; g_tab[h].id = g_next_id++; return g_tab[h].id; }
static uint32_t id_del(void* p) { size_t h = ((size_t)p >> 4) & ((1 << 17) - 1); for (size_t k = 0; k < (1u << 17) && g_tab[h].p; ++k, h = (h + 1) & ((1 << 17) - 1)) if (g_tab[h].p == p) { g_tab[h].p = (void*)1; return g_tab[h].id; } return 0; }
static void maybe_fail() {
#if defined(JSONCONS_VERIF_HAS_DESTROY_SCOPE)
    if (jsoncons::verif::destroy_depth() > 0) return;     // allocations made by destructors are outside C19 (DESIGN 5/C19)
#endif
    if (g_inop) ++g_op_allocs;
    if (g_armed && --g_countdown == 0) { g_armed = false; logev('X', 0, 0, 0); throw std::bad_alloc(); }
}
static void* track_alloc(std::size_t n, int al) {
    maybe_fail();
    void* p = malloc(n + 16); if (!p) throw std::bad_alloc(); *(std::size_t*)p = n; void* q = (char*)p + 16;
    if (g_logging) logev('A', id_new(q), (uint32_t)n, al);
    return q;
}
static void track_free(void* q, long size_hint, int al) {
    if (!q) return; char* p = (char*)q - 16; std::size_t n = *(std::size_t*)p;
    if (g_logging) logev('F', id_del(q), (uint32_t)(size_hint >= 0 ? (std::size_t)size_hint : n), al);
    free(p);
}
void* operator new(std::size_t n) { return track_alloc(n, 0); }
void* operator new[](std::size_t n) { return track_alloc(n, 0); }
void operator delete(void* p) noexcept { track_free(p, -1, 0); }
void operator delete[](void* p) noexcept { track_free(p, -1, 0); }
void operator delete(void* p, std::size_t n) noexcept { track_free(p, (long)n, 0); }
void operator delete[](void* p, std::size_t n) noexcept { track_free(p, (long)n, 0); }

// stateful tracking allocator: blocks must come back to an EQUAL allocator with the requested size
template <class T> struct TrackAlloc {
    using value_type = T; int id;
    using propagate_on_container_copy_assignment = std::false_type; using propagate_on_container_move_assignment = std::true_type; using propagate_on_container_swap = std::true_type;
    using is_always_equal = std::false_type;
    TrackAlloc() = delete;
    explicit TrackAlloc(int i) noexcept : id(i) {}
    template <class U> TrackAlloc(const TrackAlloc<U>& o) noexcept : id(o.id) {}
    T* allocate(std::size_t n) { maybe_fail(); void* p = malloc(n * sizeof(T) + 16); if (!p) throw std::bad_alloc(); void* q = (char*)p + 16; if (g_logging) logev('A', id_new(q), (uint32_t)(n * sizeof(T)), id); return (T*)q; }
    void deallocate(T* q, std::size_t n) noexcept { if (g_logging) logev('F', id_del((void*)q), (uint32_t)(n * sizeof(T)), id); free((char*)q - 16); }
    template <class U> bool operator==(const TrackAlloc<U>& o) const noexcept { return id == o.id; }
    template <class U> bool operator!=(const TrackAlloc<U>& o) const noexcept { return id != o.id; }
};
using SAlloc = std::scoped_allocator_adaptor<TrackAlloc<char>>;
using sjson = basic_json<char, sorted_policy, SAlloc>;

// ------------------------------------------------------------------ scenarios
struct Result { std::string out = "ok"; bool usable = true, same = true, strong = false; };
template <class Op> static void window(long n, Result& r, Op op) {
    logev('B', 0, 0, 0); g_inop = true; g_op_allocs = 0; if (n > 0) { g_countdown = n; g_armed = true; }
    try { op(); } catch (const std::bad_alloc&) { r.out = "bad_alloc"; } catch (const std::exception&) { r.out = "other-exception"; } catch (...) { r.out = "unknown-exception"; }
    g_armed = false; g_inop = false;
}
template <class J> static bool usable(const J& j) { try { std::string s; j.dump(s); return !s.empty(); } catch (...) { return false; } }

using sojson = basic_json<char, order_preserving_policy, SAlloc>;
// scenarios with a stateful (tracking) allocator, for the sorted and the insertion-ordered container: blocks must go back to an EQUAL allocator
template <class SJ, class R> static void stateful_scn(const std::string& what, const std::string& text, long n, R& r) {
    SAlloc al1(TrackAlloc<char>(1)), al2(TrackAlloc<char>(2));
    auto mk = [&](const SAlloc& al) { SJ j(json_array_arg, al); for (int i = 0; i < 3; ++i) j.push_back(SJ("a long string value 0123456789 " + std::to_string(i), al)); SJ o(json_object_arg, al); o.try_emplace("k", SJ(text.substr(0, 40), al)); o.try_emplace("m", SJ(json_object_arg, al)); j.push_back(std::move(o)); return j; };
    if (what == "parse") { std::optional<SJ> res; window(n, r, [&] { json_decoder<SJ, SAlloc> dec(al1, al1); basic_json_reader<char, string_source<char>, SAlloc> rd(text, dec, al1); rd.read(); res.emplace(dec.get_result()); }); }
    else if (what == "copy") { SJ a = mk(al1); std::optional<SJ> b, c2, c3; window(n, r, [&] { b.emplace(a); c2.emplace(a, al2); c3.emplace(a[3], al2); }); r.usable = usable(a); }
    else if (what == "assign") { SJ a = mk(al1); SJ b = mk(al2); std::optional<SJ> t; window(n, r, [&] { b = a; t.emplace(mk(al2)); a = std::move(*t); SJ scalar(7); scalar = b[3]; }); r.usable = usable(a) && usable(b); }
    else { SJ a = mk(al1); SJ b = mk(al2); window(n, r, [&] { a.push_back(b); a.insert(a.array_range().begin(), b); a[4].insert_or_assign("another long member name 0123456789", b); a.swap(b); }); r.usable = usable(a) && usable(b); }
}
// the same with wide characters: a block holding wchar_t text must go back with the size in BYTES it was requested with
using swjson = basic_json<wchar_t, sorted_policy, SAlloc>;
template <class R> static void stateful_w(const std::string& what, long n, R& r) {
    SAlloc al1(TrackAlloc<char>(1)), al2(TrackAlloc<char>(2));
    auto mk = [&](const SAlloc& al) { swjson j(json_array_arg, al); for (int i = 0; i < 3; ++i) j.push_back(swjson(std::wstring(L"a long wide string value 0123456789 ") + std::to_wstring(i), al));
                                      swjson o(json_object_arg, al); o.try_emplace(L"a long wide member name 0123456789", swjson(std::wstring(41, L'w'), al)); j.push_back(std::move(o)); return j; };
    auto ok = [](const swjson& j) { try { std::wstring t; j.dump(t); return !t.empty(); } catch (...) { return false; } };
    if (what == "copy") { swjson a = mk(al1); std::optional<swjson> b, c2, c3; window(n, r, [&] { b.emplace(a); c2.emplace(a, al2); c3.emplace(a[3], al2); }); r.usable = ok(a); }
    else if (what == "assign") { swjson a = mk(al1); swjson b = mk(al2); std::optional<swjson> t; window(n, r, [&] { b = a; t.emplace(mk(al2)); a = std::move(*t); swjson scalar(7); scalar = b[3]; }); r.usable = ok(a) && ok(b); }
    else { swjson a = mk(al1); swjson b = mk(al2); window(n, r, [&] { a.push_back(b); a.insert(a.array_range().begin(), b); a[4].insert_or_assign(L"another long wide member name 0123456789", b); a.swap(b); }); r.usable = ok(a) && ok(b); }
}
static void run_scenario(const mj::Value& c, long n, bool log = true) {
    const std::string scn = c["scn"].str(); std::string text = jc::units_to_string(c["text"]);
    Result r;
    g_logging = log; logev('R', 0, 0, 0);
    {
        if (scn == "parse") { std::optional<json> res; window(n, r, [&] { res.emplace(json::parse(text)); }); }
        else if (scn == "parse-assign") { json j = json::parse("[\"an existing long string value 0123456789\"]"); json j0 = j; window(n, r, [&] { j = json::parse(text); }); r.usable = usable(j); }
        else if (scn == "copy") { json a = json::parse(text); std::optional<json> res; window(n, r, [&] { res.emplace(a); }); r.usable = usable(a); }
        else if (scn == "copy-assign") { json a = json::parse(text); json b = json::parse("{\"x\":[1,2,3],\"y\":\"an existing long string value 0123456789\"}"); window(n, r, [&] { b = a; }); r.usable = usable(a) && usable(b); }
        else if (scn == "assign-kind") {
            auto mkk = [&](const std::string& k) -> json {
                if (k == "sstr") return json("short"); if (k == "lstr") return json("a long string value 0123456789 abcdefghij");
                if (k == "bstr") return json(byte_string_arg, std::vector<uint8_t>(40, 7)); if (k == "bstr2") return json(byte_string_arg, std::vector<uint8_t>(90, 9), semantic_tag::base64);
                if (k == "arr") return json::parse("[1,\"a long string value 0123456789\",[2]]"); if (k == "obj") return json::parse("{\"k\":\"a long string value 0123456789\",\"l\":[1]}");
                if (k == "tagged") return json("123456789012345678901234567890", semantic_tag::bigint); return json(42); };
            const std::string pair = c["doc"].str(); size_t p = pair.find("<-"); json dst = mkk(pair.substr(0, p)); json src = mkk(pair.substr(p + 2)); json src0 = src; json dst2 = dst;
            std::optional<json> t;
            window(n, r, [&] { dst = src; t.emplace(src); dst2 = std::move(*t); });
            r.usable = usable(dst) && usable(src) && usable(dst2) && (src == src0); }
        else if (scn == "move-assign") { json a = json::parse(text); json b = json::parse("[1,2,3]"); std::optional<json> t; window(n, r, [&] { t.emplace(a); b = std::move(*t); }); r.usable = usable(a) && usable(b); }
        else if (scn == "push_back") { json a = json::parse(text); json arr(json_array_arg); window(n, r, [&] { for (int i = 0; i < 9; ++i) arr.push_back(a); }); r.usable = usable(arr) && usable(a); }
        else if (scn == "insert_or_assign") { json a = json::parse(text); json o(json_object_arg); window(n, r, [&] { for (int i = 0; i < 6; ++i) o.insert_or_assign("a long member name number " + std::to_string(i), a); o.insert_or_assign("a long member name number 2", a); }); r.usable = usable(o) && usable(a); }
        else if (scn == "erase-insert") { json a = json::parse(text); json arr = json::parse("[1,2,3,4]"); window(n, r, [&] { arr.erase(arr.array_range().begin()); arr.insert(arr.array_range().begin() + 1, a); arr.resize(7); }); r.usable = usable(arr); }
        else if (scn == "merge") { json a = json::parse("{\"k1\":\"a long string value 0123456789\",\"k2\":[1,2]}"); json b = json::parse("{\"k2\":1,\"k3\":{\"z\":\"another long string value 0123456789\"}}"); json src = json::parse(text); window(n, r, [&] { a.merge(b); a.merge_or_update(b); a.try_emplace("src", src); }); r.usable = usable(a) && usable(b); }
        else if (scn == "dump") { json a = json::parse(text); std::string s; window(n, r, [&] { a.dump(s); }); r.usable = usable(a); }
        else if (scn == "dump-pretty") { json a = json::parse(text); std::string s; window(n, r, [&] { a.dump_pretty(s); }); r.usable = usable(a); }
        else if (scn == "cbor-roundtrip") { json a = json::parse(text); std::vector<uint8_t> b; std::optional<json> back; window(n, r, [&] { cbor::encode_cbor(a, b); back.emplace(cbor::decode_cbor<json>(b)); }); r.usable = usable(a); }
        else if (scn == "msgpack-roundtrip") { json a = json::parse(text); std::vector<uint8_t> b; std::optional<json> back; window(n, r, [&] { msgpack::encode_msgpack(a, b); back.emplace(msgpack::decode_msgpack<json>(b)); }); r.usable = usable(a); }
        else if (scn == "ubjson-roundtrip") { json a = json::parse(text); std::vector<uint8_t> b; std::optional<json> back; window(n, r, [&] { ubjson::encode_ubjson(a, b); back.emplace(ubjson::decode_ubjson<json>(b)); }); r.usable = usable(a); }
        else if (scn == "bson-roundtrip") { json a(json_object_arg); a.try_emplace("doc", json::parse(text)); std::vector<uint8_t> b; std::optional<json> back; window(n, r, [&] { bson::encode_bson(a, b); back.emplace(bson::decode_bson<json>(b)); }); r.usable = usable(a); }
        else if (scn == "jsonpath") { json a = json::parse(text); json a0 = a; std::optional<json> res, res2; window(n, r, [&] { res.emplace(jsonpath::json_query(a, "$..*")); res2.emplace(jsonpath::json_query(a, "$..[?(@.price < 10)].title")); }); r.usable = usable(a); r.same = (a == a0); r.strong = true; }
        else if (scn == "jmespath") { json a = json::parse(text); json a0 = a; std::optional<json> res, res2; window(n, r, [&] { res.emplace(jmespath::search(a, "[*] | [0]")); res2.emplace(jmespath::search(a, "[type(@), length(@), to_array(@)[0]]")); }); r.usable = usable(a); r.same = (a == a0); r.strong = true; }
        else if (scn == "pointer-add") { json a = json::parse(text); json v = json::parse("{\"n\":\"a long string value 0123456789\"}"); window(n, r, [&] { std::error_code ec; jsonpointer::add(a, "/new/path/leaf", v, true, ec); jsonpointer::add(a, "/0", v, ec); jsonpointer::replace(a, "/new", v, true, ec); }); r.usable = usable(a); }
        else if (scn == "flatten") { json a = json::parse(text); std::optional<json> f, u; window(n, r, [&] { f.emplace(jsonpointer::flatten(a)); u.emplace(jsonpointer::unflatten(*f)); }); r.usable = usable(a); }
        else if (scn == "compare") { json a = json::parse(text); json b = a; bool eq = false; window(n, r, [&] { eq = (a == b) && !(a < b); }); r.usable = usable(a) && usable(b); if (r.out == "ok" && !eq) r.usable = false; }
        else if (scn == "patch") { json doc = json::parse(text); json doc0 = doc; json patch = json::parse(jc::units_to_string(c["patch"])); std::error_code ec;
            window(n, r, [&] { jsonpatch::apply_patch(doc, patch, ec); }); r.usable = usable(doc); r.strong = true; r.same = (r.out == "ok" && !ec) ? true : (doc == doc0); }
        else if (scn == "schema") { json schema = json::parse("{\"type\":\"object\",\"properties\":{\"a\":{\"type\":\"array\",\"items\":{\"anyOf\":[{\"type\":\"integer\"},{\"$ref\":\"#/$defs/o\"}]}},\"c\":{\"type\":\"string\",\"minLength\":3}},\"required\":[\"a\"],\"$defs\":{\"o\":{\"type\":\"object\",\"additionalProperties\":{\"type\":\"string\"}}}}");
            json inst = json::parse(text); std::optional<jsonschema::json_schema<json>> compiled; window(n, r, [&] { compiled.emplace(jsonschema::make_json_schema(schema)); bool v = compiled->is_valid(inst); (void)v; }); r.usable = usable(schema) && usable(inst); }
        else if (scn == "merge-rvalue") {     // rvalue and hinted overloads; members present in both objects with heap-allocated values
            json a = json::parse("{\"k1\":\"a long string value 0123456789\",\"k2\":[1,2],\"k5\":{\"y\":\"yet another long string value 0123456789\"}}");
            json b = json::parse("{\"k1\":\"a different long string value 0123456789\",\"k2\":{\"w\":[1,2,3]},\"k3\":{\"z\":\"another long string value 0123456789\"},\"k5\":\"short\"}"); json src = json::parse(text);
            std::optional<json> t1, t2, t3;
            window(n, r, [&] { t1.emplace(b); a.merge_or_update(std::move(*t1)); t2.emplace(b); a.merge(std::move(*t2)); a.merge(a.object_range().begin(), b); t3.emplace(b); a.merge_or_update(a.object_range().begin() + 1, std::move(*t3)); a.try_emplace(a.object_range().begin(), "src", src); });
            r.usable = usable(a) && usable(b); }
        else if (scn == "ojson-ops") {        // the insertion-ordered container through the same operations
            ojson a = ojson::parse(text); ojson o = ojson::parse("{\"k1\":\"a long string value 0123456789\",\"k2\":[1,2]}"); ojson b = ojson::parse("{\"k2\":{\"w\":\"another long string value 0123456789\"},\"k3\":[3]}");
            std::optional<ojson> cp, t1;
            window(n, r, [&] { cp.emplace(a); o.insert_or_assign("a long member name number 1", a); o.merge(b); t1.emplace(b); o.merge_or_update(std::move(*t1)); o.try_emplace("k9", a); o.erase("k1"); ojson x; x = o; std::string s; x.dump(s); });
            r.usable = usable(a) && usable(o) && usable(b); }
        else if (scn == "mergepatch") { json a = json::parse(text); json p = json::parse("{\"k1\":null,\"k2\":{\"w\":\"another long string value 0123456789\",\"v\":null},\"a long member name number 1\":[1,2,3]}"); json p0 = p;
            window(n, r, [&] { mergepatch::apply_merge_patch(a, p); }); r.usable = usable(a) && usable(p) && (p == p0); }
        else if (scn == "diffs") { json a = json::parse(text); json b = json::parse("{\"k1\":\"a long string value 0123456789\",\"k2\":[1,{\"z\":\"another long string value 0123456789\"},3]}"); json a0 = a, b0 = b; std::optional<json> d1, d2;
            window(n, r, [&] { d1.emplace(mergepatch::from_diff(a, b)); d2.emplace(jsonpatch::from_diff(a, b)); }); r.usable = usable(a) && usable(b); r.same = (a == a0) && (b == b0); r.strong = true; }
        else if (scn == "jsonpath-replace") { json a = json::parse(text); window(n, r, [&] { jsonpath::json_replace(a, "$..*", std::string("a replacement long string value 0123456789")); auto ex = jsonpath::make_expression<json>("$[*]"); ex.update(a, [](const jsonpath::path_node&, json& v) { v = json(json_array_arg); }); }); r.usable = usable(a); }
        else if (scn == "csv-roundtrip") { json t = json::parse("[[\"a long column name 0123456789\",\"b\"],[\"a long field value, with a comma 0123456789\",1.5],[\"x\",null]]"); std::string s; std::optional<json> back; std::optional<ojson> rows;
            window(n, r, [&] { csv::encode_csv(t, s); back.emplace(csv::decode_csv<json>(s, csv::csv_options{}.mapping_kind(csv::csv_mapping_kind::n_rows))); rows.emplace(csv::decode_csv<ojson>(s, csv::csv_options{}.assume_header(true))); }); r.usable = usable(t); }
        else if (scn == "toon-roundtrip") { json a = json::parse("{\"a\":[1,2,3],\"b\":{\"c\":\"a long string value, with a comma 0123456789\"},\"rows\":[{\"k\":1,\"m\":\"a long string value 0123456789\"},{\"k\":2,\"m\":\"t\"}],\"l\":[1,\"x\",{\"k\":true}]}"); std::string s; std::optional<json> back; window(n, r, [&] { toon::encode_toon(a, s); back.emplace(toon::decode_toon<json>(s)); }); r.usable = usable(a); }
        else if (scn == "typed") { std::map<std::string, std::vector<std::string>> m{{"a long member name number 1", {"a long string value 0123456789", "b"}}, {"k", {}}}; std::string s; std::vector<uint8_t> b;
            std::optional<std::map<std::string, std::vector<std::string>>> m2, m3; std::optional<std::vector<std::pair<std::string, json>>> kv;
            window(n, r, [&] { encode_json(m, s); m2.emplace(decode_json<std::map<std::string, std::vector<std::string>>>(s)); cbor::encode_cbor(m, b); m3.emplace(cbor::decode_cbor<std::map<std::string, std::vector<std::string>>>(b)); json j(m); auto v = j.as<std::map<std::string, std::vector<std::string>>>(); (void)v; });
            r.usable = m.size() == 2; }
        else if (scn == "cursor") { std::optional<json> got; window(n, r, [&] { json_string_cursor cur(text); json_decoder<json> dec; cur.read_to(dec); got.emplace(dec.get_result());
                                    json_string_cursor c2(text); size_t k = 0; for (; !c2.done(); c2.next()) { if (c2.current().event_type() == staj_event_type::string_value) k += c2.current().get<std::string>().size(); } (void)k; }); }
        else if (scn == "sort-erase") { json a = json::parse("[\"a long string value 3 0123456789\",\"a long string value 1 0123456789\",[3,2,1],{\"k\":\"a long string value 2 0123456789\"},2,1]"); json src = json::parse(text);
            window(n, r, [&] { a.push_back(src); std::sort(a.array_range().begin(), a.array_range().end()); a.erase(a.array_range().begin(), a.array_range().begin() + 2); a.insert(a.array_range().end(), src); json o = json::parse("{\"b\":1,\"a\":2}"); o.erase(o.object_range().begin(), o.object_range().end()); }); r.usable = usable(a) && usable(src); }
        else if (scn.rfind("stateful-w-", 0) == 0) { stateful_w(scn.substr(11), n, r); }
        else if (scn.rfind("stateful-o-", 0) == 0) { stateful_scn<sojson>(scn.substr(11), text, n, r); }
        else if (scn.rfind("stateful-", 0) == 0) { stateful_scn<sjson>(scn.substr(9), text, n, r); }
        logev('E', r.out == "ok" ? 0 : r.out == "bad_alloc" ? 1 : 2, 0, 0);
        logev('P', r.usable, r.same, r.strong);
    }
    logev('D', 0, 0, 0);
    g_logging = false;
}

static void write_events(int fd, long op_allocs) {
    std::string s;
    for (size_t i = 0; i < g_nev; ++i) {
        const Ev& e = g_ev[i]; char buf[160];
        switch (e.type) {
            case 'R': snprintf(buf, sizeof buf, "{\"e\":\"Reset\"}\n"); break;
            case 'A': snprintf(buf, sizeof buf, "{\"e\":\"Alloc\",\"id\":%u,\"size\":%u,\"al\":%d}\n", e.id, e.size, e.al); break;
            case 'F': snprintf(buf, sizeof buf, "{\"e\":\"Free\",\"id\":%u,\"size\":%u,\"al\":%d}\n", e.id, e.size, e.al); break;
            case 'B': snprintf(buf, sizeof buf, "{\"e\":\"Begin\"}\n"); break;
            case 'X': snprintf(buf, sizeof buf, "{\"e\":\"Fail\"}\n"); break;
            case 'E': snprintf(buf, sizeof buf, "{\"e\":\"End\",\"out\":\"%s\"}\n", e.id == 0 ? "ok" : e.id == 1 ? "bad_alloc" : "other-exception"); break;
            case 'P': snprintf(buf, sizeof buf, "{\"e\":\"Probe\",\"usable\":%s,\"same\":%s,\"strong\":%s}\n", e.id ? "true" : "false", e.size ? "true" : "false", e.al ? "true" : "false"); break;
            case 'D': snprintf(buf, sizeof buf, "{\"e\":\"Destroyed\"}\n"); break;
            default: buf[0] = 0;
        }
        s += buf;
    }
    s += "#N " + std::to_string(op_allocs) + "\n";
    size_t off = 0; while (off < s.size()) { ssize_t w = write(fd, s.data() + off, s.size() - off); if (w <= 0) break; off += (size_t)w; }
}

// returns trace text of one forked execution; sets op_allocs from the child's report
static int g_last_status = 0;
static std::string forked(const mj::Value& c, long n, long& op_allocs, bool& crashed) {
    int fds[2]; if (pipe(fds) != 0) { crashed = true; return ""; }
    fflush(stdout);
    pid_t pid = fork();
    if (pid == 0) {
        close(fds[0]); alarm(60);
        for (int sg : {SIGSEGV, SIGABRT, SIGFPE, SIGBUS, SIGILL}) signal(sg, SIG_DFL);
        std::set_terminate([] { _exit(7); });
        run_scenario(c, 0, false);       // warm-up: statics (function tables, registries) are set up before the ledger starts
        g_nev = 0; g_next_id = 1; run_scenario(c, n); write_events(fds[1], g_op_allocs); _exit(0);
    }
    close(fds[1]); std::string out; char buf[65536]; ssize_t k;
    while ((k = read(fds[0], buf, sizeof buf)) > 0) out.append(buf, (size_t)k);
    close(fds[0]); int st = 0; waitpid(pid, &st, 0);
    crashed = !(WIFEXITED(st) && WEXITSTATUS(st) == 0);
    g_last_status = WIFEXITED(st) ? WEXITSTATUS(st) : 1000 + WTERMSIG(st);
    size_t p = out.rfind("#N "); op_allocs = -1;
    if (p != std::string::npos) { op_allocs = atol(out.c_str() + p + 3); out.erase(p); }
    return out;
}

int main(int argc, char** argv) {
    auto args = hz::parse_args(argc, argv);
    long maxn = atol(args.opt("--maxn", "400").c_str());
    long single_n = atol(args.opt("--single", "-1").c_str());     // debugging aid: run one execution in-process (no fork)
    long ncases = 0, nexec = 0;
    hz::for_each_case(args, [&](size_t idx, const std::string& line) {
        mj::Value c = mj::parse(line); ++ncases;
        if (single_n >= 0) { for (int sg : {SIGSEGV, SIGABRT, SIGFPE, SIGBUS, SIGILL}) signal(sg, SIG_DFL); std::set_terminate([] { abort(); }); run_scenario(c, single_n); write_events(1, g_op_allocs); return; }
        long N = 0; bool crashed = false;
        std::string dry = forked(c, 0, N, crashed);
        auto emit_exec = [&](long n, const std::string& tr, bool cr) {
            mj::Value t = hz::rec("exec"); t.set("idx", (int64_t)idx); t.set("scn", c["scn"].str()); t.set("doc", c["doc"].str()); t.set("n", (int64_t)n); t.set("crashed", cr); t.set("status", g_last_status); t.set("trace", tr); hz::emit(t); ++nexec;
        };
        emit_exec(0, dry, crashed);
        if (crashed || N <= 0) return;
        long step = N > maxn ? (N + maxn - 1) / maxn : 1;          // thin out very long operations (schema compile) evenly
        for (long n = 1; n <= N; n += step) { long dummy; bool cr = false; std::string tr = forked(c, n, dummy, cr); emit_exec(n, tr, cr); }
    });
    mj::Value s = hz::rec("stat"); s.set("cases", (int64_t)ncases); s.set("executions", (int64_t)nexec); hz::emit(s);
    return 0;
}
