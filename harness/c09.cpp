// C09 conformance harness (a): per-transition tests of the Container model.
// A case = a history of operations (witness path in the model's state graph) + the expected
// abstract state of every slot after the last operation.  The harness replays the history on
// real basic_json values (json when built without -DORDERED, ojson with it) and compares the
// projection of every slot (kind, members in iteration order, elements) with the prediction;
// moved-from slots are only required to stay usable.
#include "harness.hpp"
#include "jconv.hpp"
#include <jsoncons/json.hpp>
#include <new>
using namespace jsoncons;
#ifdef ORDERED
using J = ojson; static const char* FLAVOUR = "ojson";
#else
using J = json; static const char* FLAVOUR = "json";
#endif
static long nchecks = 0;

static J build(const mj::Value& w) {
    const std::string& k = w[0].str();
    if (k == "null") return J::null();
    if (k == "bool") return J(w[1].as_bool());
    if (k == "int") return J((int64_t)w[1].as_int());
    if (k == "str") return J(jc::cps_to_utf8(w[1]));
    if (k == "arr") { J a(json_array_arg); for (auto& e : w[1].a) a.push_back(build(e)); return a; }
    if (k == "obj") { J o(json_object_arg); for (auto& kv : w[1].a) o.insert_or_assign(jc::cps_to_utf8(kv[0]), build(kv[1])); return o; }
    throw std::runtime_error("build: " + k);
}

static size_t g_variant = 0;   // rotates through the overloads that share one model action (plain / hinted / rvalue)
static long g_forced = -1;     // >= 0: variant of the LAST operation of the history (3 + p = hint at begin() + p)
static bool g_skip = false;    // the forced variant does not exist for this operation / object size
static bool apply(std::vector<J>& slot, const mj::Value& op, std::string& err, bool last = false) {
    size_t var = g_variant++ % 3;
    long hint = -1;
    if (last && g_forced >= 0) { if (g_forced < 3) var = (size_t)g_forced; else { var = 99; hint = g_forced - 3; } }
    const std::string& o = op[0].str();
    auto S = [&](int n) -> J& { return slot[(size_t)op[n].as_int() - 1]; };
    auto key = [&](int n) { return jc::cps_to_utf8(op[n]); };
    try {
        if (o == "assign") { S(1) = build(op[2]); }
        else if (o == "copy") { S(1) = S(2); }
        else if (o == "copyctor") { J* p = &S(1); const J& src = S(2); p->~J(); new (p) J(src); }
        else if (o == "move") { S(1) = std::move(S(2)); }
        else if (o == "movector") { J* p = &S(1); J& src = S(2); p->~J(); new (p) J(std::move(src)); }
        else if (o == "swap") { if (op[1].as_int() % 2) S(1).swap(S(2)); else { using std::swap; swap(S(1), S(2)); } }
        else if (hint >= 0 && (o == "insert_or_assign" || o == "try_emplace" || o == "merge" || o == "merge_or_update")) {   // hint at every position of the object
            J& t = S(1); if ((size_t)hint > t.size()) { g_skip = true; return true; }
            auto h = t.object_range().begin() + hint;
            if (o == "insert_or_assign") t.insert_or_assign(h, key(2), S(3)); else if (o == "try_emplace") t.try_emplace(h, key(2), S(3));
            else if (o == "merge") t.merge(h, S(2)); else t.merge_or_update(h, S(2)); }
        else if (hint >= 0) { g_skip = true; return true; }
        else if (o == "insert_or_assign") { J& t = S(1); if (var == 0) t.insert_or_assign(key(2), S(3)); else if (var == 1) t.insert_or_assign(t.object_range().begin(), key(2), S(3)); else t.insert_or_assign(t.object_range().end(), key(2), S(3)); }
        else if (o == "try_emplace") { J& t = S(1); if (var == 0) t.try_emplace(key(2), S(3)); else if (var == 1) t.try_emplace(t.object_range().begin(), key(2), S(3)); else t.try_emplace(t.object_range().end(), key(2), S(3)); }
        else if (o == "insert_range") { std::vector<std::pair<std::string, J>> r; int n = 0; for (auto& k : op[2].a) r.emplace_back(jc::cps_to_utf8(k), J((int64_t)++n)); S(1).insert(r.begin(), r.end()); }
        else if (o == "erase_key") { S(1).erase(key(2)); }
        else if (o == "merge") { J& t = S(1); if (var == 0) t.merge(S(2)); else if (var == 1) t.merge(J(S(2))); else t.merge(t.object_range().begin(), S(2)); }
        else if (o == "merge_or_update") { J& t = S(1); if (var == 0) t.merge_or_update(S(2)); else if (var == 1) t.merge_or_update(J(S(2))); else t.merge_or_update(t.object_range().begin(), S(2)); }
        else if (o == "push_back") { S(1).push_back(S(2)); }
        else if (o == "insert_at") { J& a = S(1); a.insert(a.array_range().begin() + op[2].as_int(), S(3)); }
        else if (o == "set_at") { S(1)[(size_t)op[2].as_int()] = S(3); }
        else if (o == "erase_at") { J& a = S(1); a.erase(a.array_range().begin() + op[2].as_int()); }
        else if (o == "erase_range") { J& a = S(1); a.erase(a.array_range().begin() + op[2].as_int(), a.array_range().begin() + op[3].as_int()); }
        else if (o == "erase_member_at") { J& t = S(1); t.erase(t.object_range().begin() + op[2].as_int()); }
        else if (o == "erase_member_range") { J& t = S(1); t.erase(t.object_range().begin() + op[2].as_int(), t.object_range().begin() + op[3].as_int()); }
        else if (o == "assign_elem") { J& t = S(1); t = t[(size_t)op[2].as_int()]; }
        else if (o == "assign_member") { J& t = S(1); t = t.at(key(2)); }
        else if (o == "resize") { S(1).resize((size_t)op[2].as_int()); }
        else if (o == "clear") { S(1).clear(); }
        else if (o == "reserve") { S(1).reserve((size_t)op[2].as_int()); }
        else { err = "unknown op " + o; return false; }
    } catch (const std::exception& e) { err = std::string("exception in ") + o + ": " + e.what(); return false; }
    return true;
}

// lookups must agree with the expected abstract value
static bool lookups_ok(const J& j, const mj::Value& e, std::string& why) {
    const std::string& k = e[0].str();
    if (k == "obj") {
        if (!j.is_object() || j.size() != e[1].size() || j.empty() != (e[1].size() == 0)) { why = "object kind/size/empty"; return false; }
        for (const char* probe : {"a", "b", "c", "zz"}) {
            const mj::Value* ev = nullptr; for (auto& kv : e[1].a) if (jc::cps_to_utf8(kv[0]) == probe) ev = &kv[1];
            if (j.contains(probe) != (ev != nullptr)) { why = std::string("contains ") + probe; return false; }
            if ((j.find(probe) != j.object_range().end()) != (ev != nullptr)) { why = std::string("find ") + probe; return false; }
            if (j.count(probe) != (ev ? 1u : 0u)) { why = std::string("count ") + probe; return false; }
            if (ev) { if (!(jc::doc_wire(j.at(probe), true) == *ev)) { why = std::string("at ") + probe; return false; }
                      if (!lookups_ok(j.at(probe), *ev, why)) return false; }
        }
    } else if (k == "arr") {
        if (!j.is_array() || j.size() != e[1].size() || j.empty() != (e[1].size() == 0)) { why = "array kind/size/empty"; return false; }
        for (size_t i = 0; i < e[1].size(); ++i) { if (!(jc::doc_wire(j.at(i), true) == e[1][i]) || !(jc::doc_wire(j[i], true) == e[1][i])) { why = "element " + std::to_string(i); return false; }
                                                   if (!lookups_ok(j[i], e[1][i], why)) return false; }
    }
    return true;
}

int main(int argc, char** argv) {
    auto args = hz::parse_args(argc, argv);
    long ncases = 0;
    hz::for_each_case(args, [&](size_t idx, const std::string& line) {
        mj::Value c = mj::parse(line); ++ncases;
        size_t n = c["s"].size();
        // the history is replayed once with the rotating overload variants, and - when its last operation has hinted overloads - once
        // per hint position begin() + p of the target object (the abstract result does not depend on the hint)
        const std::string last_op = c["h"].size() ? c["h"][c["h"].size() - 1][0].str() : std::string();
        bool hinted = last_op == "insert_or_assign" || last_op == "try_emplace" || last_op == "merge" || last_op == "merge_or_update";
      for (long round = -1; round < (hinted ? 3 + 5 : 0); ++round) {
        std::vector<J> slot(n, J::null());
        std::string err; bool ok = true;
        g_variant = idx; g_forced = round; g_skip = false;
        for (size_t hi = 0; hi < c["h"].size(); ++hi) if (!apply(slot, c["h"][hi], err, hi + 1 == c["h"].size())) { ok = false; break; }
        if (g_skip) continue;
        auto fail = [&](const std::string& what, const mj::Value& got) {
            mj::Value m = hz::rec("mismatch"); m.set("idx", (int64_t)idx); m.set("flavour", FLAVOUR); m.set("what", what); m.set("variant", (int64_t)round); m.set("got", got); m.set("case", c); hz::emit_mismatch(m);
        };
        if (!ok) { fail(err, mj::Value()); continue; }
        for (size_t i = 0; i < n; ++i) {
            ++nchecks;
            const mj::Value& e = c["s"][i];
            if (e[0].str() == "moved") {       // valid but unspecified: must be usable
                try { std::string s; slot[i].dump(s); J copy(slot[i]); (void)copy; slot[i] = J(7); if (slot[i].as<int>() != 7) fail("moved-from slot not assignable", mj::Value((int64_t)i)); }
                catch (const std::exception& ex) { fail(std::string("moved-from slot unusable: ") + ex.what(), mj::Value((int64_t)i)); }
                continue;
            }
            mj::Value got = jc::doc_wire(slot[i], true);
            if (!(got == e)) { mj::Value g = mj::Value::array(); g.push((int64_t)i); g.push(got); fail("slot-state", g); continue; }
            std::string why; if (!lookups_ok(slot[i], e, why)) { mj::Value g = mj::Value::array(); g.push((int64_t)i); g.push(why); fail("lookup", g); }
            // a deep copy equals the original and prints identically
            J cp(slot[i]); if (!(cp == slot[i]) || !(slot[i] == cp)) fail("copy-not-equal", mj::Value((int64_t)i));
            std::string s1, s2; cp.dump(s1); slot[i].dump(s2); if (s1 != s2) fail("copy-prints-differently", mj::Value((int64_t)i));
        }
      }
    });
    mj::Value s = hz::rec("stat"); s.set("cases", (int64_t)ncases); s.set("checks", (int64_t)nchecks); hz::emit(s);
    return 0;
}
