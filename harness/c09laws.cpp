// C09 conformance harness (b): records the outcomes of the real comparison and conversion
// operators on values of every storage kind (V binding; the laws are checked by Trace_C09).
#include "harness.hpp"
#include "jconv.hpp"
#include <jsoncons/json.hpp>
#include <cmath>
#include <limits>
#include <map>
using namespace jsoncons;

struct Desc { std::string kind; bool nan = false; bool isint = false; int sign = 0; std::string digits; };
struct Named { json j; Desc d; };
static json g_null = json::null(); static json g_i1(int64_t(1)); static json g_obj_a1 = json::parse("{\"a\":1}"); static json g_arr1 = json::parse("[1]");

static Desc I(const char* kind, bool neg, const char* digits) { Desc d; d.kind = kind; d.isint = true; d.sign = neg ? 1 : 0; d.digits = digits; return d; }
static Desc K(const char* kind, bool nan = false) { Desc d; d.kind = kind; d.nan = nan; return d; }

static bool make(const std::string& n, Named& out) {
    static const std::string longs = "long-string-0123456789";
    if (n == "null") { out = {json::null(), K("null")}; }
    else if (n == "true") { out = {json(true), K("bool")}; }
    else if (n == "false") { out = {json(false), K("bool")}; }
    else if (n == "i64_m1") { out = {json(int64_t(-1)), I("int64", true, "1")}; }
    else if (n == "i64_0") { out = {json(int64_t(0)), I("int64", false, "0")}; }
    else if (n == "i64_1") { out = {json(int64_t(1)), I("int64", false, "1")}; }
    else if (n == "i64_127") { out = {json(int64_t(127)), I("int64", false, "127")}; }
    else if (n == "i64_128") { out = {json(int64_t(128)), I("int64", false, "128")}; }
    else if (n == "i64_m129") { out = {json(int64_t(-129)), I("int64", true, "129")}; }
    else if (n == "i64_65536") { out = {json(int64_t(65536)), I("int64", false, "65536")}; }
    else if (n == "i64_max") { out = {json(std::numeric_limits<int64_t>::max()), I("int64", false, "9223372036854775807")}; }
    else if (n == "i64_min") { out = {json(std::numeric_limits<int64_t>::min()), I("int64", true, "9223372036854775808")}; }
    else if (n == "u64_0") { out = {json(uint64_t(0)), I("uint64", false, "0")}; }
    else if (n == "u64_1") { out = {json(uint64_t(1)), I("uint64", false, "1")}; }
    else if (n == "u64_255") { out = {json(uint64_t(255)), I("uint64", false, "255")}; }
    else if (n == "u64_256") { out = {json(uint64_t(256)), I("uint64", false, "256")}; }
    else if (n == "u64_i64max") { out = {json(uint64_t(9223372036854775807ULL)), I("uint64", false, "9223372036854775807")}; }
    else if (n == "u64_2p63") { out = {json(uint64_t(9223372036854775808ULL)), I("uint64", false, "9223372036854775808")}; }
    else if (n == "u64_max") { out = {json(std::numeric_limits<uint64_t>::max()), I("uint64", false, "18446744073709551615")}; }
    else if (n == "d_0") { out = {json(0.0), K("double")}; }
    else if (n == "d_m0") { out = {json(-0.0), K("double")}; }
    else if (n == "d_1") { out = {json(1.0), K("double")}; }
    else if (n == "d_1_5") { out = {json(1.5), K("double")}; }
    else if (n == "d_2p63") { out = {json(9223372036854775808.0), K("double")}; }
    else if (n == "d_2p53") { out = {json(9007199254740992.0), K("double")}; }
    else if (n == "d_m1") { out = {json(-1.0), K("double")}; }
    else if (n == "d_nan") { out = {json(std::nan("")), K("double", true)}; }
    else if (n == "d_inf") { out = {json(std::numeric_limits<double>::infinity()), K("double")}; }
    else if (n == "h_0") { out = {json(half_arg, 0x0000), K("half")}; }
    else if (n == "h_1") { out = {json(half_arg, 0x3c00), K("half")}; }
    else if (n == "h_1_5") { out = {json(half_arg, 0x3e00), K("half")}; }
    else if (n == "s_short") { out = {json("s"), K("string")}; }
    else if (n == "s_long") { out = {json(longs), K("string")}; }
    else if (n == "s_empty") { out = {json(""), K("string")}; }
    else if (n == "s_1") { out = {json("1"), K("string")}; }
    else if (n == "s_bigint") { out = {json("18446744073709551616", semantic_tag::bigint), K("bigint")}; }
    else if (n == "s_bigint_small") { out = {json("1", semantic_tag::bigint), K("bigint")}; }
    else if (n == "s_bigint_near") { out = {json("18446744073709551617", semantic_tag::bigint), K("bigint")}; }       // same nearest double as s_bigint
    else if (n == "s_bigint_neg") { out = {json("-123456789012345678901234567890", semantic_tag::bigint), K("bigint")}; }
    else if (n == "s_bigint_neg_near") { out = {json("-123456789012345678901234567891", semantic_tag::bigint), K("bigint")}; }
    else if (n == "s_bigdec_near") { out = {json("1.50", semantic_tag::bigdec), K("bigdec")}; }
    else if (n == "s_bigdec") { out = {json("1.5", semantic_tag::bigdec), K("bigdec")}; }
    else if (n == "bytes_empty") { out = {json(byte_string_arg, std::vector<uint8_t>{}), K("bytes")}; }
    else if (n == "bytes_12") { out = {json(byte_string_arg, std::vector<uint8_t>{1, 2}), K("bytes")}; }
    else if (n == "bytes_12_b64") { out = {json(byte_string_arg, std::vector<uint8_t>{1, 2}, semantic_tag::base64), K("bytes_b64")}; }
    else if (n == "obj_default") { out = {json(), K("object")}; }
    else if (n == "obj_empty") { out = {json(json_object_arg), K("object")}; }
    else if (n == "obj_a1") { out = {json::parse("{\"a\":1}"), K("object")}; }
    else if (n == "obj_a2") { out = {json::parse("{\"a\":2}"), K("object")}; }
    // objects whose first differing member differs in the KEY, with the values ordered the other way round (ordering must stay antisymmetric)
    else if (n == "obj_b1") { out = {json::parse("{\"b\":1}"), K("object")}; }
    else if (n == "obj_a1c1") { out = {json::parse("{\"a\":1,\"c\":1}"), K("object")}; }
    else if (n == "obj_a2b1") { out = {json::parse("{\"a\":2,\"b\":1}"), K("object")}; }
    else if (n == "obj_b1c3") { out = {json::parse("{\"b\":1,\"c\":3}"), K("object")}; }
    else if (n == "obj_a1b1") { out = {json::parse("{\"a\":1,\"b\":1}"), K("object")}; }
    else if (n == "obj_ab") { json o(json_object_arg); o.insert_or_assign("a", 1); o.insert_or_assign("b", 2); out = {o, K("object")}; }
    else if (n == "obj_ba") { json o(json_object_arg); o.insert_or_assign("b", 2); o.insert_or_assign("a", 1); out = {o, K("object")}; }
    else if (n == "arr_empty") { out = {json(json_array_arg), K("array")}; }
    else if (n == "arr_1") { out = {json::parse("[1]"), K("array")}; }
    else if (n == "arr_1_2") { out = {json::parse("[1,2]"), K("array")}; }
    else if (n == "arr_1d") { out = {json::parse("[1.0]"), K("array_d")}; }
    else if (n == "cref_i64_1") { out = {json(json_const_pointer_arg, &g_i1), I("int64", false, "1")}; }
    else if (n == "cref_null") { out = {json(json_const_pointer_arg, &g_null), K("null")}; }
    else if (n == "cref_obj_a1") { out = {json(json_const_pointer_arg, &g_obj_a1), K("object")}; }
    else if (n == "ref_arr_1") { out = {json(json_pointer_arg, &g_arr1), K("array")}; }
    else return false;
    return true;
}
static mj::Value digits(const std::string& s) { mj::Value a = mj::Value::array(); for (char c : s) a.push((int)(unsigned char)c); return a; }
static mj::Value desc(const std::string& name, const Desc& d) {
    mj::Value r = mj::Value::object(); r.set("name", name); r.set("kind", d.kind); r.set("nan", d.nan); r.set("isint", d.isint);
    mj::Value num = mj::Value::array(); num.push(d.sign); num.push(digits(d.digits)); r.set("num", num); return r;
}
template <class T> static mj::Value as_num(const json& j) {
    T v = j.as<T>(); mj::Value num = mj::Value::array();
    if (std::is_signed<T>::value && (long long)v < 0) { num.push(1); unsigned long long m = (unsigned long long)(-((long long)v + 1)) + 1ULL; num.push(digits(std::to_string(m))); }
    else { num.push(0); num.push(digits(std::to_string((unsigned long long)v))); }
    return num;
}

int main(int argc, char** argv) {
    auto args = hz::parse_args(argc, argv);
    long ncases = 0;
    hz::for_each_case(args, [&](size_t idx, const std::string& line) {
        mj::Value c = mj::parse(line); ++ncases;
        Named x; if (!make(c["x"].str(), x)) { mj::Value m = hz::rec("mismatch"); m.set("what", "unknown-name"); m.set("case", c); hz::emit_mismatch(m); return; }
        mj::Value o = hz::rec("trace"); o.set("idx", (int64_t)idx); o.set("x", desc(c["x"].str(), x.d));
        if (c["conv"].as_bool()) {
            const std::string& t = c["y"].str(); o.set("e", "conv"); o.set("t", t);
            bool is = false; mj::Value as = mj::Value::array(); as.push(0); as.push(mj::Value::array()); bool crash = false;
            try {
                if (t == "int8") { is = x.j.is<int8_t>(); if (is) as = as_num<int8_t>(x.j); }
                else if (t == "uint8") { is = x.j.is<uint8_t>(); if (is) as = as_num<uint8_t>(x.j); }
                else if (t == "int16") { is = x.j.is<int16_t>(); if (is) as = as_num<int16_t>(x.j); }
                else if (t == "uint16") { is = x.j.is<uint16_t>(); if (is) as = as_num<uint16_t>(x.j); }
                else if (t == "int32") { is = x.j.is<int32_t>(); if (is) as = as_num<int32_t>(x.j); }
                else if (t == "uint32") { is = x.j.is<uint32_t>(); if (is) as = as_num<uint32_t>(x.j); }
                else if (t == "int64") { is = x.j.is<int64_t>(); if (is) as = as_num<int64_t>(x.j); }
                else if (t == "uint64") { is = x.j.is<uint64_t>(); if (is) as = as_num<uint64_t>(x.j); }
            } catch (const std::exception&) { crash = true; }
            o.set("is", is); o.set("as", as); o.set("crash", crash);
        } else {
            Named y; if (!make(c["y"].str(), y)) return;
            o.set("e", "pair"); o.set("y", desc(c["y"].str(), y.d));
            bool crash = false; bool eq_xy = false, eq_yx = false, ne = false, lt_xy = false, lt_yx = false, gt_xy = false, gt_yx = false, le = false, ge = false, dump_eq = false;
            try {
                eq_xy = (x.j == y.j); eq_yx = (y.j == x.j); ne = (x.j != y.j);
                lt_xy = (x.j < y.j); lt_yx = (y.j < x.j); gt_xy = (x.j > y.j); gt_yx = (y.j > x.j); le = (x.j <= y.j); ge = (x.j >= y.j);
                std::string s1, s2; x.j.dump(s1); y.j.dump(s2); dump_eq = (s1 == s2);
            } catch (const std::exception&) { crash = true; }
            o.set("eq_xy", eq_xy); o.set("eq_yx", eq_yx); o.set("ne_xy", ne); o.set("lt_xy", lt_xy); o.set("lt_yx", lt_yx);
            o.set("gt_xy", gt_xy); o.set("gt_yx", gt_yx); o.set("le_xy", le); o.set("ge_xy", ge); o.set("dump_eq", dump_eq); o.set("crash", crash);
        }
        hz::emit(o);
    });
    mj::Value s = hz::rec("stat"); s.set("cases", (int64_t)ncases); hz::emit(s);
    return 0;
}
