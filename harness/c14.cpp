// C14 conformance harness (G binding): JSON Pointer parse/print, get/contains/add/
// add_if_absent/replace/remove (with/without create_if_missing), flatten/unflatten,
// against the outcomes predicted by spec/JsonPointer.tla.
#include "harness.hpp"
#include "jconv.hpp"
#include <jsoncons/json.hpp>
#include <jsoncons_ext/jsonpointer/jsonpointer.hpp>
using namespace jsoncons;

static long nchecks = 0;
static void fail(size_t idx, const mj::Value& c, const char* flavour, const std::string& what, const mj::Value& got) {
    mj::Value m = hz::rec("mismatch"); m.set("idx", (int64_t)idx); m.set("flavour", flavour); m.set("what", what); m.set("got", got); m.set("case", c); hz::emit_mismatch(m);
}

static void str_case(size_t idx, const mj::Value& c) {
    std::string s = jc::cps_to_utf8(c["s"]);
    std::error_code ec; auto ptr = jsonpointer::json_pointer::parse(s, ec); ++nchecks;
    bool ok = !ec;
    if (ok != c["ok"].as_bool()) { fail(idx, c, "-", "parse-verdict", mj::Value(ok)); return; }
    if (!ok) return;
    mj::Value toks = mj::Value::array();
    for (const auto& t : ptr) toks.push(jc::cps_of(std::string(t)));
    if (!(toks == c["toks"])) fail(idx, c, "-", "tokens", toks);
    std::string back = ptr.to_string();
    if (back != jc::cps_to_utf8(c["back"])) fail(idx, c, "-", "to_string", jc::cps_of(back));
    // rebuild from tokens
    jsonpointer::json_pointer p2; for (auto& t : c["toks"].a) p2 /= jc::cps_to_utf8(t);
    if (p2.to_string() != s) fail(idx, c, "-", "to_string-from-tokens", jc::cps_of(p2.to_string()));
}

template <class Json>
static void op_case(size_t idx, const mj::Value& c, const char* flavour) {
    const std::string& op = c["op"].str();
    std::string s = jc::cps_to_utf8(c["s"]);
    bool cr = c["cr"].as_bool();
    bool expect_ok = c["r"][0].str() == "ok";
    Json v = jc::build_doc<Json>(c["v"]);
    for (int api = 0; api < 2; ++api) {     // 0: string location, 1: json_pointer built from the tokens
        Json doc = jc::build_doc<Json>(c["d"]);
        jsonpointer::json_pointer ptr; for (auto& t : c["toks"].a) ptr /= jc::cps_to_utf8(t);
        std::error_code ec; ++nchecks;
        std::string tag = std::string(op) + (api ? "/ptr" : "/str");
        if (op == "get") {
            const Json& cd = doc;
            const Json& got = api ? jsonpointer::get(cd, ptr, ec) : jsonpointer::get(cd, s, ec);
            bool ok = !ec;
            if (ok != expect_ok) { fail(idx, c, flavour, tag + "-verdict", mj::Value(ok)); continue; }
            if (ok && !jc::doc_equals(got, c["r"][1])) fail(idx, c, flavour, tag + "-value", jc::doc_wire(got));
            bool has = api ? jsonpointer::contains(cd, ptr) : jsonpointer::contains(cd, s);
            if (has != expect_ok) fail(idx, c, flavour, tag + "-contains", mj::Value(has));
            if (!jc::doc_equals(doc, c["d"])) fail(idx, c, flavour, tag + "-modified-document", jc::doc_wire(doc));
            continue;
        }
        if (op == "add") { if (api) jsonpointer::add(doc, ptr, v, cr, ec); else jsonpointer::add(doc, s, v, cr, ec); }
        else if (op == "add_if_absent") { if (api) jsonpointer::add_if_absent(doc, ptr, v, cr, ec); else jsonpointer::add_if_absent(doc, s, v, cr, ec); }
        else if (op == "replace") { if (api) jsonpointer::replace(doc, ptr, v, cr, ec); else jsonpointer::replace(doc, s, v, cr, ec); }
        else if (op == "remove") { if (api) jsonpointer::remove(doc, ptr, ec); else jsonpointer::remove(doc, s, ec); }
        bool ok = !ec;
        if (ok != expect_ok) { fail(idx, c, flavour, tag + "-verdict", mj::Value(ok ? "ok" : ec.message())); }
        else if (ok) { if (!jc::doc_equals(doc, c["r"][1])) fail(idx, c, flavour, tag + "-document", jc::doc_wire(doc)); }
        if (!ok && !jc::doc_equals(doc, c["d"])) fail(idx, c, flavour, tag + "-failed-op-changed-document", jc::doc_wire(doc));
    }
}

template <class Json>
static void flat_case(size_t idx, const mj::Value& c, const char* flavour) {
    Json d = jc::build_doc<Json>(c["d"]); ++nchecks;
    if (!(d.is_object() || d.is_array())) return;
    Json f = jsonpointer::flatten(d);
    if (!jc::doc_equals(f, c["f"])) fail(idx, c, flavour, "flatten", jc::doc_wire(f));
    if (!jc::doc_equals(d, c["d"])) fail(idx, c, flavour, "flatten-modified-document", jc::doc_wire(d));
    if (c["nik"].as_bool()) {
        Json u = jsonpointer::unflatten(f);
        if (!jc::doc_equals(u, c["d"])) fail(idx, c, flavour, "unflatten(flatten)", jc::doc_wire(u));
    }
}

int main(int argc, char** argv) {
    auto args = hz::parse_args(argc, argv);
    long ncases = 0;
    hz::for_each_case(args, [&](size_t idx, const std::string& line) {
        mj::Value c = mj::parse(line); ++ncases;
        const std::string& k = c["k"].str();
        if (k == "str") str_case(idx, c);
        else if (k == "op") { op_case<json>(idx, c, "json"); op_case<ojson>(idx, c, "ojson");
                              jc::parsed_mode() = true; op_case<json>(idx, c, "json-parsed"); op_case<ojson>(idx, c, "ojson-parsed"); jc::parsed_mode() = false; }   // documents as the parser builds them
        else if (k == "flat") { flat_case<json>(idx, c, "json"); flat_case<ojson>(idx, c, "ojson");
                                jc::parsed_mode() = true; flat_case<json>(idx, c, "json-parsed"); jc::parsed_mode() = false; }
    });
    mj::Value s = hz::rec("stat"); s.set("cases", (int64_t)ncases); s.set("checks", (int64_t)nchecks); hz::emit(s);
    return 0;
}
