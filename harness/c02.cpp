// C02 conformance harness (G binding): each case is a text with the verdict and
// value predicted by spec/JsonText.tla; run the real parser entry points under
// every option combination and compare accept/reject and the value.
#include "harness.hpp"
#include "jconv.hpp"
#include <jsoncons/json.hpp>
using namespace jsoncons;

struct Obs { bool ok = false; std::string err; json j; ojson oj; bool ordered = false; };

static int g_mode = 0;   // decode-option mode (jconv.hpp matches_text_value): 1 lossless_number, 2 lossless_bignum off, 4 nan / inf strings
template <class O> static O with_mode(O o) {
    if (g_mode & 1) o.lossless_number(true);
    if (g_mode & 2) o.lossless_bignum(false);
    if (g_mode & 4) { using S = typename O::string_type; auto W = [](const char* s) { S r; for (; *s; ++s) r.push_back((typename O::char_type)*s); return r; }; o.nan_to_str(W("NaN")).inf_to_str(W("Inf")).neginf_to_str(W("-Inf")); }
    return o;
}
static json_options mk(bool c, bool t, int L) { json_options o; o.allow_comments(c).allow_trailing_comma(t).max_nesting_depth(L); return with_mode(o); }

static Obs via_parse(const std::string& s, const json_options& o) {
    Obs r; try { r.j = json::parse(s, o); r.ok = true; } catch (const ser_error& e) { r.err = e.code().message(); } return r;
}
static Obs via_oparse(const std::string& s, const json_options& o) {
    Obs r; r.ordered = true; try { r.oj = ojson::parse(s, o); r.ok = true; } catch (const ser_error& e) { r.err = e.code().message(); } return r;
}
static Obs via_reader(const std::string& s, const json_options& o) {
    Obs r; json_decoder<json> d; std::error_code ec; json_string_reader rd(s, d, o); rd.read(ec);
    if (ec) { r.err = ec.message(); return r; }
    if (!d.is_valid()) { r.err = "decoder not valid"; return r; }
    r.j = d.get_result(); r.ok = true; return r;
}
static Obs via_parser(const std::string& s, const json_options& o) {
    Obs r; json_decoder<json> d; std::error_code ec; json_parser p(o);
    p.update(s.data(), s.size()); p.finish_parse(d, ec);
    if (!ec) p.check_done(ec);
    if (ec) { r.err = ec.message(); return r; }
    if (!d.is_valid()) { r.err = "decoder not valid"; return r; }
    r.j = d.get_result(); r.ok = true; return r;
}
static Obs via_stream(const std::string& s, const json_options& o) {
    Obs r; std::istringstream is(s); try { r.j = json::parse(is, o); r.ok = true; } catch (const ser_error& e) { r.err = e.code().message(); } return r;
}

// ---- wchar_t flavour: the same text as a sequence of code points (only texts that are valid UTF-8 have one); the wide value is
// narrowed back (strings and names re-encoded as UTF-8, kinds and tags kept) and compared with the same prediction
static bool to_wide(const std::string& s, std::wstring& w) {
    size_t i = 0, n = s.size();
    while (i < n) { unsigned char c = (unsigned char)s[i]; uint32_t cp; int len;
        if (c < 0x80) { cp = c; len = 1; } else if (c >= 0xC2 && c <= 0xDF) { cp = c & 0x1F; len = 2; } else if (c >= 0xE0 && c <= 0xEF) { cp = c & 0x0F; len = 3; } else if (c >= 0xF0 && c <= 0xF4) { cp = c & 0x07; len = 4; } else return false;
        if (i + len > n) return false;
        for (int k = 1; k < len; ++k) { unsigned char t = (unsigned char)s[i + k]; if ((t & 0xC0) != 0x80) return false; cp = (cp << 6) | (t & 0x3F); }
        if ((len == 3 && cp < 0x800) || (len == 4 && (cp < 0x10000 || cp > 0x10FFFF)) || (cp >= 0xD800 && cp <= 0xDFFF)) return false;
        w.push_back((wchar_t)cp); i += len; }
    return true;
}
static std::string to_utf8(const std::wstring& w) {
    std::string s;
    for (wchar_t wc : w) { uint32_t cp = (uint32_t)wc;
        if (cp < 0x80) s.push_back((char)cp); else if (cp < 0x800) { s.push_back((char)(0xC0 | (cp >> 6))); s.push_back((char)(0x80 | (cp & 0x3F))); }
        else if (cp < 0x10000) { s.push_back((char)(0xE0 | (cp >> 12))); s.push_back((char)(0x80 | ((cp >> 6) & 0x3F))); s.push_back((char)(0x80 | (cp & 0x3F))); }
        else { s.push_back((char)(0xF0 | (cp >> 18))); s.push_back((char)(0x80 | ((cp >> 12) & 0x3F))); s.push_back((char)(0x80 | ((cp >> 6) & 0x3F))); s.push_back((char)(0x80 | (cp & 0x3F))); } }
    return s;
}
template <class WJ, class J>
static J narrow(const WJ& w) {
    switch (w.type()) {
        case json_type::null: return J::null();
        case json_type::boolean: return J(w.template as<bool>());
        case json_type::int64: return J(w.template as<int64_t>(), w.tag());
        case json_type::uint64: return J(w.template as<uint64_t>(), w.tag());
        case json_type::float64: return J(w.template as<double>(), w.tag());
        case json_type::string: return J(to_utf8(w.template as<std::wstring>()), w.tag());
        case json_type::array: { J a(json_array_arg); for (const auto& e : w.array_range()) a.push_back(narrow<WJ, J>(e)); return a; }
        case json_type::object: { J o(json_object_arg); for (const auto& kv : w.object_range()) o.insert_or_assign(to_utf8(std::wstring(kv.key())), narrow<WJ, J>(kv.value())); return o; }
        default: return J("unexpected-kind", semantic_tag::ext);
    }
}
using wjson_options_t = basic_json_options<wchar_t>;
static wjson_options_t wmk(bool c, bool t, int L) { wjson_options_t o; o.allow_comments(c).allow_trailing_comma(t).max_nesting_depth(L); return with_mode(o); }
static Obs via_wparse(const std::wstring& s, const wjson_options_t& o) {
    Obs r; try { wjson w = wjson::parse(s, o); r.j = narrow<wjson, json>(w); r.ok = true; } catch (const ser_error& e) { r.err = e.code().message(); } return r;
}
static Obs via_woparse(const std::wstring& s, const wjson_options_t& o) {
    Obs r; r.ordered = true; try { wojson w = wojson::parse(s, o); r.oj = narrow<wojson, ojson>(w); r.ok = true; } catch (const ser_error& e) { r.err = e.code().message(); } return r;
}
static Obs via_wreader(const std::wstring& s, const wjson_options_t& o) {
    Obs r; json_decoder<wjson> d; std::error_code ec; wjson_string_reader rd(s, d, o); rd.read(ec);
    if (ec) { r.err = ec.message(); return r; }
    if (!d.is_valid()) { r.err = "decoder not valid"; return r; }
    r.j = narrow<wjson, json>(d.get_result()); r.ok = true; return r;
}
static Obs via_wparser(const std::wstring& s, const wjson_options_t& o) {
    Obs r; json_decoder<wjson> d; std::error_code ec; wjson_parser p(o);
    p.update(s.data(), s.size()); p.finish_parse(d, ec);
    if (!ec) p.check_done(ec);
    if (ec) { r.err = ec.message(); return r; }
    if (!d.is_valid()) { r.err = "decoder not valid"; return r; }
    r.j = narrow<wjson, json>(d.get_result()); r.ok = true; return r;
}
static Obs via_wstream(const std::wstring& s, const wjson_options_t& o) {
    Obs r; std::wistringstream is(s); try { wjson w = wjson::parse(is, o); r.j = narrow<wjson, json>(w); r.ok = true; } catch (const ser_error& e) { r.err = e.code().message(); } return r;
}

int main(int argc, char** argv) {
    auto args = hz::parse_args(argc, argv);
    long ncases = 0, nchecks = 0, nacc = 0, ndc = 0;
    typedef Obs (*WFn)(const std::wstring&, const wjson_options_t&);
    struct { const char* name; WFn f; } wentries[] = {{"wparse", via_wparse}, {"woparse", via_woparse}, {"wreader", via_wreader}, {"wparser", via_wparser}, {"wstream", via_wstream}};
    typedef Obs (*Fn)(const std::string&, const json_options&);
    struct { const char* name; Fn f; } entries[] = {{"parse", via_parse}, {"oparse", via_oparse}, {"reader", via_reader}, {"parser", via_parser}, {"stream", via_stream}};
    hz::for_each_case(args, [&](size_t idx, const std::string& line) {
        mj::Value c = mj::parse(line);
        std::string text = jc::units_to_string(c["t"]);
        bool acc = c["acc"].as_bool(), uc = c["uc"].as_bool(), ut = c["ut"].as_bool(), tc = c["tc"].as_bool(), dc = c["dc"].as_bool();
        int dep = (int)c["dep"].as_int();
        ++ncases; if (acc) ++nacc; if (dc) ++ndc;
        std::vector<int> limits = {1024, dep};
        if (dep > 0) limits.push_back(dep - 1);
        static const int modes[] = {0, 1, 2, 4, 7};
        for (int mode : modes) for (int oc = 0; oc < 2; ++oc) for (int ot = 0; ot < 2; ++ot) for (int L : limits) {
            if (mode != 0 && (oc != 0 || ot != 0 || L != 1024)) continue;       // the decode-option modes run with the other options at their defaults
            g_mode = mode;
            bool expect = acc && (!uc || oc) && (!ut || ot) && dep <= L;
            bool care = !dc && !(tc && oc);
            json_options o = mk(oc, ot, L);
            std::wstring wtext; bool has_wide = to_wide(text, wtext); wjson_options_t wo = wmk(oc, ot, L);
            for (int en_i = 0; en_i < 10; ++en_i) {
                if (en_i >= 5 && !has_wide) break;
                struct { const char* name; } en = { en_i < 5 ? entries[en_i].name : wentries[en_i - 5].name };
                Obs r = en_i < 5 ? entries[en_i].f(text, o) : wentries[en_i - 5].f(wtext, wo);
                ++nchecks;
                if (!care) continue;
                std::string why;
                bool bad = false; const char* what = "verdict";
                if (r.ok != expect) bad = true;
                else if (r.ok) {
                    bool m = r.ordered ? jc::matches_text_value(r.oj, c["v"], true, why, mode) : jc::matches_text_value(r.j, c["v"], false, why, mode);
                    if (!m) { bad = true; what = "value"; }
                }
                if (bad) {
                    mj::Value m = hz::rec("mismatch");
                    m.set("idx", (int64_t)idx); m.set("entry", en.name); m.set("what", what);
                    m.set("comments", (bool)oc); m.set("trailing", (bool)ot); m.set("limit", L); m.set("mode", mode);
                    m.set("expect", expect ? "accept" : "reject"); m.set("observed", r.ok ? "accept" : "reject");
                    m.set("err", r.err); m.set("why", why);
                    if (r.ok) m.set("got", r.ordered ? jc::project(r.oj) : jc::project(r.j));
                    m.set("case", c);
                    hz::emit_mismatch(m);
                }
            }
        }
    });
    mj::Value s = hz::rec("stat"); s.set("cases", (int64_t)ncases); s.set("checks", (int64_t)nchecks); s.set("accepted", (int64_t)nacc); s.set("dontcare", (int64_t)ndc);
    hz::emit(s);
    return 0;
}
