// C02 conformance harness (G binding): each case is a text with the verdict and
// value predicted by spec/JsonText.tla; run the real parser entry points under
// every option combination and compare accept/reject and the value.
#include "harness.hpp"
#include "jconv.hpp"
#include <jsoncons/json.hpp>
using namespace jsoncons;

struct Obs { bool ok = false; std::string err; json j; ojson oj; bool ordered = false; };

static json_options mk(bool c, bool t, int L) { json_options o; o.allow_comments(c).allow_trailing_comma(t).max_nesting_depth(L); return o; }

static Obs via_parse(const std::string& s, const json_options& o) {
    Obs r; try { r.j = json::parse(s, o); r.ok = true; } catch (const ser_error& e) { r.err = e.code().message(); } return r;
}
static Obs via_oparse(const std::string& s, const json_options& o) {
    Obs r; r.ordered = true; try { r.oj = ojson::parse(s, o); r.ok = true; } catch (const ser_error& e) { r.err = e.code().message(); } return r;
}
static Obs via_reader(const std::string& s, const json_options& o) {
    Obs r; json_decoder<json> d; std::error_code ec; json_string_reader rd(s, d, o); rd.read(ec);
    if (ec) { r.err = ec.message(); return r; }
    if (!d.is_valid()) { r.err = "decoder not valid"; return r; }
    r.j = d.get_result(); r.ok = true; return r;
}
static Obs via_parser(const std::string& s, const json_options& o) {
    Obs r; json_decoder<json> d; std::error_code ec; json_parser p(o);
    p.update(s.data(), s.size()); p.finish_parse(d, ec);
    if (!ec) p.check_done(ec);
    if (ec) { r.err = ec.message(); return r; }
    if (!d.is_valid()) { r.err = "decoder not valid"; return r; }
    r.j = d.get_result(); r.ok = true; return r;
}
static Obs via_stream(const std::string& s, const json_options& o) {
    Obs r; std::istringstream is(s); try { r.j = json::parse(is, o); r.ok = true; } catch (const ser_error& e) { r.err = e.code().message(); } return r;
}

int main(int argc, char** argv) {
    auto args = hz::parse_args(argc, argv);
    long ncases = 0, nchecks = 0, nacc = 0, ndc = 0;
    typedef Obs (*Fn)(const std::string&, const json_options&);
    struct { const char* name; Fn f; } entries[] = {{"parse", via_parse}, {"oparse", via_oparse}, {"reader", via_reader}, {"parser", via_parser}, {"stream", via_stream}};
    hz::for_each_case(args, [&](size_t idx, const std::string& line) {
        mj::Value c = mj::parse(line);
        std::string text = jc::units_to_string(c["t"]);
        bool acc = c["acc"].as_bool(), uc = c["uc"].as_bool(), ut = c["ut"].as_bool(), tc = c["tc"].as_bool(), dc = c["dc"].as_bool();
        int dep = (int)c["dep"].as_int();
        ++ncases; if (acc) ++nacc; if (dc) ++ndc;
        std::vector<int> limits = {1024, dep};
        if (dep > 0) limits.push_back(dep - 1);
        for (int oc = 0; oc < 2; ++oc) for (int ot = 0; ot < 2; ++ot) for (int L : limits) {
            bool expect = acc && (!uc || oc) && (!ut || ot) && dep <= L;
            bool care = !dc && !(tc && oc);
            json_options o = mk(oc, ot, L);
            for (auto& en : entries) {
                Obs r = en.f(text, o);
                ++nchecks;
                if (!care) continue;
                std::string why;
                bool bad = false; const char* what = "verdict";
                if (r.ok != expect) bad = true;
                else if (r.ok) {
                    bool m = r.ordered ? jc::matches_text_value(r.oj, c["v"], true, why) : jc::matches_text_value(r.j, c["v"], false, why);
                    if (!m) { bad = true; what = "value"; }
                }
                if (bad) {
                    mj::Value m = hz::rec("mismatch");
                    m.set("idx", (int64_t)idx); m.set("entry", en.name); m.set("what", what);
                    m.set("comments", (bool)oc); m.set("trailing", (bool)ot); m.set("limit", L);
                    m.set("expect", expect ? "accept" : "reject"); m.set("observed", r.ok ? "accept" : "reject");
                    m.set("err", r.err); m.set("why", why);
                    if (r.ok) m.set("got", r.ordered ? jc::project(r.oj) : jc::project(r.j));
                    m.set("case", c);
                    hz::emit_mismatch(m);
                }
            }
        }
    });
    mj::Value s = hz::rec("stat"); s.set("cases", (int64_t)ncases); s.set("checks", (int64_t)nchecks); s.set("accepted", (int64_t)nacc); s.set("dontcare", (int64_t)ndc);
    hz::emit(s);
    return 0;
}
