// C16 conformance harness: RFC 7386 merge patch.
// G: apply_merge_patch(target, patch) must equal the result predicted by MergePatch.tla.
// V: from_diff(source, target) is recorded (trace) and validated by Trace_C16 (the spec's own
//    Merge applied to the recorded diff must give the target); the library-applied round trip
//    is compared here as well.
#include "harness.hpp"
#include "jconv.hpp"
#include <jsoncons/json.hpp>
#include <jsoncons_ext/mergepatch/mergepatch.hpp>
using namespace jsoncons;

template <class Json>
static void run_case(size_t idx, const mj::Value& c, const char* flavour, long& nchecks, bool trace, bool parsed = false) {
    auto mk = [&](const mj::Value& w) { return parsed ? jc::build_doc_parsed<Json>(w) : jc::build_doc<Json>(w); };
    auto fail = [&](const char* what, const mj::Value& got) {
        mj::Value m = hz::rec("mismatch"); m.set("idx", (int64_t)idx); m.set("flavour", flavour); m.set("what", what); m.set("got", got); m.set("case", c); hz::emit_mismatch(m);
    };
    {   // apply
        Json target = mk(c["t"]); Json patch = mk(c["p"]); Json patch0 = patch;
        mergepatch::apply_merge_patch(target, patch); ++nchecks;
        if (!jc::doc_equals(target, c["r"])) fail("apply_merge_patch", jc::doc_wire(target));
        if (!(jc::doc_wire(patch) == jc::doc_wire(patch0))) fail("patch-modified", jc::doc_wire(patch));
    }
    if (c["nn"].as_bool()) {   // diff law: source = t, target = p
        Json source = mk(c["t"]); Json target = mk(c["p"]);
        Json d = mergepatch::from_diff(source, target); ++nchecks;
        Json s2 = source; mergepatch::apply_merge_patch(s2, d);
        if (!jc::doc_equals(s2, c["p"])) fail("from_diff-roundtrip", jc::doc_wire(s2));
        if (trace) { mj::Value tr = hz::rec("trace"); tr.set("idx", (int64_t)idx); tr.set("s", jc::canon_doc(c["t"])); tr.set("d", jc::doc_wire(d)); tr.set("t", jc::canon_doc(c["p"])); hz::emit(tr); }
    }
}

int main(int argc, char** argv) {
    auto args = hz::parse_args(argc, argv);
    long ncases = 0, nchecks = 0;
    hz::for_each_case(args, [&](size_t idx, const std::string& line) {
        mj::Value c = mj::parse(line); ++ncases;
        run_case<json>(idx, c, "json", nchecks, true);
        run_case<ojson>(idx, c, "ojson", nchecks, false);
        run_case<json>(idx, c, "json-parsed", nchecks, false, true);       // documents obtained by parsing their text
        run_case<ojson>(idx, c, "ojson-parsed", nchecks, false, true);
    });
    mj::Value s = hz::rec("stat"); s.set("cases", (int64_t)ncases); s.set("checks", (int64_t)nchecks); hz::emit(s);
    return 0;
}
