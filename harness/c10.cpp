// C10 conformance harness: nesting limits (decoders and encoders, every container-opening path),
// UBJSON max_items, claimed lengths vs. memory actually requested (allocation meter), and
// stack-safety of copy/compare/dump/destroy on deeply nested values (small fixed thread stack).
#include "harness.hpp"
#include <list>
#include <deque>
#include <set>
#include <unordered_set>
#include <unordered_map>
#include <map>
#include <sstream>
#include "jconv.hpp"
#include "binval.hpp"
#include <jsoncons/json.hpp>
#include <jsoncons_ext/cbor/cbor.hpp>
#include <jsoncons_ext/msgpack/msgpack.hpp>
#include <jsoncons_ext/ubjson/ubjson.hpp>
#include <jsoncons_ext/bson/bson.hpp>
#include <atomic>
#include <new>
#include <pthread.h>
using namespace jsoncons;

// ---- allocation meter
static std::atomic<long long> g_cur{0}, g_peak{0};
static void note(long long d) { long long c = (g_cur += d); long long p = g_peak.load(); while (c > p && !g_peak.compare_exchange_weak(p, c)) {} }
// a single request above 1 GiB is metered (so the proportionality bound is seen to be broken) and then refused: the harness must not take
// the machine down when a decoder sizes an allocation by a claimed length
void* operator new(std::size_t n) {
    if (n > (std::size_t(1) << 30)) { note((long long)n); note(-(long long)n); throw std::bad_alloc(); }
    void* p = malloc(n + 16); if (!p) throw std::bad_alloc(); *(std::size_t*)p = n; note((long long)n); return (char*)p + 16; }
void operator delete(void* p) noexcept { if (!p) return; char* q = (char*)p - 16; note(-(long long)*(std::size_t*)q); free(q); }
void operator delete(void* p, std::size_t) noexcept { operator delete(p); }
void* operator new[](std::size_t n) { return operator new(n); }
void operator delete[](void* p) noexcept { operator delete(p); }
void operator delete[](void* p, std::size_t) noexcept { operator delete(p); }

static long nchecks = 0;
static void fail(size_t idx, const mj::Value& c, const std::string& what, const std::string& detail) {
    mj::Value m = hz::rec("mismatch"); m.set("idx", (int64_t)idx); m.set("what", what); m.set("detail", detail); m.set("case", c); hz::emit_mismatch(m);
}
static std::vector<uint8_t> rep(const std::vector<uint8_t>& x, long n) { std::vector<uint8_t> r; for (long i = 0; i < n; ++i) r.insert(r.end(), x.begin(), x.end()); return r; }
static void le32(std::vector<uint8_t>& v, size_t pos, uint32_t n) { for (int i = 0; i < 4; ++i) v[pos + i] = (uint8_t)(n >> (8 * i)); }
static std::vector<uint8_t> bson_nested(bool arrays, long depth) {   // depth >= 1 containers, outermost is always a document
    std::vector<uint8_t> inner = {5, 0, 0, 0, 0};
    for (long d = depth - 1; d >= 1; --d) {
        bool last = (d == 1);
        uint8_t type = (arrays && true) ? 4 : 3; if (!arrays) type = 3;
        std::vector<uint8_t> doc = {0, 0, 0, 0, type}; const char* key = (arrays && !last) ? "0" : "a"; (void)last;
        key = arrays ? (d == 1 ? "a" : "0") : "a";
        doc.push_back((uint8_t)key[0]); doc.push_back(0); doc.insert(doc.end(), inner.begin(), inner.end()); doc.push_back(0);
        le32(doc, 0, (uint32_t)doc.size()); inner = doc;
    }
    return inner;
}
template <class F> static bool accepted(F f, std::string& err) { try { f(); return true; } catch (const ser_error& e) { err = e.code().message(); } catch (const json_exception& e) { err = std::string("json_exception ") + e.what(); } return false; }

static bool decode_with_limit(const std::string& f, const std::vector<uint8_t>& in, int limit, std::string& err) {
    if (f == "json") { std::string s(in.begin(), in.end()); return accepted([&] { json::parse(s, json_options{}.max_nesting_depth(limit)); }, err); }
    if (f == "cbor") return accepted([&] { cbor::decode_cbor<json>(in, cbor::cbor_options{}.max_nesting_depth(limit)); }, err);
    if (f == "msgpack") return accepted([&] { msgpack::decode_msgpack<json>(in, msgpack::msgpack_options{}.max_nesting_depth(limit)); }, err);
    if (f == "ubjson") return accepted([&] { ubjson::decode_ubjson<json>(in, ubjson::ubjson_options{}.max_nesting_depth(limit)); }, err);
    return accepted([&] { bson::decode_bson<json>(in, bson::bson_options{}.max_nesting_depth(limit)); }, err);
}
// the same input walked event by event with a pull cursor, and through the reader + decoder
static bool cursor_with_limit(const std::string& f, const std::vector<uint8_t>& in, int limit, std::string& err) {
    return accepted([&] {
        std::error_code ec;
        auto walk = [&](auto& cur) { while (!ec && !cur.done()) cur.next(ec); if (ec) throw ser_error(ec); };
        if (f == "json") { std::string s(in.begin(), in.end()); json_string_cursor cur(s, json_options{}.max_nesting_depth(limit), ec); if (ec) throw ser_error(ec); walk(cur); }
        else if (f == "cbor") { cbor::cbor_bytes_cursor cur(in, cbor::cbor_options{}.max_nesting_depth(limit), ec); if (ec) throw ser_error(ec); walk(cur); }
        else if (f == "msgpack") { msgpack::msgpack_bytes_cursor cur(in, msgpack::msgpack_options{}.max_nesting_depth(limit), ec); if (ec) throw ser_error(ec); walk(cur); }
        else if (f == "ubjson") { ubjson::ubjson_bytes_cursor cur(in, ubjson::ubjson_options{}.max_nesting_depth(limit), ec); if (ec) throw ser_error(ec); walk(cur); }
        else { bson::bson_bytes_cursor cur(in, bson::bson_options{}.max_nesting_depth(limit), ec); if (ec) throw ser_error(ec); walk(cur); }
    }, err);
}
static bool reader_with_limit(const std::string& f, const std::vector<uint8_t>& in, int limit, std::string& err) {
    return accepted([&] {
        json_decoder<ojson> d; std::string s(in.begin(), in.end()); std::istringstream is(s);
        if (f == "json") { json_stream_reader r(is, d, json_options{}.max_nesting_depth(limit)); r.read(); }
        else if (f == "cbor") { cbor::cbor_stream_reader r(is, d, cbor::cbor_options{}.max_nesting_depth(limit)); r.read(); }
        else if (f == "msgpack") { msgpack::msgpack_stream_reader r(is, d, msgpack::msgpack_options{}.max_nesting_depth(limit)); r.read(); }
        else if (f == "ubjson") { ubjson::ubjson_stream_reader r(is, d, ubjson::ubjson_options{}.max_nesting_depth(limit)); r.read(); }
        else { bson::bson_stream_reader r(is, d, bson::bson_options{}.max_nesting_depth(limit)); r.read(); }
    }, err);
}
template <class Enc> static void push_nested(Enc& e, const std::string& kind, long depth) {
    bool obj = kind.rfind("object", 0) == 0, decl = kind.find("undeclared") == std::string::npos;
    for (long i = 0; i < depth; ++i) { if (obj) { if (decl) e.begin_object(1); else e.begin_object(); e.key("a"); } else { if (decl) e.begin_array(1); else e.begin_array(); } }
    e.uint64_value(1);
    for (long i = 0; i < depth; ++i) { if (obj) e.end_object(); else e.end_array(); }
    e.flush();
}
static bool encode_with_limit(const std::string& f, const std::string& kind, long depth, int limit, std::string& err) {
    std::vector<uint8_t> out; std::string s;
    if (f == "cbor") return accepted([&] { cbor::cbor_bytes_encoder e(out, cbor::cbor_options{}.max_nesting_depth(limit)); push_nested(e, kind, depth); }, err);
    if (f == "msgpack") return accepted([&] { msgpack::msgpack_bytes_encoder e(out, msgpack::msgpack_options{}.max_nesting_depth(limit)); push_nested(e, kind, depth); }, err);
    if (f == "ubjson") return accepted([&] { ubjson::ubjson_bytes_encoder e(out, ubjson::ubjson_options{}.max_nesting_depth(limit)); push_nested(e, kind, depth); }, err);
    if (f == "bson") return accepted([&] { bson::bson_bytes_encoder e(out, bson::bson_options{}.max_nesting_depth(limit)); push_nested(e, kind, depth); }, err);
    return accepted([&] { compact_json_string_encoder e(s, json_options{}.max_nesting_depth(limit)); push_nested(e, kind, depth); }, err);
}

struct DeepJob { std::string op; long depth; bool ok; std::string err; };
static json deep_array(long depth) { json a(json_array_arg); for (long i = 1; i < depth; ++i) { json b(json_array_arg); b.push_back(std::move(a)); a = std::move(b); } return a; }
static json deep_object(long depth) { json a(json_object_arg); for (long i = 1; i < depth; ++i) { json b(json_object_arg); b.try_emplace("a", std::move(a)); a = std::move(b); } return a; }
template <class J> static J deep_alternating(long depth) { J a(json_array_arg); for (long i = 1; i < depth; ++i) { if (i % 2) { J b(json_object_arg); b.try_emplace("a", std::move(a)); a = std::move(b); } else { J b(json_array_arg); b.push_back(std::move(a)); a = std::move(b); } } return a; }
static void* deep_run(void* p) {
    DeepJob* j = (DeepJob*)p; j->ok = true; hz::install_altstack();
    try {
        if (j->op == "destroy-object") { json v = deep_object(j->depth); (void)v; }
        else if (j->op == "destroy-alternating") { json v = deep_alternating<json>(j->depth); (void)v; }
        else if (j->op == "destroy-alternating-ojson") { ojson v = deep_alternating<ojson>(j->depth); (void)v; }
        else if (j->op == "copy-alternating") { json v = deep_alternating<json>(j->depth); json w(v); if (!(w == v)) { j->ok = false; j->err = "copy not equal"; } }
        else if (j->op == "dump-alternating") { json v = deep_alternating<json>(j->depth); std::string s; v.dump(s); if (s.size() < (size_t)j->depth) { j->ok = false; j->err = "dump too short"; } }
        else if (j->op == "parse-destroy") { std::string s(j->depth, '['); s += std::string(j->depth, ']'); json v = json::parse(s, json_options{}.max_nesting_depth((int)j->depth)); (void)v; }
        else {
            json v = deep_array(j->depth);
            if (j->op == "copy") { json w(v); if (w.size() != v.size()) { j->ok = false; j->err = "copy differs"; } }
            else if (j->op == "compare") { json w(v); if (!(w == v)) { j->ok = false; j->err = "copy not equal"; } }
            else if (j->op == "dump") { std::string s; v.dump(s); if (s.size() != (size_t)(2 * j->depth)) { j->ok = false; j->err = "dump size " + std::to_string(s.size()); } }
        }
    } catch (const std::exception& e) { j->ok = false; j->err = e.what(); }
    return nullptr;
}

int main(int argc, char** argv) {
    auto args = hz::parse_args(argc, argv);
    long ncases = 0;
    hz::for_each_case(args, [&](size_t idx, const std::string& line) {
        mj::Value c = mj::parse(line); ++ncases; ++nchecks;
        const std::string& k = c["k"].str(); std::string err;
        if (k == "depth") {
            const std::string& f = c["f"].str(); long depth = (long)c["depth"].as_int(); int limit = (int)c["limit"].as_int();
            std::vector<uint8_t> in;
            if (f == "bson") { if (depth < 1) return; in = bson_nested(c["path"].str() == "array", depth); }
            else { auto o = rep(bv::bytes_of(c["open"]), depth), cl = rep(bv::bytes_of(c["close"]), depth), leaf = bv::bytes_of(c["leaf"]); in = o; in.insert(in.end(), leaf.begin(), leaf.end()); in.insert(in.end(), cl.begin(), cl.end()); }
            bool ok = decode_with_limit(f, in, limit, err);
            if (ok != c["accept"].as_bool()) fail(idx, c, ok ? "too-deep-accepted" : "within-limit-rejected", err);
            else if (ok) { std::string e2; if (!decode_with_limit(f, in, 1024, e2)) fail(idx, c, "rejected-with-default-limit", e2); }
            { std::string e3; bool okc = cursor_with_limit(f, in, limit, e3); if (okc != c["accept"].as_bool()) fail(idx, c, okc ? "too-deep-accepted-by-cursor" : "within-limit-rejected-by-cursor", e3); }
            { std::string e4; bool okr = reader_with_limit(f, in, limit, e4); if (okr != c["accept"].as_bool()) fail(idx, c, okr ? "too-deep-accepted-by-stream-reader" : "within-limit-rejected-by-stream-reader", e4); }
        } else if (k == "sibling") {
            const std::string& f = c["f"].str(); long depth = (long)c["depth"].as_int(); int limit = (int)c["limit"].as_int(); long cnt = (long)c["count"].as_int();
            auto open = bv::bytes_of(c["open"]), close = bv::bytes_of(c["close"]), item = bv::bytes_of(c["item"]);
            std::vector<uint8_t> in = open; auto sibs = rep(item, cnt); in.insert(in.end(), sibs.begin(), sibs.end());
            // the nest: depth-1 further levels of the plainest array form, then a scalar
            std::vector<uint8_t> no, nc, leaf;
            if (f == "json") { no = {'['}; nc = {']'}; leaf = {'1'}; } else if (f == "cbor") { no = {0x81}; leaf = {1}; } else if (f == "msgpack") { no = {0x91}; leaf = {1}; } else { no = {'['}; nc = {']'}; leaf = {'i', 1}; }
            auto o2 = rep(no, depth - 1), c2 = rep(nc, depth - 1); in.insert(in.end(), o2.begin(), o2.end()); in.insert(in.end(), leaf.begin(), leaf.end()); in.insert(in.end(), c2.begin(), c2.end());
            in.insert(in.end(), close.begin(), close.end());
            bool ok = decode_with_limit(f, in, limit, err);
            if (ok != c["accept"].as_bool()) fail(idx, c, ok ? "too-deep-accepted-after-siblings" : "within-limit-rejected-after-siblings", err);
        } else if (k == "enc-depth") {
            const std::string& f = c["f"].str(); long depth = (long)c["depth"].as_int(); int limit = (int)c["limit"].as_int(); const std::string& kind = c["kind"].str();
            if (f == "bson" && (depth < 1 || kind.rfind("array", 0) == 0)) return;      // a BSON document is rooted in an object
            if (f == "msgpack" && kind.find("undeclared") != std::string::npos) return;   // MessagePack has no indefinite containers: the encoder requires a length
            bool ok = encode_with_limit(f, kind, depth, limit, err);
            if (ok != c["accept"].as_bool()) fail(idx, c, ok ? "encoder-wrote-too-deep" : "encoder-refused-within-limit", err);
            // the same nest held in a json value and written through dump / encode_X (declared lengths)
            if (kind.find("undeclared") == std::string::npos) {
                bool obj = kind.rfind("object", 0) == 0; json v(1);
                for (long i = 0; i < depth; ++i) { if (obj) { json o(json_object_arg); o.try_emplace("a", std::move(v)); v = std::move(o); } else { json a(json_array_arg); a.push_back(std::move(v)); v = std::move(a); } }
                std::string e2; std::vector<uint8_t> out; std::string text;
                bool ok2 = accepted([&] { if (f == "cbor") cbor::encode_cbor(v, out, cbor::cbor_options{}.max_nesting_depth(limit)); else if (f == "msgpack") msgpack::encode_msgpack(v, out, msgpack::msgpack_options{}.max_nesting_depth(limit));
                                          else if (f == "ubjson") ubjson::encode_ubjson(v, out, ubjson::ubjson_options{}.max_nesting_depth(limit)); else if (f == "bson") bson::encode_bson(v, out, bson::bson_options{}.max_nesting_depth(limit));
                                          else { v.dump(text, json_options{}.max_nesting_depth(limit)); std::string t2; v.dump_pretty(t2, json_options{}.max_nesting_depth(limit)); } }, e2);
                if (ok2 != c["accept"].as_bool()) fail(idx, c, ok2 ? "dump-wrote-too-deep" : "dump-refused-within-limit", e2);
                else if (!ok2 && e2.find("nesting") == std::string::npos) fail(idx, c, "dump-refused-without-the-nesting-error", e2);
            }
        } else if (k == "enc-sibling") {
            // [ sib, sib, .., nest ] : `count` sibling containers of one element each, then a nest whose innermost container is at `depth`
            const std::string& f = c["f"].str(); long depth = (long)c["depth"].as_int(), count = (long)c["count"].as_int(); int limit = (int)c["limit"].as_int(); bool obj = c["kind"].str() == "object";
            auto wrap = [&](json v) { if (obj) { json o(json_object_arg); o.try_emplace("a", std::move(v)); return o; } json a(json_array_arg); a.push_back(std::move(v)); return a; };
            json nest(1); for (long i = 1; i < depth; ++i) nest = wrap(std::move(nest));        // depth - 1 levels below the outer container
            json outer = obj ? json(json_object_arg) : json(json_array_arg);
            for (long i = 0; i < count; ++i) { json sib = wrap(json(1)); if (obj) outer.try_emplace("s" + std::to_string(i), std::move(sib)); else outer.push_back(std::move(sib)); }
            if (obj) outer.try_emplace("z", std::move(nest)); else outer.push_back(std::move(nest));
            if (f == "bson" && !obj) { json d(json_object_arg); d.try_emplace("a", std::move(outer)); outer = std::move(d); if (depth + 1 > limit && c["accept"].as_bool()) return; }   // BSON root must be a document: one level more
            std::string e2; std::vector<uint8_t> out; std::string text;
            bool ok2 = accepted([&] { if (f == "cbor") cbor::encode_cbor(outer, out, cbor::cbor_options{}.max_nesting_depth(limit)); else if (f == "msgpack") msgpack::encode_msgpack(outer, out, msgpack::msgpack_options{}.max_nesting_depth(limit));
                                      else if (f == "ubjson") ubjson::encode_ubjson(outer, out, ubjson::ubjson_options{}.max_nesting_depth(limit)); else if (f == "bson") bson::encode_bson(outer, out, bson::bson_options{}.max_nesting_depth(limit));
                                      else { outer.dump(text, json_options{}.max_nesting_depth(limit)); std::string t2; outer.dump_pretty(t2, json_options{}.max_nesting_depth(limit)); } }, e2);
            bool expect = c["accept"].as_bool(); if (f == "bson" && !obj) expect = depth + 1 <= limit;
            if (ok2 != expect) fail(idx, c, ok2 ? "encoder-wrote-too-deep-after-siblings" : "encoder-refused-within-limit-after-siblings", e2);
        } else if (k == "maxitems") {
            long n = (long)c["count"].as_int(); size_t m = (size_t)c["maxitems"].as_int(); const std::string& kind = c["kind"].str();
            std::vector<uint8_t> in;
            if (kind == "array-counted") { in = {'[', '#', 'i', (uint8_t)n}; for (long i = 0; i < n; ++i) { in.push_back('i'); in.push_back(1); } }
            else if (kind == "array-typed") { in = {'[', '$', 'i', '#', 'i', (uint8_t)n}; for (long i = 0; i < n; ++i) in.push_back(1); }
            else if (kind == "object-typed") { in = {'{', '$', 'i', '#', 'i', (uint8_t)n}; for (long i = 0; i < n; ++i) { in.push_back('i'); in.push_back(1); in.push_back((uint8_t)('a' + i)); in.push_back(1); } }   // {$i#i n  (key, int8 payload)*
            else { in = {'{', '#', 'i', (uint8_t)n}; for (long i = 0; i < n; ++i) { in.push_back('i'); in.push_back(1); in.push_back((uint8_t)('a' + i)); in.push_back('i'); in.push_back(1); } }
            bool ok = accepted([&] { ubjson::decode_ubjson<json>(in, ubjson::ubjson_options{}.max_items(m)); }, err);
            if (ok == c["refuse"].as_bool()) fail(idx, c, ok ? "max_items-exceeded-accepted" : "within-max_items-refused", err);
            std::string e2; bool okc = accepted([&] { std::error_code ec; ubjson::ubjson_bytes_cursor cur(in, ubjson::ubjson_options{}.max_items(m), ec); while (!ec && !cur.done()) cur.next(ec); if (ec) throw ser_error(ec); }, e2);
            if (okc == c["refuse"].as_bool()) fail(idx, c, okc ? "max_items-exceeded-accepted-cursor" : "within-max_items-refused-cursor", e2);
        } else if (k == "claim") {
            const std::string& f = c["f"].str(); std::vector<uint8_t> in = bv::bytes_of(c["head"]); auto ex = bv::bytes_of(c["extra"]);
            if (c.has("at") && c["at"].as_int() > 0) {      // enclosing array + one filler string, so that the header ends at the given offset
                size_t at = (size_t)c["at"].as_int(), hl = in.size(); std::vector<uint8_t> pre;
                if (f == "cbor") { size_t L = at - hl - 4; pre = {0x9f, 0x59, (uint8_t)(L >> 8), (uint8_t)L}; pre.insert(pre.end(), L, (uint8_t)'a'); }
                else if (f == "msgpack") { size_t L = at - hl - 6; pre = {0xdc, 0x00, 0x02, 0xc5, (uint8_t)(L >> 8), (uint8_t)L}; pre.insert(pre.end(), L, (uint8_t)'a'); }
                else { size_t L = at - hl - 5; pre = {'[', 'S', 'I', (uint8_t)(L >> 8), (uint8_t)L}; pre.insert(pre.end(), L, (uint8_t)'a'); }
                in.insert(in.begin(), pre.begin(), pre.end());
            }
            in.insert(in.end(), ex.begin(), ex.end());
            long long base = g_cur.load(); g_peak.store(base);
            bool ok = decode_with_limit(f, in, 1024, err);
            long long peak = g_peak.load() - base; long long bound = 64LL * (long long)in.size() + 262144LL;
            if (ok) fail(idx, c, "claim-beyond-supply-accepted", "");
            if (peak > bound) fail(idx, c, "memory-proportional-to-claim", "peak=" + std::to_string(peak) + " bound=" + std::to_string(bound));
            // the same through a stream source
            std::string s(in.begin(), in.end()); std::istringstream is(s); base = g_cur.load(); g_peak.store(base); std::string e2;
            bool ok2 = accepted([&] { if (f == "cbor") cbor::decode_cbor<json>(is); else if (f == "msgpack") msgpack::decode_msgpack<json>(is); else if (f == "ubjson") ubjson::decode_ubjson<json>(is); else bson::decode_bson<json>(is); }, e2);
            peak = g_peak.load() - base;
            if (ok2) fail(idx, c, "claim-beyond-supply-accepted-stream", "");
            if (peak > bound + 65536) fail(idx, c, "memory-proportional-to-claim-stream", "peak=" + std::to_string(peak));
            // the same through an iterator range (iterator_source)
            {   base = g_cur.load(); g_peak.store(base); std::string e4;
                bool ok4 = accepted([&] { if (f == "cbor") cbor::decode_cbor<json>(in.begin(), in.end()); else if (f == "msgpack") msgpack::decode_msgpack<json>(in.begin(), in.end());
                                          else if (f == "ubjson") ubjson::decode_ubjson<json>(in.begin(), in.end()); else bson::decode_bson<json>(in.begin(), in.end()); }, e4);
                peak = g_peak.load() - base;
                if (ok4) fail(idx, c, "claim-beyond-supply-accepted-iterators", "");
                if (peak > bound + 65536) fail(idx, c, "memory-proportional-to-claim-iterators", "peak=" + std::to_string(peak)); }
            if (c.has("at") && c["at"].as_int() > 0) return;     // (the typed decodes below take the header as the root item)
            // the same decoded straight into C++ containers (decode_traits): no allocation for the claimed length either
            auto typed = [&](const char* what, auto tag) {
                using T = decltype(tag); base = g_cur.load(); g_peak.store(base); std::string e3; bool threw_foreign = false;
                try { if (f == "cbor") cbor::decode_cbor<T>(in); else if (f == "msgpack") msgpack::decode_msgpack<T>(in); else if (f == "ubjson") ubjson::decode_ubjson<T>(in); else if (f == "bson") bson::decode_bson<T>(in); else { std::string t(in.begin(), in.end()); decode_json<T>(t); } }
                catch (const json_exception&) {} catch (const std::exception& e) { threw_foreign = true; e3 = e.what(); }
                long long pk = g_peak.load() - base;
                if (threw_foreign) fail(idx, c, std::string("claim-typed-decode-foreign-exception-") + what, e3);
                if (pk > bound) fail(idx, c, std::string("memory-proportional-to-claim-typed-") + what, "peak=" + std::to_string(pk) + " bound=" + std::to_string(bound));
            };
            typed("vector<int64>", std::vector<int64_t>{}); typed("vector<string>", std::vector<std::string>{}); typed("map<string,int>", std::map<std::string, int>{}); typed("vector<vector<double>>", std::vector<std::vector<double>>{});
            typed("unordered_map<string,int>", std::unordered_map<std::string, int>{}); typed("unordered_set<int64>", std::unordered_set<int64_t>{}); typed("set<string>", std::set<std::string>{});
            typed("deque<string>", std::deque<std::string>{}); typed("list<string>", std::list<std::string>{}); typed("unordered_map<string,vector<int>>", std::unordered_map<std::string, std::vector<int>>{});
        } else if (k == "deep") {
            DeepJob job{c["op"].str(), (long)c["depth"].as_int(), false, ""};
            pthread_attr_t at; pthread_attr_init(&at); pthread_attr_setstacksize(&at, 1 << 20);     // 1 MiB
            pthread_t th; pthread_create(&th, &at, deep_run, &job); pthread_join(th, nullptr);
            if (!job.ok) fail(idx, c, "deep-" + job.op, job.err);
        }
    });
    mj::Value s = hz::rec("stat"); s.set("cases", (int64_t)ncases); s.set("checks", (int64_t)nchecks); hz::emit(s);
    return 0;
}
