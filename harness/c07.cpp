// C07 conformance harness (G binding): byte strings with the verdict / value predicted by the
// TLA+ reference decoders (spec/Cbor.tla, Msgpack.tla, Ubjson.tla, Bson.tla) are fed to the real
// decoders through several entry points (decode_X from bytes, reader + json_decoder, stream
// source with a small buffer, cursor).
#include "harness.hpp"
#include "jconv.hpp"
#include "binval.hpp"
#include "events.hpp"
#include <jsoncons/json.hpp>
#include <jsoncons_ext/cbor/cbor.hpp>
#include <jsoncons_ext/msgpack/msgpack.hpp>
#include <jsoncons_ext/ubjson/ubjson.hpp>
#include <jsoncons_ext/bson/bson.hpp>
#include <sstream>
using namespace jsoncons;

struct Obs { bool ok = false; std::string err; json j; };

template <class F> static Obs guard(F f) { Obs r; try { r.j = f(); r.ok = true; } catch (const ser_error& e) { r.err = e.code().message(); } catch (const json_exception& e) { r.err = std::string("json_exception: ") + e.what(); } return r; }

static Obs decode_bytes(const std::string& f, const std::vector<uint8_t>& b) {
    if (f == "cbor") return guard([&] { return cbor::decode_cbor<json>(b); });
    if (f == "msgpack") return guard([&] { return msgpack::decode_msgpack<json>(b); });
    if (f == "ubjson") return guard([&] { return ubjson::decode_ubjson<json>(b); });
    return guard([&] { return bson::decode_bson<json>(b); });
}
static Obs decode_stream(const std::string& f, const std::vector<uint8_t>& b) {
    std::string s((const char*)b.data(), b.size()); std::istringstream is(s);
    if (f == "cbor") return guard([&] { return cbor::decode_cbor<json>(is); });
    if (f == "msgpack") return guard([&] { return msgpack::decode_msgpack<json>(is); });
    if (f == "ubjson") return guard([&] { return ubjson::decode_ubjson<json>(is); });
    return guard([&] { return bson::decode_bson<json>(is); });
}
template <class Reader> static Obs run_reader(const std::vector<uint8_t>& b) {
    Obs r; json_decoder<json> d; std::error_code ec; Reader rd(b, d); rd.read(ec);
    if (ec) { r.err = ec.message(); return r; } if (!d.is_valid()) { r.err = "decoder not valid"; return r; } r.j = d.get_result(); r.ok = true; return r;
}
static Obs decode_reader(const std::string& f, const std::vector<uint8_t>& b) {
    if (f == "cbor") return run_reader<cbor::cbor_bytes_reader>(b);
    if (f == "msgpack") return run_reader<msgpack::msgpack_bytes_reader>(b);
    if (f == "ubjson") return run_reader<ubjson::ubjson_bytes_reader>(b);
    return run_reader<bson::bson_bytes_reader>(b);
}
template <class Cursor> static Obs run_cursor(const std::vector<uint8_t>& b) {
    Obs r; std::error_code ec; Cursor cur(b, ec); if (ec) { r.err = ec.message(); return r; }
    json_decoder<json> d;
    if (!cur.done()) { cur.read_to(d, ec); if (ec) { r.err = ec.message(); return r; } }
    if (!d.is_valid()) { r.err = "decoder not valid"; return r; } r.j = d.get_result(); r.ok = true; return r;
}
static Obs decode_cursor(const std::string& f, const std::vector<uint8_t>& b) {
    if (f == "cbor") return run_cursor<cbor::cbor_bytes_cursor>(b);
    if (f == "msgpack") return run_cursor<msgpack::msgpack_bytes_cursor>(b);
    if (f == "ubjson") return run_cursor<ubjson::ubjson_bytes_cursor>(b);
    return run_cursor<bson::bson_bytes_cursor>(b);
}

int main(int argc, char** argv) {
    auto args = hz::parse_args(argc, argv);
    long ncases = 0, nchecks = 0, nacc = 0;
    struct { const char* name; Obs (*fn)(const std::string&, const std::vector<uint8_t>&); } entries[] = {{"decode", decode_bytes}, {"stream", decode_stream}, {"reader", decode_reader}, {"cursor", decode_cursor}};
    hz::for_each_case(args, [&](size_t idx, const std::string& line) {
        mj::Value c = mj::parse(line); ++ncases;
        const std::string& f = c["f"].str(); std::vector<uint8_t> b = bv::bytes_of(c["b"]);
        bool ok = c["ok"].as_bool(), vd = c["vd"].as_bool(), pv = c["pv"].as_bool(); if (ok) ++nacc;
        for (auto& en : entries) {
            Obs r = en.fn(f, b); ++nchecks;
            std::string why; const char* what = nullptr;
            if (vd && r.ok != ok) what = ok ? "well-formed-rejected" : "ill-formed-accepted";
            else if (pv && r.ok && !bv::matches(r.j, c["v"], why)) what = "value";
            if (what) {
                mj::Value m = hz::rec("mismatch"); m.set("idx", (int64_t)idx); m.set("entry", en.name); m.set("what", what); m.set("why", why); m.set("err", r.err);
                if (r.ok) { std::string s; try { r.j.dump(s); } catch (...) { s = "<undumpable>"; } m.set("got", s); }
                m.set("case", c); hz::emit_mismatch(m);
            }
        }
    });
    mj::Value s = hz::rec("stat"); s.set("cases", (int64_t)ncases); s.set("checks", (int64_t)nchecks); s.set("accepted", (int64_t)nacc); hz::emit(s);
    return 0;
}
