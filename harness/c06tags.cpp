// C06 "tags" family - conformance harness (V binding), recording only (no oracle logic here).
//
// Case kinds (one JSON object per line, produced by spec/gen/MC_C06tags.tla):
//   {"fam":"val", "v": V, "dev":[..]}      V = binary data model of spec/Cbor.tla plus
//                                          ["tagged", <tag name>, <base>]  a jsoncons value carrying a semantic tag, base =
//                                          ["tstr",bytes] | ["bstr",bytes] | ["uint",be] | ["nint",be] | ["f64",b8]
//   {"fam":"ta", "et": T, "el":[be-bytes..], "dev":[..]}   a std::vector<T>, elements as big-endian raw bit patterns
//                                          T = u8 u16 u32 u64 i8 i16 i32 i64 f32 f64 half
// For every (case, format, route) one trace line is written:
//   {k:"trace", idx, fam, f, route, ta, v | et+el, dev, enc: ok|err, err, bytes, dec_ok, dec, derr [, vdec_ok, vdec, wrap]}
// dec = the value decode_X<json> reads from the produced bytes, projected WITH its semantic tags
// (["tagged", name, base]); vdec = what decode_X<std::vector<T>> reads (typed route), as raw bit patterns.
// spec/trace/Trace_C06tags.tla decides whether a line is acceptable (spec/BinTags.tla).
#include "harness.hpp"
#include "binval.hpp"
#include <jsoncons/json.hpp>
#include <jsoncons_ext/cbor/cbor.hpp>
#include <jsoncons_ext/msgpack/msgpack.hpp>
#include <jsoncons_ext/ubjson/ubjson.hpp>
#include <jsoncons_ext/bson/bson.hpp>
#include <map>
using namespace jsoncons;

// ---------------------------------------------------------------- tags <-> names
static const char* tag_name(semantic_tag t) {
    switch (t) {
        case semantic_tag::none: return "none";
        case semantic_tag::bigint: return "bigint";
        case semantic_tag::bigdec: return "bigdec";
        case semantic_tag::bigfloat: return "bigfloat";
        case semantic_tag::datetime: return "datetime";
        case semantic_tag::epoch_second: return "epoch_second";
        case semantic_tag::epoch_milli: return "epoch_milli";
        case semantic_tag::epoch_nano: return "epoch_nano";
        case semantic_tag::base16: return "base16";
        case semantic_tag::base64: return "base64";
        case semantic_tag::base64url: return "base64url";
        case semantic_tag::uri: return "uri";
        case semantic_tag::float128: return "float128";
        case semantic_tag::undefined: return "undefined";
        case semantic_tag::ext: return "ext";
        case semantic_tag::clamped: return "clamped";
        case semantic_tag::multi_dim_row_major: return "multi_dim_row_major";
        case semantic_tag::multi_dim_column_major: return "multi_dim_column_major";
        case semantic_tag::id: return "id";
        case semantic_tag::regex: return "regex";
        case semantic_tag::code: return "code";
        default: return "other";
    }
}
static semantic_tag tag_of(const std::string& s) {
    static const semantic_tag all[] = {semantic_tag::bigint, semantic_tag::bigdec, semantic_tag::bigfloat, semantic_tag::datetime, semantic_tag::epoch_second,
        semantic_tag::epoch_milli, semantic_tag::epoch_nano, semantic_tag::base16, semantic_tag::base64, semantic_tag::base64url, semantic_tag::uri};
    for (auto t : all) if (s == tag_name(t)) return t;
    throw std::runtime_error("c06tags: unknown tag " + s);
}

// ---------------------------------------------------------------- case value -> jsoncons value
static json build_t(const mj::Value& e) {
    const std::string& k = e[0].str();
    if (k == "tagged") {
        semantic_tag t = tag_of(e[1].str());
        const mj::Value& b = e[2]; const std::string& bk = b[0].str();
        if (bk == "tstr") { auto s = bv::bytes_of(b[1]); return json(std::string((const char*)s.data(), s.size()), t); }
        if (bk == "bstr") { auto s = bv::bytes_of(b[1]); return json(byte_string_arg, s, t); }
        if (bk == "uint") { uint64_t u = 0; bv::be_to_u64(b[1], u); return json(u, t); }
        if (bk == "nint") { uint64_t n = 0; bv::be_to_u64(b[1], n); return json((int64_t)(-1 - (int64_t)n), t); }
        if (bk == "f64") { auto s = bv::bytes_of(b[1]); uint64_t u = 0; for (int i = 0; i < 8; ++i) u = (u << 8) | s[i]; double d; memcpy(&d, &u, 8); return json(d, t); }
        throw std::runtime_error("c06tags: unsupported tagged base " + bk);
    }
    if (k == "arr") { json a(json_array_arg); for (auto& x : e[1].a) a.push_back(build_t(x)); return a; }
    if (k == "map") { json o(json_object_arg); for (auto& kv : e[1].a) { auto kb = bv::bytes_of(kv[0][1]); o.insert_or_assign(std::string((const char*)kb.data(), kb.size()), build_t(kv[1])); } return o; }
    return bv::build<json>(e);
}

// ---------------------------------------------------------------- jsoncons value -> data model WITH tags
static mj::Value f64_bits(double d) { uint64_t u; memcpy(&u, &d, 8); mj::Value a = mj::Value::array(); for (int i = 7; i >= 0; --i) a.push((int)((u >> (8 * i)) & 0xff)); return a; }
static mj::Value project_t(const json& j) {
    mj::Value r = mj::Value::array();
    switch (j.type()) {
        case json_type::null: r.push(j.tag() == semantic_tag::undefined ? "undef" : "null"); return r;
        case json_type::boolean: r.push("bool"); r.push(j.as<bool>()); break;
        case json_type::uint64: r.push("uint"); r.push(bv::be_bytes(j.as<uint64_t>())); break;
        case json_type::int64: { int64_t v = j.as<int64_t>(); if (v >= 0) { r.push("uint"); r.push(bv::be_bytes((uint64_t)v)); } else { r.push("nint"); r.push(bv::be_bytes((uint64_t)(-1 - v))); } break; }
        case json_type::float16: case json_type::float64: r.push("f64"); r.push(f64_bits(j.as<double>())); break;
        case json_type::string: { std::string s = j.as<std::string>(); r.push("tstr"); r.push(bv::raw(s.data(), s.size())); break; }
        case json_type::byte_string: { auto v = j.as_byte_string_view(); r.push("bstr"); r.push(bv::raw(v.data(), v.size())); break; }
        case json_type::array: { r.push("arr"); mj::Value a = mj::Value::array(); for (auto& e : j.array_range()) a.push(project_t(e)); r.push(a); return r; }
        case json_type::object: { r.push("map"); mj::Value a = mj::Value::array();
            for (auto& kv : j.object_range()) { mj::Value p = mj::Value::array(); mj::Value kk = mj::Value::array(); kk.push("tstr"); std::string ks(kv.key()); kk.push(bv::raw(ks.data(), ks.size())); p.push(kk); p.push(project_t(kv.value())); a.push(p); }
            r.push(a); return r; }
        default: r.push("other"); return r;
    }
    if (j.tag() == semantic_tag::none) return r;
    mj::Value t = mj::Value::array(); t.push("tagged"); t.push(tag_name(j.tag())); t.push(r); return t;
}

// ---------------------------------------------------------------- recording
struct Line {
    mj::Value t; std::vector<uint8_t> bytes; bool ok = true;
    Line(size_t idx, const mj::Value& c, const char* f, const char* route, bool ta_opt) {
        t = hz::rec("trace"); t.set("idx", (int64_t)idx); t.set("fam", c["fam"]); t.set("f", f); t.set("route", route); t.set("ta", ta_opt);
        if (c.has("v")) t.set("v", c["v"]); else { t.set("et", c["et"]); t.set("el", c["el"]); }
        t.set("dev", c.has("dev") ? c["dev"] : mj::Value::array());
    }
    template <class F> void encode(F enc) {
        std::string err;
        try { enc(bytes); }
        catch (const ser_error& e) { ok = false; err = e.code().message(); }
        catch (const json_exception& e) { ok = false; err = e.what(); }
        catch (const std::exception& e) { ok = false; err = e.what(); }
        t.set("enc", ok ? "ok" : "err"); t.set("err", err); t.set("bytes", bv::raw(bytes.data(), bytes.size()));
    }
    template <class F> void decode(F dec) {
        bool dok = false; mj::Value dv = mj::Value::array(); dv.push("none"); std::string derr;
        if (ok) { try { json back = dec(bytes); dv = project_t(back); dok = true; } catch (const std::exception& e) { derr = e.what(); } }
        t.set("dec_ok", dok); t.set("dec", dv); t.set("derr", derr);
    }
};

struct Fmt {
    const char* name;
    void (*enc_dom)(const json&, std::vector<uint8_t>&, bool pack, bool ta);
    void (*enc_stream)(const json&, std::vector<uint8_t>&, bool ta);
    json (*dec)(const std::vector<uint8_t>&);
};
static cbor::cbor_options copt(bool pack, bool ta) { cbor::cbor_options o; o.pack_strings(pack); o.use_typed_arrays(ta); return o; }
static const Fmt FMTS[] = {
    {"cbor", [](const json& j, std::vector<uint8_t>& b, bool pack, bool ta) { cbor::encode_cbor(j, b, copt(pack, ta)); },
             [](const json& j, std::vector<uint8_t>& b, bool ta) { cbor::cbor_bytes_encoder e(b, copt(false, ta)); j.dump(e); },
             [](const std::vector<uint8_t>& b) { return cbor::decode_cbor<json>(b); }},
    {"msgpack", [](const json& j, std::vector<uint8_t>& b, bool, bool) { msgpack::encode_msgpack(j, b); },
             [](const json& j, std::vector<uint8_t>& b, bool) { msgpack::msgpack_bytes_encoder e(b); j.dump(e); },
             [](const std::vector<uint8_t>& b) { return msgpack::decode_msgpack<json>(b); }},
    {"ubjson", [](const json& j, std::vector<uint8_t>& b, bool, bool) { ubjson::encode_ubjson(j, b); },
             [](const json& j, std::vector<uint8_t>& b, bool) { ubjson::ubjson_bytes_encoder e(b); j.dump(e); },
             [](const std::vector<uint8_t>& b) { return ubjson::decode_ubjson<json>(b); }},
    {"bson", [](const json& j, std::vector<uint8_t>& b, bool, bool) { bson::encode_bson(j, b); },
             [](const json& j, std::vector<uint8_t>& b, bool) { bson::bson_bytes_encoder e(b); j.dump(e); },
             [](const std::vector<uint8_t>& b) { return bson::decode_bson<json>(b); }},
};

static void val_case(size_t idx, const mj::Value& c, const Fmt& F) {
    bool is_cbor = std::string(F.name) == "cbor";
    { Line l(idx, c, F.name, "dom", false); l.encode([&](std::vector<uint8_t>& b) { json j = build_t(c["v"]); F.enc_dom(j, b, false, false); }); l.decode(F.dec); hz::emit(l.t); }
    { Line l(idx, c, F.name, "stream", false); l.encode([&](std::vector<uint8_t>& b) { json j = build_t(c["v"]); F.enc_stream(j, b, false); }); l.decode(F.dec); hz::emit(l.t); }
    if (is_cbor) { Line l(idx, c, F.name, "packed", false); l.encode([&](std::vector<uint8_t>& b) { json j = build_t(c["v"]); F.enc_dom(j, b, true, false); }); l.decode(F.dec); hz::emit(l.t); }
}

// ---------------------------------------------------------------- typed arrays
template <class T> static T from_be(const mj::Value& bs) { uint64_t u = 0; for (auto& x : bs.a) u = (u << 8) | (uint64_t)x.as_int(); T t; memcpy(&t, &u, sizeof(T)); /* little-endian host */ return t; }
template <class T> static mj::Value to_be(T t) { uint64_t u = 0; memcpy(&u, &t, sizeof(T)); /* little-endian host */ mj::Value a = mj::Value::array(); for (int i = (int)sizeof(T) - 1; i >= 0; --i) a.push((int)((u >> (8 * i)) & 0xff)); return a; }

template <class T, class EncVec, class DecVec, class EncMap, class DecMap, class MakeEnc>
static void ta_fmt(size_t idx, const mj::Value& c, const Fmt& F, bool half, EncVec encvec, DecVec decvec, EncMap encmap, DecMap decmap, MakeEnc with_encoder) {
    std::vector<T> vec; for (auto& e : c["el"].a) vec.push_back(from_be<T>(e));
    bool is_cbor = std::string(F.name) == "cbor", is_bson = std::string(F.name) == "bson";
    auto vdec_rec = [&](Line& l, auto getvec) {
        bool vok = false; mj::Value out = mj::Value::array(); std::string verr;
        if (l.ok) { try { std::vector<T> back = getvec(l.bytes); for (auto& x : back) out.push(to_be<T>(x)); vok = true; } catch (const std::exception& e) { verr = e.what(); } }
        l.t.set("vdec_ok", vok); l.t.set("vdec", out); l.t.set("verr", verr);
    };
    for (int ta = 0; ta <= (is_cbor ? 1 : 0); ++ta) {
        if (!half) {
            // typed route: encode_X(std::vector<T>) / decode_X<std::vector<T>>; BSON needs an object at the root: std::map<std::string, std::vector<T>>
            Line l(idx, c, F.name, "typed", ta != 0); l.t.set("wrap", is_bson);
            if (is_bson) { l.encode([&](std::vector<uint8_t>& b) { std::map<std::string, std::vector<T>> m; m["a"] = vec; encmap(m, b, ta != 0); }); l.decode(F.dec); vdec_rec(l, [&](const std::vector<uint8_t>& b) { auto m = decmap(b); return m.at("a"); }); }
            else { l.encode([&](std::vector<uint8_t>& b) { encvec(vec, b, ta != 0); }); l.decode(F.dec); vdec_rec(l, [&](const std::vector<uint8_t>& b) { return decvec(b); }); }
            hz::emit(l.t);
        }
        {   // streaming encoder route: encoder.typed_array(span)
            Line l(idx, c, F.name, "enc", ta != 0); l.t.set("wrap", is_bson);
            l.encode([&](std::vector<uint8_t>& b) { with_encoder(b, ta != 0, is_bson, vec); }); l.decode(F.dec);
            if (!half) vdec_rec(l, [&](const std::vector<uint8_t>& b) { if (is_bson) { auto m = decmap(b); return m.at("a"); } return decvec(b); });
            hz::emit(l.t);
        }
        if (!half) {   // DOM / dump routes: a json array of the elements
            for (int s = 0; s < 2; ++s) {
                Line l(idx, c, F.name, s ? "stream" : "dom", ta != 0); l.t.set("wrap", is_bson);
                l.encode([&](std::vector<uint8_t>& b) { json a(vec); json j = a; if (is_bson) { j = json(json_object_arg); j.insert_or_assign("a", a); } if (s) F.enc_stream(j, b, ta != 0); else F.enc_dom(j, b, false, ta != 0); });
                l.decode(F.dec); hz::emit(l.t);
            }
        }
    }
}

template <class T>
static void ta_type(size_t idx, const mj::Value& c, const std::string& only, bool half = false) {
    using V = std::vector<T>; using M = std::map<std::string, std::vector<T>>;
    auto span_of = [](const V& v) { return jsoncons::span<const T>(v.data(), v.size()); };
    for (const Fmt& F : FMTS) {
        if (!only.empty() && only != F.name) continue;
        std::string f = F.name;
        if (f == "cbor") ta_fmt<T>(idx, c, F, half,
            [](const V& v, std::vector<uint8_t>& b, bool ta) { cbor::encode_cbor(v, b, copt(false, ta)); }, [](const std::vector<uint8_t>& b) { return cbor::decode_cbor<V>(b); },
            [](const M& m, std::vector<uint8_t>& b, bool ta) { cbor::encode_cbor(m, b, copt(false, ta)); }, [](const std::vector<uint8_t>& b) { return cbor::decode_cbor<M>(b); },
            [&](std::vector<uint8_t>& b, bool ta, bool, const V& v) { cbor::cbor_bytes_encoder e(b, copt(false, ta)); if (half) e.typed_array(half_arg, jsoncons::span<const uint16_t>((const uint16_t*)v.data(), v.size())); else e.typed_array(span_of(v)); e.flush(); });
        else if (f == "msgpack") ta_fmt<T>(idx, c, F, half,
            [](const V& v, std::vector<uint8_t>& b, bool) { msgpack::encode_msgpack(v, b); }, [](const std::vector<uint8_t>& b) { return msgpack::decode_msgpack<V>(b); },
            [](const M& m, std::vector<uint8_t>& b, bool) { msgpack::encode_msgpack(m, b); }, [](const std::vector<uint8_t>& b) { return msgpack::decode_msgpack<M>(b); },
            [&](std::vector<uint8_t>& b, bool, bool, const V& v) { msgpack::msgpack_bytes_encoder e(b); if (half) e.typed_array(half_arg, jsoncons::span<const uint16_t>((const uint16_t*)v.data(), v.size())); else e.typed_array(span_of(v)); e.flush(); });
        else if (f == "ubjson") ta_fmt<T>(idx, c, F, half,
            [](const V& v, std::vector<uint8_t>& b, bool) { ubjson::encode_ubjson(v, b); }, [](const std::vector<uint8_t>& b) { return ubjson::decode_ubjson<V>(b); },
            [](const M& m, std::vector<uint8_t>& b, bool) { ubjson::encode_ubjson(m, b); }, [](const std::vector<uint8_t>& b) { return ubjson::decode_ubjson<M>(b); },
            [&](std::vector<uint8_t>& b, bool, bool, const V& v) { ubjson::ubjson_bytes_encoder e(b); if (half) e.typed_array(half_arg, jsoncons::span<const uint16_t>((const uint16_t*)v.data(), v.size())); else e.typed_array(span_of(v)); e.flush(); });
        else ta_fmt<T>(idx, c, F, half,
            [](const V& v, std::vector<uint8_t>& b, bool) { bson::encode_bson(v, b); }, [](const std::vector<uint8_t>& b) { return bson::decode_bson<V>(b); },
            [](const M& m, std::vector<uint8_t>& b, bool) { bson::encode_bson(m, b); }, [](const std::vector<uint8_t>& b) { return bson::decode_bson<M>(b); },
            [&](std::vector<uint8_t>& b, bool, bool, const V& v) { bson::bson_bytes_encoder e(b); e.begin_object(); e.key("a"); if (half) e.typed_array(half_arg, jsoncons::span<const uint16_t>((const uint16_t*)v.data(), v.size())); else e.typed_array(span_of(v)); e.end_object(); e.flush(); });
    }
}

int main(int argc, char** argv) {
    auto args = hz::parse_args(argc, argv);
    std::string only = args.opt("--format", "");
    long ncases = 0;
    hz::for_each_case(args, [&](size_t idx, const std::string& line) {
        mj::Value c = mj::parse(line); ++ncases;
        const std::string& fam = c["fam"].str();
        if (fam == "val") { for (const Fmt& F : FMTS) if (only.empty() || only == F.name) val_case(idx, c, F); }
        else if (fam == "ta") {
            const std::string& et = c["et"].str();
            if (et == "u8") ta_type<uint8_t>(idx, c, only); else if (et == "u16") ta_type<uint16_t>(idx, c, only); else if (et == "u32") ta_type<uint32_t>(idx, c, only);
            else if (et == "u64") ta_type<uint64_t>(idx, c, only); else if (et == "i8") ta_type<int8_t>(idx, c, only); else if (et == "i16") ta_type<int16_t>(idx, c, only);
            else if (et == "i32") ta_type<int32_t>(idx, c, only); else if (et == "i64") ta_type<int64_t>(idx, c, only); else if (et == "f32") ta_type<float>(idx, c, only);
            else if (et == "f64") ta_type<double>(idx, c, only); else if (et == "half") ta_type<uint16_t>(idx, c, only, true);
            else throw std::runtime_error("c06tags: unknown element type " + et);
        } else throw std::runtime_error("c06tags: unknown family " + fam);
    });
    mj::Value s = hz::rec("stat"); s.set("cases", (int64_t)ncases); hz::emit(s);
    return 0;
}
