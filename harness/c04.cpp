// C04 conformance harness (V binding): records what the real code computes; Trace_C04 validates it with
// BigNat (true integer arithmetic) and JsonText (number grammar / native-range classification).
//   arith : jsoncons::bigint  + - * / % compare << >>      -> result digits
//   conv  : bigint to decimal / hex / big-endian bytes and back
//   lit   : JSON integer literal -> class and digits of the parsed value
//   round : decimal literals N.0 / Ne0 / N0e-1 -> bits of the parsed double
//   dbl   : (harness-enumerated, spec-declared range) double -> text -> double
#include "harness.hpp"
#include "jconv.hpp"
#include "binval.hpp"
#include <jsoncons/json.hpp>
#include <jsoncons/utility/bigint.hpp>
using namespace jsoncons;
static mj::Value units(const std::string& s) { mj::Value a = mj::Value::array(); for (unsigned char c : s) a.push((int)c); return a; }
static bigint mk(const mj::Value& sd) { std::string s = (sd[0].as_int() ? "-" : "") + jc::units_to_string(sd[1]); return bigint(s.c_str(), s.size()); }
static mj::Value sd_of(const bigint& x) { std::string s; x.write_string(s); mj::Value r = mj::Value::array(); bool neg = !s.empty() && s[0] == '-'; r.push(neg ? 1 : 0); r.push(units(neg ? s.substr(1) : s)); return r; }
static mj::Value bits_of(double d) { uint64_t u; memcpy(&u, &d, 8); mj::Value b = mj::Value::array(); for (int i = 7; i >= 0; --i) b.push((int)((u >> (8 * i)) & 0xff)); return b; }

static void dbl_line(double d) {
    mj::Value t = hz::rec("trace"); t.set("e", "dbl"); t.set("bits", bits_of(d));
    std::string s; json(d).dump(s); t.set("out", units(s));
    bool ok = true; mj::Value back = mj::Value::array();
    try { json p = json::parse(s); if (p.type() != json_type::float64) ok = false; else back = bits_of(p.as<double>()); } catch (const std::exception&) { ok = false; }
    t.set("isdbl", ok); t.set("back", back); hz::emit(t);
}

int main(int argc, char** argv) {
    auto args = hz::parse_args(argc, argv);
    long ncases = 0; std::string sweep = args.opt("--sweep", "");
    if (!sweep.empty()) {     // spec-declared ranges enumerated by the harness: every float16 value, strided float32, seeded doubles
        long stride = atol(args.opt("--stride", "4099").c_str()); uint64_t seed = strtoull(args.opt("--seed", "0").c_str(), nullptr, 10);
        if (sweep == "half") for (uint32_t h = args.shard; h < 65536; h += (uint32_t)args.nshards) { double d = bv::half_to_double((uint16_t)h); if (std::isfinite(d)) dbl_line(d); }
        if (sweep == "float") for (uint64_t u = (uint64_t)args.shard * stride; u < (1ULL << 32); u += (uint64_t)args.nshards * stride) { uint32_t w = (uint32_t)u; float f; memcpy(&f, &w, 4); if (std::isfinite(f)) dbl_line((double)f); }
        if (sweep == "double") { uint64_t x = seed * 0x9E3779B97F4A7C15ULL + args.shard + 1; for (long i = 0; i < stride; ++i) { x ^= x << 13; x ^= x >> 7; x ^= x << 17; double d; memcpy(&d, &x, 8); if (std::isfinite(d)) dbl_line(d); } }
        return 0;
    }
    hz::for_each_case(args, [&](size_t idx, const std::string& line) {
        mj::Value c = mj::parse(line); ++ncases;
        const std::string& e = c["e"].str();
        if (e == "dblb") { uint64_t w = ((uint64_t)c["sign"].as_int() << 63) | ((uint64_t)c["exp"].as_int() << 52) | ((uint64_t)c["hi"].as_int() << 26) | (uint64_t)c["lo"].as_int(); double d; memcpy(&d, &w, 8); dbl_line(d); return; }
        mj::Value t = hz::rec("trace"); t.set("idx", (int64_t)idx); t.set("e", e);
        try {
            if (e == "arith") {
                const std::string& op = c["op"].str(); bigint a = mk(c["a"]), b = mk(c["b"]); long k = (long)c["k"].as_int();
                t.set("op", op); t.set("a", c["a"]); t.set("b", c["b"]); t.set("sh", (int64_t)k);
                bool bz = (jc::units_to_string(c["b"][1]) == "0");
                if ((op == "div" || op == "mod") && bz) { t.set("skip", true); hz::emit(t); return; }
                t.set("skip", false);
                if (op == "add") t.set("r", sd_of(a + b)); else if (op == "sub") t.set("r", sd_of(a - b)); else if (op == "mul") t.set("r", sd_of(a * b));
                else if (op == "div") { t.set("r", sd_of(a / b)); t.set("m", sd_of(a % b)); } else if (op == "mod") { t.set("r", sd_of(a / b)); t.set("m", sd_of(a % b)); }
                else if (op == "cmp") { int cmp = a.compare(b); t.set("cmp", cmp < 0 ? 0 : cmp == 0 ? 1 : 2); t.set("lt", a < b); t.set("eq", a == b); t.set("le", a <= b); }
                else if (op == "shl") { bigint x = a; x <<= (size_t)k; t.set("r", sd_of(x)); } else if (op == "shr") { bigint x = a; x >>= (size_t)k; t.set("r", sd_of(x)); }
            } else if (e == "conv") {
                bigint a = mk(c["a"]); t.set("a", c["a"]);
                std::string dec, hex; a.write_string(dec); a.write_string_hex(hex); t.set("dec", units(dec)); t.set("hex", units(hex));
                int sg = 0; std::vector<uint8_t> by; a.write_bytes_be(sg, by); t.set("signum", sg + 1); t.set("bytes", bv::raw(by.data(), by.size()));
                bigint back = bigint::from_bytes_be(sg, by.data(), by.size()); t.set("bytes_back", back == a);
                std::string hx = hex; bool neg = !hx.empty() && hx[0] == '-'; std::string mag = neg ? hx.substr(1) : hx; bigint hb = bigint::parse_radix(mag.data(), mag.size(), 16); if (neg) hb = -hb; t.set("hex_back", hb == a);
                t.set("dec_back", bigint(dec.c_str(), dec.size()) == a);
            } else if (e == "lit") {
                std::string text = jc::units_to_string(c["text"]); t.set("text", c["text"]);
                json j = json::parse(text); std::string cls, dg;
                if (j.type() == json_type::int64) { cls = "int"; dg = std::to_string(j.as<int64_t>()); } else if (j.type() == json_type::uint64) { uint64_t u = j.as<uint64_t>(); cls = u <= (uint64_t)INT64_MAX ? "int" : "uint"; dg = std::to_string(u); }
                else if (j.type() == json_type::string && j.tag() == semantic_tag::bigint) { cls = "big"; dg = j.as<std::string>(); } else { cls = "other"; j.dump(dg); }
                t.set("cls", cls); t.set("digits", units(dg));
                json j2 = json::parse(text, json_options{}.lossless_bignum(false)); t.set("nolossless_is_number", j2.is_number());
            } else if (e == "round") {
                std::string n = jc::units_to_string(c["n"]); t.set("n", c["n"]); mj::Value forms = mj::Value::array();
                for (const std::string& txt : {n + ".0", n + "e0", n + "0e-1", n + "00E-2", n.substr(0, 1) + "." + n.substr(1) + "e" + std::to_string(n.size() - 1)}) {
                    json j = json::parse(txt); mj::Value f = mj::Value::array(); f.push(units(txt)); f.push(j.type() == json_type::float64 ? bits_of(j.as<double>()) : mj::Value::array()); forms.push(f);
                }
                t.set("forms", forms);
            }
        } catch (const std::exception& ex) { t.set("exception", ex.what()); }
        hz::emit(t);
    });
    mj::Value s = hz::rec("stat"); s.set("cases", (int64_t)ncases); hz::emit(s);
    return 0;
}
