// C18 conformance harness: CSV and TOON round trips.
//   csv  case {k:"csv", o:{fd,qc,ec,style,infer,ld,mapping,header,iel}, names, rows, doc, dev}
//        doc (the table as a JSON value under o.mapping) is built as json and ojson, encoded with
//        csv::encode_csv under options o and decoded with csv::decode_csv under the same options,
//        through the string and the stream overloads.  G: the decoded value must equal doc (the
//        spec's prediction is the table itself).  V: for the ojson/string route the execution is
//        recorded as a trace line {k,idx,o,names,rows,text,dec,dev}; Trace_C18 re-reads text with
//        the SPEC's CSV reader.
//   toon case {k:"toon", v, indent, delim, lm, dev}: encode_toon / decode_toon, same scheme.
// No oracle logic here beyond equality with the case's own document.  Case and trace I/O use
// minijson; text travels as code-point arrays.
#include "harness.hpp"
#include "jconv.hpp"
#include <jsoncons/json.hpp>
#include <jsoncons_ext/csv/csv.hpp>
#include <jsoncons_ext/toon/toon.hpp>
#include <jsoncons_ext/toon/decode_toon.hpp>
#include <sstream>
using namespace jsoncons;
static long nchecks = 0;
static FILE* g_trace = nullptr;       // non-dev trace lines (--trace PREFIX), else stdout records
static FILE* g_trace_dev = nullptr;   // trace lines of cases tagged with a known-deviation class

static long ndev_mismatches = 0;
static std::map<std::string, int> g_dev_seen;
// A mismatch on a case the spec tagged with known-deviation classes is reported at most 3 times per
// (classes, what, flavour, route) and shard, outside the framework's cap of 300 mismatch records per shard, so that
// the (many) known deviations can never crowd out an untagged mismatch.
static void fail(size_t idx, const mj::Value& c, const char* flavour, const char* route, const std::string& what, const mj::Value& got, const std::string& text) {
    mj::Value m = hz::rec("mismatch"); m.set("idx", (int64_t)idx); m.set("flavour", flavour); m.set("route", route); m.set("what", what);
    m.set("got", got); m.set("text", jc::cps_of(text)); m.set("case", c);
    if (c["dev"].size() > 0) {
        ++ndev_mismatches;
        std::string key = mj::dump(c["dev"]) + what + flavour + route;
        if (++g_dev_seen[key] <= 3) hz::emit(m);
    } else hz::emit_mismatch(m);
}
static std::string cp_str(const mj::Value& v) { std::string s; jc::put_utf8(s, (uint32_t)v.as_int()); return s; }

static csv::csv_options csv_opts(const mj::Value& o, const mj::Value& names) {
    csv::csv_options r;
    r.field_delimiter((char)o["fd"].as_int()).quote_char((char)o["qc"].as_int()).quote_escape_char((char)o["ec"].as_int());
    const std::string& st = o["style"].str();
    r.quote_style(st == "all" ? csv::quote_style_kind::all : st == "nonnumeric" ? csv::quote_style_kind::nonnumeric
                  : st == "none" ? csv::quote_style_kind::none : csv::quote_style_kind::minimal);
    r.line_delimiter(jc::cps_to_utf8(o["ld"]));
    r.infer_types(o["infer"].as_bool());
    r.ignore_empty_lines(o["iel"].as_bool());
    const std::string& mp = o["mapping"].str();
    r.mapping_kind(mp == "n_rows" ? csv::csv_mapping_kind::n_rows : mp == "n_objects" ? csv::csv_mapping_kind::n_objects : csv::csv_mapping_kind::m_columns);
    const std::string& h = o["header"].str();
    if (h == "assume") r.assume_header(true);
    else if (h == "names") {
        std::string cn; for (size_t i = 0; i < names.size(); ++i) { if (i) cn.push_back(','); cn += jc::cps_to_utf8(names[i]); }
        r.column_names(cn).header_lines(1);
    }
    return r;
}

static void trace_line(const mj::Value& t, bool dev) {
    FILE* f = dev ? g_trace_dev : g_trace;
    if (f) { std::string s = mj::dump(t); s.push_back('\n'); fwrite(s.data(), 1, s.size(), f); }
    else { mj::Value r = hz::rec("trace"); for (auto& kv : t.o) if (kv.first != "k") r.set(kv.first, kv.second); r.set("kind", t["k"]); hz::emit(r); }
}

template <class Json>
static void csv_case(size_t idx, const mj::Value& c, const char* flavour, bool trace) {
    csv::csv_options opt = csv_opts(c["o"], c["names"]);
    Json j = jc::build_doc<Json>(c["doc"]);
    // route 1: string overloads
    std::string text; bool enc_ok = true; mj::Value dec = mj::Value::array(); ++nchecks;
    try { csv::encode_csv(j, text, opt); }
    catch (const std::exception& e) { enc_ok = false; fail(idx, c, flavour, "string", "encode-error", mj::Value(e.what()), text); }
    if (enc_ok) {
        try {
            Json d = csv::decode_csv<Json>(text, opt);
            dec = jc::doc_wire(d);
            if (!(dec == jc::canon_doc(c["doc"]))) fail(idx, c, flavour, "string", "roundtrip", dec, text);
        } catch (const std::exception& e) { dec.push("error"); dec.push(e.what()); fail(idx, c, flavour, "string", "decode-error", mj::Value(e.what()), text); }
    } else dec.push("none");
    if (trace) {
        mj::Value t = mj::Value::object(); t.set("k", "csv"); t.set("idx", (int64_t)idx); t.set("o", c["o"]); t.set("names", c["names"]); t.set("rows", c["rows"]);
        t.set("enc", enc_ok); t.set("text", jc::cps_of(text)); t.set("dec", dec); t.set("dev", c["dev"]);
        trace_line(t, c["dev"].size() > 0);
    }
    // route 3: the same table written as rows (the column names as a first row of strings: every name is a field like any other, quoted
    // where the options require it) and read back with the case's own options (assume_header + mapping): the header line may hold quoted
    // names with delimiters, quotes and line breaks.  Not run where a name is empty or the case carries a deviation other than the raw header.
    {
        const std::string& h = c["o"]["header"].str(); const std::string& mp = c["o"]["mapping"].str();
        bool run = h == "assume" && (mp == "n_objects" || mp == "m_columns") && c["names"].size() > 0;
        for (size_t i = 0; run && i < c["names"].size(); ++i) if (c["names"][i].size() == 0) run = false;
        if (run && c["o"]["ec"].as_int() != c["o"]["qc"].as_int())      // (a name holding the escape character meets the known escape-char-unescaped deviation of the field writer)
            for (size_t i = 0; run && i < c["names"].size(); ++i) for (size_t k = 0; k < c["names"][i].size(); ++k) if (c["names"][i][k].as_int() == c["o"]["ec"].as_int()) run = false;
        for (size_t i = 0; run && i < c["dev"].size(); ++i) if (c["dev"][i].str() != "header-unquoted") run = false;
        if (run) {
            ++nchecks;
            Json table(json_array_arg);
            { Json hr(json_array_arg); for (size_t i = 0; i < c["names"].size(); ++i) hr.push_back(Json(jc::cps_to_utf8(c["names"][i]))); table.push_back(std::move(hr)); }
            for (size_t r = 0; r < c["rows"].size(); ++r) { Json row(json_array_arg); for (size_t k = 0; k < c["rows"][r].size(); ++k) row.push_back(jc::build_doc<Json>(c["rows"][r][k])); table.push_back(std::move(row)); }
            csv::csv_options wopt = opt; wopt.assume_header(false).mapping_kind(csv::csv_mapping_kind::n_rows);
            std::string text3;
            try {
                csv::encode_csv(table, text3, wopt);
                Json d = csv::decode_csv<Json>(text3, opt);
                mj::Value w = jc::doc_wire(d);
                if (!(w == jc::canon_doc(c["doc"]))) { mj::Value m = hz::rec("mismatch"); m.set("idx", (int64_t)idx); m.set("flavour", flavour); m.set("route", "rows-with-header"); m.set("what", "roundtrip");
                                                       m.set("got", w); m.set("text", jc::cps_of(text3)); m.set("case", c); hz::emit_mismatch(m); }
            } catch (const std::exception& e) { mj::Value m = hz::rec("mismatch"); m.set("idx", (int64_t)idx); m.set("flavour", flavour); m.set("route", "rows-with-header"); m.set("what", "error");
                                                 m.set("got", mj::Value(e.what())); m.set("text", jc::cps_of(text3)); m.set("case", c); hz::emit_mismatch(m); }
        }
    }
    // route 2: stream overloads
    ++nchecks;
    std::string text2;
    try {
        std::ostringstream os; csv::encode_csv(j, os, opt); text2 = os.str();
        std::istringstream is(text2); Json d = csv::decode_csv<Json>(is, opt);
        mj::Value w = jc::doc_wire(d);
        if (!(w == jc::canon_doc(c["doc"]))) fail(idx, c, flavour, "stream", "roundtrip", w, text2);
    } catch (const std::exception& e) { fail(idx, c, flavour, "stream", "error", mj::Value(e.what()), text2); }
}

static toon::toon_options toon_opts(const mj::Value& c) {
    toon::toon_options r; r.indent((int)c["indent"].as_int());
    const std::string& d = c["delim"].str();
    r.delimiter(d == "tab" ? toon::toon_delimiter_kind::tab : d == "pipe" ? toon::toon_delimiter_kind::pipe : toon::toon_delimiter_kind::comma);
    if (c["lm"].as_int() != 0) r.length_marker(jsoncons::optional<char>((char)c["lm"].as_int()));
    return r;
}

// TOON has one number kind: a double with an integral value is written with integer digits and read back as an integer
// (1.0 -> "1", 2.5e17 -> "250000000000000000"), so numbers are compared by value: integral doubles in the int64 range are
// normalised to integers on both sides
static mj::Value toon_norm(const mj::Value& w) {
    const std::string& k = w[0].str();
    if (k == "dbl") { uint64_t b = strtoull(w[1].str().c_str(), nullptr, 16); double d; memcpy(&d, &b, 8);
        if (std::isfinite(d) && d == std::floor(d) && std::fabs(d) < 9.2e18) { mj::Value r = mj::Value::array(); r.push("int"); r.push((int64_t)d); return r; }
        return w; }
    if (k == "arr") { mj::Value r = mj::Value::array(); r.push("arr"); mj::Value a = mj::Value::array(); for (auto& e : w[1].a) a.push(toon_norm(e)); r.push(a); return r; }
    if (k == "obj") { mj::Value r = mj::Value::array(); r.push("obj"); mj::Value a = mj::Value::array(); for (auto& kv : w[1].a) { mj::Value p = mj::Value::array(); p.push(kv[0]); p.push(toon_norm(kv[1])); a.push(p); } r.push(a); return r; }
    return w;
}
template <class Json>
static void toon_case(size_t idx, const mj::Value& c, const char* flavour, bool trace) {
    toon::toon_options opt = toon_opts(c);
    Json j = jc::build_doc<Json>(c["v"]);
    std::string text; bool enc_ok = true; mj::Value dec = mj::Value::array(); ++nchecks;
    try { toon::encode_toon(j, text, opt); }
    catch (const std::exception& e) { enc_ok = false; fail(idx, c, flavour, "string", "encode-error", mj::Value(e.what()), text); }
    if (enc_ok) {
        try {
            Json d = toon::decode_toon<Json>(text, opt);
            dec = jc::doc_wire(d);
            if (!(toon_norm(dec) == toon_norm(jc::canon_doc(c["v"])))) fail(idx, c, flavour, "string", "roundtrip", dec, text);
        } catch (const std::exception& e) { dec.push("error"); dec.push(e.what()); fail(idx, c, flavour, "string", "decode-error", mj::Value(e.what()), text); }
    } else dec.push("none");
    if (trace) {
        mj::Value t = mj::Value::object(); t.set("k", "toon"); t.set("idx", (int64_t)idx); t.set("v", toon_norm(jc::canon_doc(c["v"])));
        t.set("o", [&] { mj::Value o = mj::Value::object(); o.set("indent", c["indent"]); o.set("delimiter", c["delim"]); return o; }());
        t.set("enc", enc_ok); t.set("text", jc::cps_of(text)); t.set("dec", dec.size() && dec[0].is_str() && dec[0].str() != "error" && dec[0].str() != "none" ? toon_norm(dec) : dec); t.set("dev", c["dev"]);
        trace_line(t, c["dev"].size() > 0);
    }
    // route 2: decode from a stream (the documented ostream overload of encode_toon does not compile
    // in the pinned tree: try_encode_toon(val, os, options) calls encode_value with 3 arguments)
    if (!enc_ok) return;
    ++nchecks;
    try {
        std::istringstream is(text); Json d = toon::decode_toon<Json>(is, opt);
        mj::Value w = jc::doc_wire(d);
        if (!(toon_norm(w) == toon_norm(jc::canon_doc(c["v"])))) fail(idx, c, flavour, "stream", "roundtrip", w, text);
    } catch (const std::exception& e) { fail(idx, c, flavour, "stream", "error", mj::Value(e.what()), text); }
}

int main(int argc, char** argv) {
    auto args = hz::parse_args(argc, argv);
    std::string prefix = args.opt("--trace", "");
    if (!prefix.empty()) {
        g_trace = fopen((prefix + "." + std::to_string(args.shard)).c_str(), "w");
        g_trace_dev = fopen((prefix + ".dev." + std::to_string(args.shard)).c_str(), "w");
        if (!g_trace || !g_trace_dev) { fprintf(stderr, "cannot open trace files %s\n", prefix.c_str()); return 2; }
    }
    long ncases = 0;
    hz::for_each_case(args, [&](size_t idx, const std::string& line) {
        mj::Value c = mj::parse(line); ++ncases;
        if (c["k"].str() == "csv") { csv_case<ojson>(idx, c, "ojson", true); csv_case<json>(idx, c, "json", false); }
        else { toon_case<ojson>(idx, c, "ojson", true); toon_case<json>(idx, c, "json", false); }
    });
    if (g_trace) fclose(g_trace);
    if (g_trace_dev) fclose(g_trace_dev);
    mj::Value s = hz::rec("stat"); s.set("cases", (int64_t)ncases); s.set("checks", (int64_t)nchecks); s.set("dev_mismatches", (int64_t)ndev_mismatches); hz::emit(s);
    return 0;
}
