// C06 conformance harness (V binding): every generated value is built as a jsoncons value,
// encoded with each binary format (DOM encode_X and the streaming encoder fed by json::dump)
// and decoded again; the execution is recorded as a trace line
//   {f, route, v, enc: ok|err, bytes, dec_ok, dec}
// which Trace_C06 validates with the format's independent reference decoder.
#include "harness.hpp"
#include "jconv.hpp"
#include "binval.hpp"
#include <jsoncons/json.hpp>
#include <jsoncons_ext/cbor/cbor.hpp>
#include <jsoncons_ext/msgpack/msgpack.hpp>
#include <jsoncons_ext/ubjson/ubjson.hpp>
#include <jsoncons_ext/bson/bson.hpp>
using namespace jsoncons;

template <class EncodeFn, class DecodeFn>
static void one(size_t idx, const mj::Value& c, const char* f, const char* route, EncodeFn enc, DecodeFn dec) {
    mj::Value t = hz::rec("trace"); t.set("idx", (int64_t)idx); t.set("f", f); t.set("route", route); t.set("v", c["v"]);
    std::vector<uint8_t> bytes; bool ok = true; std::string err;
    try { json j = bv::build<json>(c["v"]); enc(j, bytes); }
    catch (const ser_error& e) { ok = false; err = e.code().message(); }
    catch (const json_exception& e) { ok = false; err = e.what(); }
    t.set("enc", ok ? "ok" : "err"); t.set("err", err); t.set("bytes", bv::raw(bytes.data(), bytes.size()));
    bool dok = false; mj::Value dv = mj::Value::array(); dv.push("none");
    if (ok) { try { json back = dec(bytes); dv = bv::project(back); dok = true; } catch (const std::exception& e) { t.set("derr", e.what()); } }
    t.set("dec_ok", dok); t.set("dec", dv);
    if (c["v"][0].str() == "uint") { uint64_t u = 0; bv::be_to_u64(c["v"][1], u); std::string d = std::to_string(u); t.set("decimal", bv::raw(d.data(), d.size())); }
    hz::emit(t);
}

int main(int argc, char** argv) {
    auto args = hz::parse_args(argc, argv);
    std::string only = args.opt("--format", "");
    long ncases = 0;
    hz::for_each_case(args, [&](size_t idx, const std::string& line) {
        mj::Value c = mj::parse(line); ++ncases;
        if (only.empty() || only == "cbor") {
            one(idx, c, "cbor", "dom", [](const json& j, std::vector<uint8_t>& b) { cbor::encode_cbor(j, b); }, [](const std::vector<uint8_t>& b) { return cbor::decode_cbor<json>(b); });
            one(idx, c, "cbor", "stream", [](const json& j, std::vector<uint8_t>& b) { cbor::cbor_bytes_encoder e(b); j.dump(e); }, [](const std::vector<uint8_t>& b) { return cbor::decode_cbor<json>(b); });
            one(idx, c, "cbor", "packed", [](const json& j, std::vector<uint8_t>& b) { cbor::encode_cbor(j, b, cbor::cbor_options{}.pack_strings(true)); }, [](const std::vector<uint8_t>& b) { return cbor::decode_cbor<json>(b); });
        }
        if (only.empty() || only == "msgpack") {
            one(idx, c, "msgpack", "dom", [](const json& j, std::vector<uint8_t>& b) { msgpack::encode_msgpack(j, b); }, [](const std::vector<uint8_t>& b) { return msgpack::decode_msgpack<json>(b); });
            one(idx, c, "msgpack", "stream", [](const json& j, std::vector<uint8_t>& b) { msgpack::msgpack_bytes_encoder e(b); j.dump(e); }, [](const std::vector<uint8_t>& b) { return msgpack::decode_msgpack<json>(b); });
        }
        if (only.empty() || only == "ubjson") {
            one(idx, c, "ubjson", "dom", [](const json& j, std::vector<uint8_t>& b) { ubjson::encode_ubjson(j, b); }, [](const std::vector<uint8_t>& b) { return ubjson::decode_ubjson<json>(b); });
            one(idx, c, "ubjson", "stream", [](const json& j, std::vector<uint8_t>& b) { ubjson::ubjson_bytes_encoder e(b); j.dump(e); }, [](const std::vector<uint8_t>& b) { return ubjson::decode_ubjson<json>(b); });
        }
        if (only.empty() || only == "bson") {
            one(idx, c, "bson", "dom", [](const json& j, std::vector<uint8_t>& b) { bson::encode_bson(j, b); }, [](const std::vector<uint8_t>& b) { return bson::decode_bson<json>(b); });
            one(idx, c, "bson", "stream", [](const json& j, std::vector<uint8_t>& b) { bson::bson_bytes_encoder e(b); j.dump(e); }, [](const std::vector<uint8_t>& b) { return bson::decode_bson<json>(b); });
        }
    });
    mj::Value s = hz::rec("stat"); s.set("cases", (int64_t)ncases); hz::emit(s);
    return 0;
}
