// C03 (binary formats): delivery independence of CBOR / MessagePack / UBJSON / BSON decoding.
// For each byte string of the C07 spaces (well-formed, ill-formed, truncated) the events and error code
// observed when decoding from a contiguous bytes source must equal those observed through a stream
// source with every buffer size 1..9 (and the default), an iterator source, and the cursor.
#include "harness.hpp"
#include "jconv.hpp"
#include "binval.hpp"
#include "events.hpp"
#include <jsoncons/json.hpp>
#include <jsoncons_ext/cbor/cbor.hpp>
#include <jsoncons_ext/msgpack/msgpack.hpp>
#include <jsoncons_ext/ubjson/ubjson.hpp>
#include <jsoncons_ext/bson/bson.hpp>
#include <deque>
#include <sstream>
using namespace jsoncons;
struct Out { bool ok = false; bool dc = false; std::string ev, ec; };
static std::string ecs(const std::error_code& ec) { return std::string(ec.category().name()) + ":" + std::to_string(ec.value()); }
static bool same(const Out& a, const Out& b) { if (a.dc || b.dc) return true; return a.ok == b.ok && (a.ok ? a.ev == b.ev : a.ec == b.ec); }

template <class Reader, class Source> static Out read_with(Source&& src) {
    Out r; evr::Recorder rec; std::error_code ec; Reader rd(std::forward<Source>(src), rec); rd.read(ec);
    if (ec) { r.ec = ecs(ec); return r; } r.ok = true; r.ev = evr::join(rec.ev); return r;
}
template <class Cursor, class Source> static Out cursor_with(Source&& src) {
    Out r; std::error_code ec; Cursor cur(std::forward<Source>(src), ec); std::vector<std::string> ev;
    if (ec) { r.ec = ecs(ec); return r; }
    while (!cur.done()) { ev.push_back(evr::of_event(cur.current())); cur.next(ec); if (ec) { r.ec = ecs(ec); return r; } }
    r.ok = true; r.ev = evr::join(ev);
    if (r.ev.find('?') != std::string::npos) r.dc = true;      // map keys that are containers / non-strings other than integers: no documented event image
    return r;
}
template <template <class, class> class ReaderT, template <class, class> class CursorT, class F>
static void run_format(const std::vector<uint8_t>& b, F report) {
    using BS = bytes_source; using SS = binary_stream_source; using IS = jsoncons::iterator_source<std::deque<uint8_t>::const_iterator>;
    Out base = read_with<ReaderT<BS, std::allocator<char>>>(b);
    std::string s((const char*)b.data(), b.size());
    for (size_t k = 1; k <= 10; ++k) {
        size_t bufsize = k <= 9 ? k : 16384;
        std::istringstream is(s);
        Out got = read_with<ReaderT<SS, std::allocator<char>>>(SS(is, bufsize));
        if (!same(base, got)) report("stream-reader", std::to_string(bufsize), base, got);
        std::istringstream is2(s);
        Out gc = cursor_with<CursorT<SS, std::allocator<char>>>(SS(is2, bufsize));
        if (!same(base, gc)) report("stream-cursor", std::to_string(bufsize), base, gc);
    }
    std::deque<uint8_t> dq(b.begin(), b.end());
    Out gi = read_with<ReaderT<IS, std::allocator<char>>>(IS(dq.cbegin(), dq.cend()));
    if (!same(base, gi)) report("iterator-reader", "", base, gi);
    Out gb = cursor_with<CursorT<BS, std::allocator<char>>>(b);
    if (!same(base, gb)) report("bytes-cursor", "", base, gb);
}

int main(int argc, char** argv) {
    auto args = hz::parse_args(argc, argv);
    long ncases = 0, ndeliv = 0;
    hz::for_each_case(args, [&](size_t idx, const std::string& line) {
        mj::Value c = mj::parse(line); ++ncases;
        const std::string& f = c["f"].str(); std::vector<uint8_t> b;
        if (c.has("prog")) { for (auto& seg : c["prog"].a) { auto bytes = bv::bytes_of(seg[0]); long cnt = (long)seg[1].as_int(); for (long i = 0; i < cnt; ++i) b.insert(b.end(), bytes.begin(), bytes.end()); } }   // [[bytes, repeat], ..]
        else b = bv::bytes_of(c["b"]);
        auto report = [&](const char* delivery, const std::string& detail, const Out& base, const Out& got) {
            mj::Value m = hz::rec("mismatch"); m.set("idx", (int64_t)idx); m.set("delivery", delivery); m.set("detail", detail);
            m.set("base_ok", base.ok); m.set("base", base.ok ? base.ev : base.ec); m.set("got_ok", got.ok); m.set("got", got.ok ? got.ev : got.ec); m.set("case", c); hz::emit_mismatch(m);
        };
        ndeliv += 23;
        if (f == "cbor") run_format<cbor::basic_cbor_reader, cbor::basic_cbor_cursor>(b, report);
        else if (f == "msgpack") run_format<msgpack::basic_msgpack_reader, msgpack::basic_msgpack_cursor>(b, report);
        else if (f == "ubjson") run_format<ubjson::basic_ubjson_reader, ubjson::basic_ubjson_cursor>(b, report);
        else run_format<bson::basic_bson_reader, bson::basic_bson_cursor>(b, report);
    });
    mj::Value s = hz::rec("stat"); s.set("cases", (int64_t)ncases); s.set("deliveries", (int64_t)ndeliv); hz::emit(s);
    return 0;
}
