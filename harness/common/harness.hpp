// Case iteration, sharding, output for conformance harnesses.
#pragma once
#include <sys/time.h>
#include "minijson.hpp"
#include <cstdio>
#include <cstdlib>
#include <exception>
#include <fstream>
#include <iostream>
#include <string>
#include <unistd.h>
#include <csignal>

namespace hz {

struct Args {
    std::string cases;
    size_t shard = 0, nshards = 1;
    std::vector<std::string> rest;
    bool flag(const std::string& f) const { for (auto& r : rest) if (r == f) return true; return false; }
    std::string opt(const std::string& f, const std::string& dflt = "") const {
        for (size_t i = 0; i + 1 < rest.size(); ++i) if (rest[i] == f) return rest[i + 1];
        return dflt;
    }
};

inline Args parse_args(int argc, char** argv) {
    Args a;
    for (int i = 1; i < argc; ++i) {
        std::string s = argv[i];
        if (s == "--cases" && i + 1 < argc) a.cases = argv[++i];
        else if (s == "--shard" && i + 1 < argc) {
            std::string t = argv[++i]; size_t p = t.find('/');
            a.shard = std::stoul(t.substr(0, p)); a.nshards = std::stoul(t.substr(p + 1));
        } else a.rest.push_back(s);
    }
    return a;
}

inline void emit(const mj::Value& v) {
    std::string s = mj::dump(v); s.push_back('\n');
    fwrite(s.data(), 1, s.size(), stdout);
}

static long g_mismatches = 0;
// mismatch records are capped per shard so that a badly broken tree cannot flood the driver
inline void emit_mismatch(const mj::Value& v) { if (++g_mismatches <= 300) emit(v); }

static std::string g_current_case;   // for crash reports

inline void on_terminate() {
    mj::Value r = mj::Value::object();
    r.set("k", "terminate"); r.set("case", g_current_case);
    try { auto e = std::current_exception(); if (e) std::rethrow_exception(e); }
    catch (const std::exception& ex) { r.set("what", ex.what()); }
    catch (...) { r.set("what", "unknown"); }
    emit(r); fflush(stdout); _exit(3);
}

inline void on_signal(int sig) {
    // best effort: report the case in flight, then die (the driver reproduces it in a fresh process)
    std::string s = "{\"k\":\"signal\",\"sig\":" + std::to_string(sig) + ",\"case\":" + mj::dump(mj::Value(g_current_case)) + "}\n";
    fflush(stdout);
    ssize_t r = write(1, s.data(), s.size()); (void)r;
    _exit(4);
}
// an alternate signal stack for the calling thread, so that a stack overflow can still be reported
inline void install_altstack() {
    static thread_local char* mem = nullptr;
    if (!mem) mem = (char*)malloc(1 << 16);
    stack_t ss; ss.ss_sp = mem; ss.ss_size = 1 << 16; ss.ss_flags = 0; sigaltstack(&ss, nullptr);
}
// per-case watchdog on the CPU time of the process (not wall time, so machine load cannot trip it): HZ_CASE_CPU_SECONDS=n arms
// a virtual timer before every case; when it fires the case in flight is reported like a fatal signal (sig 26 = SIGVTALRM)
static long g_case_cpu_seconds = 0;
inline void arm_watchdog() {
    if (g_case_cpu_seconds <= 0) return;
    struct itimerval it; memset(&it, 0, sizeof it); it.it_value.tv_sec = g_case_cpu_seconds; setitimer(ITIMER_VIRTUAL, &it, nullptr);
}
inline void install_handlers() {
    std::set_terminate(on_terminate);
    install_altstack();
    if (const char* e = getenv("HZ_CASE_CPU_SECONDS")) g_case_cpu_seconds = atol(e);
    for (int sg : {SIGSEGV, SIGABRT, SIGFPE, SIGBUS, SIGILL, SIGVTALRM}) { struct sigaction sa; memset(&sa, 0, sizeof sa); sa.sa_handler = on_signal; sa.sa_flags = SA_ONSTACK; sigemptyset(&sa.sa_mask); sigaction(sg, &sa, nullptr); }
}

// calls f(line_index, line) for each case of this shard
template <class F>
void for_each_case(const Args& a, F f) {
    install_handlers();
    std::ifstream in(a.cases);
    if (!in) { fprintf(stderr, "cannot open %s\n", a.cases.c_str()); exit(2); }
    std::string line; size_t idx = 0;
    while (std::getline(in, line)) {
        size_t me = idx++;
        if (me % a.nshards != a.shard) continue;
        if (line.empty()) continue;
        g_current_case = line;
        arm_watchdog();
        f(me, line);
    }
    if (g_case_cpu_seconds > 0) { struct itimerval off; memset(&off, 0, sizeof off); setitimer(ITIMER_VIRTUAL, &off, nullptr); }
    fflush(stdout);
}

inline mj::Value rec(const char* k) { mj::Value r = mj::Value::object(); r.set("k", k); return r; }

} // namespace hz
