// Independent, minimal JSON reader/writer for harness case and trace I/O.
// Deliberately does NOT use jsoncons (the library under test).
#pragma once
#include <cstdint>
#include <cstdio>
#include <cstdlib>
#include <cstring>
#include <map>
#include <memory>
#include <stdexcept>
#include <string>
#include <utility>
#include <vector>

namespace mj {

struct Value;
using Array = std::vector<Value>;
using Object = std::vector<std::pair<std::string, Value>>;

struct Value {
    enum Kind { Null, Bool, Int, Dbl, Str, Arr, Obj } kind = Null;
    bool b = false;
    int64_t i = 0;
    double d = 0;
    std::string s;
    Array a;
    Object o;

    Value() {}
    Value(bool x) : kind(Bool), b(x) {}
    Value(int x) : kind(Int), i(x) {}
    Value(int64_t x) : kind(Int), i(x) {}
    Value(uint64_t x) : kind(Int), i((int64_t)x) {}
    Value(double x) : kind(Dbl), d(x) {}
    Value(const char* x) : kind(Str), s(x) {}
    Value(const std::string& x) : kind(Str), s(x) {}
    static Value array() { Value v; v.kind = Arr; return v; }
    static Value object() { Value v; v.kind = Obj; return v; }

    bool is_null() const { return kind == Null; }
    bool is_str() const { return kind == Str; }
    bool is_arr() const { return kind == Arr; }
    bool is_obj() const { return kind == Obj; }
    bool is_int() const { return kind == Int; }
    bool is_bool() const { return kind == Bool; }
    size_t size() const { return kind == Arr ? a.size() : kind == Obj ? o.size() : 0; }
    const Value& operator[](size_t k) const { return a.at(k); }
    const Value& operator[](int k) const { return a.at((size_t)k); }
    const Value* find(const std::string& k) const {
        for (auto& kv : o) if (kv.first == k) return &kv.second;
        return nullptr;
    }
    bool has(const std::string& k) const { return find(k) != nullptr; }
    const Value& operator[](const std::string& k) const {
        const Value* p = find(k);
        if (!p) throw std::runtime_error("minijson: missing key " + k);
        return *p;
    }
    const Value& operator[](const char* k) const { return (*this)[std::string(k)]; }
    void push(Value v) { kind = Arr; a.push_back(std::move(v)); }
    void set(const std::string& k, Value v) { kind = Obj; o.emplace_back(k, std::move(v)); }
    int64_t as_int() const { if (kind == Dbl) return (int64_t)d; return i; }
    bool as_bool() const { return b; }
    const std::string& str() const { return s; }
};

inline bool operator==(const Value& x, const Value& y) {
    if (x.kind != y.kind) return false;
    switch (x.kind) {
        case Value::Null: return true;
        case Value::Bool: return x.b == y.b;
        case Value::Int: return x.i == y.i;
        case Value::Dbl: return x.d == y.d;
        case Value::Str: return x.s == y.s;
        case Value::Arr: return x.a == y.a;
        case Value::Obj: return x.o == y.o;
    }
    return false;
}
inline bool operator!=(const Value& x, const Value& y) { return !(x == y); }

class Parser {
    const char* p; const char* e;
    [[noreturn]] void fail(const char* m) { throw std::runtime_error(std::string("minijson: ") + m); }
    void ws() { while (p < e && (*p == ' ' || *p == '\t' || *p == '\n' || *p == '\r')) ++p; }
    static void utf8(std::string& out, uint32_t cp) {
        if (cp < 0x80) out.push_back((char)cp);
        else if (cp < 0x800) { out.push_back((char)(0xC0 | (cp >> 6))); out.push_back((char)(0x80 | (cp & 0x3F))); }
        else if (cp < 0x10000) { out.push_back((char)(0xE0 | (cp >> 12))); out.push_back((char)(0x80 | ((cp >> 6) & 0x3F))); out.push_back((char)(0x80 | (cp & 0x3F))); }
        else { out.push_back((char)(0xF0 | (cp >> 18))); out.push_back((char)(0x80 | ((cp >> 12) & 0x3F))); out.push_back((char)(0x80 | ((cp >> 6) & 0x3F))); out.push_back((char)(0x80 | (cp & 0x3F))); }
    }
    std::string str() {
        std::string out; ++p;
        while (true) {
            if (p >= e) fail("eof in string");
            char c = *p++;
            if (c == '"') break;
            if (c == '\\') {
                if (p >= e) fail("eof in escape");
                char d = *p++;
                switch (d) {
                    case 'n': out.push_back('\n'); break;
                    case 't': out.push_back('\t'); break;
                    case 'r': out.push_back('\r'); break;
                    case 'b': out.push_back('\b'); break;
                    case 'f': out.push_back('\f'); break;
                    case 'u': {
                        if (e - p < 4) fail("bad \\u");
                        uint32_t cp = (uint32_t)strtoul(std::string(p, 4).c_str(), nullptr, 16); p += 4;
                        utf8(out, cp); break;
                    }
                    default: out.push_back(d);
                }
            } else out.push_back(c);
        }
        return out;
    }
public:
    Parser(const char* b, const char* en) : p(b), e(en) {}
    Value value() {
        ws();
        if (p >= e) fail("eof");
        Value v;
        char c = *p;
        if (c == '{') {
            v.kind = Value::Obj; ++p; ws();
            if (p < e && *p == '}') { ++p; return v; }
            while (true) {
                ws(); if (p >= e || *p != '"') fail("key");
                std::string k = str(); ws();
                if (p >= e || *p != ':') fail("colon"); ++p;
                v.o.emplace_back(std::move(k), value()); ws();
                if (p < e && *p == ',') { ++p; continue; }
                if (p < e && *p == '}') { ++p; break; }
                fail("object");
            }
        } else if (c == '[') {
            v.kind = Value::Arr; ++p; ws();
            if (p < e && *p == ']') { ++p; return v; }
            while (true) {
                v.a.push_back(value()); ws();
                if (p < e && *p == ',') { ++p; continue; }
                if (p < e && *p == ']') { ++p; break; }
                fail("array");
            }
        } else if (c == '"') { v.kind = Value::Str; v.s = str(); }
        else if (c == 't') { v.kind = Value::Bool; v.b = true; p += 4; }
        else if (c == 'f') { v.kind = Value::Bool; v.b = false; p += 5; }
        else if (c == 'n') { p += 4; }
        else {
            const char* q = p; bool isd = false;
            if (q < e && *q == '-') ++q;
            while (q < e && ((*q >= '0' && *q <= '9') || *q == '.' || *q == 'e' || *q == 'E' || *q == '+' || *q == '-')) { if (*q == '.' || *q == 'e' || *q == 'E') isd = true; ++q; }
            std::string t(p, q); if (t.empty()) fail("value");
            if (isd) { v.kind = Value::Dbl; v.d = strtod(t.c_str(), nullptr); }
            else { v.kind = Value::Int; v.i = strtoll(t.c_str(), nullptr, 10); }
            p = q;
        }
        return v;
    }
};

inline Value parse(const std::string& s) { Parser ps(s.data(), s.data() + s.size()); return ps.value(); }

inline void write(std::string& out, const Value& v) {
    switch (v.kind) {
        case Value::Null: out += "null"; break;
        case Value::Bool: out += v.b ? "true" : "false"; break;
        case Value::Int: out += std::to_string(v.i); break;
        case Value::Dbl: { char buf[40]; snprintf(buf, sizeof buf, "%.17g", v.d); out += buf; break; }
        case Value::Str:
            out.push_back('"');
            for (unsigned char c : v.s) {
                if (c == '"' || c == '\\') { out.push_back('\\'); out.push_back((char)c); }
                else if (c < 0x20 || c >= 0x7f) { char buf[8]; snprintf(buf, sizeof buf, "\\u%04x", c); out += buf; }
                else out.push_back((char)c);
            }
            out.push_back('"'); break;
        case Value::Arr: {
            out.push_back('['); bool f = true;
            for (auto& x : v.a) { if (!f) out.push_back(','); f = false; write(out, x); }
            out.push_back(']'); break;
        }
        case Value::Obj: {
            out.push_back('{'); bool f = true;
            for (auto& kv : v.o) { if (!f) out.push_back(','); f = false; write(out, Value(kv.first)); out.push_back(':'); write(out, kv.second); }
            out.push_back('}'); break;
        }
    }
}
inline std::string dump(const Value& v) { std::string s; write(s, v); return s; }

} // namespace mj
