// Comparison of jsoncons values against spec-predicted values (wire format:
// tagged arrays as emitted by the TLA+ modules) and projection of jsoncons
// values to that wire format.  UTF-8 coding here is independent of jsoncons.
#pragma once
#include "minijson.hpp"
#include <jsoncons/json.hpp>
#include <algorithm>
#include <cerrno>
#include <cmath>
#include <cstring>
#include <string>
#include <vector>

namespace jc {

inline void put_utf8(std::string& out, uint32_t cp) {
    if (cp < 0x80) out.push_back((char)cp);
    else if (cp < 0x800) { out.push_back((char)(0xC0 | (cp >> 6))); out.push_back((char)(0x80 | (cp & 0x3F))); }
    else if (cp < 0x10000) { out.push_back((char)(0xE0 | (cp >> 12))); out.push_back((char)(0x80 | ((cp >> 6) & 0x3F))); out.push_back((char)(0x80 | (cp & 0x3F))); }
    else { out.push_back((char)(0xF0 | (cp >> 18))); out.push_back((char)(0x80 | ((cp >> 12) & 0x3F))); out.push_back((char)(0x80 | ((cp >> 6) & 0x3F))); out.push_back((char)(0x80 | (cp & 0x3F))); }
}
inline std::string cps_to_utf8(const mj::Value& cps) {
    std::string s; for (auto& c : cps.a) put_utf8(s, (uint32_t)c.as_int()); return s;
}
inline std::string units_to_string(const mj::Value& units) {
    std::string s; for (auto& c : units.a) s.push_back((char)(unsigned char)c.as_int()); return s;
}
// strict UTF-8 -> code points; returns false on ill-formed input
inline bool utf8_to_cps(const std::string& s, std::vector<uint32_t>& out) {
    size_t i = 0, n = s.size();
    while (i < n) {
        unsigned char b = (unsigned char)s[i];
        if (b < 0x80) { out.push_back(b); ++i; continue; }
        int need; uint32_t cp; unsigned lo = 0x80, hi = 0xBF;
        if (b >= 0xC2 && b <= 0xDF) { need = 1; cp = b & 0x1F; }
        else if (b >= 0xE0 && b <= 0xEF) { need = 2; cp = b & 0x0F; if (b == 0xE0) lo = 0xA0; if (b == 0xED) hi = 0x9F; }
        else if (b >= 0xF0 && b <= 0xF4) { need = 3; cp = b & 0x07; if (b == 0xF0) lo = 0x90; if (b == 0xF4) hi = 0x8F; }
        else return false;
        for (int k = 1; k <= need; ++k) {
            if (i + k >= n) return false;
            unsigned char c = (unsigned char)s[i + k];
            if (c < lo || c > hi) return false;
            cp = (cp << 6) | (c & 0x3F); lo = 0x80; hi = 0xBF;
        }
        out.push_back(cp); i += need + 1;
    }
    return true;
}
inline mj::Value cps_of(const std::string& s) {
    std::vector<uint32_t> v; mj::Value a = mj::Value::array();
    if (!utf8_to_cps(s, v)) { a.push("invalid-utf8"); for (unsigned char c : s) a.push((int)c); return a; }
    for (auto c : v) a.push((int64_t)c);
    return a;
}
inline mj::Value cps_of_w(const std::wstring& s) {
    mj::Value a = mj::Value::array(); for (wchar_t c : s) a.push((int64_t)(uint32_t)c); return a;
}

// strip sign of a zero literal, leading '+' never occurs
inline std::string norm_int_literal(std::string lit) {
    bool allzero = true; for (char c : lit) if (c != '-' && c != '0') allzero = false;
    if (allzero) return "0";
    return lit;
}

// Project a jsoncons value to wire format (used in mismatch reports and traces).
template <class Json>
mj::Value project(const Json& j) {
    using namespace jsoncons;
    mj::Value r = mj::Value::array();
    switch (j.type()) {
        case json_type::null: r.push("null"); break;
        case json_type::boolean: r.push("bool"); r.push(j.template as<bool>()); break;
        case json_type::int64: r.push("num"); r.push("int"); r.push(std::to_string(j.template as<int64_t>())); break;
        case json_type::uint64: r.push("num"); r.push("uint"); r.push(std::to_string(j.template as<uint64_t>())); break;
        case json_type::float16:
        case json_type::float64: { r.push("num"); r.push("real"); double d = j.template as<double>(); uint64_t b; memcpy(&b, &d, 8); char buf[24]; snprintf(buf, sizeof buf, "%016llx", (unsigned long long)b); r.push(buf); break; }
        case json_type::string: {
            auto tag = j.tag();
            if (tag == semantic_tag::bigint) { r.push("num"); r.push("big"); r.push(j.template as<std::string>()); }
            else if (tag == semantic_tag::bigdec) { r.push("num"); r.push("bigdec"); r.push(j.template as<std::string>()); }
            else { r.push("str"); r.push(cps_of(j.template as<std::string>())); }
            break;
        }
        case json_type::byte_string: { r.push("bytes"); mj::Value a = mj::Value::array(); for (auto b : j.as_byte_string_view()) a.push((int)b); r.push(a); break; }
        case json_type::array: { r.push("arr"); mj::Value a = mj::Value::array(); for (auto& e : j.array_range()) a.push(project(e)); r.push(a); break; }
        case json_type::object: { r.push("obj"); mj::Value a = mj::Value::array(); for (auto& kv : j.object_range()) { mj::Value p = mj::Value::array(); p.push(cps_of(std::string(kv.key()))); p.push(project(kv.value())); a.push(p); } r.push(a); break; }
        default: r.push("unknown"); break;
    }
    return r;
}

// Does jsoncons value j equal the value `e` predicted by JsonText (C02 wire format)?
// ordered: compare object member order too (ojson).
// mode bits (decode options that change the documented image of a literal): 1 = lossless_number (a number with a fraction or
// exponent becomes its exact text tagged bigdec), 2 = lossless_bignum(false) (an out-of-range integer becomes a double, an
// out-of-range real +-infinity / 0), 4 = nan_to_str("NaN") / inf_to_str("Inf") / neginf_to_str("-Inf") with the inverse enabled
// (those three strings, as values, become NaN / +inf / -inf)
template <class Json>
bool matches_text_value(const Json& j, const mj::Value& e, bool ordered, std::string& why, int mode = 0) {
    using namespace jsoncons;
    const std::string& k = e[0].str();
    if (k == "null") { if (!j.is_null()) { why = "expected null"; return false; } return true; }
    if (k == "bool") { if (!j.is_bool() || j.template as<bool>() != e[1].as_bool()) { why = "expected bool"; return false; } return true; }
    if (k == "num") {
        const std::string& cls = e[1].str();
        std::string lit = units_to_string(e[2]);
        if (cls == "int" || cls == "uint") {
            std::string want = norm_int_literal(lit), got;
            if (j.is_int64() && j.type() == json_type::int64) got = std::to_string(j.template as<int64_t>());
            else if (j.type() == json_type::uint64) got = std::to_string(j.template as<uint64_t>());
            else { why = "integer literal " + lit + " did not yield an integer"; return false; }
            if (got != want) { why = "integer literal " + lit + " yielded " + got; return false; }
            return true;
        }
        if (cls == "big" && (mode & 2)) {
            double want = strtod(lit.c_str(), nullptr);
            if (j.type() != json_type::float64 || !(j.template as<double>() == want)) { why = "out-of-range integer " + lit + " not read as the nearest double (lossless_bignum off)"; return false; }
            return true;
        }
        if (cls == "big") {
            if (j.type() == json_type::string && j.tag() == semantic_tag::bigint) {
                if (j.template as<std::string>() != lit) { why = "big integer digits differ: " + j.template as<std::string>(); return false; }
                return true;
            }
            why = "out-of-range integer literal " + lit + " not kept as big number"; return false;
        }
        // real
        if (mode & 1) {
            if (j.type() != json_type::string || j.tag() != semantic_tag::bigdec) { why = "lossless_number: real literal " + lit + " not kept as bigdec text"; return false; }
            if (j.template as<std::string>() != lit) { why = "lossless_number: text differs: " + j.template as<std::string>(); return false; }
            return true;
        }
        errno = 0; double want = strtod(lit.c_str(), nullptr);
        if (errno == ERANGE && (mode & 2)) {
            if (j.type() != json_type::float64) { why = "out-of-range real " + lit + " not read as a double (lossless_bignum off)"; return false; }
            double got = j.template as<double>(); bool tiny = std::fabs(want) < 1.0;
            bool neg = !lit.empty() && lit[0] == '-';     // (the documentation promises +-infinity for every out-of-range real; for an underflow the nearest double is accepted as well)
            if (!((std::isinf(got) && (got > 0) == !neg) || (tiny && std::fabs(got) <= 2.3e-308))) { why = "out-of-range real " + lit + " wrong double"; return false; }
            return true;
        }
        if (errno == ERANGE) {  // overflow/underflow: exact text or any double is acceptable here (C04 decides)
            if (j.type() == json_type::string) { if (j.template as<std::string>() != lit) { why = "bigdec text differs"; return false; } return true; }
            if (j.type() == json_type::float64) return true;
            why = "real literal yielded non-number"; return false;
        }
        if (j.type() != json_type::float64) { why = "real literal " + lit + " did not yield a double"; return false; }
        double got = j.template as<double>();
        if (!(got == want)) { char b[80]; snprintf(b, sizeof b, " got %.17g want %.17g", got, want); why = "real literal " + lit + b; return false; }
        return true;
    }
    if (k == "str") {
        std::string want = cps_to_utf8(e[1]);
        if ((mode & 4) && (want == "NaN" || want == "Inf" || want == "-Inf")) {
            if (j.type() != json_type::float64) { why = "string " + want + " not read as a double (nan_to_str / inf_to_str inverse)"; return false; }
            double got = j.template as<double>();
            if (want == "NaN" ? !std::isnan(got) : !(std::isinf(got) && (got > 0) == (want == "Inf"))) { why = "string " + want + " read as the wrong double"; return false; }
            return true;
        }
        if (j.type() != json_type::string || j.tag() == semantic_tag::bigint || j.tag() == semantic_tag::bigdec) { why = "expected string"; return false; }
        if (j.template as<std::string>() != want) { why = "string content differs"; return false; }
        return true;
    }
    if (k == "arr") {
        if (!j.is_array() || j.size() != e[1].size()) { why = "array size/kind"; return false; }
        for (size_t i = 0; i < e[1].size(); ++i) if (!matches_text_value(j[i], e[1][i], ordered, why, mode)) return false;
        return true;
    }
    if (k == "obj") {
        if (!j.is_object() || j.size() != e[1].size()) { why = "object size/kind"; return false; }
        size_t i = 0;
        auto it = j.object_range().begin();
        for (; i < e[1].size(); ++i) {
            std::string key = cps_to_utf8(e[1][i][0]);
            if (!j.contains(key)) { why = "missing member"; return false; }
            if (!matches_text_value(j.at(key), e[1][i][1], ordered, why, mode)) return false;
            if (ordered) { if (std::string((*it).key()) != key) { why = "member order"; return false; } ++it; }
        }
        return true;
    }
    why = "unknown expected kind " + k; return false;
}


// ---- document-level wire format (JsonValue.tla!Wire): ["null"] ["bool",b] ["int",n] ["str",[cps]]
//      ["arr",[...]] ["obj",[[keycps,value],...]]
// ["dec", m, e]: the double nearest to the decimal m * 10^e (correctly rounded by strtod)
inline double dec_value(const mj::Value& w) { std::string lit = std::to_string((long long)w[1].as_int()) + "e" + std::to_string((long long)w[2].as_int()); return strtod(lit.c_str(), nullptr); }
inline mj::Value dbl_wire(double d) { mj::Value r = mj::Value::array(); uint64_t b; memcpy(&b, &d, 8); char buf[24]; snprintf(buf, sizeof buf, "%016llx", (unsigned long long)b); r.push("dbl"); r.push(buf); return r; }
inline bool& parsed_mode() { static bool on = false; return on; }   // when on, build_doc returns the document as the PARSER builds it (dump + parse)
template <class Json> Json build_doc_raw(const mj::Value& w);
template <class Json>
Json build_doc(const mj::Value& w) {
    if (!parsed_mode()) return build_doc_raw<Json>(w);
    Json b = build_doc_raw<Json>(w); std::string s; b.dump(s); return Json::parse(s);
}
template <class Json>
Json build_doc_raw(const mj::Value& w) {
    const std::string& k = w[0].str();
    if (k == "null") return Json::null();
    if (k == "bool") return Json(w[1].as_bool());
    if (k == "int") return Json((int64_t)w[1].as_int());
    if (k == "dec") return Json(dec_value(w));
    if (k == "str") return Json(cps_to_utf8(w[1]));
    if (k == "arr") { Json a(jsoncons::json_array_arg); for (auto& e : w[1].a) a.push_back(build_doc_raw<Json>(e)); return a; }
    if (k == "obj") { Json o(jsoncons::json_object_arg); for (auto& kv : w[1].a) o.insert_or_assign(cps_to_utf8(kv[0]), build_doc_raw<Json>(kv[1])); return o; }
    throw std::runtime_error("build_doc: unknown kind " + k);
}
// the same document obtained by PARSING its text (objects are then filled by the decoder's bulk path, not member by member)
template <class Json>
Json build_doc_parsed(const mj::Value& w) { Json b = build_doc_raw<Json>(w); std::string s; b.dump(s); return Json::parse(s); }
inline bool key_less(const mj::Value& a, const mj::Value& b) {   // compare [keycps, v] pairs by key code points
    const auto& x = a[0].a; const auto& y = b[0].a;
    for (size_t i = 0; i < x.size() && i < y.size(); ++i) { if (x[i].i != y[i].i) return x[i].i < y[i].i; }
    return x.size() < y.size();
}
inline mj::Value canon_doc(const mj::Value& w) {
    const std::string& k = w[0].str();
    if (k == "arr") { mj::Value r = mj::Value::array(); r.push("arr"); mj::Value a = mj::Value::array(); for (auto& e : w[1].a) a.push(canon_doc(e)); r.push(a); return r; }
    if (k == "obj") { mj::Value r = mj::Value::array(); r.push("obj"); mj::Value a = mj::Value::array(); for (auto& kv : w[1].a) { mj::Value p = mj::Value::array(); p.push(kv[0]); p.push(canon_doc(kv[1])); a.push(p); }
        std::stable_sort(a.a.begin(), a.a.end(), key_less); r.push(a); return r; }
    if (k == "dec") return dbl_wire(dec_value(w));
    return w;
}
// library value -> canonical document wire (members sorted by key); anything outside the
// document universe is rendered as ["other", <type>, <dump>] so that it never compares equal
template <class Json>
mj::Value doc_wire(const Json& j, bool keep_order = false) {
    using namespace jsoncons;
    mj::Value r = mj::Value::array();
    switch (j.type()) {
        case json_type::null: r.push("null"); break;
        case json_type::boolean: r.push("bool"); r.push(j.template as<bool>()); break;
        case json_type::int64: r.push("int"); r.push((int64_t)j.template as<int64_t>()); break;
        case json_type::uint64: { uint64_t u = j.template as<uint64_t>(); if (u <= (uint64_t)INT64_MAX) { r.push("int"); r.push((int64_t)u); } else { r.push("other"); r.push("uint64"); r.push(std::to_string(u)); } break; }
        case json_type::float64: return dbl_wire(j.template as<double>());
        case json_type::string: if (j.tag() == semantic_tag::none || j.tag() == semantic_tag::noesc) { r.push("str"); r.push(cps_of(j.template as<std::string>())); } else { r.push("other"); r.push("tagged-string"); r.push(j.template as<std::string>()); } break;
        case json_type::array: { r.push("arr"); mj::Value a = mj::Value::array(); for (auto& e : j.array_range()) a.push(doc_wire(e, keep_order)); r.push(a); break; }
        case json_type::object: { r.push("obj"); mj::Value a = mj::Value::array(); for (auto& kv : j.object_range()) { mj::Value p = mj::Value::array(); p.push(cps_of(std::string(kv.key()))); p.push(doc_wire(kv.value(), keep_order)); a.push(p); }
            if (!keep_order) std::stable_sort(a.a.begin(), a.a.end(), key_less); r.push(a); break; }
        default: { r.push("other"); r.push((int)j.type()); std::string s; j.dump(s); r.push(s); break; }
    }
    return r;
}
template <class Json>
bool doc_equals(const Json& j, const mj::Value& expected_wire) { return doc_wire(j) == canon_doc(expected_wire); }

} // namespace jc
