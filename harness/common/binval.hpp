// Comparison of jsoncons values with the binary data model of the format specs
// (spec/Cbor.tla header): ["uint",bs] ["nint",bs] ["bstr",bytes] ["tstr",bytes] ["arr",[..]]
// ["map",[[k,v]..]] ["tag",bs,v] ["bool",b] ["null"] ["undef"] ["f16",b2] ["f32",b4] ["f64",b8]
#pragma once
#include "minijson.hpp"
#include <jsoncons/json.hpp>
#include <cmath>
#include <cstring>
#include <string>
#include <vector>

namespace bv {

inline std::vector<uint8_t> bytes_of(const mj::Value& a) { std::vector<uint8_t> v; for (auto& x : a.a) v.push_back((uint8_t)x.as_int()); return v; }
inline bool be_to_u64(const mj::Value& bs, uint64_t& out) { if (bs.size() > 8) return false; out = 0; for (auto& x : bs.a) out = (out << 8) | (uint64_t)x.as_int(); return true; }
inline double half_to_double(uint16_t h) {
    int s = (h >> 15) & 1, e = (h >> 10) & 0x1f, m = h & 0x3ff; double v;
    if (e == 0) v = std::ldexp((double)m, -24); else if (e == 31) v = m ? std::nan("") : INFINITY; else v = std::ldexp((double)(m + 1024), e - 25);
    return s ? -v : v;
}
inline bool same_double(double a, double b) { if (std::isnan(a) || std::isnan(b)) return std::isnan(a) && std::isnan(b); uint64_t x, y; memcpy(&x, &a, 8); memcpy(&y, &b, 8); return x == y; }

template <class Json>
bool matches(const Json& j, const mj::Value& e, std::string& why) {
    using namespace jsoncons;
    const std::string& k = e[0].str();
    if (k == "any") return true;       // an item whose image is not stated by the specification module (see Cbor!Image)
    if (k == "uint") { uint64_t u; if (!be_to_u64(e[1], u)) { why = "uint too wide"; return false; }
        if (j.type() == json_type::uint64) { if (j.template as<uint64_t>() != u) { why = "uint value " + std::to_string(j.template as<uint64_t>()); return false; } return true; }
        if (j.type() == json_type::int64 && j.template as<int64_t>() >= 0) { if ((uint64_t)j.template as<int64_t>() != u) { why = "uint value"; return false; } return true; }
        why = "expected unsigned integer"; return false; }
    if (k == "nint") { uint64_t n; if (!be_to_u64(e[1], n) || n > (uint64_t)INT64_MAX) { why = "nint out of int64"; return false; }
        if (j.type() != json_type::int64 && j.type() != json_type::uint64) { why = "expected negative integer"; return false; }
        if (j.type() != json_type::int64 || j.template as<int64_t>() != -1 - (int64_t)n) { why = "nint value"; return false; } return true; }
    if (k == "bstr") { if (j.type() != json_type::byte_string) { why = "expected byte string"; return false; } auto v = j.as_byte_string_view(); auto w = bytes_of(e[1]);
        if (v.size() != w.size() || (w.size() && memcmp(v.data(), w.data(), w.size()) != 0)) { why = "byte string content"; return false; } return true; }
    if (k == "tstr") { if (j.type() != json_type::string) { why = "expected string"; return false; } auto w = bytes_of(e[1]); std::string s = j.template as<std::string>();
        if (s.size() != w.size() || (w.size() && memcmp(s.data(), w.data(), w.size()) != 0)) { why = "string content"; return false; } return true; }
    if (k == "arr") { if (!j.is_array() || j.size() != e[1].size()) { why = "array kind/size"; return false; } for (size_t i = 0; i < e[1].size(); ++i) if (!matches(j[i], e[1][i], why)) return false; return true; }
    if (k == "map") { if (!j.is_object() || j.size() != e[1].size()) { why = "map kind/size"; return false; }
        for (auto& kv : e[1].a) { auto kb = bytes_of(kv[0][1]); std::string key((const char*)kb.data(), kb.size()); if (!j.contains(key)) { why = "missing key " + key; return false; } if (!matches(j.at(key), kv[1], why)) return false; } return true; }
    if (k == "bool") { if (!j.is_bool() || j.template as<bool>() != e[1].as_bool()) { why = "bool"; return false; } return true; }
    if (k == "null" || k == "undef") { if (!j.is_null()) { why = "expected null"; return false; } return true; }
    if (k == "f16") { auto b = bytes_of(e[1]); double want = half_to_double((uint16_t)((b[0] << 8) | b[1])); if (!j.is_number() || (j.type() != json_type::float64 && j.type() != json_type::float16)) { why = "expected float"; return false; } if (!same_double(j.template as<double>(), want)) { why = "f16 value"; return false; } return true; }
    if (k == "f32") { auto b = bytes_of(e[1]); uint32_t u = ((uint32_t)b[0] << 24) | ((uint32_t)b[1] << 16) | ((uint32_t)b[2] << 8) | b[3]; float f; memcpy(&f, &u, 4); if (j.type() != json_type::float64) { why = "expected double"; return false; } if (!same_double(j.template as<double>(), (double)f)) { why = "f32 value"; return false; } return true; }
    if (k == "f64") { auto b = bytes_of(e[1]); uint64_t u = 0; for (int i = 0; i < 8; ++i) u = (u << 8) | b[i]; double d; memcpy(&d, &u, 8); if (j.type() != json_type::float64) { why = "expected double"; return false; } if (!same_double(j.template as<double>(), d)) { why = "f64 value"; return false; } return true; }
    why = "unsupported expected kind " + k; return false;
}

} // namespace bv

// ---- building jsoncons values from the binary data model and projecting them back
namespace bv {
template <class Json>
Json build(const mj::Value& e) {
    using namespace jsoncons;
    const std::string& k = e[0].str();
    if (k == "uint") { uint64_t u = 0; be_to_u64(e[1], u); return Json(u); }
    if (k == "nint") { uint64_t n = 0; be_to_u64(e[1], n); return Json((int64_t)(-1 - (int64_t)n)); }
    if (k == "bstr") { auto b = bytes_of(e[1]); return Json(byte_string_arg, b); }
    if (k == "tstr") { auto b = bytes_of(e[1]); return Json(std::string((const char*)b.data(), b.size())); }
    if (k == "arr") { Json a(json_array_arg); for (auto& x : e[1].a) a.push_back(build<Json>(x)); return a; }
    if (k == "map") { Json o(json_object_arg); for (auto& kv : e[1].a) { auto kb = bytes_of(kv[0][1]); o.insert_or_assign(std::string((const char*)kb.data(), kb.size()), build<Json>(kv[1])); } return o; }
    if (k == "bool") return Json(e[1].as_bool());
    if (k == "null") return Json::null();
    if (k == "f64") { auto b = bytes_of(e[1]); uint64_t u = 0; for (int i = 0; i < 8; ++i) u = (u << 8) | b[i]; double d; memcpy(&d, &u, 8); return Json(d); }
    throw std::runtime_error("bv::build: unsupported kind " + k);
}
inline mj::Value be_bytes(uint64_t u) { mj::Value a = mj::Value::array(); bool lead = true; for (int i = 7; i >= 0; --i) { int b = (int)((u >> (8 * i)) & 0xff); if (lead && b == 0) continue; lead = false; a.push(b); } return a; }
inline mj::Value raw(const void* p, size_t n) { mj::Value a = mj::Value::array(); const uint8_t* b = (const uint8_t*)p; for (size_t i = 0; i < n; ++i) a.push((int)b[i]); return a; }
template <class Json>
mj::Value project(const Json& j) {
    using namespace jsoncons;
    mj::Value r = mj::Value::array();
    switch (j.type()) {
        case json_type::null: r.push("null"); break;
        case json_type::boolean: r.push("bool"); r.push(j.template as<bool>()); break;
        case json_type::uint64: r.push("uint"); r.push(be_bytes(j.template as<uint64_t>())); break;
        case json_type::int64: { int64_t v = j.template as<int64_t>(); if (v >= 0) { r.push("uint"); r.push(be_bytes((uint64_t)v)); } else { r.push("nint"); r.push(be_bytes((uint64_t)(-1 - v))); } break; }
        case json_type::float16: case json_type::float64: { double d = j.template as<double>(); uint64_t u; memcpy(&u, &d, 8); mj::Value a = mj::Value::array(); for (int i = 7; i >= 0; --i) a.push((int)((u >> (8 * i)) & 0xff)); r.push("f64"); r.push(a); break; }
        case json_type::string: { std::string s = j.template as<std::string>(); if (j.tag() == semantic_tag::bigint || j.tag() == semantic_tag::bigdec || j.tag() == semantic_tag::bigfloat) { r.push("numstr"); r.push((int)j.tag()); r.push(raw(s.data(), s.size())); } else { r.push("tstr"); r.push(raw(s.data(), s.size())); } break; }
        case json_type::byte_string: { auto v = j.as_byte_string_view(); r.push("bstr"); r.push(raw(v.data(), v.size())); break; }
        case json_type::array: { r.push("arr"); mj::Value a = mj::Value::array(); for (auto& e : j.array_range()) a.push(project(e)); r.push(a); break; }
        case json_type::object: { r.push("map"); mj::Value a = mj::Value::array(); for (auto& kv : j.object_range()) { mj::Value p = mj::Value::array(); mj::Value kk = mj::Value::array(); kk.push("tstr"); std::string ks(kv.key()); kk.push(raw(ks.data(), ks.size())); p.push(kk); p.push(project(kv.value())); a.push(p); } r.push(a); break; }
        default: r.push("other"); break;
    }
    return r;
}
} // namespace bv
