// Recording visitor and cursor-event projection: both map to the same
// canonical event strings so that observers can be compared with ==.
#pragma once
#include <jsoncons/json.hpp>
#include <cstring>
#include <string>
#include <vector>

namespace evr {

inline std::string hex(const void* p, size_t n) {
    static const char* d = "0123456789abcdef"; std::string s; s.reserve(2 * n);
    const unsigned char* b = (const unsigned char*)p;
    for (size_t i = 0; i < n; ++i) { s.push_back(d[b[i] >> 4]); s.push_back(d[b[i] & 15]); }
    return s;
}
inline std::string tagstr(jsoncons::semantic_tag t) { return std::to_string((int)t); }
inline std::string dbl(double v) { uint64_t b; memcpy(&b, &v, 8); char buf[20]; snprintf(buf, sizeof buf, "%016llx", (unsigned long long)b); return buf; }

// declared container lengths are kept out of the event string (cursors do not expose
// them uniformly); they are recorded separately in `lengths`.
struct Recorder : public jsoncons::json_visitor {
    std::vector<std::string> ev;
    std::vector<long> lengths;
    bool flushed = false;
    void clear() { ev.clear(); lengths.clear(); flushed = false; }
private:
    using R = JSONCONS_VISITOR_RETURN_TYPE;
    void visit_flush() override { flushed = true; }
    R visit_begin_object(jsoncons::semantic_tag t, const jsoncons::ser_context&, std::error_code&) override { ev.push_back("BO:" + tagstr(t)); lengths.push_back(-1); JSONCONS_VISITOR_RETURN; }
    R visit_begin_object(std::size_t n, jsoncons::semantic_tag t, const jsoncons::ser_context&, std::error_code&) override { ev.push_back("BO:" + tagstr(t)); lengths.push_back((long)n); JSONCONS_VISITOR_RETURN; }
    R visit_end_object(const jsoncons::ser_context&, std::error_code&) override { ev.push_back("EO"); JSONCONS_VISITOR_RETURN; }
    R visit_begin_array(jsoncons::semantic_tag t, const jsoncons::ser_context&, std::error_code&) override { ev.push_back("BA:" + tagstr(t)); lengths.push_back(-1); JSONCONS_VISITOR_RETURN; }
    R visit_begin_array(std::size_t n, jsoncons::semantic_tag t, const jsoncons::ser_context&, std::error_code&) override { ev.push_back("BA:" + tagstr(t)); lengths.push_back((long)n); JSONCONS_VISITOR_RETURN; }
    R visit_end_array(const jsoncons::ser_context&, std::error_code&) override { ev.push_back("EA"); JSONCONS_VISITOR_RETURN; }
    R visit_key(const string_view_type& s, const jsoncons::ser_context&, std::error_code&) override { ev.push_back("K:" + hex(s.data(), s.size())); JSONCONS_VISITOR_RETURN; }
    R visit_null(jsoncons::semantic_tag t, const jsoncons::ser_context&, std::error_code&) override { ev.push_back("N:" + tagstr(t)); JSONCONS_VISITOR_RETURN; }
    R visit_bool(bool b, jsoncons::semantic_tag t, const jsoncons::ser_context&, std::error_code&) override { ev.push_back(std::string("B:") + (b ? "1" : "0") + ":" + tagstr(t)); JSONCONS_VISITOR_RETURN; }
    R visit_string(const string_view_type& s, jsoncons::semantic_tag t, const jsoncons::ser_context&, std::error_code&) override { ev.push_back("S:" + hex(s.data(), s.size()) + ":" + tagstr(t)); JSONCONS_VISITOR_RETURN; }
    R visit_byte_string(const jsoncons::byte_string_view& s, jsoncons::semantic_tag t, const jsoncons::ser_context&, std::error_code&) override { ev.push_back("X:" + hex(s.data(), s.size()) + ":" + tagstr(t)); JSONCONS_VISITOR_RETURN; }
    R visit_byte_string(const jsoncons::byte_string_view& s, uint64_t raw, const jsoncons::ser_context&, std::error_code&) override { ev.push_back("X:" + hex(s.data(), s.size()) + ":ext" + std::to_string(raw)); JSONCONS_VISITOR_RETURN; }
    R visit_uint64(uint64_t v, jsoncons::semantic_tag t, const jsoncons::ser_context&, std::error_code&) override { ev.push_back("U:" + std::to_string(v) + ":" + tagstr(t)); JSONCONS_VISITOR_RETURN; }
    R visit_int64(int64_t v, jsoncons::semantic_tag t, const jsoncons::ser_context&, std::error_code&) override { ev.push_back("I:" + std::to_string(v) + ":" + tagstr(t)); JSONCONS_VISITOR_RETURN; }
    R visit_half(uint16_t v, jsoncons::semantic_tag t, const jsoncons::ser_context&, std::error_code&) override { ev.push_back("H:" + std::to_string(v) + ":" + tagstr(t)); JSONCONS_VISITOR_RETURN; }
    R visit_double(double v, jsoncons::semantic_tag t, const jsoncons::ser_context&, std::error_code&) override { ev.push_back("D:" + dbl(v) + ":" + tagstr(t)); JSONCONS_VISITOR_RETURN; }
};

template <class Event>
std::string of_event(const Event& e) {
    using jsoncons::staj_events;
    std::error_code ec;
    switch (e.event_type()) {
        case staj_events::begin_object: return "BO:" + tagstr(e.tag());
        case staj_events::end_object: return "EO";
        case staj_events::begin_array: return "BA:" + tagstr(e.tag());
        case staj_events::end_array: return "EA";
        case staj_events::id: { std::string d = std::to_string(e.template get<uint64_t>(ec)); return "K:" + hex(d.data(), d.size()); }   // an integer map key: the visitor receives its decimal text
        case staj_events::key: { auto s = e.template get<jsoncons::string_view>(ec); return "K:" + hex(s.data(), s.size()); }
        case staj_events::string_value: { auto s = e.template get<jsoncons::string_view>(ec); return "S:" + hex(s.data(), s.size()) + ":" + tagstr(e.tag()); }
        case staj_events::byte_string_value: { auto s = e.template get<jsoncons::byte_string_view>(ec); return "X:" + hex(s.data(), s.size()) + ":" + (e.tag() == jsoncons::semantic_tag::ext ? "ext" + std::to_string(e.ext_tag()) : tagstr(e.tag())); }
        case staj_events::null_value: return "N:" + tagstr(e.tag());
        case staj_events::bool_value: return std::string("B:") + (e.template get<bool>(ec) ? "1" : "0") + ":" + tagstr(e.tag());
        case staj_events::int64_value: return "I:" + std::to_string(e.template get<int64_t>(ec)) + ":" + tagstr(e.tag());
        case staj_events::uint64_value: return "U:" + std::to_string(e.template get<uint64_t>(ec)) + ":" + tagstr(e.tag());
        case staj_events::half_value: return "H:" + std::to_string(e.template get<uint16_t>(ec)) + ":" + tagstr(e.tag());
        case staj_events::double_value: return "D:" + dbl(e.template get<double>(ec)) + ":" + tagstr(e.tag());
        default: return "?" + std::to_string((unsigned long long)e.event_type());
    }
}

inline std::string join(const std::vector<std::string>& v) {
    std::string s; for (auto& x : v) { if (!s.empty()) s.push_back(' '); s += x; } return s;
}

} // namespace evr
