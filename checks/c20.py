"""C20 - concurrent read-only use of shared immutable artefacts (compiled schema, compiled JSONPath / JMESPath
expressions, const json) is race free and schedule independent.
Spec: SharedReaders (threads issuing operations on a shared artefact, each operation a sequence of read steps on the
shared artefact and write steps on private scratch state; invariants ScheduleIndependent, NoSharedWrite; liveness
EveryOpReturns).  TLC checks it exhaustively for 3 threads x 2 operations (MC_C20); MC_C20memo documents the
interleaving that a shared memo written without synchronisation admits (expected to violate - not part of the check).
Binding: V - MC_C20gen generates thread counts x stream assignments x start skews; the harness (built with clang
-fsanitize=thread) runs them on the real artefacts and records Seq / Par / Race events; Trace_C20 accepts a run iff
every concurrent result equals the sequential result, per-thread sequence numbers are consecutive, and there is no
Race event (a ThreadSanitizer report = unsynchronised access to shared state, for which SharedReaders has no action)."""
import json, os, subprocess
import vf

PROP = 'C20'
CFG = {'quick': 'gen/MC_C20gen_q.cfg', 'thorough': 'gen/MC_C20gen_t.cfg'}
POOL = os.path.join(vf.SPEC, 'validation', 'C20_pool.json')
ROUNDS = {'quick': 2, 'thorough': 12}
TSAN = {'TSAN_OPTIONS': 'halt_on_error=0 report_signal_unsafe=0 exitcode=0 history_size=4', 'HZ_CASE_CPU_SECONDS': '900'}    # (a case = up to 16 threads x hundreds of operations under TSan)


SCHEMA_URI = {'d4': 'http://json-schema.org/draft-04/schema#', 'd6': 'http://json-schema.org/draft-06/schema#', 'd7': 'http://json-schema.org/draft-07/schema#',
              'd2019': 'https://json-schema.org/draft/2019-09/schema', 'd2020': 'https://json-schema.org/draft/2020-12/schema'}
GEN_SOURCES = [('jsonpath', 'gen/MC_C12', 'gen/MC_C12seg_q.cfg', 40), ('jsonpath', 'gen/MC_C12', 'gen/MC_C12filter_q.cfg', 40),
               ('schema', 'gen/MC_C11', 'gen/MC_C11pairs_q.cfg', 30), ('schema', 'gen/MC_C11', 'gen/MC_C11uneval_q.cfg', 30)]      # (the refs plans contain self-references that recurse without consuming the instance: undefined by the specification)


def unwire(v):
    """JsonValue!Wire -> plain JSON"""
    t = v[0]
    if t == 'null':
        return None
    if t in ('bool', 'int'):
        return v[1]
    if t == 'dec':                      # exact decimal m * 10^e of the C11 generators
        return float('%de%d' % (v[1], v[2]))
    if t == 'str':
        return ''.join(chr(c) for c in v[1])
    if t == 'arr':
        return [unwire(x) for x in v[1]]
    if t == 'obj':
        return {''.join(chr(c) for c in k): unwire(x) for k, x in v[1]}
    raise ValueError(t)


def generated_pool():
    """a second artefact pool sampled evenly from the TLC-generated (query, document) cases of C12 and (schema, instances) cases of C11"""
    docs, arts = {}, []
    def doc_id(d):
        k = 'g%d' % len(docs)
        docs[k] = d
        return k
    for kind, mod, cfg, want in GEN_SOURCES:
        path, _ = vf.tlc_gen(mod, cfg, timeout=1200)
        n = vf.count_lines(path)
        step = max(1, n // want)
        carry = False
        with open(path) as fh:
            for i, line in enumerate(fh):
                if i % step and not carry:
                    continue
                carry = False
                c = json.loads(line)
                if c.get('dc') or c.get('dev'):        # declared don't-care / deviation classes of C11 / C12 (e.g. non-terminating references) stay out
                    carry = True                       # take the next eligible case instead
                    continue
                try:
                    if kind == 'jsonpath':
                        arts.append({'kind': 'jsonpath', 'text': ''.join(chr(x) for x in c['ex'][0]), 'docs': [doc_id(unwire(c['d']))]})
                    else:
                        sch = unwire(c['s'])
                        if isinstance(sch, dict):
                            sch = dict(sch)
                            sch['$schema'] = SCHEMA_URI[c['d']]
                        inst = [unwire(x[0]) for x in c.get('x', [])][:2] or [{}, [1, 'a']]
                        arts.append({'kind': 'schema', 'format_assertion': False, 'text': sch, 'docs': [doc_id(x) for x in inst]})
                except (KeyError, ValueError, TypeError):
                    continue
    body = json.dumps({'docs': docs, 'artefacts': arts}, sort_keys=True)
    import hashlib
    path = os.path.join(vf.ensure(os.path.join(vf.WORK, 'run')), 'c20-genpool-%s.json' % hashlib.sha256(body.encode()).hexdigest()[:12])
    if not os.path.exists(path):
        tmp = path + '.tmp%d' % os.getpid()
        open(tmp, 'w').write(body)
        os.rename(tmp, path)
    return path, len(arts)


def build():
    return vf.build('c20', ['c20.cpp'], cxx='clang++', opt='-O1', flags=['-g', '-fsanitize=thread'])


def setup():
    build()
    vf.tlc_gen('gen/MC_C20gen', CFG['quick'], timeout=300)


def model_check(rep):
    r = vf.tlc('gen/MC_C20', 'gen/MC_C20.cfg', timeout=580)
    if r['rc'] != 0:
        raise vf.InfraError('SharedReaders model check failed:\n' + r['tail'][-3000:])
    rep.add_tlc(r)
    return r


def run(tier):
    rep = vf.Report(PROP, tier)
    binary = build()
    m = model_check(rep)
    g = vf.tlc_gen('gen/MC_C20gen', CFG[tier], timeout=300)
    rep.add_tlc(g[1])
    cases = [json.loads(l) for l in open(g[0])]
    gpool, ngen = generated_pool()
    rep.coverage['generated_pool_artefacts'] = ngen
    nval = nops = nrej = 0
    for rnd in range(ROUNDS[tier]):
        recs = vf.run_shards(binary, g[0], nshards=4, env=TSAN, timeout=560, args=['--pool', POOL + ',' + gpool])   # 4 shards x up to 16 threads
        for r in recs:
            if r.get('k') == 'pool-error':       # an artefact of the curated pool does not compile on this tree: not a C20 observation
                raise vf.InfraError('C20 pool artefact does not compile: %s' % r.get('what'))
            if r.get('k') in ('crash', 'garbage', 'signal'):
                rep.violation({'what': 'harness-' + str(r.get('k')), 'rc': str(r.get('rc'))}, {'crash': True}, {'detail': json.dumps(r)[:3000]})
        byidx = {}
        for r in recs:
            if r.get('k') == 'trace':
                byidx.setdefault(r['idx'], []).append(r)
        idxs = sorted(byidx)
        lines = []
        owner = []
        for i in idxs:
            for r in byidx[i]:
                lines.append(json.dumps({k: v for k, v in r.items() if k not in ('k', 'idx')}))
                owner.append(i)
        v = vf.validate_traces('trace/Trace_C20', 'trace/Trace_C20.cfg', lines, nshards=1, timeout=560)
        rep.coverage['states'] += v['states']
        rep.coverage['transitions'] += v['transitions']
        nops += sum(1 for l in lines if '"Par"' in l)
        rejected_cases = set()
        for i in v['rejected']:
            if owner[i] in rejected_cases:
                continue
            rejected_cases.add(owner[i])
            ev = json.loads(lines[i])
            c = cases[owner[i]]
            what = 'data-race' if ev.get('e') == 'Race' else 'result-differs-from-sequential'
            rep.violation({'what': what, 'op': ev.get('op', ''), 'n': c['n']}, c, {'event': ev})
        nrej += len(rejected_cases)
        nval += len(idxs) - len(rejected_cases)
        if rejected_cases:
            break
    cov = rep.coverage
    cov['traces_validated_against_impl'] = nval
    cov['operations_validated'] = nops
    cov['rounds'] = ROUNDS[tier]
    cov['exhaustive'] = False
    cov['model'] = 'SharedReaders: Threads={1,2,3}, Ops={1,2}, MaxOps=2, Memo=FALSE: %d distinct states, invariants ScheduleIndependent, NoSharedWrite' % m['distinct']
    cov['rule'] = ('%d (thread count, stream assignment, start skew) cases from MC_C20gen: 2 threads x all ordered pairs of 6 operation streams x 2 skews, '
                   '4 / 8 / 16 threads with rotating stream assignments; every stream repeated 15-40 times; %d rounds; 17 operations over a compiled '
                   '2020-12 schema (is_valid, validate with reporter, walk), three compiled JSONPath expressions (filter, regex filter, recursive '
                   'descent with paths|nodups), two compiled JMESPath expressions (filter+multiselect+pipe, sort_by) and a const json (lookup, '
                   'compare, copy+mutate the copy, dump, iterate); plus the artefact pool spec/validation/C20_pool.json - 22 JSONPath expressions covering every built-in '
                   'function (incl. tokenize, =~), unions, slices, recursive descent, parent; 17 JMESPath expressions covering every built-in function; 7 schemas over '
                   'Drafts 4 / 7 / 2019-09 / 2020-12 covering every format with format assertion on, pattern keywords, references and recursion, applicators, '
                   'dependencies, unevaluated* - each with 1-3 documents (55 operations) - and a second pool sampled evenly from the TLC-generated C12 (query, document) and C11 (schema, instances) cases (about 140 artefacts) - run in windows of 5 operations by 2 / 4 (thorough 8) threads, half forwards half backwards; the schedules are whatever the OS scheduler and ThreadSanitizer produced - '
                   'ThreadSanitizer reports races on any happens-before-unordered conflicting accesses it observed, not only those that corrupted a result'
                   % (len(cases), ROUNDS[tier]))
    cov['samples'] = vf.sample_lines(g[0], 2)
    rep.assumptions += ['race detection is dynamic (ThreadSanitizer, happens-before): a racy access pair must be executed by two threads in one run to be reported; '
                        'code paths not reached by the 17 operations are not observed',
                        'results are compared by 64-bit FNV hash of the serialized result']
    return rep.finish(dict(harness='c20'))


def replay(path):
    d = json.load(open(path))
    binary = build()
    tmp = os.path.join(vf.ensure(os.path.join(vf.WORK, 'run')), 'c20-replay-%d.ndjson' % os.getpid())
    open(tmp, 'w').write(json.dumps(d['case']) + '\n')
    bad = 0
    try:
        for _ in range(10):
            p = subprocess.run(['timeout', '300', binary, '--cases', tmp, '--pool', POOL + ',' + generated_pool()[0]], capture_output=True, text=True, env=dict(os.environ, **TSAN))
            seq = {}
            for l in p.stdout.splitlines():
                r = json.loads(l)
                if r.get('e') == 'Seq':
                    seq[r['op']] = r['result']
                elif r.get('e') == 'Race' or (r.get('e') == 'Par' and seq.get(r['op']) != r['result']):
                    bad += 1
                    print(l[:500])
            if bad:
                print(p.stderr[:6000])
                break
    finally:
        os.unlink(tmp)
    if bad:
        print('VIOLATION property=%s replay=%s' % (PROP, path))
        return 1
    print('no race / mismatch in 10 runs on this tree')
    return 0
