"""C02 - The JSON parser accepts exactly RFC 8259 and yields the specified value.
Spec: JsonText (pushdown recogniser + value builder), JsonGrammar (second
definition, equivalence model-checked).  Binding: G (TLC-generated cases with
predicted verdict/value replayed through the real entry points)."""
import json, os
import vf

PROP = 'C02'
CFG = {
    'quick': dict(char='gen/MC_C02char_q.cfg', tok='gen/MC_C02tok.cfg', deep='gen/MC_C02deep_q.cfg', mem='gen/MC_C02mem_q.cfg', tokx='gen/MC_C02tokx_q.cfg', equiv='gen/MC_JsonEquiv.cfg'),
    'thorough': dict(char='gen/MC_C02char_t.cfg', tok='gen/MC_C02tok_t.cfg', deep='gen/MC_C02deep.cfg', mem='gen/MC_C02mem_t.cfg', tokx='gen/MC_C02tokx_t.cfg', equiv='gen/MC_JsonEquiv.cfg'),
}


def text_of(case):
    try:
        return bytes(case['t']).decode('latin1')
    except Exception:
        return str(case)[:200]


def sig(r):
    s = {'text': text_of(r['case'])}
    for k in ('entry', 'what', 'comments', 'trailing', 'expect', 'observed', 'mode'):
        if k in r:
            s[k] = r[k]
    if 'limit' in r:
        s['limit_rel'] = 'default' if r['limit'] == 1024 else ('at' if r['limit'] == r['case'].get('dep') else 'below')
    return s


def gens(tier):
    c = CFG[tier]
    return [vf.tlc_gen('gen/MC_C02char', c['char'], timeout=1500),
            vf.tlc_gen('gen/MC_C02tok', c['tok'], timeout=1500),
            vf.tlc_gen('gen/MC_C02tok', c['deep'], timeout=1500),
            vf.tlc_gen('gen/MC_C02tok', c['mem'], timeout=1500),
            vf.tlc_gen('gen/MC_C02tokx', c['tokx'], timeout=1500),
            vf.tlc_gen('gen/MC_C02nest', 'gen/MC_C02nest.cfg', timeout=1500)]


def setup():
    vf.build('c02', ['c02.cpp'])
    gens('quick')


def run(tier):
    rep = vf.Report(PROP, tier)
    binary = vf.build('c02', ['c02.cpp'])
    # model-internal obligation: two independent definitions of RFC 8259 agree
    r = vf.tlc_check('gen/MC_JsonEquiv', CFG[tier]['equiv'], timeout=1500)
    if r['rc'] != 0:
        raise vf.InfraError('JsonText/JsonGrammar equivalence failed inside the model (spec error):\n' + r['tail'])
    rep.add_tlc(r)
    g = gens(tier)
    totals = vf.g_replay(rep, binary, g, sig)
    cov = rep.coverage
    cov['traces_validated_against_impl'] = totals.get('cases', 0)
    cov['evaluations'] = totals.get('checks', 0)
    cov['distinct_nontrivial'] = totals.get('cases', 0)
    cov['accepted_texts'] = totals.get('accepted', 0)
    cov['dont_care_texts'] = totals.get('dontcare', 0)
    cov['exhaustive'] = True
    cov['rule'] = ('every viable prefix (and each minimal dead extension) of RFC 8259 texts over a 27-character class alphabet up to the '
                   'configured length, every sequence of whole tokens (86 tokens: punctuation, comments, literals, 32 number literals, '
                   '37 string literals) up to the configured count, deep sequences over an 11-token alphabet, and objects built from up to 3/4 whole members (2 names x 8 value kinds: duplicate names in every position); each distinct text is '
                   'one case; token sequences over the 11-token alphabet with up to two of 38 extra tokens (corners of the escaped surrogate-pair range, scalar boundaries, characters '
                   'above U+00FF whose low byte is an ASCII character with a role in the grammar, outside and inside strings); '
                   'x {allow_comments} x {allow_trailing_comma} x max_nesting_depth in {default, depth, depth-1} x 5 char entry points and - for every text that is valid UTF-8 - '
                   'the same 5 entry points of the wchar_t instantiation (one wchar_t per code point; value narrowed back and compared with the same prediction); '
                   'every text additionally under lossless_number, lossless_bignum(false), nan_to_str / inf_to_str / neginf_to_str with the inverse enabled, and all three together (the documented image of '
                   'the literal changes: exact text tagged bigdec / nearest double or +-infinity / NaN and infinities for the three strings)')
    cov['bounds'] = {k: open(os.path.join(vf.SPEC, v)).read().split('CONSTANTS')[1].split() for k, v in CFG[tier].items()}
    cov['samples'] = vf.sample_lines(g[1][0], 2) + vf.sample_lines(g[2][0], 1)
    rep.assumptions += ['with lossless_bignum off an underflowing real may be read as +-infinity (as documented) or as the nearest double',
                        'glibc strtod is the reference for the value of fractional/exponent literals (C04 decides rounding)',
                        'texts containing an escape that denotes an unpaired surrogate, and comments after the top-level value when allow_comments is on, are not compared (declared dont-care)']
    return rep.finish(dict(harness='c02'))


def replay(path):
    d = json.load(open(path))
    binary = vf.build('c02', ['c02.cpp'])
    recs = vf.run_one(binary, d['case'])
    bad = [r for r in recs if r.get('k') != 'stat']
    for r in bad:
        print(json.dumps({k: v for k, v in r.items() if k != 'case'}))
    print('text=%r' % text_of(d['case']))
    if bad:
        print('VIOLATION property=%s replay=%s' % (PROP, path))
        return 1
    print('no mismatch on this tree')
    return 0
