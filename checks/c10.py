"""C10 - Resource limits hold against hostile input.
Spec: Limits (accept <=> depth <= max_nesting_depth for every container-opening path of every
format, decoders and encoders; UBJSON max_items; claimed-length headers and the memory bound).
Binding: G for the verdicts (TLC enumerates format x path x limit x depth around the limit,
max_items x announced count, claim headers x payload); the harness additionally measures the
memory requested while a claimed length is being refused (allocation meter) and runs
copy/compare/dump/destroy of deeply nested values on a 1 MiB thread stack."""
import json, os
import vf

PROP = 'C10'
CFG = {'quick': 'gen/MC_C10_q.cfg', 'thorough': 'gen/MC_C10_t.cfg'}


def sig(r):
    c = r['case'] if isinstance(r.get('case'), dict) else {}
    s = {k: c.get(k) for k in ('k', 'f', 'path', 'kind', 'name', 'sib', 'limit', 'depth', 'maxitems', 'count', 'op') if k in c}
    if 'what' in r:
        s['what'] = r['what']
    return s


def setup():
    vf.build('c10', ['c10.cpp'])
    vf.tlc_gen('gen/MC_C10', CFG['quick'], timeout=600)


def run(tier):
    rep = vf.Report(PROP, tier)
    binary = vf.build('c10', ['c10.cpp'])
    g = vf.tlc_gen('gen/MC_C10', CFG[tier], timeout=1200)
    totals = vf.g_replay(rep, binary, [g], sig)
    cov = rep.coverage
    cov['traces_validated_against_impl'] = totals.get('cases', 0)
    cov['evaluations'] = totals.get('checks', 0)
    cov['distinct_nontrivial'] = totals.get('cases', 0)
    cov['exhaustive'] = True
    cov['rule'] = ('decoders: 20 container-opening paths (JSON [ {; CBOR definite/indefinite/1-byte-length/tagged arrays and maps; MessagePack fix/16/32 '
                   'arrays and maps; UBJSON plain/counted arrays and objects; BSON documents/arrays) x max_nesting_depth in Limits_ x depth in '
                   '{limit-1..limit+2}, each through decode_X<json>, a pull cursor walked to the end and a stream reader; encoders: 5 formats x declared/undeclared arrays/objects x the same grid, fed event by event and as a json value through dump / dump_pretty / encode_X (refusal must carry the nesting error), and after 1 / 3 / 12 closed sibling containers (the verdict depends on the deepest nest only); UBJSON max_items {0,1,2,5} x announced '
                   'counts; 23 claimed-length headers x payloads with the allocation peak compared with 64*supplied+256KiB, decoded to json from bytes and from a stream and straight into vector<int64> / vector<string> / map<string,int> / vector<vector<double>>; deep values: copy, compare, '
                   'dump, destroy, parse+destroy at depth 1024 and destroy at depth 10^6 / 2*10^5 (objects, alternating object/array, json and ojson) on a 1 MiB stack; '
                   'sibling family: 18 kinds of completed containers (incl. CBOR typed and multi-dimensional arrays) x 1/3/8 repetitions before a nest at the limit / one beyond')
    cov['bounds'] = open(os.path.join(vf.SPEC, CFG[tier])).read().split('CONSTANTS')[1].split()
    cov['samples'] = vf.sample_lines(g[0], 3)
    rep.assumptions += ['stack depth and heap peak are measured by the harness (sensors); the memory bound constants are deliberately loose',
                        'MessagePack encoders require declared container lengths, so undeclared containers are not pushed into them',
                        'CSV and TOON have no nesting option and are outside C10']
    return rep.finish(dict(harness='c10'))


def replay(path):
    d = json.load(open(path))
    binary = vf.build('c10', ['c10.cpp'])
    recs = vf.run_one(binary, d['case'], timeout=300)
    bad = [r for r in recs if r.get('k') != 'stat']
    for r in bad:
        print(json.dumps({k: v for k, v in r.items() if k != 'case'}))
    print('case=%s' % json.dumps(d['case'])[:600])
    if bad:
        print('VIOLATION property=%s replay=%s' % (PROP, path))
        return 1
    print('no mismatch on this tree')
    return 0
