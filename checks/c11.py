"""C11 - JSON Schema validation verdicts are correct.
Spec: JsonSchema (validator for the unambiguous core vocabulary of Drafts 4, 6, 7, 2019-09, 2020-12 written from the
specifications: assertions, applicators, $ref/$defs/definitions/$anchor, if/then/else, dependent*, unevaluated* with
annotation collection).  TLC enumerates schemas per dialect (grammar plans of AddKeyword / Nest / AddDef+Ref steps,
spec/gen/MC_C11.tla), evaluates every instance of a base universe and the instances steered from the schema's own
constants, checks the algebraic identities of the in-place applicators as invariants, and emits the predicted verdicts.
Binding: G - harness/c11.cpp compiles every schema (json, ojson; member order reversed / alternating; dialect through
default_version and through "$schema"; verdict-neutral evaluation options) and compares is_valid, validate (collecting,
throwing, aborting, patch and visitor reporters), reuse of the compiled schema and walk with the prediction.
Spec validation (infrastructure, never a verdict on jsoncons): agreement of the spec with python-jsonschema on the whole
generated space is established at development time (`python3 checks/c11.py refcheck [tier]`, summary committed under
spec/validation/C11_agreement_<tier>.json, verified here by the hash of the case files) and with the JSON-Schema-Test-Suite
(spec/gen/MC_C11valid); at check time python-jsonschema gives a second opinion on a seeded sample when it is installed."""
import json, os, sys, subprocess, hashlib, shutil, decimal
if __name__ == '__main__':
    sys.path.insert(0, os.path.join(os.path.dirname(os.path.abspath(__file__)), '..', 'lib'))
import vf
try:
    from checks import c11_uri
except ImportError:      # run as a script (python3 checks/c11.py refcheck ...)
    import c11_uri

PROP = 'C11'
QUICK = ['gen/MC_C11atoms_q.cfg', 'gen/MC_C11scope_q.cfg', 'gen/MC_C11uneval_q.cfg', 'gen/MC_C11refs_q.cfg', 'gen/MC_C11nest1_q.cfg', 'gen/MC_C11pairs_q.cfg',
         'gen/MC_C11frac_q.cfg', 'gen/MC_C11fracnest_q.cfg', 'gen/MC_C11pat_q.cfg', 'gen/MC_C11patnest_q.cfg']
CFG = {'quick': QUICK,
       'thorough': QUICK + ['gen/MC_C11pairs_t.cfg', 'gen/MC_C11uneval2_t.cfg', 'gen/MC_C11uneval3_t.cfg', 'gen/MC_C11sib_t.cfg', 'gen/MC_C11triples_t.cfg',
                            'gen/MC_C11nest2_t.cfg', 'gen/MC_C11refs2_t.cfg', 'gen/MC_C11fracsib3_t.cfg', 'gen/MC_C11fracfull_t.cfg', 'gen/MC_C11fracnest2_t.cfg',
                            'gen/MC_C11pat2_t.cfg', 'gen/MC_C11patnestfull_t.cfg']}
IDENT_CFG = 'gen/MC_C11ident.cfg'      # model-internal identities, no emission
BASE_CFG = 'gen/MC_C11base.cfg'
VALID_CFG = 'gen/MC_C11valid.cfg'
REFCHECK = os.path.join(vf.SPEC, 'validation', 'c11_refcheck.py')
PYVT = shutil.which('python3-vt')


def unwire(w):
    k = w[0]
    if k == 'null':
        return None
    if k in ('bool', 'int'):
        return w[1]
    if k == 'dec':
        return float('%de%d' % (w[1], w[2]))
    if k == 'str':
        return ''.join(chr(c) for c in w[1])
    if k == 'arr':
        return [unwire(x) for x in w[1]]
    if k == 'obj':
        return {''.join(chr(c) for c in kv[0]): unwire(kv[1]) for kv in w[1]}
    return w


def sig(r):
    c = r.get('case') or {}
    if not isinstance(c, dict):
        return {'what': r.get('what', 'crash'), 'case': str(c)[:200]}
    dev = r['dev'] if isinstance(r.get('dev'), str) else ','.join(sorted(c.get('dev') or []))     # the harness narrows the classes to those the instance can trigger
    what = r.get('what', 'crash' if r.get('crash') else '?')
    if dev:
        return {'dev': dev, 'what': what}
    s = {'dev': '', 'what': what, 'dialect': c.get('d'), 'schema': json.dumps(unwire(c.get('s')), sort_keys=True)}
    if 'inst' in r:
        s['instance'] = json.dumps(unwire(r['inst']), sort_keys=True)
    if 'variant' in r:
        s['variant'] = r['variant']
    return s


def gens(tier):
    return [vf.tlc_gen('gen/MC_C11', c, timeout=3000) for c in CFG[tier]]


def base_file():
    return vf.tlc_gen('gen/MC_C11', BASE_CFG, timeout=600)[0]


def space_hash(paths):
    h = hashlib.sha256()
    for p in paths:
        hf = hashlib.sha256()
        with open(p, 'rb') as fh:
            for blk in iter(lambda: fh.read(1 << 20), b''):
                hf.update(blk)
        h.update(hf.digest())
    return h.hexdigest()


def agreement_path(tier):
    return os.path.join(vf.SPEC, 'validation', 'C11_agreement_%s.json' % tier)


def refcheck(tier, sample=0, seed=0, out=None):
    """run the python-jsonschema cross-check (development-time gate / seeded second opinion)"""
    if not PYVT:
        return None
    g = gens(tier)
    cmd = [PYVT, REFCHECK, '--base', base_file()]
    if sample:
        cmd += ['--sample', str(sample), '--seed', str(seed)]
    if out:
        cmd += ['--out', out]
    cmd += [p for p, _ in g]
    p = subprocess.run(cmd, stdout=subprocess.PIPE, stderr=subprocess.DEVNULL, text=True, timeout=7200)
    try:
        return json.loads(p.stdout)
    except ValueError:
        raise vf.InfraError('c11_refcheck.py failed: %s' % p.stdout[-2000:])


def validate_spec(rep):
    """(a) the spec reproduces the JSON-Schema-Test-Suite verdicts for the covered vocabulary, (b) the algebraic identities
    of the in-place applicators hold in the model (TLC, no emission; cached by the hash of the modules involved)"""
    try:
        _, r = vf.tlc_gen('gen/MC_C11valid', VALID_CFG, timeout=1500)
    except vf.InfraError as e:
        raise vf.InfraError('spec validation against the JSON-Schema-Test-Suite failed:\n%s' % str(e)[-3000:])
    rep.add_tlc(r)
    rep.notes.append('spec validation: JsonSchema.tla reproduces the JSON-Schema-Test-Suite corpus (MC_C11valid, %d test groups)' % max(0, r['distinct'] - 1))
    try:
        _, r = vf.tlc_gen('gen/MC_C11', IDENT_CFG, timeout=1500)
    except vf.InfraError as e:
        raise vf.InfraError('model-internal identities of JsonSchema.tla violated (MC_C11ident):\n%s' % str(e)[-3000:])
    rep.add_tlc(r)
    rep.notes.append('model-internal identities (not not s, allOf/anyOf/oneOf[s], if s then true else false, reference transparency) hold on %d schemas' % r['distinct'])


def setup():
    vf.build('c11', ['c11.cpp'])
    base_file()
    gens('quick')
    vf.tlc_gen('gen/MC_C11valid', VALID_CFG, timeout=1500)
    vf.tlc_gen('gen/MC_C11', IDENT_CFG, timeout=1500)
    c11_uri.setup()


def run(tier):
    rep = vf.Report(PROP, tier)
    binary = vf.build('c11', ['c11.cpp'])
    base = base_file()
    g = gens(tier)
    validate_spec(rep)
    # development-time gate: the committed agreement summary must describe exactly this generated space
    h = space_hash([p for p, _ in g])
    ap = agreement_path(tier)
    if not os.path.exists(ap):
        raise vf.InfraError('no committed python-jsonschema agreement summary for tier %s (run: python3 checks/c11.py refcheck %s)' % (tier, tier))
    ag = json.load(open(ap))
    if ag.get('space_sha256') != h or ag.get('disagreements') != 0 or ag.get('meta_schema_failures') != 0:
        raise vf.InfraError('the committed python-jsonschema agreement summary %s does not cover the generated space (hash %s) - '
                            're-run: python3 checks/c11.py refcheck %s' % (ap, h[:16], tier))
    rep.notes.append('oracle admitted: %s agrees with JsonSchema.tla on all %d evaluations of this space (%s)' % (ag['reference'], ag['evaluations'], os.path.basename(ap)))
    # seeded second opinion at check time (skipped when the tooling venv is absent)
    try:
        so = refcheck(tier, sample=3000, seed=rep.seed)
    except Exception as e:      # never a verdict on jsoncons
        so = None
        rep.notes.append('second opinion not available: %s' % str(e)[:200])
    if so is not None:
        rep.notes.append('second opinion (python-jsonschema, %d sampled cases, %d evaluations): %d disagreements' % (so['cases'], so['evaluations'], so['disagreements']))
        if so['disagreements'] or so['meta_schema_failures']:
            raise vf.InfraError('specification and reference validator disagree on sampled cases: %s' % json.dumps(so['examples'][:3])[:1500])
    totals = vf.g_replay(rep, binary, g, sig, args=['--base', base], max_repro=60)
    # reference-resolution family (spec/Uri.tla): base URI x nested "$id" x reference, JSON Pointer fragments
    uri_totals = {}
    c11_uri.run_family(rep, tier, uri_totals)
    cov = rep.coverage
    cov['uri_evaluations'] = uri_totals.get('checks', 0)
    cov['traces_validated_against_impl'] = totals.get('cases', 0)
    cov['evaluations'] = totals.get('checks', 0)
    cov['distinct_nontrivial'] = totals.get('instances', 0)     # distinct (dialect, schema, instance) triples executed against the library
    cov['exhaustive'] = True
    cov['rule'] = ('per dialect (Drafts 4, 6, 7, 2019-09, 2020-12): every schema produced by the grammar plans of spec/gen/MC_C11.tla '
                   '(atoms: one keyword from the full alphabet; nest1: one keyword then one Nest through every in-place / child / reference wrapper; '
                   'pairs: two sibling keywords; uneval: annotation-producing keyword, in-place wrapper, unevaluated* keyword; refs: definitions, references, '
                   'anchors, recursion; frac / fracnest: a numeric keyword, enum or const with a non-integral constant (x.5, x.25, x.75, 1.1, 0.33, 0.1, 0.01) or an '
                   'integer-valued decimal (1.0, 2.0), then a numeric / type sibling or one Nest through every wrapper; pat / patnest: "patternProperties" over the '
                   'literal pattern vocabulary [^]letters[$] ("^a" prefix, "b$" suffix, "^a$" equality, "a" occurrence, "" every name, two-letter literals; one and two '
                   'patterns; subschemas that assert on the value and subschemas that evaluate members INSIDE the value: properties / additionalProperties / nested '
                   'patternProperties / unevaluatedProperties), bare and behind allOf / anyOf / not / if / $ref, then a sibling properties / additionalProperties / '
                   'unevaluatedProperties / required / propertyNames; a core keyword as the subschema of a pattern (9 wrapper shapes incl. beside properties, '
                   'additionalProperties, unevaluatedProperties); patternProperties is also a member of the full alphabet (atoms, nest1), of the annotation '
                   'alphabets of uneval / scope and a child wrapper of every Nest; thorough adds triples, two Nest levels, '
                   'siblings after Nest, doubly nested unevaluated*, references under nesting, fractional keyword x full alphabet / two siblings / two Nest levels, '
                   'pattern keyword + sibling inside every in-place wrapper below unevaluated*, full alphabet below a pattern) x '
                   'every instance of the base universe (incl. 1.0, 1.5, [1, 1.0], {"a": 1.0}) and the instances steered from the constants of the schema '
                   '(numeric bound c: floor(c)-1, floor(c), ceil(c), ceil(c)+1, floor / ceil as x.0 decimals, c, c-0.5, c+0.5, c-+0.25 and the other spelling '
                   'of a decimal c; divisor b: b, 2b, 3b, -b, b/2, 3b/2, b+0.5, b+1, 0, 0.0; enum/const values in both numeric spellings (1 / 1.0, 2.5 / 2.50); '
                   'arrays mixing spellings for uniqueItems; 0.0, -1.0, 2.0 for a numeric type; sizes c-1, c, c+1; '
                   'required members present/absent; for every pattern its literal alone and with a letter before / after / around it as member names; in the pattern '
                   'plans 29 objects whose names match 0 / 1 / 2 patterns or whose nested object repeats a member name of the enclosing object; '
                   'one level down through every applicator) x 6 presentations (json, ojson, member order reversed / '
                   'alternating, "$schema" vs default_version, verdict-neutral options) x entry points; one case = one (dialect, schema); '
                   'distinct_nontrivial counts the distinct (dialect, schema, instance) triples with a defined verdict that were executed, evaluations '
                   'counts the individual library calls compared; plus the reference-resolution family (spec/Uri.tla, RFC 3986 section 5.2): 14 base URIs x '
                   'nested relative "$id" x references built from dot / dot-dot / empty / ordinary segments (relative-path, absolute-path, network-path, absolute), '
                   'query, empty fragment, with the identifier addressed and near-miss identifiers, and JSON Pointer fragments whose tokens need ~ escapes and '
                   'percent-encoding (28 member names x encodings), in all five dialects, json and ojson (coverage.uri_cases / uri_evaluations)')
    cov['bounds'] = {c: open(os.path.join(vf.SPEC, c)).read().split('CONSTANTS')[1].split() for c in CFG[tier]}
    cov['samples'] = vf.sample_lines(g[0][0], 2) + vf.sample_lines(g[1][0], 1)
    cov['dont_care_cases'] = totals.get('dontcare', 0)
    cov['dont_care_multipleOf_floating_point_instances'] = totals.get('fp_dontcare_instances', 0)
    rep.assumptions += ['numbers are small integers and decimals with one or two fraction digits, handed to the library as int64 and as the nearest double; '
                        '(instance, divisor) pairs of multipleOf that are not both multiples of 1/4 (result depends on binary floating-point rounding) are run but '
                        'their verdict is not compared; strings are code-point sequences; "pattern", patternProperties patterns other than [^]lower-case-letters[$], format, content*, remote references, '
                        '$dynamicRef/$recursiveRef are outside the modelled vocabulary; a base-URI changing $id is exercised by the reference-resolution family only',
                        '(schema, instance) pairs whose evaluation would not terminate (reference cycles without instance descent) are never run',
                        'Draft 2019-09 schemas that combine "contains" and "unevaluatedItems" are a declared dont-care class (the specification text and the reference validator disagree)']
    return rep.finish(dict(harness='c11', base=base))


def replay(path):
    d = json.load(open(path))
    if c11_uri.is_uri_case(d.get('case')):
        return c11_uri.replay(path, d['case'], PROP)
    binary = vf.build('c11', ['c11.cpp'])
    recs = vf.run_one(binary, d['case'], args=['--base', base_file()])
    bad = [r for r in recs if r.get('k') != 'stat']
    for r in bad:
        print(json.dumps({k: v for k, v in r.items() if k != 'case'}))
    c = d['case']
    print('dialect=%s schema=%s' % (c.get('d'), json.dumps(unwire(c.get('s')))))
    if bad:
        print('VIOLATION property=%s replay=%s' % (PROP, path))
        return 1
    print('no mismatch on this tree')
    return 0


# ------------------------------------------------------------------------------------------------
# JSON-Schema-Test-Suite -> spec/gen/MC_C11corpus.tla (spec validation data; run at development time)

SUITE = '/repo/test/jsonschema/JSON-Schema-Test-Suite/tests'
DRAFTS = {'draft4': 'd4', 'draft6': 'd6', 'draft7': 'd7', 'draft2019-09': 'd2019', 'draft2020-12': 'd2020'}
UNSUPPORTED = {'pattern', 'format', '$recursiveRef', '$recursiveAnchor', '$dynamicRef', '$dynamicAnchor',
               '$vocabulary', 'contentEncoding', 'contentMediaType', 'contentSchema', '$schema', 'extends', 'disallow', 'divisibleBy',
               'propertyDependencies'}
SKIP_FILES = {'format.json', 'pattern.json', 'refRemote.json', 'id.json', 'vocabulary.json', 'dynamicRef.json',
              'recursiveRef.json', 'content.json', 'unknownKeyword.json', 'infinite-loop-detection.json', 'default.json'}


# the pattern vocabulary of spec/JsonSchema.tla (section "Patterns"): [ "^" ] lower-case letters [ "$" ]
import re as _re
LITERAL_PATTERN = _re.compile(r'\A\^?[a-z]*\$?\Z')


class Skip(Exception):
    pass


def tla_cps(s):
    return '<<' + ','.join(str(ord(c)) for c in s) + '>>'


def tla_val(v, schema_pos=False):
    if v is None:
        return 'JNull'
    if isinstance(v, bool):
        return 'JBool(%s)' % ('TRUE' if v else 'FALSE')
    if isinstance(v, int):
        if abs(v) > 1000000:
            raise Skip('big integer')
        return 'JInt(%d)' % v if v >= 0 else 'JInt(0 - %d)' % -v
    if isinstance(v, decimal.Decimal):      # a number written with a fraction or exponent part: <<"dec", m, e>>, e in {-1, -2}
        sign, digits, exp = v.as_tuple()
        if not isinstance(exp, int) or exp > 3 or abs(v) > 10000:
            raise Skip('float out of range')
        q = v.quantize(decimal.Decimal('0.01')) if exp < -1 else v.quantize(decimal.Decimal('0.1'))
        if q != v:
            raise Skip('float with more than two fraction digits')
        e = -2 if exp < -1 else -1
        m = int(q.scaleb(-e))
        return '<<"dec", %s, 0 - %d>>' % ('%d' % m if m >= 0 else '0 - %d' % -m, -e)
    if isinstance(v, str):
        return 'JStr(%s)' % tla_cps(v)
    if isinstance(v, list):
        return 'JArr(<<' + ', '.join(tla_val(x) for x in v) + '>>)'
    if isinstance(v, dict):
        if not v:
            return 'EmptyObj'
        return 'JObj(' + ' @@ '.join('(%s :> %s)' % (tla_cps(k), tla_val(x)) for k, x in v.items()) + ')'
    raise Skip(str(type(v)))


def check_supported(s, d, top=True):
    """raise Skip when the schema uses vocabulary outside the model"""
    if isinstance(s, list):
        for x in s:
            check_supported(x, d, False)
        return
    if not isinstance(s, dict):
        return
    for k, v in s.items():
        if k in UNSUPPORTED:
            raise Skip('keyword ' + k)
        if k in ('$id', 'id') and isinstance(v, str) and not v.startswith('#'):
            raise Skip('base URI change')
        if k == '$ref' and isinstance(v, str) and (not v.startswith('#') or '%' in v):
            raise Skip('non-local or percent-encoded reference')
        if k == 'patternProperties' and isinstance(v, dict):
            for pat in v:
                if not LITERAL_PATTERN.match(pat):
                    raise Skip('patternProperties pattern outside the literal vocabulary')
        if k == 'dependencies' and d in ('d2019', 'd2020'):
            raise Skip('dependencies in 2019-09+')
        if k == 'definitions' and d in ('d2019', 'd2020'):
            raise Skip('definitions in 2019-09+')
        if k in ('enum', 'const', 'default', 'examples'):
            continue
        check_supported(v, d, False)


def mkcorpus(out=None):
    out = out or os.path.join(vf.SPEC, 'gen', 'MC_C11corpus.tla')
    entries, skipped, ntests = [], {}, 0
    for draft, d in DRAFTS.items():
        ddir = os.path.join(SUITE, draft)
        # (Draft 4 also: the optional file that pins C d4 3.5 "integer: JSON number without a fraction or exponent part" - 1.0 is not an integer)
        for fn in sorted(os.listdir(ddir)) + (['optional/zeroTerminatedFloats.json'] if draft == 'draft4' else []):
            if not fn.endswith('.json') or fn in SKIP_FILES:
                continue
            txt = open(os.path.join(ddir, fn)).read()
            try:
                groups = json.loads(txt, parse_float=decimal.Decimal)
            except ValueError:      # the copy shipped in /repo has tests commented out with /* ... */
                import re
                groups = json.loads(re.sub(r',(\s*[\]}])', r'\1', re.sub(r'/\*.*?\*/', '', txt, flags=re.S)), parse_float=decimal.Decimal)
            for gi, g in enumerate(groups):
                try:
                    schema = g['schema']
                    if isinstance(schema, dict) and '$schema' in schema:      # the dialect is an input of Valid
                        want = {'d2019': 'https://json-schema.org/draft/2019-09/schema', 'd2020': 'https://json-schema.org/draft/2020-12/schema'}.get(d)
                        if schema['$schema'] != want:
                            raise Skip('foreign $schema')
                        schema = {k: v for k, v in schema.items() if k != '$schema'}
                    check_supported(schema, d)
                    sch = tla_val(schema)
                    tests = []
                    for t in g['tests']:
                        try:
                            tests.append('<<%s, %s>>' % (tla_val(t['data']), 'TRUE' if t['valid'] else 'FALSE'))
                        except Skip as e:
                            skipped[str(e)] = skipped.get(str(e), 0) + 1
                    if tests:
                        entries.append('[f |-> "%s/%s#%d", d |-> "%s", s |-> %s,\n   t |-> <<%s>>]' % (draft, fn, gi, d, sch, ', '.join(tests)))
                        ntests += len(tests)
                except Skip as e:
                    skipped[str(e)] = skipped.get(str(e), 0) + len(g['tests'])
    with open(out, 'w') as fh:
        fh.write('---------------------------- MODULE MC_C11corpus ----------------------------\n')
        fh.write('(* GENERATED by `python3 checks/c11.py mkcorpus` from the JSON-Schema-Test-Suite files shipped under     *)\n')
        fh.write('(* /repo/test/jsonschema/JSON-Schema-Test-Suite/tests (reference data): every test group of Drafts 4, 6, 7,  *)\n')
        fh.write('(* 2019-09, 2020-12 whose schema stays inside the modelled vocabulary.  %d groups, %d tests.                *)\n' % (len(entries), ntests))
        fh.write('(* Not representable / outside the model (tests skipped): %s *)\n' % json.dumps(skipped, sort_keys=True))
        fh.write('EXTENDS JsonValue, TLC\n')
        fh.write('Corpus == <<\n' + ',\n'.join(entries) + '\n>>\n')
        fh.write('=============================================================================\n')
    print('%d groups, %d tests -> %s; skipped: %s' % (len(entries), ntests, out, json.dumps(skipped, sort_keys=True)))


if __name__ == '__main__':
    os.chdir(vf.VERIF)
    if len(sys.argv) >= 2 and sys.argv[1] == 'mkcorpus':
        mkcorpus()
        sys.exit(0)
    if len(sys.argv) >= 2 and sys.argv[1] == 'refcheck':
        tier = sys.argv[2] if len(sys.argv) > 2 else 'quick'
        s = refcheck(tier, out=agreement_path(tier))
        print(json.dumps({k: v for k, v in s.items() if k not in ('files',)}, indent=1)[:4000])
        sys.exit(0 if s['disagreements'] == 0 and s['meta_schema_failures'] == 0 else 1)
    print('usage: checks/c11.py refcheck [quick|thorough]')
