"""C08 - Encoders emit only well-formed output; transcoding stays valid.
Spec: Events (visitor event grammar as a PDA + the value of a sequence), the format reference
decoders, JsonText.  Binding: V - TLC enumerates every grammatically well-formed complete event
sequence (declared lengths right, wrong, absent) up to MaxEv events; the harness pushes each into
the real encoders and records output-or-error; Trace_C08 accepts a run only if the encoder
reported an error or the INDEPENDENT decoder reads the output completely to exactly the pushed
value (JSON: strict RFC 8259 recogniser + documented image).  Transcoding: every input accepted in
the C07 byte-level space is decoded and re-written as JSON text (compact and pretty), which must
be valid RFC 8259 text."""
import json, os
import vf

PROP = 'C08'
CFG = {'quick': 'gen/MC_C08_q.cfg', 'thorough': 'gen/MC_C08_t.cfg'}
ENCODERS = ['cbor', 'msgpack', 'ubjson', 'bson', 'json', 'jsonpretty']          # encoders whose output Trace_C08 can judge
TRANS = {'quick': ['gen/MC_C07cbor_q.cfg', 'gen/MC_C07msgpack_q.cfg', 'gen/MC_C07ubjson_q4.cfg', 'gen/MC_C07bson_tok_q.cfg'],
         'thorough': ['gen/MC_C07cbor_q.cfg', 'gen/MC_C07cbor_q4.cfg', 'gen/MC_C07cbor_tok_q.cfg', 'gen/MC_C07msgpack_q.cfg', 'gen/MC_C07msgpack_tok_q.cfg',
                      'gen/MC_C07ubjson_q4.cfg', 'gen/MC_C07ubjson_tok_q.cfg', 'gen/MC_C07bson_tok_q.cfg', 'gen/MC_C07bson_rep.cfg']}


def setup():
    vf.build('c08', ['c08.cpp'])
    vf.tlc_gen('gen/MC_C08', CFG['quick'], timeout=900)
    vf.build('c08tags', ['c08tags.cpp'])
    vf.tlc_gen('gen/MC_C08tags', TAGS['quick'], timeout=600)      # (same arguments as tags_family: the cache key includes them)
    vf.tlc_gen('gen/MC_C08xc', 'gen/MC_C08xc_q.cfg', timeout=2400)
    for c in TRANS['quick']:
        vf.tlc_gen('gen/MC_C07', c, timeout=2400)


# ---------------------------------------------------------------- "tagged events" family (spec/gen/MC_C08tags.tla, spec/trace/Trace_C08tags.tla, notes/C08tags.md)
TAGS = {'quick': 'gen/MC_C08tags_q.cfg', 'thorough': 'gen/MC_C08tags_t.cfg'}
TAGS_DROP = ('k', 'idx', 'err', 'ev')            # not read by the trace spec (ev: the value v is what the events denote)
TAGS_ENCODERS = ['json', 'jsonpretty', 'cbor', 'cborpacked', 'cborta', 'msgpack', 'ubjson', 'bson']


def tags_render(x):
    """short human rendering of a pushed value: bigint<"12">, epoch_second<-1>, h'0102', ext7<h'01'>, u8[01,02], md-row[1,2]<..>"""
    k = x[0]
    if k == 'tagged':
        return '%s<%s>' % (x[1], tags_render(x[2]))
    if k == 'tstr':
        return json.dumps(bytes(x[1]).decode('utf8', 'replace'))
    if k == 'bstr':
        return "h'%s'" % bytes(x[1]).hex()
    if k == 'uint':
        return str(int.from_bytes(bytes(x[1]), 'big'))
    if k == 'nint':
        return str(-1 - int.from_bytes(bytes(x[1]), 'big'))
    if k in ('f64', 'f32', 'f16'):
        return '%s:%s' % (k, bytes(x[1]).hex())
    if k == 'ext':
        return "ext%d<h'%s'>" % (int.from_bytes(bytes(x[1]), 'big'), bytes(x[2]).hex())
    if k == 'ta':
        return '%s[%s]' % (x[1], ','.join(bytes(e).hex() for e in x[2]))
    if k == 'md':
        return 'md-%s%s<%s>' % (x[1], json.dumps(x[2]).replace(' ', ''), tags_render(x[3]))
    if k == 'arr':
        return '[' + ','.join(tags_render(y) for y in x[1]) + ']'
    if k == 'map':
        return '{' + ','.join(tags_render(a) + ':' + tags_render(b) for a, b in x[1]) + '}'
    return json.dumps(x)


def tags_render_ev(ev):
    out = []
    for e in ev:
        if e[0] in ('ba', 'bo'):
            out.append('%s(%s)' % ('begin_array' if e[0] == 'ba' else 'begin_object', '' if e[1] < 0 else e[1]))
        elif e[0] == 'key':
            out.append('key(%s)' % json.dumps(bytes(e[1]).decode('utf8', 'replace')))
        elif e[0] == 'bmd':
            out.append('begin_multi_dim(%s,%s)' % (json.dumps(e[2]).replace(' ', ''), e[1]))
        elif e[0] == 'val':
            out.append(tags_render(e[1]))
        else:
            out.append({'ea': 'end_array', 'eo': 'end_object', 'emd': 'end_multi_dim'}.get(e[0], e[0]))
    return ' '.join(out)


def tags_sig(r):
    return {'family': 'tags', 'encoder': r['enc'], 'input': tags_render_ev(r['ev'])[:300], 'dev': ','.join(sorted(r.get('dev') or []))}


def tags_case(r):
    return {'fam': 'tags', 'enc': r['enc'], 'ev': r['ev'], 'v': r['v'], 'right': r['right'], 'dev': r.get('dev') or []}


def tags_lines(tr):
    return [json.dumps({k: v for k, v in r.items() if k not in TAGS_DROP}) for r in tr]


def tags_validate_all(lines, timeout=900):
    """Trace_C08tags in report-all mode (Trace_C08tags_all.cfg): every refused line is printed by the trace spec itself and validation goes on,
    so the refused lines of the known-deviation classes cost one TLC pass.  Lines are dealt round-robin to the shards.
    Returns (validated, rejected indices, states)."""
    from concurrent.futures import ThreadPoolExecutor
    if not lines:
        return 0, [], 0
    n = max(1, min(vf.NCPU, (len(lines) + 199) // 200))
    d = vf.ensure(os.path.join(vf.WORK, 'run'))

    def shard(i):
        idxs = list(range(i, len(lines), n))
        base = os.path.join(d, 'c08tagtrace-%d-%d-%d' % (os.getpid(), i, len(lines)))
        with open(base + '.ndjson', 'w') as fh:
            fh.write('\n'.join(lines[j] for j in idxs) + '\n')
        try:
            r = vf.tlc('trace/Trace_C08tags', 'trace/Trace_C08tags_all.cfg', workers=1, env={'TRACE': base + '.ndjson'}, out_cases=base + '.rej',
                       xmx='3g', deque=True, timeout=timeout)
            m = vf.DEPTH_RE.search(r['tail'])
            if r['rc'] != 0 or not m or int(m.group(1)) != len(idxs) + 1:
                raise vf.InfraError('trace validation failed to run (Trace_C08tags):\n%s' % r['tail'][-3000:])
            rej = sorted({idxs[json.loads(x)['rej'] - 1] for x in open(base + '.rej') if x.strip()})
            return rej, r['distinct']
        finally:
            for ext in ('.ndjson', '.rej'):
                if os.path.exists(base + ext):
                    os.unlink(base + ext)
    with ThreadPoolExecutor(max_workers=n) as ex:
        res = list(ex.map(shard, range(n)))
    rejected = sorted(j for rej, _ in res for j in rej)
    return len(lines) - len(rejected), rejected, sum(st for _, st in res)


def tags_family(rep, tier):
    """tagged scalar events (every semantic tag on every scalar kind, sensible or not), half_value, byte strings with raw (ext) tags, typed arrays
    of 11 element types, begin_multi_dim / end_multi_dim - alone, in arrays of declared (right / wrong) and undeclared length, as member values -
    pushed into 8 encoder configurations (harness/c08tags.cpp); every recorded (sequence, encoder, output-or-error) judged by Trace_C08tags"""
    binary = vf.build('c08tags', ['c08tags.cpp'])
    g = vf.tlc_gen('gen/MC_C08tags', TAGS[tier], timeout=600)
    rep.add_tlc(g[1])
    recs = vf.run_shards(binary, g[0])
    tr = sorted([r for r in recs if r.get('k') == 'trace'], key=lambda r: (r['enc'], r['idx']))

    def csig(r):
        c = r.get('case') if isinstance(r.get('case'), dict) else {}
        return {'what': 'crash', 'family': 'tags', 'input': tags_render_ev(c['ev'])[:300] if 'ev' in c else json.dumps(c)[:200], 'dev': ','.join(sorted(c.get('dev') or []))}
    vf.g_triage(rep, binary, [r for r in recs if r.get('k') != 'trace'], csig)
    lines = tags_lines(tr)
    validated, rejected, states = tags_validate_all(lines)
    rep.coverage['states'] += states
    rep.coverage['transitions'] += states
    for i in rejected:
        r = tr[i]
        rep.violation(tags_sig(r), tags_case(r), {'out': r['out'], 'err': r.get('err'), 'bytes': bytes(r['bytes'][:80]).hex(),
                                                  'text': bytes(r['bytes'][:80]).decode('utf8', 'replace') if r['enc'].startswith('json') else None})
    cov = rep.coverage
    cov['traces_validated_against_impl'] += validated
    cov['evaluations'] += len(lines)
    cov['tags_family'] = {'cases': g[1]['cases'], 'trace_lines': len(lines), 'accepted': validated, 'refused': len(rejected),
                          'refused_in_known_deviation_classes': sum(1 for i in rejected if tr[i].get('dev')),
                          'runs_with_output': sum(1 for r in tr if r['out'] == 'ok'), 'runs_refused': sum(1 for r in tr if r['out'] == 'err'),
                          'runs_foreign_exception': sum(1 for r in tr if r['out'] == 'foreign'), 'encoders': TAGS_ENCODERS,
                          'bounds': open(os.path.join(vf.SPEC, TAGS[tier])).read().split('CONSTANTS')[1].split()}
    cov['rule'] += ('; tagged-events family (spec/gen/MC_C08tags.tla): items = string / byte string / uint64 / int64 / double / half events carrying each of bigint, bigdec, '
                    'bigfloat, datetime, epoch_second/milli/nano, uri, base16, base64, base64url (contents that keep the tag\'s promise and contents that break it), '
                    'byte strings with raw (ext) tags 0..2^32, untagged NaN / infinities / -0 / 2^64-1, typed arrays of 11 element types x 0-3 elements, '
                    'begin_multi_dim / end_multi_dim (row / column major, typed and classical storage); each item alone at the root, in arrays of undeclared / right / '
                    'too small / too large declared length, as object member value (same four lengths), before / after another item, twice, nested; pairs sharing one '
                    'string under different tags; every sequence checked against the Events pushdown automaton (extended by the multi_dim frame); x encoders json, '
                    'jsonpretty, cbor, cbor+pack_strings, cbor+use_typed_arrays, msgpack, ubjson, bson; one trace line per (sequence, encoder)')
    return validated, len(lines)


def run(tier):
    rep = vf.Report(PROP, tier)
    binary = vf.build('c08', ['c08.cpp'])
    g = vf.tlc_gen('gen/MC_C08', CFG[tier], timeout=2400)
    rep.add_tlc(g[1])
    recs = []
    for e in ENCODERS:
        recs += vf.run_shards(binary, g[0], args=['--encoder', e] + (['--extra-every', '8'] if tier == 'thorough' else []))
    for c in TRANS[tier]:
        gt = vf.tlc_gen('gen/MC_C07', c, timeout=2400)
        rep.add_tlc(gt[1])
        recs += vf.run_shards(binary, gt[0])
    gx = vf.tlc_gen('gen/MC_C08xc', 'gen/MC_C08xc_%s.cfg' % ('q' if tier == 'quick' else 't'), timeout=2400)   # tagged CBOR numbers (decimal fractions, bigfloats)
    rep.add_tlc(gx[1])
    recs += vf.run_shards(binary, gx[0])
    tr = sorted([r for r in recs if r.get('k') == 'trace'], key=lambda r: (r['enc'], r['idx']))
    def csig(r):
        c = r.get('case') if isinstance(r.get('case'), dict) else {}
        return {'what': 'crash', 'case': json.dumps(c)[:300]}
    vf.g_triage(rep, binary, [r for r in recs if r.get('k') != 'trace'], csig)
    lines = [json.dumps({k: v for k, v in r.items() if k not in ('k', 'idx', 'err', 'dev')}) for r in tr]
    v = vf.validate_traces('trace/Trace_C08', 'trace/Trace_C08.cfg', lines, max_fail=12, timeout=5400)
    rep.coverage['states'] += v['states']
    rep.coverage['transitions'] += v['transitions']
    for i in v['rejected']:
        r = tr[i]
        case = {'ev': r['ev'], 'v': r['v'], 'right': r['right']} if 'ev' in r else {'b': r['in'], 'f': r['src'], 'ok': True}
        vsig = {'encoder': r['enc'], 'input': json.dumps(r.get('ev', r.get('in')))[:400]}
        if r.get('dev'):
            vsig['dev'] = r['dev']
        rep.violation(vsig, case,
                      {'out': r['out'], 'bytes': bytes(r['bytes'][:80]).hex(), 'err': r.get('err')})
    cov = rep.coverage
    cov['traces_validated_against_impl'] = v['validated']
    cov['evaluations'] = len(lines)
    cov['distinct_nontrivial'] = g[1]['cases']
    cov['exhaustive'] = True
    cov['encoders'] = ENCODERS
    cov['runs_with_output'] = sum(1 for r in tr if r['out'] == 'ok')
    cov['runs_refused'] = sum(1 for r in tr if r['out'] == 'err')
    cov['rule'] = ('event sequences = every complete sequence accepted by the Events PDA up to MaxEv events over begin_array/begin_object with '
                   'declared length in Lens or undeclared, end_array/end_object, 2 keys, 7 scalar kinds (uint, negative int, string, null, bool, '
                   'double, byte string); transcoding inputs = all inputs accepted in the listed C07 byte-level spaces and every CBOR decimal fraction / bigfloat of spec/gen/MC_C08xc (exponents -MaxExp..MaxExp x 19 mantissas incl. zero and bignums), written as compact and '
                   'pretty JSON text; one trace line per (sequence or input, encoder)')
    cov['bounds'] = open(os.path.join(vf.SPEC, CFG[tier])).read().split('CONSTANTS')[1].split()
    cov['samples'] = [json.loads(x) for x in lines[:1]] + [json.loads(lines[-1])]
    tags_family(rep, tier)
    rep.assumptions += ['only encoders listed in coverage.encoders are judged in this run (MessagePack/UBJSON/BSON join with their reference decoders)',
                        'an encoder refusing a correct sequence is not a violation of C08 as stated (C06 covers successful encoding)']
    return rep.finish(dict(harness='c08'))


def replay(path):
    d = json.load(open(path))
    if d['case'].get('fam') == 'tags' or 'dev' in d['case']:          # tagged-events family (a crash report carries the bare generated case)
        c = d['case']
        binary = vf.build('c08tags', ['c08tags.cpp'])
        recs = vf.run_one(binary, {k: c[k] for k in ('ev', 'v', 'right', 'dev')}, args=['--encoder', c['enc']] if c.get('enc') else [])
        tr = [r for r in recs if r.get('k') == 'trace']
        v = vf.validate_traces('trace/Trace_C08tags', 'trace/Trace_C08tags.cfg', tags_lines(tr))
        for r in tr:
            print(r['enc'], tags_render_ev(r['ev']), '->', r['out'], r.get('err') or '', bytes(r['bytes'][:80]).hex(),
                  repr(bytes(r['bytes'][:80]).decode('utf8', 'replace')) if r['enc'].startswith('json') else '')
        if v['rejected'] or not tr or any(r.get('k') in ('terminate', 'signal', 'crash') for r in recs):
            print('VIOLATION property=%s replay=%s' % (PROP, path))
            return 1
        print('accepted by the trace spec on this tree')
        return 0
    binary = vf.build('c08', ['c08.cpp'])
    recs = vf.run_one(binary, d['case'])
    tr = [r for r in recs if r.get('k') == 'trace' and r.get('enc') in ENCODERS + ['transcode-json']]
    lines = [json.dumps({k: v for k, v in r.items() if k not in ('k', 'idx', 'err', 'dev')}) for r in tr]
    v = vf.validate_traces('trace/Trace_C08', 'trace/Trace_C08.cfg', lines)
    for r in tr:
        print(r['enc'], r['out'], bytes(r['bytes'][:80]))
    if v['rejected'] or not tr:
        print('VIOLATION property=%s replay=%s' % (PROP, path))
        return 1
    print('accepted by the trace spec on this tree')
    return 0
