"""C08 - Encoders emit only well-formed output; transcoding stays valid.
Spec: Events (visitor event grammar as a PDA + the value of a sequence), the format reference
decoders, JsonText.  Binding: V - TLC enumerates every grammatically well-formed complete event
sequence (declared lengths right, wrong, absent) up to MaxEv events; the harness pushes each into
the real encoders and records output-or-error; Trace_C08 accepts a run only if the encoder
reported an error or the INDEPENDENT decoder reads the output completely to exactly the pushed
value (JSON: strict RFC 8259 recogniser + documented image).  Transcoding: every input accepted in
the C07 byte-level space is decoded and re-written as JSON text (compact and pretty), which must
be valid RFC 8259 text."""
import json, os
import vf

PROP = 'C08'
CFG = {'quick': 'gen/MC_C08_q.cfg', 'thorough': 'gen/MC_C08_t.cfg'}
ENCODERS = ['cbor', 'msgpack', 'ubjson', 'bson', 'json', 'jsonpretty']          # encoders whose output Trace_C08 can judge
TRANS = {'quick': ['gen/MC_C07cbor_q.cfg', 'gen/MC_C07msgpack_q.cfg', 'gen/MC_C07ubjson_q4.cfg', 'gen/MC_C07bson_tok_q.cfg'],
         'thorough': ['gen/MC_C07cbor_q.cfg', 'gen/MC_C07cbor_q4.cfg', 'gen/MC_C07cbor_tok_q.cfg', 'gen/MC_C07msgpack_q.cfg', 'gen/MC_C07msgpack_tok_q.cfg',
                      'gen/MC_C07ubjson_q4.cfg', 'gen/MC_C07ubjson_tok_q.cfg', 'gen/MC_C07bson_tok_q.cfg', 'gen/MC_C07bson_rep.cfg']}


def setup():
    vf.build('c08', ['c08.cpp'])
    vf.tlc_gen('gen/MC_C08', CFG['quick'], timeout=900)


def run(tier):
    rep = vf.Report(PROP, tier)
    binary = vf.build('c08', ['c08.cpp'])
    g = vf.tlc_gen('gen/MC_C08', CFG[tier], timeout=2400)
    rep.add_tlc(g[1])
    recs = []
    for e in ENCODERS:
        recs += vf.run_shards(binary, g[0], args=['--encoder', e])
    for c in TRANS[tier]:
        gt = vf.tlc_gen('gen/MC_C07', c, timeout=2400)
        rep.add_tlc(gt[1])
        recs += vf.run_shards(binary, gt[0])
    tr = sorted([r for r in recs if r.get('k') == 'trace'], key=lambda r: (r['enc'], r['idx']))
    def csig(r):
        c = r.get('case') if isinstance(r.get('case'), dict) else {}
        return {'what': 'crash', 'case': json.dumps(c)[:300]}
    vf.g_triage(rep, binary, [r for r in recs if r.get('k') != 'trace'], csig)
    lines = [json.dumps({k: v for k, v in r.items() if k not in ('k', 'idx', 'err')}) for r in tr]
    v = vf.validate_traces('trace/Trace_C08', 'trace/Trace_C08.cfg', lines, max_fail=12, timeout=2400)
    rep.coverage['states'] += v['states']
    rep.coverage['transitions'] += v['transitions']
    for i in v['rejected']:
        r = tr[i]
        case = {'ev': r['ev'], 'v': r['v'], 'right': r['right']} if 'ev' in r else {'b': r['in'], 'f': r['src'], 'ok': True}
        rep.violation({'encoder': r['enc'], 'input': json.dumps(r.get('ev', r.get('in')))[:400]}, case,
                      {'out': r['out'], 'bytes': bytes(r['bytes'][:80]).hex(), 'err': r.get('err')})
    cov = rep.coverage
    cov['traces_validated_against_impl'] = v['validated']
    cov['evaluations'] = len(lines)
    cov['distinct_nontrivial'] = g[1]['cases']
    cov['exhaustive'] = True
    cov['encoders'] = ENCODERS
    cov['runs_with_output'] = sum(1 for r in tr if r['out'] == 'ok')
    cov['runs_refused'] = sum(1 for r in tr if r['out'] == 'err')
    cov['rule'] = ('event sequences = every complete sequence accepted by the Events PDA up to MaxEv events over begin_array/begin_object with '
                   'declared length in Lens or undeclared, end_array/end_object, 2 keys, 7 scalar kinds (uint, negative int, string, null, bool, '
                   'double, byte string); transcoding inputs = all inputs accepted in the listed C07 byte-level spaces, written as compact and '
                   'pretty JSON text; one trace line per (sequence or input, encoder)')
    cov['bounds'] = open(os.path.join(vf.SPEC, CFG[tier])).read().split('CONSTANTS')[1].split()
    cov['samples'] = [json.loads(x) for x in lines[:1]] + [json.loads(lines[-1])]
    rep.assumptions += ['only encoders listed in coverage.encoders are judged in this run (MessagePack/UBJSON/BSON join with their reference decoders)',
                        'an encoder refusing a correct sequence is not a violation of C08 as stated (C06 covers successful encoding)']
    return rep.finish(dict(harness='c08'))


def replay(path):
    d = json.load(open(path))
    binary = vf.build('c08', ['c08.cpp'])
    recs = vf.run_one(binary, d['case'])
    tr = [r for r in recs if r.get('k') == 'trace' and r.get('enc') in ENCODERS + ['transcode-json']]
    lines = [json.dumps({k: v for k, v in r.items() if k not in ('k', 'idx', 'err')}) for r in tr]
    v = vf.validate_traces('trace/Trace_C08', 'trace/Trace_C08.cfg', lines)
    for r in tr:
        print(r['enc'], r['out'], bytes(r['bytes'][:80]))
    if v['rejected'] or not tr:
        print('VIOLATION property=%s replay=%s' % (PROP, path))
        return 1
    print('accepted by the trace spec on this tree')
    return 0
