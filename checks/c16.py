"""C16 - JSON Merge Patch follows RFC 7386.
Spec: MergePatch (transcription of the RFC's pseudo-code over JsonValue).
G: all (target, patch) pairs of a bounded document universe with the predicted result.
V: every diff produced by mergepatch::from_diff is recorded and validated by
   Trace_C16 (the spec's Merge applied to the recorded diff must give the target)."""
import json, os
import vf

PROP = 'C16'
CFG = {'quick': 'gen/MC_C16_q.cfg', 'thorough': 'gen/MC_C16_t.cfg'}
NA = {'quick': 'gen/MC_C16na_q.cfg', 'thorough': 'gen/MC_C16na_t.cfg'}      # the same universe over the member names z and e-acute


def sig(r):
    c = r['case']
    s = {'t': json.dumps(c.get('t')), 'p': json.dumps(c.get('p'))}
    for k in ('flavour', 'what'):
        if k in r:
            s[k] = r[k]
    return s


def setup():
    vf.build('c16', ['c16.cpp'])
    vf.tlc_gen('gen/MC_C16', CFG['quick'], timeout=1200)
    vf.tlc_gen('gen/MC_C16', NA['quick'], timeout=1200)


def run(tier):
    rep = vf.Report(PROP, tier)
    binary = vf.build('c16', ['c16.cpp'])
    g = vf.tlc_gen('gen/MC_C16', CFG[tier], timeout=2400)
    rep.add_tlc(g[1])
    recs = vf.run_shards(binary, g[0])
    g2 = vf.tlc_gen('gen/MC_C16', NA[tier], timeout=2400)
    rep.add_tlc(g2[1])
    recs += vf.run_shards(binary, g2[0])
    if tier == 'thorough':      # the quick universe (five scalars incl. the fraction 1.5, depth 1 under depth 2) is part of the thorough tier
        for c in (CFG['quick'], NA['quick']):
            gq = vf.tlc_gen('gen/MC_C16', c, timeout=2400)
            rep.add_tlc(gq[1])
            recs += vf.run_shards(binary, gq[0])
    traces = [r for r in recs if r.get('k') == 'trace']
    others = [r for r in recs if r.get('k') != 'trace']
    # G part (reuse the generic triage on the non-trace records)
    totals = vf.g_triage(rep, binary, others, sig)
    # V part
    traces.sort(key=lambda r: r['idx'])
    lines = [json.dumps({'s': r['s'], 'd': r['d'], 't': r['t']}) for r in traces]
    v = vf.validate_traces('trace/Trace_C16', 'trace/Trace_C16.cfg', lines)
    rep.coverage['states'] += v['states']
    rep.coverage['transitions'] += v['transitions']
    for i in v['rejected']:
        r = traces[i]
        rep.violation({'what': 'from_diff-rejected-by-spec', 's': json.dumps(r['s']), 't': json.dumps(r['t'])},
                      {'s': r['s'], 't': r['t']}, {'d': r['d']})
    cov = rep.coverage
    cov['traces_validated_against_impl'] = v['validated'] + totals.get('cases', 0)
    cov['diff_traces_validated'] = v['validated']
    cov['evaluations'] = totals.get('checks', 0)
    cov['distinct_nontrivial'] = totals.get('cases', 0)
    cov['exhaustive'] = True
    cov['rule'] = ('all ordered pairs (target, patch) = (source, target) of the document universe L2 of spec/gen/MC_C16.tla (scalars null,true,1,"s"; '
                   'objects over keys a,b - and the same universe over the keys z, e-acute (an ASCII / non-ASCII pair) -; arrays up to length 1; nesting depth 2), json and ojson; each pair is one distinct case; '
                   'the diff law is checked on the pairs whose target has no null member anywhere')
    cov['bounds'] = open(os.path.join(vf.SPEC, CFG[tier])).read().split('CONSTANTS')[1].split()
    cov['samples'] = vf.sample_lines(g[0], 2) + lines[:1]
    rep.assumptions += ['side condition of the diff law taken strictly: no null member anywhere in the target, including inside arrays']
    return rep.finish(dict(harness='c16'))


def replay(path):
    d = json.load(open(path))
    binary = vf.build('c16', ['c16.cpp'])
    case = d['case']
    if 'p' not in case:
        print('trace-level finding; case:', json.dumps(d)[:2000])
        return 1
    recs = vf.run_one(binary, case)
    bad = [r for r in recs if r.get('k') == 'mismatch']
    for r in bad:
        print(json.dumps({k: v for k, v in r.items() if k != 'case'}))
    if bad:
        print('VIOLATION property=%s replay=%s' % (PROP, path))
        return 1
    print('no mismatch on this tree')
    return 0
