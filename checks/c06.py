"""C06 - Binary formats round-trip the data model.
Spec: the format reference decoders (Cbor.tla ...), BinModel (value equivalence: float widening,
any-NaN, unordered maps), CBOR string references.  Binding: V - TLC enumerates data-model values
at every width/length boundary; the harness encodes each with the real encoders (DOM, streaming,
option sets) and decodes the bytes again; every recorded (value, bytes, decoded) execution is
validated by Trace_C06: the INDEPENDENT reference decoder must read the bytes completely to the
documented image of the value, and the library's own decode must equal it too."""
import json, os
import vf

PROP = 'C06'
CFG = {'quick': 'gen/MC_C06_q.cfg', 'thorough': 'gen/MC_C06_t.cfg'}
FORMATS = ['cbor', 'msgpack', 'ubjson', 'bson']          # formats whose reference decoder and image are in Trace_C06


BIG = {'quick': 'gen/MC_BigLen_enc_q.cfg', 'thorough': 'gen/MC_BigLen_enc_t.cfg'}


def setup():
    vf.build('c06', ['c06.cpp'])
    vf.build('cbig', ['cbig.cpp'])
    vf.tlc_gen('gen/MC_C06', CFG['quick'], timeout=900)
    vf.tlc_gen('gen/MC_BigLen', BIG['quick'], timeout=300)


def big_lines(recs):
    tr = sorted([r for r in recs if r.get('k') == 'trace'], key=lambda r: (r['f'], r['idx'], r['route']))
    return tr, [json.dumps({k: v for k, v in r.items() if k not in ('k', 'idx', 'err', 'derr')}) for r in tr]


def big_family(rep, tier):
    """long lengths (2^8 / 2^15 / 2^16 boundaries): header forms validated by Trace_C06big against BinHeads"""
    binary = vf.build('cbig', ['cbig.cpp'])
    g = vf.tlc_gen('gen/MC_BigLen', BIG[tier], timeout=300)
    rep.add_tlc(g[1])
    recs = vf.run_shards(binary, g[0], args=['--mode', 'enc'])
    def csig(r):
        c = r.get('case') if isinstance(r.get('case'), dict) else {}
        return {'what': 'crash', 'v': 'big %s %s %s' % (c.get('f'), c.get('shape'), c.get('n'))}
    vf.g_triage(rep, binary, [r for r in recs if r.get('k') != 'trace'], csig, args=['--mode', 'enc'])
    tr, lines = big_lines(recs)
    v = vf.validate_traces('trace/Trace_C06big', 'trace/Trace_C06big.cfg', lines, max_fail=20, timeout=900)
    rep.coverage['states'] += v['states']
    rep.coverage['transitions'] += v['transitions']
    for i in v['rejected']:
        r = tr[i]
        rep.violation({'format': r['f'], 'route': r['route'], 'value': 'big %s n=%d' % (r['shape'], r['n']), 'enc': r['enc']},
                      {'f': r['f'], 'shape': r['shape'], 'n': r['n'], 'route': r['route']},
                      {'head': bytes(r['head']).hex(), 'total': r['total'], 'rt': r['rt'], 'back': [r.get('back_kind'), r.get('back_size')], 'err': r.get('err'), 'derr': r.get('derr')})
    rep.coverage['long_length_traces_validated'] = v['validated']
    return v['validated'], len(lines)


def collect(binary, path):
    recs = []
    for f in FORMATS:
        recs += vf.run_shards(binary, path, args=['--format', f])
    return recs


def run(tier):
    rep = vf.Report(PROP, tier)
    binary = vf.build('c06', ['c06.cpp'])
    g = vf.tlc_gen('gen/MC_C06', CFG[tier], timeout=1800)
    rep.add_tlc(g[1])
    recs = collect(binary, g[0])
    tr = sorted([r for r in recs if r.get('k') == 'trace'], key=lambda r: (r['f'], r['idx'], r['route']))
    def csig(r):
        c = r.get('case') if isinstance(r.get('case'), dict) else {}
        return {'what': 'crash', 'v': json.dumps(c.get('v'))[:300]}
    totals = vf.g_triage(rep, binary, [r for r in recs if r.get('k') != 'trace'], csig)
    lines = [json.dumps({k: v for k, v in r.items() if k not in ('k', 'idx', 'err', 'derr')}) for r in tr]
    v = vf.validate_traces('trace/Trace_C06', 'trace/Trace_C06.cfg', lines, max_fail=20, timeout=1800)
    rep.coverage['states'] += v['states']
    rep.coverage['transitions'] += v['transitions']
    for i in v['rejected']:
        r = tr[i]
        rep.violation({'format': r['f'], 'route': r['route'], 'value': json.dumps(r['v'])[:400], 'enc': r['enc']},
                      {'v': r['v'], 'f': r['f'], 'route': r['route']},
                      {'bytes': bytes(r['bytes'][:64]).hex(), 'dec_ok': r['dec_ok'], 'dec': json.dumps(r['dec'])[:400], 'err': r.get('err'), 'derr': r.get('derr')})
    nbig, nbiglines = big_family(rep, tier)
    cov = rep.coverage
    cov['traces_validated_against_impl'] = v['validated'] + nbig
    cov['evaluations'] = len(lines) + nbiglines
    cov['distinct_nontrivial'] = totals.get('cases', 0) // max(1, len(FORMATS)) if totals.get('cases') else g[1]['cases']
    cov['exhaustive'] = True
    cov['formats'] = FORMATS
    cov['rule'] = ('values = the universe of spec/gen/MC_C06.tla: unsigned / negative integers at every width boundary up to 2^64-1 / -2^63, 22 double bit '
                   'patterns (zeros, half/float/double exactness boundaries, subnormals, max, inf, NaN), text and byte strings at length boundaries '
                   '0,1,23,24,31,32,255,256 (+15,16,257 thorough) and non-ASCII content, arrays/maps at count boundaries, nesting, and the CBOR '
                   'string-reference family (tables crossing 24 entries, mixed byte/text strings, repeated occurrences); x routes per format '
                   '(DOM encode, streaming encoder, pack_strings); one trace line per (value, format, route); long-length family (spec/BinHeads.tla): '
                   'text string / byte string / array / map / member name of length n in {255, 256, 32767, 32768, 65535, 65536} (thorough + 127, 128, '
                   '70000) x 4 formats x routes incl. undeclared-length streaming: the header and total size of the output must be one of the forms '
                   'the format allows for that length, and the library must read it back')
    cov['bounds'] = open(os.path.join(vf.SPEC, CFG[tier])).read().split('CONSTANTS')[1].split()
    cov['samples'] = [json.loads(x) for x in lines[:2]]
    rep.assumptions += ['only formats listed in coverage.formats are validated in this run (the others join as their reference decoders are added to Trace_C06)']
    return rep.finish(dict(harness='c06'))


def replay(path):
    d = json.load(open(path))
    if 'shape' in d['case']:
        binary = vf.build('cbig', ['cbig.cpp'])
        c = d['case']
        recs = vf.run_one(binary, {'f': c['f'], 'shape': c['shape'], 'n': c['n']}, args=['--mode', 'enc'])
        tr, lines = big_lines([r for r in recs if r.get('k') == 'trace' and r.get('route') == c.get('route', r.get('route'))])
        v = vf.validate_traces('trace/Trace_C06big', 'trace/Trace_C06big.cfg', lines)
        for r in tr:
            print(r['f'], r['route'], r['shape'], r['n'], 'enc=%s' % r['enc'], 'head=' + bytes(r['head']).hex(), 'total=%d' % r['total'], 'read back: %s %s eq=%s' % (r.get('back_kind'), r.get('back_size'), r['rt']))
        if v['rejected'] or not tr:
            print('VIOLATION property=%s replay=%s' % (PROP, path))
            return 1
        print('accepted by the trace spec on this tree')
        return 0
    binary = vf.build('c06', ['c06.cpp'])
    recs = vf.run_one(binary, {'v': d['case']['v']}, args=['--format', d['case'].get('f', 'cbor')])
    tr = [r for r in recs if r.get('k') == 'trace' and r.get('route') == d['case'].get('route', r.get('route'))]
    lines = [json.dumps({k: v for k, v in r.items() if k not in ('k', 'idx', 'err', 'derr')}) for r in tr]
    v = vf.validate_traces('trace/Trace_C06', 'trace/Trace_C06.cfg', lines)
    for r in tr:
        print(r['f'], r['route'], 'enc=%s' % r['enc'], bytes(r['bytes'][:64]).hex(), 'dec_ok=%s' % r['dec_ok'])
    if v['rejected'] or not tr:
        print('VIOLATION property=%s replay=%s' % (PROP, path))
        return 1
    print('accepted by the trace spec on this tree')
    return 0
