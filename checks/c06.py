"""C06 - Binary formats round-trip the data model.
Spec: the format reference decoders (Cbor.tla ...), BinModel (value equivalence: float widening,
any-NaN, unordered maps), CBOR string references.  Binding: V - TLC enumerates data-model values
at every width/length boundary; the harness encodes each with the real encoders (DOM, streaming,
option sets) and decodes the bytes again; every recorded (value, bytes, decoded) execution is
validated by Trace_C06: the INDEPENDENT reference decoder must read the bytes completely to the
documented image of the value, and the library's own decode must equal it too."""
import json, os
import vf

PROP = 'C06'
CFG = {'quick': 'gen/MC_C06_q.cfg', 'thorough': 'gen/MC_C06_t.cfg'}
FORMATS = ['cbor', 'msgpack', 'ubjson', 'bson']          # formats whose reference decoder and image are in Trace_C06


BIG = {'quick': 'gen/MC_BigLen_enc_q.cfg', 'thorough': 'gen/MC_BigLen_enc_t.cfg'}


def setup():
    vf.build('c06', ['c06.cpp'])
    vf.build('cbig', ['cbig.cpp'])
    vf.tlc_gen('gen/MC_C06', CFG['quick'], timeout=900)
    vf.tlc_gen('gen/MC_BigLen', BIG['quick'], timeout=300)
    vf.build('c06tags', ['c06tags.cpp'])
    vf.tlc_gen('gen/MC_C06tags', TAGS['quick'], timeout=1800)      # (same arguments as tags_family: the cache key includes them)
    vf.build('c06pta', ['c06pta.cpp'])
    vf.tlc_gen('gen/MC_C06pta', PTA['quick'], timeout=600)


def big_lines(recs):
    tr = sorted([r for r in recs if r.get('k') == 'trace'], key=lambda r: (r['f'], r['idx'], r['route']))
    return tr, [json.dumps({k: v for k, v in r.items() if k not in ('k', 'idx', 'err', 'derr')}) for r in tr]


def big_family(rep, tier):
    """long lengths (2^8 / 2^15 / 2^16 boundaries): header forms validated by Trace_C06big against BinHeads"""
    binary = vf.build('cbig', ['cbig.cpp'])
    g = vf.tlc_gen('gen/MC_BigLen', BIG[tier], timeout=300)
    rep.add_tlc(g[1])
    recs = vf.run_shards(binary, g[0], args=['--mode', 'enc'])
    def csig(r):
        c = r.get('case') if isinstance(r.get('case'), dict) else {}
        return {'what': 'crash', 'v': 'big %s %s %s' % (c.get('f'), c.get('shape'), c.get('n'))}
    vf.g_triage(rep, binary, [r for r in recs if r.get('k') != 'trace'], csig, args=['--mode', 'enc'])
    tr, lines = big_lines(recs)
    v = vf.validate_traces('trace/Trace_C06big', 'trace/Trace_C06big.cfg', lines, max_fail=20, timeout=900)
    rep.coverage['states'] += v['states']
    rep.coverage['transitions'] += v['transitions']
    for i in v['rejected']:
        r = tr[i]
        rep.violation({'format': r['f'], 'route': r['route'], 'value': 'big %s n=%d' % (r['shape'], r['n']), 'enc': r['enc']},
                      {'f': r['f'], 'shape': r['shape'], 'n': r['n'], 'route': r['route']},
                      {'head': bytes(r['head']).hex(), 'total': r['total'], 'rt': r['rt'], 'back': [r.get('back_kind'), r.get('back_size')], 'err': r.get('err'), 'derr': r.get('derr')})
    rep.coverage['long_length_traces_validated'] = v['validated']
    return v['validated'], len(lines)


# ---------------------------------------------------------------- string references next to typed arrays (pack_strings + use_typed_arrays)
PTA = {'quick': 'gen/MC_C06pta_q.cfg', 'thorough': 'gen/MC_C06pta_t.cfg'}


def pta_family(rep, tier):
    """CBOR pack_strings together with use_typed_arrays: the byte string of a typed array counts in the stringref table (Trace_C06pta)"""
    binary = vf.build('c06pta', ['c06pta.cpp'])
    g = vf.tlc_gen('gen/MC_C06pta', PTA[tier], timeout=600)
    rep.add_tlc(g[1])
    recs = vf.run_shards(binary, g[0])
    vf.g_triage(rep, binary, [r for r in recs if r.get('k') != 'trace'], lambda r: {'what': 'crash', 'v': 'pta %s' % json.dumps((r.get('case') or {}).get('items'))})
    tr = sorted([r for r in recs if r.get('k') == 'trace'], key=lambda r: r['idx'])
    lines = [json.dumps({k: v for k, v in r.items() if k not in ('k', 'idx', 'err')}) for r in tr]
    v = vf.validate_traces('trace/Trace_C06pta', 'trace/Trace_C06pta.cfg', lines, max_fail=20, timeout=900)
    rep.coverage['states'] += v['states']
    rep.coverage['transitions'] += v['transitions']
    for i in v['rejected']:
        r = tr[i]
        rep.violation({'format': 'cbor', 'route': 'packed+typed-arrays', 'value': 'pta %s%s' % (','.join(r['items']), ' after reset' if r.get('reset') else ''), 'enc': r['enc']},
                      {'items': r['items'], 'fam': 'pta', 'reset': r.get('reset', False)}, {'bytes': bytes(r['bytes']).hex(), 'dec': r['dec'], 'back': r['back'], 'err': r.get('err')})
    rep.coverage['packed_typed_array_traces_validated'] = v['validated']
    return v['validated'], len(lines)


# ---------------------------------------------------------------- "tags" family: semantic tags and typed arrays (spec/BinTags.tla)
TAGS = {'quick': 'gen/MC_C06tags_q.cfg', 'thorough': 'gen/MC_C06tags_t.cfg'}
TAGS_DROP = ('k', 'idx', 'err', 'derr', 'verr')


def tags_render(v, limit=160):
    """short human rendering of a data-model value with tags: bigint<"12">, epoch_second<-1>, h'0102', [..], {..}"""
    def r(x):
        k = x[0]
        if k == 'tagged':
            return '%s<%s>' % (x[1], r(x[2]))
        if k == 'tstr':
            return json.dumps(bytes(x[1]).decode('utf8', 'replace'))
        if k == 'bstr':
            return "h'%s'" % bytes(x[1]).hex()
        if k == 'uint':
            return str(int.from_bytes(bytes(x[1]), 'big'))
        if k == 'nint':
            return str(-1 - int.from_bytes(bytes(x[1]), 'big'))
        if k in ('f64', 'f32', 'f16'):
            return 'f:' + bytes(x[1]).hex()
        if k == 'arr':
            return '[' + ','.join(r(y) for y in x[1]) + ']'
        if k == 'map':
            return '{' + ','.join(r(a) + ':' + r(b) for a, b in x[1]) + '}'
        return json.dumps(x)
    s = r(v)
    return s if len(s) <= limit else s[:limit // 2] + '...' + s[-limit // 2:] + ' (%d chars)' % len(s)


def tags_of(v):
    if v[0] == 'tagged':
        return {v[1]}
    if v[0] == 'arr':
        return set().union(*[tags_of(x) for x in v[1]]) if v[1] else set()
    if v[0] == 'map':
        return set().union(*[tags_of(x[1]) for x in v[1]]) if v[1] else set()
    return set()


def tags_sig(r):
    if r.get('fam') == 'ta':
        tag, val = 'typed-array:' + r['et'], '%s[%s]' % (r['et'], ','.join(bytes(e).hex() for e in r['el']))
    else:
        tag, val = '+'.join(sorted(tags_of(r['v']))) or 'none', tags_render(r['v'])
    return {'family': 'tags', 'format': r['f'], 'route': r['route'] + ('+typed_arrays' if r.get('ta') else ''), 'tag': tag, 'value': val,
            'dev': ','.join(sorted(r.get('dev') or []))}


def tags_case(r):
    c = {'fam': r['fam'], 'dev': r.get('dev') or [], 'f': r['f'], 'route': r['route'], 'ta': r.get('ta', False)}
    c.update({k: r[k] for k in ('v', 'et', 'el') if k in r})
    return c


def tags_validate_all(lines, timeout=1500):
    """Trace_C06tags in report-all mode (Trace_C06tags_all.cfg): every refused line is reported by the trace spec itself and validation
    goes on, so the many refused lines of the known-deviation classes cost one TLC pass.  Lines are dealt round-robin to the shards
    (the few expensive ones - 600-digit bignums - are neighbours in the sorted order).  Returns (validated, rejected indices, states)."""
    from concurrent.futures import ThreadPoolExecutor
    if not lines:
        return 0, [], 0
    n = max(1, min(vf.NCPU, (len(lines) + 199) // 200))
    d = vf.ensure(os.path.join(vf.WORK, 'run'))

    def shard(i):
        idxs = list(range(i, len(lines), n))
        base = os.path.join(d, 'tagtrace-%d-%d-%d' % (os.getpid(), i, len(lines)))
        with open(base + '.ndjson', 'w') as fh:
            fh.write('\n'.join(lines[j] for j in idxs) + '\n')
        try:
            r = vf.tlc('trace/Trace_C06tags', 'trace/Trace_C06tags_all.cfg', workers=1, env={'TRACE': base + '.ndjson'}, out_cases=base + '.rej',
                       xmx='3g', deque=True, timeout=timeout)
            m = vf.DEPTH_RE.search(r['tail'])
            if r['rc'] != 0 or not m or int(m.group(1)) != len(idxs) + 1:
                raise vf.InfraError('trace validation failed to run (Trace_C06tags):\n%s' % r['tail'][-3000:])
            rej = sorted({idxs[json.loads(x)['rej'] - 1] for x in open(base + '.rej') if x.strip()})
            return rej, r['distinct']
        finally:
            for ext in ('.ndjson', '.rej'):
                if os.path.exists(base + ext):
                    os.unlink(base + ext)
    with ThreadPoolExecutor(max_workers=n) as ex:
        res = list(ex.map(shard, range(n)))
    rejected = sorted(j for rej, _ in res for j in rej)
    return len(lines) - len(rejected), rejected, sum(st for _, st in res)


def tags_family(rep, tier):
    """semantic tags (bigint, bigdec, bigfloat, datetime, epoch_*, uri, base-N hints) and typed arrays: TLC-generated tagged values and
    std::vector<T> cases through every format / route (harness/c06tags.cpp records), validated by Trace_C06tags against BinTags"""
    binary = vf.build('c06tags', ['c06tags.cpp'])
    g = vf.tlc_gen('gen/MC_C06tags', TAGS[tier], timeout=1800)
    rep.add_tlc(g[1])
    recs = vf.run_shards(binary, g[0])
    tr = sorted([r for r in recs if r.get('k') == 'trace'], key=lambda r: (r['f'], r['idx'], r['route'], r['ta']))
    def csig(r):
        c = r.get('case') if isinstance(r.get('case'), dict) else {}
        return {'what': 'crash', 'family': 'tags', 'v': (tags_render(c['v']) if 'v' in c else json.dumps(c)[:200]), 'dev': ','.join(sorted(c.get('dev') or []))}
    vf.g_triage(rep, binary, [r for r in recs if r.get('k') != 'trace'], csig)
    lines = [json.dumps({k: v for k, v in r.items() if k not in TAGS_DROP}) for r in tr]
    validated, rejected, states = tags_validate_all(lines)
    rep.coverage['states'] += states
    rep.coverage['transitions'] += states
    for i in rejected:
        r = tr[i]
        rep.violation(tags_sig(r), tags_case(r),
                      {'enc': r['enc'], 'err': r.get('err'), 'bytes': bytes(r['bytes'][:80]).hex(), 'dec_ok': r['dec_ok'],
                       'dec': tags_render(r['dec'], 300) if r['dec_ok'] else r.get('derr'), 'vdec_ok': r.get('vdec_ok'),
                       'vdec': [bytes(e).hex() for e in r['vdec']] if r.get('vdec_ok') else r.get('verr')})
    cov = rep.coverage
    cov['traces_validated_against_impl'] += validated
    cov['evaluations'] += len(lines)
    cov['tags_family'] = {'cases': g[1]['cases'], 'trace_lines': len(lines), 'accepted': validated, 'refused': len(rejected),
                          'refused_in_known_deviation_classes': sum(1 for i in rejected if tr[i].get('dev')),
                          'bounds': open(os.path.join(vf.SPEC, TAGS[tier])).read().split('CONSTANTS')[1].split()}
    cov['rule'] += ('; tags family (spec/BinTags.tla, spec/gen/MC_C06tags.tla): bigint / bigdec / bigfloat strings built from their grammar (64-bit '
                    'boundaries +-1, bignum magnitudes of 23/24/25 and 255/256 bytes, huge exponents), date-time / URI / base-N tagged text and byte strings, '
                    'epoch_second/milli/nano integers, doubles and strings, each alone and nested in arrays / maps next to untagged members, string-packing '
                    'families with tagged strings and bignums, std::vector<T> of 11 element types x lengths 0-3 x use_typed_arrays; x 4 formats x DOM / '
                    'streaming / packed / typed / encoder.typed_array routes; every line checked against the reference decoder reading of the bytes '
                    '(RFC 8949 / 8746 tag content) and the library decode')
    return validated, len(lines)


def collect(binary, path):
    recs = []
    for f in FORMATS:
        recs += vf.run_shards(binary, path, args=['--format', f])
    return recs


def run(tier):
    rep = vf.Report(PROP, tier)
    binary = vf.build('c06', ['c06.cpp'])
    g = vf.tlc_gen('gen/MC_C06', CFG[tier], timeout=1800)
    rep.add_tlc(g[1])
    recs = collect(binary, g[0])
    tr = sorted([r for r in recs if r.get('k') == 'trace'], key=lambda r: (r['f'], r['idx'], r['route']))
    def csig(r):
        c = r.get('case') if isinstance(r.get('case'), dict) else {}
        return {'what': 'crash', 'v': json.dumps(c.get('v'))[:300]}
    totals = vf.g_triage(rep, binary, [r for r in recs if r.get('k') != 'trace'], csig)
    lines = [json.dumps({k: v for k, v in r.items() if k not in ('k', 'idx', 'err', 'derr')}) for r in tr]
    v = vf.validate_traces('trace/Trace_C06', 'trace/Trace_C06.cfg', lines, max_fail=20, timeout=1800)
    rep.coverage['states'] += v['states']
    rep.coverage['transitions'] += v['transitions']
    for i in v['rejected']:
        r = tr[i]
        rep.violation({'format': r['f'], 'route': r['route'], 'value': json.dumps(r['v'])[:400], 'enc': r['enc']},
                      {'v': r['v'], 'f': r['f'], 'route': r['route']},
                      {'bytes': bytes(r['bytes'][:64]).hex(), 'dec_ok': r['dec_ok'], 'dec': json.dumps(r['dec'])[:400], 'err': r.get('err'), 'derr': r.get('derr')})
    nbig, nbiglines = big_family(rep, tier)
    cov = rep.coverage
    cov['traces_validated_against_impl'] = v['validated'] + nbig
    cov['evaluations'] = len(lines) + nbiglines
    cov['distinct_nontrivial'] = totals.get('cases', 0) // max(1, len(FORMATS)) if totals.get('cases') else g[1]['cases']
    cov['exhaustive'] = True
    cov['formats'] = FORMATS
    cov['rule'] = ('values = the universe of spec/gen/MC_C06.tla: unsigned / negative integers at every width boundary up to 2^64-1 / -2^63, 22 double bit '
                   'patterns (zeros, half/float/double exactness boundaries, subnormals, max, inf, NaN), text and byte strings at length boundaries '
                   '0,1,23,24,31,32,255,256 (+15,16,257 thorough) and non-ASCII content, arrays/maps at count boundaries, nesting, and the CBOR '
                   'string-reference family (tables crossing 24 entries, mixed byte/text strings, repeated occurrences); x routes per format '
                   '(DOM encode, streaming encoder, pack_strings); one trace line per (value, format, route); long-length family (spec/BinHeads.tla): '
                   'text string / byte string / array / map / member name of length n in {255, 256, 32767, 32768, 65535, 65536} (thorough + 127, 128, '
                   '70000) (and an array of 400 / 1000 different strings of 100 bytes) x 4 formats x routes incl. undeclared-length streaming and encode_X to a std::ostream: the header and total size of the output must be one of the forms '
                   'the format allows for that length, and the library must read it back; string references next to typed arrays: every sequence of <= MaxItems items from two text strings, a short string, a byte string and typed arrays of three element kinds through the CBOR encoder with pack_strings and use_typed_arrays (Trace_C06pta)')
    cov['bounds'] = open(os.path.join(vf.SPEC, CFG[tier])).read().split('CONSTANTS')[1].split()
    cov['samples'] = [json.loads(x) for x in lines[:2]]
    tags_family(rep, tier)
    pta_family(rep, tier)
    rep.assumptions += ['only formats listed in coverage.formats are validated in this run (the others join as their reference decoders are added to Trace_C06)']
    return rep.finish(dict(harness='c06'))


def replay(path):
    d = json.load(open(path))
    if d['case'].get('fam') == 'pta':   # string references next to typed arrays
        binary = vf.build('c06pta', ['c06pta.cpp'])
        recs = vf.run_one(binary, {'items': d['case']['items']})
        tr = [r for r in recs if r.get('k') == 'trace']
        lines = [json.dumps({k: v for k, v in r.items() if k not in ('k', 'idx', 'err')}) for r in tr]
        v = vf.validate_traces('trace/Trace_C06pta', 'trace/Trace_C06pta.cfg', lines)
        for r in tr:
            print(','.join(r['items']), bytes(r['bytes']).hex(), 'read back:', r['dec'], r['back'])
        if v['rejected'] or not tr:
            print('VIOLATION property=%s replay=%s' % (PROP, path))
            return 1
        print('accepted by the trace spec on this tree')
        return 0
    if 'fam' in d['case']:              # tags family
        binary = vf.build('c06tags', ['c06tags.cpp'])
        c = d['case']
        recs = vf.run_one(binary, {k: c[k] for k in ('fam', 'v', 'et', 'el', 'dev') if k in c}, args=['--format', c['f']])
        tr = [r for r in recs if r.get('k') == 'trace' and r.get('route') == c.get('route', r.get('route')) and r.get('ta') == c.get('ta', r.get('ta'))]
        lines = [json.dumps({k: v for k, v in r.items() if k not in TAGS_DROP}) for r in tr]
        v = vf.validate_traces('trace/Trace_C06tags', 'trace/Trace_C06tags.cfg', lines)
        for r in tr:
            sg = tags_sig(r)
            print(sg['format'], sg['route'], sg['tag'], sg['value'], 'enc=%s %s' % (r['enc'], r.get('err') or ''), bytes(r['bytes'][:64]).hex(),
                  'decoded: %s' % (tags_render(r['dec'], 300) if r['dec_ok'] else 'ERROR ' + str(r.get('derr'))),
                  ('vector: %s' % ([bytes(e).hex() for e in r['vdec']] if r.get('vdec_ok') else 'ERROR ' + str(r.get('verr')))) if 'vdec_ok' in r else '')
        if v['rejected'] or not tr:
            print('VIOLATION property=%s replay=%s' % (PROP, path))
            return 1
        print('accepted by the trace spec on this tree')
        return 0
    if 'shape' in d['case']:
        binary = vf.build('cbig', ['cbig.cpp'])
        c = d['case']
        recs = vf.run_one(binary, {'f': c['f'], 'shape': c['shape'], 'n': c['n']}, args=['--mode', 'enc'])
        tr, lines = big_lines([r for r in recs if r.get('k') == 'trace' and r.get('route') == c.get('route', r.get('route'))])
        v = vf.validate_traces('trace/Trace_C06big', 'trace/Trace_C06big.cfg', lines)
        for r in tr:
            print(r['f'], r['route'], r['shape'], r['n'], 'enc=%s' % r['enc'], 'head=' + bytes(r['head']).hex(), 'total=%d' % r['total'], 'read back: %s %s eq=%s' % (r.get('back_kind'), r.get('back_size'), r['rt']))
        if v['rejected'] or not tr:
            print('VIOLATION property=%s replay=%s' % (PROP, path))
            return 1
        print('accepted by the trace spec on this tree')
        return 0
    binary = vf.build('c06', ['c06.cpp'])
    recs = vf.run_one(binary, {'v': d['case']['v']}, args=['--format', d['case'].get('f', 'cbor')])
    tr = [r for r in recs if r.get('k') == 'trace' and r.get('route') == d['case'].get('route', r.get('route'))]
    lines = [json.dumps({k: v for k, v in r.items() if k not in ('k', 'idx', 'err', 'derr')}) for r in tr]
    v = vf.validate_traces('trace/Trace_C06', 'trace/Trace_C06.cfg', lines)
    for r in tr:
        print(r['f'], r['route'], 'enc=%s' % r['enc'], bytes(r['bytes'][:64]).hex(), 'dec_ok=%s' % r['dec_ok'])
    if v['rejected'] or not tr:
        print('VIOLATION property=%s replay=%s' % (PROP, path))
        return 1
    print('accepted by the trace spec on this tree')
    return 0
