"""C07 - Binary decoders implement their specifications.
Spec: Cbor / Msgpack / Ubjson / Bson reference decoders (total recursive operators over byte
sequences, written from the format specifications).  Binding: G - TLC enumerates byte strings
(byte level: all first bytes x representative later bytes, BFS so every strict prefix is a case;
token level: head/payload tokens at every width and boundary argument) with the predicted
verdict and value; the harness feeds them to decode_X, reader+decoder, stream source, cursor."""
import json, os
import vf

PROP = 'C07'
FORMATS = ['cbor', 'msgpack', 'ubjson', 'bson']
TIERS = {'quick': ['q', 'q4', 'tok_q', 'rep', 'tagsib', 'sref'], 'thorough': ['t', 'tok_t', 'rep', 'tagsib', 'sref']}


def cfgs(tier):
    out = []
    for f in FORMATS:
        for suf in TIERS[tier]:
            c = 'gen/MC_C07%s_%s.cfg' % (f, suf)
            if os.path.exists(os.path.join(vf.SPEC, c)):
                out.append(c)
    return out


BIG = {'quick': 'gen/MC_BigLen_dec_q.cfg', 'thorough': 'gen/MC_BigLen_dec_t.cfg'}


def bigsig(r):
    c = r['case'] if isinstance(r.get('case'), dict) else {}
    s = {'format': c.get('f'), 'bytes': 'big %s n=%s %s head=%s' % (c.get('shape'), c.get('n'), c.get('variant'), bytes(c.get('head', [])).hex())}
    for k in ('entry', 'what'):
        if k in r:
            s[k] = r[k]
    return s


def sig(r):
    c = r['case']
    s = {'format': c.get('f'), 'bytes': bytes(c.get('b', [])).hex() if isinstance(c, dict) else '?'}
    for k in ('entry', 'what'):
        if k in r:
            s[k] = r[k]
    return s


def setup():
    vf.build('c07', ['c07.cpp'])
    vf.build('cbig', ['cbig.cpp'])
    vf.tlc_gen('gen/MC_BigLen', BIG['quick'], timeout=300)
    for c in cfgs('quick'):
        vf.tlc_gen('gen/MC_C07', c, timeout=2400)


def run(tier):
    rep = vf.Report(PROP, tier)
    binary = vf.build('c07', ['c07.cpp'])
    gens = [vf.tlc_gen('gen/MC_C07', c, timeout=3000) for c in cfgs(tier)]
    totals = vf.g_replay(rep, binary, gens, sig)
    big = vf.g_replay(rep, vf.build('cbig', ['cbig.cpp']), [vf.tlc_gen('gen/MC_BigLen', BIG[tier], timeout=300)], bigsig, args=['--mode', 'dec'])
    for k in ('cases', 'checks'):
        totals[k] = totals.get(k, 0) + big.get(k, 0)
    rep.coverage['long_length_cases'] = big.get('cases', 0)
    rep.coverage['known_findings_replayed'] = vf.witness_findings(PROP, binary)
    cov = rep.coverage
    cov['traces_validated_against_impl'] = totals.get('cases', 0)
    cov['evaluations'] = totals.get('checks', 0)
    cov['distinct_nontrivial'] = totals.get('cases', 0)
    cov['well_formed_inputs'] = totals.get('accepted', 0)
    cov['exhaustive'] = True
    cov['rule'] = ('per format: (bytes) every byte string whose first ExhLen bytes range over 0..255 and whose later bytes range over the '
                   'format\'s representative set, up to MaxLen bytes (BFS: every strict prefix is a case); (tok) every sequence of up to MaxLen '
                   'head/payload tokens (each major type / type code at every argument width with boundary arguments, reserved codes, '
                   'indefinite markers, break, UTF-8 valid/invalid payload); verdict and value predicted by the TLA+ reference decoder; '
                   '4 entry points per case; long-length family (spec/BinHeads.tla, MC_BigLen): every header form (every argument width, definite / '
                   'indefinite / counted / typed / uncounted) of a text string, byte string, array, map and member name of length n in {255, 256, 32767, '
                   '32768, 65535, 65536} (thorough + 127, 128, 70000) with the exact payload (accepted, kind and length predicted), one unit short or '
                   'without its terminator (rejected), and with a length written in a signed type that cannot hold it / a wrong BSON document length '
                   '(rejected); 3 entry points')
    cov['formats'] = sorted({c.split('MC_C07')[1].split('_')[0] for c in cfgs(tier)})
    cov['bounds'] = {c: open(os.path.join(vf.SPEC, c)).read().split('CONSTANTS')[1].split()[:9] for c in cfgs(tier)}
    cov['samples'] = vf.sample_lines(gens[-1][0], 3)
    rep.assumptions += ['trailing bytes after the first data item are not an observable',
                        'values for which jsoncons documents no mapping (CBOR tags, unassigned simple values, non-text map keys, duplicate keys, '
                        'negative integers below -2^63) are compared on the verdict only, or not at all where a decoder may refuse them']
    return rep.finish(dict(harness='c07'))


def replay(path):
    d = json.load(open(path))
    big = 'prog' in d['case']
    binary = vf.build('cbig', ['cbig.cpp']) if big else vf.build('c07', ['c07.cpp'])
    recs = vf.run_one(binary, d['case'], args=['--mode', 'dec'] if big else [])
    bad = [r for r in recs if r.get('k') != 'stat']
    for r in bad:
        print(json.dumps({k: v for k, v in r.items() if k != 'case'}))
    print('input=%s %s' % (d['case'].get('f'), bytes(d['case'].get('b', [])).hex() if not big else json.dumps({k: d['case'][k] for k in ('shape', 'n', 'variant', 'head', 'prog', 'trailer', 'expect')})))
    if bad:
        print('VIOLATION property=%s replay=%s' % (PROP, path))
        return 1
    print('no mismatch on this tree')
    return 0
