"""C01 - JSON text round-trip is lossless and canonical.
Spec: JsonText (strict RFC 8259 recogniser + value builder) used as the lexer of recorded encoder
output.  Binding: V - TLC enumerates data-model values x encode option vectors; the harness records
out1 = dump(v, options), the re-parsed value and out2 = dump(parse(out1), options) for json and
ojson; Trace_C01 accepts a line iff out1 is strict RFC 8259 text denoting v (integers digit for
digit, doubles as real literals, big numbers unquoted), the option post-conditions hold, the
library's re-parsed value equals v (double bit patterns included) and out1 = out2."""
import json, os
import vf

PROP = 'C01'
CFG = {'quick': 'gen/MC_C01_q.cfg', 'thorough': 'gen/MC_C01_t.cfg'}


def setup():
    vf.build('c01', ['c01.cpp'])
    vf.tlc_gen('gen/MC_C01', CFG['quick'], timeout=600)


def run(tier):
    rep = vf.Report(PROP, tier)
    binary = vf.build('c01', ['c01.cpp'])
    g = vf.tlc_gen('gen/MC_C01', CFG[tier], timeout=1200)
    rep.add_tlc(g[1])
    recs = vf.run_shards(binary, g[0], timeout=900)
    tr = sorted([r for r in recs if r.get('k') == 'trace'], key=lambda r: (r['flavour'], r['idx']))
    def csig(r):
        c = r.get('case') if isinstance(r.get('case'), dict) else {}
        return {'what': 'crash', 'v': json.dumps(c.get('v'))[:300]}
    vf.g_triage(rep, binary, [r for r in recs if r.get('k') != 'trace'], csig)
    lines = [json.dumps({k: v for k, v in r.items() if k not in ('k', 'idx', 'err', 'out2')}) for r in tr]
    v = vf.validate_traces('trace/Trace_C01', 'trace/Trace_C01.cfg', lines, max_fail=6, timeout=1500)
    rep.coverage['states'] += v['states']
    rep.coverage['transitions'] += v['transitions']
    for i in v['rejected']:
        r = tr[i]
        rep.violation({'flavour': r['flavour'], 'value': json.dumps(r['v'])[:300], 'options': json.dumps(r['o'])},
                      {'v': r['v'], 'o': r['o']}, {'out1': bytes(r['out1'][:200]).decode('latin1'), 'same': r['same'], 'ok': r['ok'], 'err': r.get('err'), 'back': json.dumps(r['back'])[:300]})
    cov = rep.coverage
    cov['traces_validated_against_impl'] = v['validated']
    cov['evaluations'] = len(lines)
    cov['distinct_nontrivial'] = g[1]['cases']
    cov['exhaustive'] = True
    cov['rule'] = ('values of spec/gen/MC_C01.tla (null, booleans, 64-bit integer boundaries, big integers, 20 double bit patterns, strings over 26 code points '
                   'covering every escape class / UTF-8 length / plane boundary, short-string capacity lengths, arrays and objects incl. nesting and keys needing '
                   'escapes) x option vectors (every option one at a time from the defaults + 30/120 mixed vectors over pretty, indent size/char, '
                   'spaces_around_colon/comma, padding, five line-split options x three kinds, line_length_limit, new_line_chars, escape_all_non_ascii, '
                   'escape_solidus) x json / ojson / wjson / wojson (the wchar_t instantiations, one wchar_t per code point; the wide text is recorded as its UTF-8 encoding); one trace line per (value, options, flavour)')
    cov['bounds'] = open(os.path.join(vf.SPEC, CFG[tier])).read().split('CONSTANTS')[1].split()
    cov['samples'] = [json.loads(lines[0]), json.loads(lines[len(lines) // 2])] if lines else []
    rep.assumptions += ['char only (wchar_t output is not lexed by the byte-oriented JsonText machine)',
                        'the numeric meaning of the digits of a double is C04 business; here the re-parsed bit pattern must equal the original (-0.0 may come back as 0.0)']
    return rep.finish(dict(harness='c01'))


def replay(path):
    d = json.load(open(path))
    binary = vf.build('c01', ['c01.cpp'])
    recs = vf.run_one(binary, d['case'])
    tr = [r for r in recs if r.get('k') == 'trace']
    lines = [json.dumps({k: v for k, v in r.items() if k not in ('k', 'idx', 'err', 'out2')}) for r in tr]
    v = vf.validate_traces('trace/Trace_C01', 'trace/Trace_C01.cfg', lines)
    for r in tr:
        print(r['flavour'], bytes(r['out1'][:200]), 'same=%s' % r['same'])
    if v['rejected'] or not tr:
        print('VIOLATION property=%s replay=%s' % (PROP, path))
        return 1
    print('accepted by the trace spec on this tree')
    return 0
