"""C05 - No input or option can make a decoder, compiler or encoder misbehave.
Spec: ApiOutcome (Call -> Return | ErrorCode | JsonException; nothing else is an action) + the input
spaces of the other generators (JsonText texts, the four binary formats, JSON Pointer strings, JSONPath /
JMESPath expression strings with every truncation and character substitutions, JSON Schemas with keyword
values replaced by every JSON type, JSON Patch documents incl. malformed operations).
Binding: V - the harness is built with clang -fsanitize=address,undefined (no recovery, LeakSanitizer on)
and records the outcome of every call; Trace_C05 accepts only the three allowed outcomes; a fatal signal /
sanitizer report aborts the shard, the case in flight is named by the handler and the driver resumes after it."""
import json, os, subprocess
import vf

PROP = 'C05'
FLAGS = ['-g', '-fsanitize=address,undefined', '-fno-sanitize-recover=all', '-fno-omit-frame-pointer']
ENV = {'ASAN_OPTIONS': 'abort_on_error=1:detect_leaks=1:allocator_may_return_null=1:handle_abort=0:handle_segv=0:detect_stack_use_after_return=0',
       'UBSAN_OPTIONS': 'halt_on_error=1:abort_on_error=1:print_stacktrace=1', 'LSAN_OPTIONS': 'exitcode=23',
       'HZ_CASE_CPU_SECONDS': '20'}     # a case (one input through all entry points, incl. its truncations / substitutions) that burns 20 s of CPU does not terminate (normal: < 1 s)
# (generator module, cfg, take every k-th case) - case files are shared with the other checks (cached)
INPUTS = {
    'quick': [('gen/MC_C02tok', 'gen/MC_C02tok.cfg', 6), ('gen/MC_C03', 'gen/MC_C03atoms_q.cfg', 1), ('gen/MC_C07', 'gen/MC_C07cbor_q.cfg', 4), ('gen/MC_C07', 'gen/MC_C07msgpack_q.cfg', 4),
              ('gen/MC_C07', 'gen/MC_C07ubjson_q4.cfg', 8), ('gen/MC_C07', 'gen/MC_C07bson_tok_q.cfg', 8), ('gen/MC_C07', 'gen/MC_C07cbor_rep.cfg', 1), ('gen/MC_C07', 'gen/MC_C07bson_rep.cfg', 2),
              ('gen/MC_C14', 'gen/MC_C14str_q.cfg', 16), ('gen/MC_C12', 'gen/MC_C12slice_q.cfg', 24), ('gen/MC_C12', 'gen/MC_C12filter_q.cfg', 80), ('gen/MC_C13', 'gen/MC_C13fn_q.cfg', 20),
              ('gen/MC_C11', 'gen/MC_C11atoms_q.cfg', 12), ('gen/MC_C15', 'gen/MC_C15_q.cfg', 10), ('gen/MC_C05enc', 'gen/MC_C05enc_q.cfg', 1), ('gen/MC_C05cbor', 'gen/MC_C05cbor.cfg', 1), ('gen/MC_C03csv', 'gen/MC_C03csv_q.cfg', 12), ('gen/MC_C13', 'gen/MC_C13slice_q.cfg', 1), ('gen/MC_C13', 'gen/MC_C13cmp.cfg', 8)],
    'thorough': [('gen/MC_C02tok', 'gen/MC_C02tok.cfg', 1), ('gen/MC_C02char', 'gen/MC_C02char_q.cfg', 2), ('gen/MC_C03', 'gen/MC_C03atoms_t.cfg', 1), ('gen/MC_C07', 'gen/MC_C07cbor_q.cfg', 1),
                 ('gen/MC_C07', 'gen/MC_C07cbor_tok_q.cfg', 2), ('gen/MC_C07', 'gen/MC_C07msgpack_q.cfg', 1), ('gen/MC_C07', 'gen/MC_C07msgpack_tok_q.cfg', 2), ('gen/MC_C07', 'gen/MC_C07ubjson_q4.cfg', 1),
                 ('gen/MC_C07', 'gen/MC_C07ubjson_tok_q.cfg', 2), ('gen/MC_C07', 'gen/MC_C07bson_tok_q.cfg', 1), ('gen/MC_C07', 'gen/MC_C07cbor_rep.cfg', 1), ('gen/MC_C07', 'gen/MC_C07msgpack_rep.cfg', 1),
                 ('gen/MC_C07', 'gen/MC_C07ubjson_rep.cfg', 1), ('gen/MC_C07', 'gen/MC_C07bson_rep.cfg', 1), ('gen/MC_C14', 'gen/MC_C14str_q.cfg', 2), ('gen/MC_C12', 'gen/MC_C12slice_q.cfg', 3),
                 ('gen/MC_C12', 'gen/MC_C12filter_q.cfg', 8), ('gen/MC_C12', 'gen/MC_C12seg_q.cfg', 20), ('gen/MC_C13', 'gen/MC_C13fn_q.cfg', 2), ('gen/MC_C13', 'gen/MC_C13wrap_q.cfg', 30),
                 ('gen/MC_C11', 'gen/MC_C11atoms_q.cfg', 3), ('gen/MC_C11', 'gen/MC_C11pairs_q.cfg', 20), ('gen/MC_C15', 'gen/MC_C15_q.cfg', 2), ('gen/MC_C05enc', 'gen/MC_C05enc_t.cfg', 1), ('gen/MC_C05cbor', 'gen/MC_C05cbor.cfg', 1), ('gen/MC_C03csv', 'gen/MC_C03csv_q.cfg', 1)],
}


def build():
    return vf.build('c05', ['c05.cpp'], cxx='clang++', opt='-O0', flags=FLAGS)


def thin(path, k, tag):
    if k <= 1:
        return path
    out = path + '.every%d' % k
    if not os.path.exists(out):
        with open(path) as src, open(out + '.tmp', 'w') as dst:
            for i, line in enumerate(src):
                if i % k == 0:
                    dst.write(line)
        os.rename(out + '.tmp', out)
    return out


def sig(r):
    c = r.get('case') if isinstance(r.get('case'), dict) else {}
    s = {'what': r.get('what') or r.get('k'), 'ep': r.get('ep')}
    if 't' in c and isinstance(c['t'], list):
        s['text'] = bytes(c['t']).decode('latin1')
    elif 'csv' in c:
        s['text'] = 'csv:' + bytes(c['csv']).decode('latin1')
    elif 'b' in c:
        s['format'] = c.get('f'); s['bytes'] = bytes(c['b']).hex()
    elif 'e' in c:
        s['expr'] = bytes(c['e']).decode('latin1')
    elif 'ex' in c:
        s['expr'] = bytes(c['ex'][0]).decode('latin1')
    elif 's' in c:
        s['input'] = json.dumps(c['s'])[:300]
    elif 'patch' in c:
        s['input'] = json.dumps(c['patch'])[:300]
    elif c.get('k') == 'enc':
        s['input'] = json.dumps({'v': c.get('v'), 'o': c.get('o')})[:500]
    if r.get('x'):
        s['variant'] = r['x']
    if r.get('what') in ('AssertionError', 'ForeignException') and r.get('detail'):
        s['detail'] = r['detail'][:120]
    if r.get('k') in ('signal', 'terminate'):
        s['what'] = 'does-not-terminate' if r.get('sig') == 26 else 'fatal-signal-or-sanitizer-report'
    return s


def setup():
    build()


def run_all(rep, binary, path, totals, traces, lite=False):
    """run all shards; a shard that dies names its case (signal record) -> resume behind it"""
    pending = [(i, 0) for i in range(vf.NCPU)]
    rounds = 0
    while pending and rounds < 12:
        rounds += 1
        nxt = []
        for shard, start in pending:
            pass
        # run the pending shards in parallel
        import concurrent.futures as cf
        def one(job):
            shard, start = job
            cmd = [binary, '--cases', path, '--shard', '%d/%d' % (shard, vf.NCPU), '--start', str(start)] + (['--lite'] if lite else [])
            p = subprocess.run(cmd, stdout=subprocess.PIPE, stderr=subprocess.PIPE, env=dict(os.environ, **ENV), timeout=3000)
            return shard, p.returncode, p.stdout.decode(errors='replace'), p.stderr.decode(errors='replace')
        with cf.ThreadPoolExecutor(max_workers=vf.NCPU) as ex:
            results = list(ex.map(one, pending))
        for shard, rc, out, err in results:
            died_at = None
            for line in out.splitlines():
                try:
                    r = json.loads(line)
                except ValueError:
                    continue
                k = r.get('k')
                if k == 'stat':
                    for kk, vv in r.items():
                        if isinstance(vv, int) and kk != 'k':
                            totals[kk] = totals.get(kk, 0) + vv
                elif k == 'trace':
                    traces.append(r)
                elif k == 'mismatch':
                    rep.violation(sig(r), r['case'], {'ep': r.get('ep'), 'out': r.get('out'), 'detail': r.get('detail')})
                elif k in ('signal', 'terminate'):
                    try:
                        case = json.loads(r['case'])
                    except Exception:
                        case = {}
                    rr = dict(r, case=case)
                    report = [l for l in err.splitlines() if 'ERROR' in l or 'runtime error' in l or 'SUMMARY' in l][:4]
                    rep.violation(sig(rr), case, {'signal': r.get('sig'), 'report': report})
                    died_at = True
            if rc == 23 and not died_at:
                rep.violation({'what': 'leak', 'shard_input': os.path.basename(path)}, {'input': path, 'shard': shard}, {'report': [l for l in err.splitlines() if 'leak' in l.lower()][:4]})
            elif rc != 0 and not died_at:
                raise vf.InfraError('c05 shard %d failed rc=%s without naming a case:\n%s' % (shard, rc, err[-1500:]))
            if died_at:
                # find the index of the case in flight: re-read is expensive; the harness prints idx in mismatch/trace only, so resume by line search
                idx = None
                needle = json.dumps(case, separators=(',', ':'))
                with open(path) as fh:
                    for i, line in enumerate(fh):
                        if i % vf.NCPU == shard and line.strip() == r['case'].strip():
                            idx = i
                            break
                if idx is not None:
                    nxt.append((shard, idx + 1))
        pending = nxt


def run(tier):
    rep = vf.Report(PROP, tier)
    binary = build()
    totals, traces = {}, []
    used = []
    for mod, cfg, k in INPUTS[tier]:
        if not os.path.exists(os.path.join(vf.SPEC, cfg)):
            continue
        g = vf.tlc_gen(mod, cfg, timeout=2400)
        rep.add_tlc(g[1])
        p = thin(g[0], k, cfg)
        used.append('%s (every %d)' % (cfg, k))
        run_all(rep, binary, p, totals, traces, lite=(tier == 'quick'))
    lines = [json.dumps({'ep': t['ep'], 'out': t['out']}) for t in traces]
    v = vf.validate_traces('trace/Trace_C05', 'trace/Trace_C05.cfg', lines, nshards=2, max_fail=5)
    rep.coverage['states'] += v['states']
    rep.coverage['transitions'] += v['transitions']
    for i in v['rejected']:
        rep.violation({'what': 'outcome-rejected-by-spec', 'ep': traces[i]['ep'], 'out': traces[i]['out']}, traces[i], None)
    # de-duplicate violations by (what, ep): one replay per root symptom
    seen, uniq = set(), []
    known = vf.load_known(PROP)
    for x in rep.violations:
        # a violation that a listed finding explains is grouped under that finding; anything else by (symptom, entry point),
        # so that a listed finding never hides a different failure of the same entry point
        kid = next((i for i, e in enumerate(known) if vf.sig_matches(e.get('match', {}), x['sig'])), None)
        key = ('known', kid) if kid is not None else (x['sig'].get('what'), x['sig'].get('ep'), x['sig'].get('detail'))
        if key not in seen:
            seen.add(key)
            uniq.append(x)
    rep.violations = uniq
    cov = rep.coverage
    cov['traces_validated_against_impl'] = totals.get('calls', 0)
    cov['evaluations'] = totals.get('calls', 0)
    cov['distinct_nontrivial'] = totals.get('cases', 0)
    cov['outcomes'] = {k: totals.get(k, 0) for k in ('returned', 'error_codes', 'json_exceptions', 'assertion_errors', 'foreign_exceptions')}
    cov['sampled_trace_lines_validated'] = v['validated']
    cov['inputs'] = used
    cov['exhaustive'] = False
    cov['rule'] = ('inputs = the (thinned) case files of the JSON text, binary format, JSON Pointer, JSONPath, JMESPath, JSON Schema and JSON Patch generators; '
                   'expression strings additionally in every truncation up to 24 characters and with characters substituted from a 25-character set; schemas with '
                   'each keyword value replaced by 8 JSON values; every input goes to all entry points of its kind (decoders via bytes/stream/cursor, compilers, '
                   'evaluators, re-encoders, CSV/TOON/URI parsers for texts); CBOR tag family (MC_C05cbor): 3025 tagged items - multi-dimensional arrays (tags 40 / 1040) with extents at the '
                   '2^32 / 2^62 / 2^63 / 2^64 boundaries, typed arrays 64-87 with lengths around the element sizes, bignums, decimal fractions / bigfloats with boundary exponents and '
                   'mantissas, the other interpreted tags with every kind of content, string references; encoder side (MC_C05enc): 50 values (doubles by bit pattern at every magnitude boundary incl. +-DBL_MAX, '
                   'subnormals, inf, NaN; integer boundaries; strings; byte strings; big numbers; containers) x option sets (defaults; float_format x precision in full; every other '
                   'json_options field moved alone through its values; pretty-print layouts with small line length limits) through 12 text / binary encoder entry points; '
                   'a case is one input; calls are counted by the harness')
    cov['samples'] = [json.loads(x) for x in lines[:3]]
    rep.assumptions += ['out-of-bounds access, undefined behaviour and leaks are detected by ASan/UBSan/LSan acting as sensors (clang default check groups); no coverage-guided search',
                        'per (outcome kind, entry point) only the first failing input is reported']
    return rep.finish(dict(harness='c05'))


def replay(path):
    d = json.load(open(path))
    binary = build()
    recs = vf.run_one(binary, d['case'], env=ENV, timeout=300)
    bad = [r for r in recs if r.get('k') in ('mismatch', 'signal', 'terminate', 'crash')]
    for r in bad:
        print(json.dumps({k: v for k, v in r.items() if k != 'case'})[:800])
    if bad:
        print('VIOLATION property=%s replay=%s' % (PROP, path))
        return 1
    print('all outcomes allowed on this tree')
    return 0
