ALL = ['C02']
