"""C04 - Numbers survive conversion between text and binary exactly.
Spec: BigNat (true integer arithmetic on base-10^4 limbs), JsonText/JsonGrammar (number grammar and
native-range classification), exact round-half-even rounding of integers to binary64.
Binding: V - TLC enumerates operands centred on the implementation's limb boundaries, literals around
the native-range boundaries and integers whose correctly rounded double is decidable; the harness
records what jsoncons::bigint, the JSON parser and the double printer compute; Trace_C04 validates
every record (identities for / % << >>, digit-for-digit conversions, literal classes, rounding, and
for every float16 value / strided float32 / seeded doubles: valid number text, <= 17 significant
digits, stays a double, parses back to the same bits)."""
import json, os
import vf

PROP = 'C04'
CFG = {'quick': 'gen/MC_C04_q.cfg', 'thorough': 'gen/MC_C04_t.cfg'}


def setup():
    vf.build('c04', ['c04.cpp'])
    vf.tlc_gen('gen/MC_C04', CFG['quick'], timeout=600)


def run(tier):
    rep = vf.Report(PROP, tier)
    binary = vf.build('c04', ['c04.cpp'])
    g = vf.tlc_gen('gen/MC_C04', CFG[tier], timeout=1500)
    rep.add_tlc(g[1])
    recs = vf.run_shards(binary, g[0], timeout=900)
    recs += vf.run_shards(binary, g[0], args=['--sweep', 'half'], timeout=600)
    recs += vf.run_shards(binary, g[0], args=['--sweep', 'float', '--stride', '1000003' if tier == 'quick' else '40009'], timeout=600)
    recs += vf.run_shards(binary, g[0], args=['--sweep', 'double', '--stride', '500' if tier == 'quick' else '20000', '--seed', str(rep.seed)], timeout=600)
    tr = [r for r in recs if r.get('k') == 'trace']
    def csig(r):
        return {'what': 'crash', 'case': json.dumps(r.get('case'))[:300]}
    vf.g_triage(rep, binary, [r for r in recs if r.get('k') != 'trace'], csig)
    bad_exc = [r for r in tr if 'exception' in r]
    for r in bad_exc[:5]:
        rep.violation({'what': 'exception', 'e': r['e'], 'op': r.get('op')}, {x: r[x] for x in r if x in ('e', 'op', 'a', 'b', 'sh', 'text', 'n')}, {'exception': r['exception']})
    tr = [r for r in tr if 'exception' not in r]
    lines = [json.dumps({k: v for k, v in r.items() if k not in ('k', 'idx')}) for r in tr]
    v = vf.validate_traces('trace/Trace_C04', 'trace/Trace_C04.cfg', lines, max_fail=6, timeout=2400)
    rep.coverage['states'] += v['states']
    rep.coverage['transitions'] += v['transitions']
    for i in v['rejected']:
        r = tr[i]
        rep.violation({'e': r['e'], 'op': r.get('op'), 'input': json.dumps({x: r[x] for x in r if x in ('a', 'b', 'sh', 'text', 'n', 'bits')})[:400]},
                      {x: r[x] for x in r if x not in ('k', 'idx')}, None)
    cov = rep.coverage
    cov['traces_validated_against_impl'] = v['validated']
    cov['evaluations'] = len(lines)
    kinds = {}
    for r in tr:
        kinds[r['e']] = kinds.get(r['e'], 0) + 1
    cov['records_by_kind'] = kinds
    cov['distinct_nontrivial'] = len(lines)
    cov['exhaustive'] = False
    cov['rule'] = ('arith: signed operands {0, 1, 2, 9999, 10^4, 2^k-2..2^k+2 for k at the 32-bit limb boundaries up to 2^256, a 40-digit number} x small/limb-sized '
                   'right operands x {+ - * / % compare}, shifts by 0,1,31..33,63..65,100; conv: decimal/hex/byte conversions of every operand; lit: integer '
                   'literals 2^k-2..2^k+2 for k in 31,32,53,63,64 with both signs; round: 68 integers in [2^52, 2^65] incl. exact midpoints and powers of ten, '
                   'each in 5 spellings; dbl: every finite float16 value, float32 values at a fixed stride, seeded random doubles (VERIF_SEED), and (TLC-generated) every binary64 exponent field 0..2046 x 8 significand fields at the edges and the middle of the binade (exact powers of two, their neighbours, all-ones) x both signs')
    cov['bounds'] = open(os.path.join(vf.SPEC, CFG[tier])).read().split('CONSTANTS')[1].split()
    cov['samples'] = [json.loads(lines[0]), json.loads(lines[-1])] if lines else []
    rep.assumptions += ['correct rounding of arbitrary long decimal literals and minimality of the printed digits are outside this check (DESIGN 5/C04)',
                        'right shift is checked for non-negative values only; division is truncating (C++ semantics)']
    return rep.finish(dict(harness='c04'))


def replay(path):
    d = json.load(open(path))
    line = json.dumps(d['case'])
    v = vf.validate_traces('trace/Trace_C04', 'trace/Trace_C04.cfg', [line])
    print(line[:600])
    if v['rejected']:
        print('recorded observation rejected by Trace_C04 (re-run the check to record a fresh observation from the current tree)')
        print('VIOLATION property=%s replay=%s' % (PROP, path))
        return 1
    print('accepted')
    return 0
