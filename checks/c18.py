"""C18 - CSV and TOON text round-trip tabular and tree data.
Spec: Csv (RFC 4180 reader as a character-level state machine generalised by the documented csv options, field typing,
the three mappings, the quoting rule MustQuote, a reference writer, the property's proviso SideCond; TOON value space and
round-trip law).  TLC enumerates (options, table) / (options, value) cases and checks inside the model, on every case, that
the proviso is sufficient (RoundTripLaw: ReadTable(SpecEncode(t,o),o) = t) and that the quoting rule is necessary.
G: the table / value encoded and decoded by the real library (json and ojson, string and stream overloads) must come back
equal (objects as maps).
V: every execution (table, options, encoded text, decoded value) is recorded and validated by Trace_C18, which re-reads the
recorded text with the SPEC's CSV reader - so a field that needs quotes must be quoted, quotes escaped, header and line breaks
in place - and requires the library's decoded value to equal the table.
Cases that fall into a known-deviation class of the pinned tree (notes/C18.md) stay generated and strictly predicted; the
generator only tags them (field dev) and a mismatch on a tagged case gets the coarse signature {dev, what}, matched against
known_findings.jsonl."""
import json, os, glob, random
import vf

PROP = 'C18'
CSV = {'quick': ['gen/MC_C18field_q.cfg', 'gen/MC_C18pair_q.cfg', 'gen/MC_C18grid_q.cfg', 'gen/MC_C18names_q.cfg'],
       'thorough': ['gen/MC_C18field_t.cfg', 'gen/MC_C18pair_t.cfg', 'gen/MC_C18grid_t.cfg', 'gen/MC_C18names_t.cfg']}
TOON = {'quick': ['gen/MC_C18toon_q.cfg'], 'thorough': ['gen/MC_C18toon_t.cfg']}
CFG = {t: CSV[t] + TOON[t] for t in CSV}
TRACE = ('trace/Trace_C18', 'trace/Trace_C18.cfg')
DEV_TRACE_SAMPLE = 200      # tagged trace lines validated per generator file (they are expected to be rejected)


def text_of(cps):
    try:
        return ''.join(chr(c) for c in cps if isinstance(c, int))
    except Exception:
        return '?'


def case_key(c):
    if not isinstance(c, dict):
        return str(c)[:300]
    if c.get('k') == 'toon':
        return json.dumps({'v': c.get('v'), 'indent': c.get('indent'), 'delim': c.get('delim'), 'lm': c.get('lm')})
    return json.dumps({'o': c.get('o'), 'names': c.get('names'), 'rows': c.get('rows')})


def sig(r):
    c = r.get('case')
    dev = ','.join(c.get('dev', [])) if isinstance(c, dict) else ''
    what = r.get('what', 'crash' if r.get('crash') else '?')
    if r.get('route') == 'rows-with-header':      # this route writes the names as ordinary fields: the raw-header deviation does not apply to it
        return {'dev': '', 'what': what, 'route': 'rows-with-header', 'case': case_key(c)}
    if dev:
        return {'dev': dev, 'what': what}
    return {'dev': '', 'what': what, 'case': case_key(c)}      # flavour / route stay in the detail


def gens(tier):
    out = []
    for c in CFG[tier]:
        mod = 'gen/MC_C18toon' if 'toon' in c else 'gen/MC_C18'
        out.append((c,) + vf.tlc_gen(mod, c, timeout=2400))
    return out


def setup():
    vf.build('c18', ['c18.cpp'])
    gens('quick')


def _read_lines(pattern):
    lines = []
    for f in sorted(glob.glob(pattern)):
        with open(f) as fh:
            lines += [l.rstrip('\n') for l in fh if l.strip()]
        os.unlink(f)
    return lines


def _validate(lines, **kw):
    """validate_traces, retried once with fewer parallel JVMs when a TLC process died without output (seen under
    memory pressure from concurrent checks; a rejection always comes with TLC's postcondition message)"""
    try:
        return vf.validate_traces(TRACE[0], TRACE[1], lines, **kw)
    except vf.InfraError as e:
        if 'failed to run' not in str(e):
            raise
        vf.log('[c18] trace validation did not run, retrying with 4 shards: %s' % str(e)[-300:])
        kw['nshards'] = min(4, kw.get('nshards') or 4)
        return vf.validate_traces(TRACE[0], TRACE[1], lines, **kw)


def _replay_file(rep, binary, path, totals, stats):
    """one generator file: harness over all cases (G), then trace validation (V)"""
    prefix = os.path.join(vf.ensure(os.path.join(vf.WORK, 'run')), 'c18tr-%d-%d' % (os.getpid(), random.randrange(10**9)))
    recs = vf.run_shards(binary, path, args=['--trace', prefix])
    mism_idx = {r.get('idx') for r in recs if r.get('k') == 'mismatch'}
    vf.g_triage(rep, binary, recs, sig, totals=totals)
    lines = _read_lines(prefix + '.[0-9]*')
    dev_lines = _read_lines(prefix + '.dev.[0-9]*')
    stats['dev_cases'] += len(dev_lines)
    v = _validate(lines, timeout=2400, max_fail=5)
    rep.coverage['states'] += v['states']
    rep.coverage['transitions'] += v['transitions']
    stats['validated'] += v['validated']
    for i in v['rejected']:
        x = json.loads(lines[i])
        if x.get('idx') in mism_idx:
            continue                      # already reported by the G comparison
        case = _case_at(path, x['idx'])
        rep.violation({'dev': '', 'what': 'trace-rejected-by-spec', 'case': case_key(case)}, case,
                      {'text': text_of(x.get('text', [])), 'dec': x.get('dec')})
    # tagged cases: a sample goes through the same validation; a rejection there carries the coarse signature
    random.Random(0).shuffle(dev_lines)
    sample = dev_lines[:DEV_TRACE_SAMPLE]
    if sample:
        v = _validate(sample, nshards=2, timeout=1200, max_fail=2)
        stats['dev_validated'] += v['validated']
        for i in v['rejected']:
            x = json.loads(sample[i])
            rep.violation({'dev': ','.join(x.get('dev', [])), 'what': 'trace-rejected-by-spec'}, _case_at(path, x['idx']),
                          {'text': text_of(x.get('text', [])), 'dec': x.get('dec')})


def _case_at(path, idx):
    with open(path) as fh:
        for i, line in enumerate(fh):
            if i == idx:
                return json.loads(line)
    return None


def run(tier):
    rep = vf.Report(PROP, tier)
    binary = vf.build('c18', ['c18.cpp'])
    # the spec is validated against the RFC 4180 examples and the documented typed readings before it is used
    r = vf.tlc_check('gen/MC_C18valid', 'gen/MC_C18valid.cfg', workers=1, timeout=600)
    if r['rc'] != 0:
        raise vf.InfraError('Csv.tla disagrees with its validation corpus (spec error, not a violation):\n' + r['tail'][-2000:])
    g = gens(tier)
    totals, stats = {}, dict(validated=0, dev_cases=0, dev_validated=0)
    ncases = {}
    for cfg, path, meta in g:
        rep.add_tlc(meta)
        ncases[cfg] = meta.get('cases', 0)
        _replay_file(rep, binary, path, totals, stats)
    cov = rep.coverage
    cov['traces_validated_against_impl'] = stats['validated'] + stats['dev_validated']
    cov['cases_replayed'] = totals.get('cases', 0)
    cov['evaluations'] = totals.get('checks', 0)
    cov['distinct_nontrivial'] = totals.get('cases', 0)
    cov['known_deviation_cases'] = stats['dev_cases']
    cov['known_deviation_mismatches'] = totals.get('dev_mismatches', 0)
    cov['cases_per_generator'] = ncases
    cov['exhaustive'] = True
    cov['rule'] = ('CSV: every (options, table) with options = field_delimiter x (quote_char, quote_escape_char) x (quote_style, infer_types) admitted by '
                   'the proviso x line_delimiter x (mapping, header handling) and table in: (field) 1x1 over every string of <= 2 characters from the '
                   'option-relative alphabet {delimiter, quote, escape, other delimiter, other quote, CR, LF, space, digit, letter, e-acute} plus tokens '
                   '(true, null, 12, -1, 1.5, "a"-like, CRLF, non-BMP, ...) and scalars; (pair) 1x2 and 2x1; (grid) 2x2, 1x3/3x1 (thorough 2x3, 3x2, 3x3) '
                   'over smaller cell sets; (names) arrays-of-objects and column objects with column names that are empty / contain delimiter, quote, '
                   'line break, space, non-ASCII / are unsorted.  TOON: every value of depth <= 2 (thorough: wrapped once more) over {1, "x,"}, arrays <= 2, '
                   'keys a,b, plus 37 boundary strings and 20 keys in every syntactic position, x delimiter x indent x length marker.  One case = one '
                   'distinct generated tuple; json and ojson, string and stream overloads.')
    cov['bounds'] = {c: open(os.path.join(vf.SPEC, c)).read().split('CONSTANTS')[1].split() for c in CFG[tier]}
    cov['samples'] = vf.sample_lines(g[1][1], 2) + vf.sample_lines(g[-1][1], 1)
    rep.assumptions += ['TOON has a single number kind: an integral double is written with integer digits and read back as an integer, so TOON numbers are compared by value',
                        
        'scope = Csv!InScope: well-formed options (distinct delimiter/quote/escape, none a space or line break; line_delimiter in LF, CRLF, CR), '
        'rectangular tables with >= 1 row and >= 1 column (RFC 4180 ABNF), unique column names, the proviso (quote_style all/nonnumeric with inference, '
        'or inference off and strings only), quote_style none only for fields that need no quotes',
        'numbers are small integers; under inference an unquoted text other than null/true/false/decimal integer is not decided by the spec',
        'quote_escape_char different from quote_char: escape followed by anything but quote/escape is unspecified',
        'TOON syntax is not modelled: only the value space and decode(encode(v)) = v; indent >= 1',
        'cases in a known-deviation class (notes/C18.md) are generated and compared like all others, only tagged (field dev)']
    return rep.finish(dict(harness='c18'))


def replay(path):
    d = json.load(open(path))
    binary = vf.build('c18', ['c18.cpp'])
    case = d['case']
    recs = vf.run_one(binary, case)
    bad = [r for r in recs if r.get('k') in ('mismatch', 'terminate', 'signal', 'crash')]
    for r in bad:
        print(json.dumps({k: (text_of(v) if k == 'text' else v) for k, v in r.items() if k != 'case'})[:1500])
    print('case=%s' % json.dumps(case)[:1500])
    tr = [r for r in recs if r.get('k') == 'trace']
    for x in tr:
        print('text=%r' % text_of(x.get('text', [])))
    if not bad and tr:
        lines = []
        for x in tr:
            y = {k: v for k, v in x.items() if k not in ('k', 'kind')}
            y['k'] = x['kind']
            lines.append(json.dumps(y))
        v = vf.validate_traces(TRACE[0], TRACE[1], lines, nshards=1, max_fail=1)
        if v['rejected']:
            print('recorded execution rejected by Trace_C18 (the spec reader does not read the text back to the table, or the decoded value differs)')
            bad = tr
    if bad:
        print('VIOLATION property=%s replay=%s' % (PROP, path))
        return 1
    print('no mismatch on this tree')
    return 0
