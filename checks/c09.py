"""C09 - basic_json behaves as a value-semantic JSON container.
Spec: Container (pool of slots, one action per public mutating operation; json = key order,
ojson = insertion order; moved-from = unspecified).  TLC checks the model invariants
(unique keys, key order, independence of slots) while enumerating the state graph.
Binding: G, one conformance test per TRANSITION (witness history + expected state of every
slot), for json and ojson."""
import json, os
import vf

PROP = 'C09'
CFG = {'quick': [('gen/MC_C09json_q.cfg', False), ('gen/MC_C09ojson_q.cfg', True)],
       'thorough': [('gen/MC_C09json_t.cfg', False), ('gen/MC_C09ojson_t.cfg', True)]}


def sig(r):
    c = r['case']
    s = {'history': json.dumps(c.get('h')) if isinstance(c, dict) else str(c)[:300]}
    for k in ('flavour', 'what'):
        if k in r:
            s[k] = r[k]
    return s


def bins():
    # built with AddressSanitizer: an operation that reads a part of its own target after freeing it (a = a[0]) mostly still "works" without it
    san = ['-g', '-fsanitize=address', '-fno-omit-frame-pointer']
    return {False: vf.build('c09', ['c09.cpp'], cxx='clang++', flags=san), True: vf.build('c09o', ['c09.cpp'], cxx='clang++', flags=san + ['-DORDERED'])}


def setup():
    bins()
    for c, _ in CFG['quick']:
        vf.tlc_gen('gen/MC_C09', c, timeout=1200)
    vf.build('c09laws', ['c09laws.cpp'])
    vf.tlc_gen('gen/MC_C09laws', 'gen/MC_C09laws.cfg', timeout=600)


def run(tier):
    # a sanitizer report aborts the process (SIGABRT), so the harness names the case in flight and the driver reproduces it
    os.environ.setdefault('ASAN_OPTIONS', 'abort_on_error=1:detect_leaks=0:handle_abort=0:handle_segv=0:allocator_may_return_null=1')
    rep = vf.Report(PROP, tier)
    b = bins()
    totals = {}
    samples = []
    for c, ordered in CFG[tier]:
        g = vf.tlc_gen('gen/MC_C09', c, timeout=2400)
        t = vf.g_replay(rep, b[ordered], [g], sig)
        for k, v in t.items():
            totals[k] = totals.get(k, 0) + v
        samples += vf.sample_lines(g[0], 1)
    # (c) range insertion of many pairs with repeated keys (first wins, existing wins)
    for c, ordered in (('gen/MC_C09range_json.cfg', False), ('gen/MC_C09range_ojson.cfg', True)):
        g = vf.tlc_gen('gen/MC_C09range', c, timeout=600)
        t = vf.g_replay(rep, b[ordered], [g], sig)
        for k, v in t.items():
            totals[k] = totals.get(k, 0) + v
    # (b) relational laws: observations of the real operators validated by Trace_C09 (V binding)
    bl = vf.build('c09laws', ['c09laws.cpp'])
    gl = vf.tlc_gen('gen/MC_C09laws', 'gen/MC_C09laws.cfg', timeout=600)
    rep.add_tlc(gl[1])
    recs = vf.run_shards(bl, gl[0])
    tr = sorted([r for r in recs if r.get('k') == 'trace'], key=lambda r: r['idx'])
    def lsig(r):
        c = r['case'] if isinstance(r.get('case'), dict) else {}
        return {'what': 'laws', 'x': c.get('x'), 'y': c.get('y')}
    vf.g_triage(rep, bl, [r for r in recs if r.get('k') != 'trace'], lsig)
    lines = [json.dumps({k: v for k, v in r.items() if k not in ('k', 'idx')}) for r in tr]
    v = vf.validate_traces('trace/Trace_C09', 'trace/Trace_C09.cfg', lines, max_fail=30)
    rep.coverage['states'] += v['states']
    rep.coverage['transitions'] += v['transitions']
    for i in v['rejected']:
        r = tr[i]
        rep.violation({'what': 'law-violated', 'x': r['x']['name'], 'y': r.get('y', {}).get('name', r.get('t'))},
                      {'x': r['x']['name'], 'y': r.get('y', {}).get('name', r.get('t')), 'conv': r['e'] == 'conv'},
                      {k: v2 for k, v2 in r.items() if k not in ('x', 'y')})
    cov = rep.coverage
    cov['law_observations_validated'] = v['validated']
    cov['traces_validated_against_impl'] = totals.get('cases', 0) + v['validated']
    totals['cases'] = totals.get('cases', 0) + len(lines)
    cov['evaluations'] = totals.get('checks', 0)
    cov['distinct_nontrivial'] = totals.get('cases', 0)
    cov['exhaustive'] = True
    cov['rule'] = ('every transition of the Container model reachable within MaxHist operations (BFS over distinct abstract states, VIEW hides the '
                   'witness history): assign of 7 literal kinds (incl. short/long string, empty object/array), copy/move assignment and construction, '
                   'swap, insert_or_assign, try_emplace, erase(key), merge, merge_or_update, push_back, insert(pos), operator[]=, erase(pos), '
                   'erase(range), resize, clear, reserve over NSlots slots and 3 keys, incl. self-assignment/self-swap/self-insertion; the hinted overloads of insert_or_assign / try_emplace / merge / merge_or_update are replayed with the hint at every position; after each '
                   'history: projection of every slot, lookups (contains/find/count/at/[]/size/empty), copy equality; json and ojson; one case = one edge; '
                   '(b) all ordered pairs of 54 value descriptors (every storage kind x boundary values, tags, json_ref wrappers) and all '
                   '(descriptor, integer type) conversions, laws of spec/ValueLaws.tla validated on the recorded outcomes')
    cov['bounds'] = {c: open(os.path.join(vf.SPEC, c)).read().split('CONSTANTS')[1].split() for c, _ in CFG[tier]}
    cov['samples'] = samples
    rep.assumptions += ['moved-from values are only required to be usable (dump, copy, assign, destroy)',
                        'the witness history chosen for an edge depends on TLC worker scheduling; the set of model transitions does not']
    return rep.finish(dict(harness='c09'))


def replay(path):
    os.environ.setdefault('ASAN_OPTIONS', 'abort_on_error=1:detect_leaks=0:handle_abort=0:handle_segv=0:allocator_may_return_null=1')
    d = json.load(open(path))
    b = bins()
    bad = []
    if 'h' not in d['case']:
        bl = vf.build('c09laws', ['c09laws.cpp'])
        recs = vf.run_one(bl, d['case'])
        tr = [r for r in recs if r.get('k') == 'trace']
        lines = [json.dumps({k: v for k, v in r.items() if k not in ('k', 'idx')}) for r in tr]
        v = vf.validate_traces('trace/Trace_C09', 'trace/Trace_C09.cfg', lines)
        print(json.dumps(tr)[:1500])
        if v['rejected'] or not tr:
            print('VIOLATION property=%s replay=%s' % (PROP, path))
            return 1
        print('laws hold on this tree')
        return 0
    for ordered in (False, True):
        recs = vf.run_one(b[ordered], d['case'])
        bad += [r for r in recs if r.get('k') != 'stat' and r.get('flavour', '') == d['sig'].get('flavour', r.get('flavour', ''))]
    for r in bad:
        print(json.dumps({k: v for k, v in r.items() if k != 'case'}))
    print('history=%s' % json.dumps(d['case'].get('h')))
    if bad:
        print('VIOLATION property=%s replay=%s' % (PROP, path))
        return 1
    print('no mismatch on this tree')
    return 0
