"""C03 - Decoding does not depend on how the input is delivered (JSON part).
Spec: JsonText (verdict, value, event sequence of every text).  Binding: G - every
TLC-generated text (valid, invalid, every strict prefix) is delivered contiguously
(compared with the spec's predicted events) and then in every composition into chunks
to the push parser, through stream/iterator sources with every buffer size, and to the
cursor / filtered cursor / read_to / staj iterator observers (compared with the
contiguous observation: same events on success, same error code on failure)."""
import json, os
import vf

PROP = 'C03'
CFG = {'quick': ['gen/MC_C03char_q.cfg', 'gen/MC_C03tok_q.cfg', 'gen/MC_C03atoms_q.cfg'],
       'thorough': ['gen/MC_C03char_t.cfg', 'gen/MC_C03tok_t.cfg', 'gen/MC_C03atoms_t.cfg']}


def text_of(case):
    try:
        return bytes(case['t']).decode('latin1')
    except Exception:
        return str(case)[:200]


def sig(r):
    s = {'text': text_of(r['case'])}
    for k in ('delivery', 'what', 'comments', 'trailing', 'base_ok', 'got_ok'):
        if k in r:
            s[k] = r[k]
    return s


BIN = {'quick': ['gen/MC_C07cbor_q.cfg', 'gen/MC_C07msgpack_q.cfg', 'gen/MC_C07ubjson_q4.cfg', 'gen/MC_C07bson_tok_q.cfg', 'gen/MC_C07bson_rep.cfg',
                 'gen/MC_C07cbor_rep.cfg', 'gen/MC_C07msgpack_rep.cfg', 'gen/MC_C07ubjson_rep.cfg'],
       'thorough': ['gen/MC_C07cbor_q.cfg', 'gen/MC_C07cbor_tok_q.cfg', 'gen/MC_C07msgpack_q.cfg', 'gen/MC_C07msgpack_tok_q.cfg', 'gen/MC_C07ubjson_q4.cfg',
                    'gen/MC_C07ubjson_tok_q.cfg', 'gen/MC_C07bson_tok_q.cfg', 'gen/MC_C07bson_rep.cfg', 'gen/MC_C07cbor_rep.cfg', 'gen/MC_C07msgpack_rep.cfg', 'gen/MC_C07ubjson_rep.cfg']}


def bsig(r):
    c = r['case'] if isinstance(r.get('case'), dict) else {}
    s = {'format': c.get('f'), 'bytes': bytes(c.get('b', [])).hex() if 'b' in c else 'long a=%s b=%s head=%s' % (c.get('a'), c.get('b_'), bytes(c.get('prog', [[[]]])[0][0]).hex())}
    for k in ('delivery', 'base_ok', 'got_ok'):
        if k in r:
            s[k] = r[k]
    return s


CSV = {'quick': 'gen/MC_C03csv_q.cfg', 'thorough': 'gen/MC_C03csv_t.cfg'}


def csig(r):
    c = r['case'] if isinstance(r.get('case'), dict) else {}
    s = {'csv': bytes(c.get('csv', [])).decode('latin1')}
    for k in ('entry', 'opts', 'delivery', 'what'):
        if k in r:
            s[k] = r[k]
    return s


def gens(tier):
    return [vf.tlc_gen('gen/MC_C03', c, timeout=2400) for c in CFG[tier]]


def setup():
    vf.build('c03', ['c03.cpp'])
    vf.build('c03bin', ['c03bin.cpp'])
    vf.build('c03csv', ['c03csv.cpp'])
    vf.tlc_gen('gen/MC_C03csv', CSV['quick'], timeout=900)
    gens('quick')


def run(tier):
    rep = vf.Report(PROP, tier)
    binary = vf.build('c03', ['c03.cpp'])
    g = gens(tier)
    totals = vf.g_replay(rep, binary, g, sig, args=['--seed', str(rep.seed)])
    # binary formats: every byte string of the C07 spaces through bytes / stream (buffer sizes 1..9, default) / iterator sources, reader and cursor
    bbin = vf.build('c03bin', ['c03bin.cpp'])
    gb = [vf.tlc_gen('gen/MC_C07', c, timeout=2400) for c in BIN[tier] if os.path.exists(os.path.join(vf.SPEC, c))]
    gb.append(vf.tlc_gen('gen/MC_C03long', 'gen/MC_C03long.cfg', timeout=600))      # two items longer than the source chunk size after a scratch-buffer item
    tb = vf.g_replay(rep, bbin, gb, bsig)
    totals['deliveries'] = totals.get('deliveries', 0) + tb.get('deliveries', 0)
    totals['cases'] = totals.get('cases', 0) + tb.get('cases', 0)
    # CSV text: every string over the characters the CSV reader distinguishes x 6 option sets x every delivery
    tc = vf.g_replay(rep, vf.build('c03csv', ['c03csv.cpp']), [vf.tlc_gen('gen/MC_C03csv', CSV[tier], timeout=900)], csig)
    totals['deliveries'] += tc.get('checks', 0)
    totals['cases'] += tc.get('cases', 0)
    rep.coverage['csv_texts'] = tc.get('cases', 0)
    cov = rep.coverage
    cov['traces_validated_against_impl'] = totals.get('deliveries', 0)
    cov['evaluations'] = totals.get('deliveries', 0)
    cov['distinct_nontrivial'] = totals.get('cases', 0)
    cov['exhaustive'] = True
    cov['rule'] = ('texts = every viable prefix (plus minimal dead extensions) over a 25-character class alphabet / every short sequence of '
                   'whole tokens, as enumerated by TLC from spec/JsonText.tla; deliveries per text and option set = all 2^(n-1) compositions '
                   'into chunks (n<=7; single splits, uniform sizes and seeded random splits beyond) for two push-parser protocols, '
                   'stream_source buffer sizes 1..n+1 for reader and cursor, iterator source, string/filtered cursor, read_to (outer, inner), '
                   'staj array/object iterators; binary formats: every byte string of the listed C07 spaces x 23 deliveries; CSV: every string of up to 6 (thorough 7) characters over {letter, digit, comma, quote, LF, CR, space} (thorough + # ;) '
                   'x 6 option sets (mappings, header handling, trimming, comments, other delimiter / quote, column names, lossless numbers) x stream buffer sizes 1..n+1 for reader and cursor, iterator source, '
                   'every composition into chunks for the push parser, each compared with the contiguous reader / cursor; a case is non-trivial = one distinct input')
    cov['bounds'] = {c: open(os.path.join(vf.SPEC, c)).read().split('CONSTANTS')[1].split()[:6] for c in CFG[tier]}
    cov['samples'] = vf.sample_lines(g[1][0], 2)
    rep.assumptions += ['binary formats: differential only (bytes source vs stream sources with buffer sizes 1..9 and default, iterator source, cursor) over the C07 input spaces; CSV likewise differential (no verdict predicted)',
                        'binary cursors are not compared on maps whose keys are containers (no documented event image)',
                        'cursors are not compared on inputs that contain no value at all (empty / whitespace / comment only): a cursor reports those as an empty stream',
                        'semantic tags of string events (noesc hint) are not observables']
    return rep.finish(dict(harness='c03'))


def replay(path):
    d = json.load(open(path))
    case = d['case'] if isinstance(d.get('case'), dict) else {}
    if 'csv' in case:
        binary = vf.build('c03csv', ['c03csv.cpp'])
    elif ('b' in case or 'prog' in case) and 'f' in case:
        binary = vf.build('c03bin', ['c03bin.cpp'])
    else:
        binary = vf.build('c03', ['c03.cpp'])
    recs = vf.run_one(binary, d['case'])
    bad = [r for r in recs if r.get('k') != 'stat']
    for r in bad:
        print(json.dumps({k: v for k, v in r.items() if k != 'case'}))
    print('text=%r' % (text_of(d['case']) if 't' in case else json.dumps(case)[:300]))
    if bad:
        print('VIOLATION property=%s replay=%s' % (PROP, path))
        return 1
    print('no mismatch on this tree')
    return 0
