"""C13 - JMESPath evaluation follows the JMESPath specification.
Spec: Jmespath (evaluator over JsonValue written from the JMESPath specification, un-parser Show, Renderable);
TLC enumerates expression trees (bounded-exhaustive wrap layers, function/argument matrices, slice and
comparator matrices, identifier/literal renderings) against a document universe, checks the specification's
algebraic identities as invariants in the same runs, and emits (expression string, predicted result per
document).  Binding: G - the harness replays every case through jmespath::search and make_expression +
evaluate (throwing and error_code overloads, json and ojson), compares value / "an error was reported",
compiled vs one-shot agreement, and the document before/after.
Spec validation (infrastructure, not a verdict on jsoncons): the spec evaluates the official compliance suite
(spec/gen/MC_C13corpus.tla, produced by `python3 checks/c13.py mkcorpus` with the reference parser below) and
must reproduce every expected result; parse(Show(e)) = e is checked with the same parser on generated cases."""
import json, os, sys, re, glob
if __name__ == '__main__':
    sys.path.insert(0, os.path.join(os.path.dirname(os.path.abspath(__file__)), '..', 'lib'))
import vf

PROP = 'C13'
MODES_Q = ['gen/MC_C13wrap_q.cfg', 'gen/MC_C13deep_q.cfg', 'gen/MC_C13fn_q.cfg', 'gen/MC_C13slice_q.cfg',
           'gen/MC_C13cmp_q.cfg', 'gen/MC_C13ident_q.cfg']
MODES_T = ['gen/MC_C13wrap_t.cfg', 'gen/MC_C13deep_t.cfg', 'gen/MC_C13fn_t.cfg', 'gen/MC_C13slice_t.cfg',
           'gen/MC_C13cmp_t.cfg', 'gen/MC_C13ident_t.cfg']
CFG = {'quick': MODES_Q, 'thorough': MODES_T}
DOCS_CFG = 'gen/MC_C13docs.cfg'
RT_CFG = 'gen/MC_C13rt.cfg'          # round-trip sample: cases with their expression trees
VALID = ('gen/MC_C13valid', 'gen/MC_C13valid.cfg')


# ------------------------------------------------------------------------------------------------
# Reference parser: JMESPath expression string -> expression tree of spec/Jmespath.tla (nested lists).
# Top-down operator precedence with the binding powers of the reference implementation; used only to
# validate the specification (compliance corpus -> trees; parse(Show(tree)) = tree), never as an oracle
# for jsoncons.

class JmesSyntaxError(Exception):
    pass


_SIMPLE = {'.': 'dot', '*': 'star', ']': 'rbracket', ',': 'comma', ':': 'colon', '@': 'current', '(': 'lparen',
           ')': 'rparen', '{': 'lbrace', '}': 'rbrace'}
_BP = {'eof': 0, 'unquoted': 0, 'quoted': 0, 'literal': 0, 'raw': 0, 'rbracket': 0, 'rparen': 0, 'comma': 0, 'rbrace': 0,
       'number': 0, 'current': 0, 'expref': 0, 'colon': 0, 'pipe': 1, 'or': 2, 'and': 3, 'eq': 5, 'gt': 5, 'lt': 5,
       'ge': 5, 'le': 5, 'ne': 5, 'flatten': 9, 'star': 20, 'filter': 21, 'dot': 40, 'not': 45, 'lbrace': 50,
       'lbracket': 55, 'lparen': 60}
CUR = ['cur']


def cps(s):
    return [ord(c) for c in s]


def wire_of(v):
    """python JSON value -> JsonValue!Wire form (members sorted by key); floats are not representable"""
    if v is None:
        return ['null']
    if isinstance(v, bool):
        return ['bool', v]
    if isinstance(v, int):
        return ['int', v]
    if isinstance(v, float):
        raise ValueError('float')
    if isinstance(v, str):
        return ['str', cps(v)]
    if isinstance(v, list):
        return ['arr', [wire_of(x) for x in v]]
    if isinstance(v, dict):
        return ['obj', [[cps(k), wire_of(x)] for k, x in sorted(v.items(), key=lambda kv: cps(kv[0]))]]
    raise ValueError(type(v))


def tokenize(s):
    toks = []
    i, n = 0, len(s)
    while i < n:
        c = s[i]
        if c in ' \t\n\r':
            i += 1
        elif c.isascii() and (c.isalpha() or c == '_'):
            j = i + 1
            while j < n and s[j].isascii() and (s[j].isalnum() or s[j] == '_'):
                j += 1
            toks.append(('unquoted', s[i:j])); i = j
        elif c == '[':
            if s[i:i + 2] == '[]':
                toks.append(('flatten', '[]')); i += 2
            elif s[i:i + 2] == '[?':
                toks.append(('filter', '[?')); i += 2
            else:
                toks.append(('lbracket', '[')); i += 1
        elif c in _SIMPLE:
            toks.append((_SIMPLE[c], c)); i += 1
        elif c == '-' or c.isdigit():
            j = i + 1
            while j < n and s[j].isascii() and s[j].isdigit():
                j += 1
            if s[i:j] == '-':
                raise JmesSyntaxError('bare -')
            toks.append(('number', int(s[i:j]))); i = j
        elif c == '"':
            j = i + 1
            while j < n and s[j] != '"':
                j += 2 if s[j] == '\\' else 1
            if j >= n:
                raise JmesSyntaxError('unterminated quoted identifier')
            try:
                val = json.loads(s[i:j + 1])
            except ValueError:
                raise JmesSyntaxError('bad quoted identifier')
            if val == '':
                raise JmesSyntaxError('empty quoted identifier')
            toks.append(('quoted', val)); i = j + 1
        elif c == "'":
            j = i + 1
            out = []
            while j < n and s[j] != "'":
                if s[j] == '\\' and j + 1 < n and s[j + 1] == "'":
                    out.append("'"); j += 2
                else:
                    out.append(s[j]); j += 1
            if j >= n:
                raise JmesSyntaxError('unterminated raw string')
            toks.append(('raw', ''.join(out))); i = j + 1
        elif c == '`':
            j = i + 1
            out = []
            while j < n and s[j] != '`':
                if s[j] == '\\' and j + 1 < n and s[j + 1] == '`':
                    out.append('`'); j += 2
                else:
                    out.append(s[j]); j += 1
            if j >= n:
                raise JmesSyntaxError('unterminated literal')
            txt = ''.join(out)
            try:
                val = json.loads(txt)
            except ValueError:
                raise JmesSyntaxError('literal is not JSON (deprecated bare form): ' + txt)
            toks.append(('literal', val)); i = j + 1
        elif c == '|':
            if s[i:i + 2] == '||':
                toks.append(('or', '||')); i += 2
            else:
                toks.append(('pipe', '|')); i += 1
        elif c == '&':
            if s[i:i + 2] == '&&':
                toks.append(('and', '&&')); i += 2
            else:
                toks.append(('expref', '&')); i += 1
        elif c in '<>=!':
            two = s[i:i + 2]
            m = {'<=': 'le', '>=': 'ge', '==': 'eq', '!=': 'ne'}
            if two in m:
                toks.append((m[two], two)); i += 2
            elif c == '<':
                toks.append(('lt', c)); i += 1
            elif c == '>':
                toks.append(('gt', c)); i += 1
            elif c == '!':
                toks.append(('not', c)); i += 1
            else:
                raise JmesSyntaxError('bare =')
        else:
            raise JmesSyntaxError('unexpected character %r' % c)
    toks.append(('eof', None))
    return toks


class Parser:
    def __init__(self, text):
        self.t = tokenize(text)
        self.i = 0

    def cur(self):
        return self.t[self.i][0]

    def look(self, k):
        return self.t[min(self.i + k, len(self.t) - 1)][0]

    def adv(self):
        tok = self.t[self.i]; self.i += 1
        return tok

    def match(self, ty):
        if self.cur() != ty:
            raise JmesSyntaxError('expected %s, got %s' % (ty, self.cur()))
        return self.adv()

    def parse(self):
        e = self.expr(0)
        if self.cur() != 'eof':
            raise JmesSyntaxError('trailing %s' % self.cur())
        return e

    def expr(self, rbp):
        left = self.nud(self.adv())
        while rbp < _BP[self.cur()]:
            left = self.led(self.adv(), left)
        return left

    # ---- prefix position
    def nud(self, tok):
        ty, val = tok
        if ty == 'literal':
            return ['lit', wire_of(val)]
        if ty == 'raw':
            return ['raw', cps(val)]
        if ty == 'current':
            return CUR
        if ty == 'unquoted':
            if self.cur() == 'lparen':
                return self.call(val)
            return ['fld', cps(val)]
        if ty == 'quoted':
            if self.cur() == 'lparen':
                raise JmesSyntaxError('quoted function name')
            return ['fld', cps(val)]
        if ty == 'star':
            return ['vpr', CUR, CUR if self.cur() == 'rbracket' else self.proj_rhs(_BP['star'])]
        if ty == 'filter':
            return self.filter(CUR)
        if ty == 'flatten':
            return ['flt', CUR, self.proj_rhs(_BP['flatten'])]
        if ty == 'lbrace':
            return self.hash()
        if ty == 'lparen':
            e = self.expr(0)
            self.match('rparen')
            return ['par', e]
        if ty == 'not':
            return ['not', self.expr(_BP['not'])]
        if ty == 'lbracket':
            if self.cur() in ('number', 'colon'):
                return self.index_or_slice(CUR)
            if self.cur() == 'star' and self.look(1) == 'rbracket':
                self.adv(); self.adv()
                return ['prj', CUR, self.proj_rhs(_BP['star'])]
            return self.mlist()
        if ty == 'expref':
            return ['ref', self.expr(_BP['expref'])]
        raise JmesSyntaxError('unexpected %s' % ty)

    # ---- infix / postfix position
    def led(self, tok, left):
        ty, val = tok
        if ty == 'dot':
            if self.cur() == 'star':
                self.adv()
                return ['vpr', left, self.proj_rhs(_BP['star'])]
            return ['sub', left, self.dot_primary()]
        if ty == 'pipe':
            return ['pipe', left, self.expr(_BP['pipe'])]
        if ty == 'or':
            return ['or', left, self.expr(_BP['or'])]
        if ty == 'and':
            return ['and', left, self.expr(_BP['and'])]
        if ty in ('eq', 'ne', 'lt', 'le', 'gt', 'ge'):
            return ['cmp', ty, left, self.expr(_BP[ty])]
        if ty == 'flatten':
            return ['flt', left, self.proj_rhs(_BP['flatten'])]
        if ty == 'filter':
            return self.filter(left)
        if ty == 'lbracket':
            if self.cur() in ('number', 'colon'):
                return self.index_or_slice(left)
            self.match('star'); self.match('rbracket')
            return ['prj', left, self.proj_rhs(_BP['star'])]
        raise JmesSyntaxError('unexpected %s after expression' % ty)

    def dot_primary(self):
        ty = self.cur()
        if ty == 'unquoted':
            tok = self.adv()
            if self.cur() == 'lparen':
                return self.call(tok[1])
            return ['fld', cps(tok[1])]
        if ty == 'quoted':
            tok = self.adv()
            if self.cur() == 'lparen':
                raise JmesSyntaxError('quoted function name')
            return ['fld', cps(tok[1])]
        if ty == 'lbracket':
            self.adv()
            return self.mlist()
        if ty == 'lbrace':
            self.adv()
            return self.hash()
        raise JmesSyntaxError('bad token after dot: %s' % ty)

    def proj_rhs(self, bp):
        """what follows a projection is applied to each element; leftmost operand is the implicit element"""
        ty = self.cur()
        if _BP[ty] < 10:
            return CUR
        if ty in ('lbracket', 'filter'):
            return self.expr(bp)
        if ty == 'dot':
            self.adv()
            if self.cur() == 'star':
                self.adv()
                left = ['vpr', CUR, self.proj_rhs(_BP['star'])]
            else:
                left = self.dot_primary()
                if left[0] in ('mls', 'mhs'):
                    return left                   # reference implementation: chain is not continued here
            while bp < _BP[self.cur()]:
                left = self.led(self.adv(), left)
            return left
        raise JmesSyntaxError('bad projection right-hand side: %s' % ty)

    def filter(self, left):
        cond = self.expr(0)
        self.match('rbracket')
        rhs = CUR if self.cur() == 'flatten' else self.proj_rhs(_BP['filter'])
        return ['fil', left, cond, rhs]

    def index_or_slice(self, left):
        if self.cur() == 'number' and self.look(1) == 'rbracket':
            n = self.adv()[1]; self.adv()
            return ['idx', left, n]
        parts = [[], [], []]
        k = 0
        while self.cur() != 'rbracket':
            if self.cur() == 'colon':
                k += 1
                if k > 2:
                    raise JmesSyntaxError('too many colons')
                self.adv()
            elif self.cur() == 'number':
                if parts[k]:
                    raise JmesSyntaxError('two numbers in one slice part')
                parts[k] = [self.adv()[1]]
            else:
                raise JmesSyntaxError('bad slice token %s' % self.cur())
        self.adv()
        if k == 0:
            raise JmesSyntaxError('not a slice')
        return ['slc', left, parts, self.proj_rhs(_BP['star'])]

    def mlist(self):
        es = []
        while True:
            es.append(self.expr(0))
            if self.cur() == 'comma':
                self.adv()
                continue
            self.match('rbracket')
            return ['mls', es]

    def hash(self):
        kvs = []
        while True:
            if self.cur() not in ('unquoted', 'quoted'):
                raise JmesSyntaxError('bad hash key %s' % self.cur())
            k = self.adv()[1]
            self.match('colon')
            kvs.append([cps(k), self.expr(0)])
            if self.cur() == 'comma':
                self.adv()
                continue
            self.match('rbrace')
            return ['mhs', kvs]

    def call(self, name):
        self.match('lparen')
        args = []
        if self.cur() == 'rparen':
            self.adv()
            return ['fn', name, args]
        while True:
            args.append(self.expr(0))
            if self.cur() == 'comma':
                self.adv()
                continue
            self.match('rparen')
            return ['fn', name, args]


def parse_expr(text):
    return Parser(text).parse()


def canon_ast(e):
    """canonical comparison form: literal objects sorted by key"""
    if isinstance(e, list):
        if len(e) == 2 and e[0] == 'obj' and isinstance(e[1], list):
            return ['obj', sorted(([kv[0], canon_ast(kv[1])] for kv in e[1]), key=lambda kv: kv[0])]
        return [canon_ast(x) for x in e]
    return e


# ------------------------------------------------------------------------------------------------
# Compliance corpus -> TLA+ module

def tla_cps(c):
    return '<<' + ','.join(str(x) for x in c) + '>>'


def tla_val(w):
    k = w[0]
    if k == 'null':
        return 'JNull'
    if k == 'bool':
        return 'JBool(%s)' % ('TRUE' if w[1] else 'FALSE')
    if k == 'int':
        if abs(w[1]) > 10 ** 9:
            raise ValueError('big int')
        return 'JInt(%s)' % (w[1] if w[1] >= 0 else '(0 - %d)' % -w[1])
    if k == 'str':
        return 'JStr(%s)' % tla_cps(w[1])
    if k == 'arr':
        return 'JArr(<<' + ', '.join(tla_val(x) for x in w[1]) + '>>)'
    if k == 'obj':
        if not w[1]:
            return 'EmptyObj'
        return 'JObj(' + ' @@ '.join('(%s :> %s)' % (tla_cps(kv[0]), tla_val(kv[1])) for kv in w[1]) + ')'
    raise ValueError(k)


KNOWN = {"abs", "avg", "ceil", "contains", "ends_with", "floor", "join", "keys", "length", "map", "max", "max_by", "merge",
         "min", "min_by", "not_null", "reverse", "sort", "sort_by", "starts_with", "sum", "to_array", "to_number", "to_string",
         "type", "values"}


def tla_ast(e):
    k = e[0]
    q = lambda s: '"%s"' % s
    if k == 'cur':
        return '<<"cur">>'
    if k in ('fld', 'raw'):
        return '<<%s, %s>>' % (q(k), tla_cps(e[1]))
    if k == 'lit':
        return '<<"lit", %s>>' % tla_val(e[1])
    if k in ('par', 'not', 'ref'):
        return '<<%s, %s>>' % (q(k), tla_ast(e[1]))
    if k in ('sub', 'pipe', 'or', 'and', 'prj', 'vpr', 'flt'):
        return '<<%s, %s, %s>>' % (q(k), tla_ast(e[1]), tla_ast(e[2]))
    if k == 'idx':
        return '<<"idx", %s, %s>>' % (tla_ast(e[1]), e[2] if e[2] >= 0 else '(0 - %d)' % -e[2])
    if k == 'cmp':
        return '<<"cmp", %s, %s, %s>>' % (q(e[1]), tla_ast(e[2]), tla_ast(e[3]))
    if k == 'slc':
        part = lambda p: '<<>>' if not p else '<<%s>>' % (p[0] if p[0] >= 0 else '(0 - %d)' % -p[0])
        return '<<"slc", %s, <<%s, %s, %s>>, %s>>' % (tla_ast(e[1]), part(e[2][0]), part(e[2][1]), part(e[2][2]), tla_ast(e[3]))
    if k == 'fil':
        return '<<"fil", %s, %s, %s>>' % (tla_ast(e[1]), tla_ast(e[2]), tla_ast(e[3]))
    if k == 'mls':
        return '<<"mls", <<%s>>>>' % ', '.join(tla_ast(x) for x in e[1])
    if k == 'mhs':
        return '<<"mhs", <<%s>>>>' % ', '.join('<<%s, %s>>' % (tla_cps(kv[0]), tla_ast(kv[1])) for kv in e[1])
    if k == 'fn':
        if not re.fullmatch(r'[A-Za-z_][A-Za-z0-9_]*', e[1]):
            raise ValueError('fn name')
        return '<<"fn", %s, <<%s>>>>' % (q(e[1]), ', '.join(tla_ast(x) for x in e[2]))
    raise ValueError(k)


def has_float(v):
    if isinstance(v, float):
        return True
    if isinstance(v, list):
        return any(has_float(x) for x in v)
    if isinstance(v, dict):
        return any(has_float(x) for x in v.values())
    return False


def mkcorpus(src='/repo/test/jmespath/input/compliance', out=None):
    """Translate the official compliance suite into spec/gen/MC_C13corpus.tla.  Cases outside the model
    (floating point data, deprecated literal forms, syntax-error cases - the spec has no parser) are
    listed in the module header with the reason."""
    out = out or os.path.join(vf.SPEC, 'gen', 'MC_C13corpus.tla')
    rows, skipped, nsyntax, nsyntax_rej = [], [], 0, 0
    for f in sorted(glob.glob(os.path.join(src, '*.json'))):
        name = os.path.basename(f)[:-5]
        for gi, g in enumerate(json.load(open(f))):
            for ci, c in enumerate(g['cases']):
                tag = '%s/%d/%d' % (name, gi, ci)
                ex = c['expression']
                if c.get('error') == 'syntax':
                    nsyntax += 1
                    try:
                        parse_expr(ex)
                    except JmesSyntaxError:
                        nsyntax_rej += 1
                    continue
                if 'error' not in c and 'result' not in c:
                    skipped.append((tag, 'benchmark without result')); continue
                try:
                    ast = parse_expr(ex)
                except JmesSyntaxError as e:
                    skipped.append((tag, 'reference parser: %s' % e)); continue
                except ValueError as e:
                    skipped.append((tag, 'floating point literal')); continue
                if has_float(g['given']) and name != 'functions':
                    skipped.append((tag, 'floating point document')); continue
                given = g['given']
                if name == 'functions' and isinstance(given, dict) and 'decimals' in given:
                    if 'decimals' in ex or '1.2' in ex or '1.0' in ex or '1.1' in ex or ex == 'avg(numbers)':
                        skipped.append((tag, 'floating point')); continue
                    given = {k: v for k, v in given.items() if k != 'decimals'}
                    if ex == 'length(@)':
                        skipped.append((tag, 'document reduced (decimals member dropped)')); continue
                try:
                    d = tla_val(wire_of(given))
                    a = tla_ast(ast)
                    if 'error' in c:
                        r = '<<"err", "%s">>' % c['error']
                    else:
                        r = tla_val(wire_of(c['result']))
                except ValueError as e:
                    skipped.append((tag, 'not representable: %s' % e)); continue
                rows.append((tag, ex, a, d, r))
    with open(out, 'w') as fh:
        fh.write('---------------------------- MODULE MC_C13corpus ----------------------------\n')
        fh.write('(* GENERATED by `python3 checks/c13.py mkcorpus` from the official JMESPath compliance suite\n')
        fh.write('   (/repo/test/jmespath/input/compliance/*.json); expression strings were turned into trees by the\n')
        fh.write('   reference parser in checks/c13.py.  %d cases; %d syntax-error cases are not representable as trees\n' % (len(rows), nsyntax))
        fh.write('   (the reference parser rejects %d of them).  Not included:\n' % nsyntax_rej)
        for tag, why in skipped:
            fh.write('     %s: %s\n' % (tag, why.replace('*)', '* )')))
        fh.write('*)\nEXTENDS JsonValue, Integers, TLC\n\n')
        fh.write('CorpusSize == %d\n' % len(rows))
        fh.write('Corpus(i) ==\n  CASE ')
        parts = []
        for i, (tag, ex, a, d, r) in enumerate(rows):
            parts.append('i = %d -> [tag |-> "%s",\n      ast |-> %s,\n      doc |-> %s,\n      res |-> %s]' % (i + 1, tag, a, d, r))
        fh.write('\n    [] '.join(parts))
        fh.write('\n=============================================================================\n')
    return len(rows), skipped, nsyntax, nsyntax_rej


if __name__ == '__main__':
    if len(sys.argv) > 1 and sys.argv[1] == 'mkcorpus':
        n, sk, ns, nr = mkcorpus()
        print('corpus: %d cases, %d skipped, %d/%d syntax-error cases rejected by the reference parser' % (n, len(sk), nr, ns))
        for t, w in sk:
            print('  skipped %s: %s' % (t, w))
