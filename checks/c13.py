"""C13 - JMESPath evaluation follows the JMESPath specification.
Spec: Jmespath (evaluator over JsonValue written from the JMESPath specification, un-parser Show, Renderable);
TLC enumerates expression trees (bounded-exhaustive wrap layers, function/argument matrices, slice and
comparator matrices, identifier/literal renderings, and the fractional-number families frac / fracarr / fracdoc: numeric
built-ins, comparators, to_number / to_string, literals and arrays over exact decimals) against a document universe, checks the specification's
algebraic identities as invariants in the same runs, and emits (expression string, predicted result per
document).  Binding: G - the harness replays every case through jmespath::search and make_expression +
evaluate (throwing and error_code overloads, json and ojson), compares value (numbers by value: a returned double must be
the double nearest to the predicted exact decimal, an integer and a double of equal value are one number) / "an error was reported",
compiled vs one-shot agreement, and the document before/after.
Known findings: predictions are always the specification's; the spec additionally tags each (case, document) with the names
of the known-deviation classes it falls into (field "dev"), sig() gives tagged mismatches the coarse signature {dev, what}, and
/verif/known_findings.jsonl lists one entry per root cause (KNOWN-FINDING lines; anything unmatched is a VIOLATION).
Spec validation (infrastructure, not a verdict on jsoncons): the spec evaluates the official compliance suite
(spec/gen/MC_C13corpus.tla, produced by `python3 checks/c13.py mkcorpus` with the reference parser below) and
must reproduce every expected result; parse(Show(e)) = e is checked with the same parser on generated cases."""
import json, os, sys, re, glob
from decimal import Decimal
if __name__ == '__main__':
    sys.path.insert(0, os.path.join(os.path.dirname(os.path.abspath(__file__)), '..', 'lib'))
import vf

PROP = 'C13'
CFG = {'quick': ['gen/MC_C13wrap_q.cfg', 'gen/MC_C13deep_q.cfg', 'gen/MC_C13fn_q.cfg', 'gen/MC_C13slice_q.cfg',
                 'gen/MC_C13cmp.cfg', 'gen/MC_C13ident.cfg', 'gen/MC_C13stable.cfg',
                 'gen/MC_C13frac_q.cfg', 'gen/MC_C13fracarr_q.cfg', 'gen/MC_C13fracdoc_q.cfg'],
       'thorough': ['gen/MC_C13wrap_q.cfg', 'gen/MC_C13deep_t.cfg', 'gen/MC_C13mix_t.cfg', 'gen/MC_C13fn_t.cfg',
                    'gen/MC_C13slice_t.cfg', 'gen/MC_C13cmp.cfg', 'gen/MC_C13ident.cfg', 'gen/MC_C13stable.cfg',
                    'gen/MC_C13frac_t.cfg', 'gen/MC_C13fracarr_t.cfg', 'gen/MC_C13fracdoc_t.cfg']}
# Deviation classes whose known_findings.jsonl line is proposed in notes/C13.md ("SUSPECTED DEFECTS") but may not have been
# added to /verif/known_findings.jsonl yet (that file is not this check's to edit).  While the file does not mention the
# class at all, a mismatch on a (case, document) tagged with it is reported as a SUSPECTED-DEFECT line instead of a
# VIOLATION; as soon as the file has an entry naming the class (status known: KNOWN-FINDING; status fixed: any mismatch is a
# VIOLATION again) this table has no effect.  Only the kinds of observation the root cause can produce are covered.
PENDING_FINDINGS = {}       # (the to_number class it once held is now an entry of known_findings.jsonl)
DOCS_CFG = 'gen/MC_C13docs.cfg'
RT_CFG = {'quick': 'gen/MC_C13rt_q.cfg', 'thorough': 'gen/MC_C13rt_t.cfg'}   # wrap cases emitted with their trees


# ------------------------------------------------------------------------------------------------
# Reference parser: JMESPath expression string -> expression tree of spec/Jmespath.tla (nested lists).
# Top-down operator precedence with the binding powers of the reference implementation; used only to
# validate the specification (compliance corpus -> trees; parse(Show(tree)) = tree), never as an oracle
# for jsoncons.

class JmesSyntaxError(Exception):
    pass


_SIMPLE = {'.': 'dot', '*': 'star', ']': 'rbracket', ',': 'comma', ':': 'colon', '@': 'current', '(': 'lparen',
           ')': 'rparen', '{': 'lbrace', '}': 'rbrace'}
_BP = {'eof': 0, 'unquoted': 0, 'quoted': 0, 'literal': 0, 'raw': 0, 'rbracket': 0, 'rparen': 0, 'comma': 0, 'rbrace': 0,
       'number': 0, 'current': 0, 'expref': 0, 'colon': 0, 'pipe': 1, 'or': 2, 'and': 3, 'eq': 5, 'gt': 5, 'lt': 5,
       'ge': 5, 'le': 5, 'ne': 5, 'flatten': 9, 'star': 20, 'filter': 21, 'dot': 40, 'not': 45, 'lbrace': 50,
       'lbracket': 55, 'lparen': 60}
CUR = ['cur']


def cps(s):
    return [ord(c) for c in s]


def wire_of(v):
    """python JSON value (numbers with a fraction / exponent parsed as Decimal: json.loads(.., parse_float=Decimal)) ->
    JsonValue!Wire form (members sorted by key).  A Decimal becomes ['dec', m, e] with exactly the digits and exponent of
    its text (1.0 -> 10, -1;  1e2 -> 1, 2;  0.50 -> 50, -2), which is how spec/Jmespath.tla writes such a literal."""
    if v is None:
        return ['null']
    if isinstance(v, bool):
        return ['bool', v]
    if isinstance(v, int):
        return ['int', v]
    if isinstance(v, float):
        raise ValueError('float')
    if isinstance(v, Decimal):
        sign, digits, ex = v.as_tuple()
        if not isinstance(ex, int):
            raise ValueError('non-finite')
        m = int(''.join(str(d) for d in digits) or '0')
        return ['dec', -m if sign else m, ex]
    if isinstance(v, str):
        return ['str', cps(v)]
    if isinstance(v, list):
        return ['arr', [wire_of(x) for x in v]]
    if isinstance(v, dict):
        return ['obj', [[cps(k), wire_of(x)] for k, x in sorted(v.items(), key=lambda kv: cps(kv[0]))]]
    raise ValueError(type(v))


def tokenize(s):
    toks = []
    i, n = 0, len(s)
    while i < n:
        c = s[i]
        if c in ' \t\n\r':
            i += 1
        elif c.isascii() and (c.isalpha() or c == '_'):
            j = i + 1
            while j < n and s[j].isascii() and (s[j].isalnum() or s[j] == '_'):
                j += 1
            toks.append(('unquoted', s[i:j])); i = j
        elif c == '[':
            if s[i:i + 2] == '[]':
                toks.append(('flatten', '[]')); i += 2
            elif s[i:i + 2] == '[?':
                toks.append(('filter', '[?')); i += 2
            else:
                toks.append(('lbracket', '[')); i += 1
        elif c in _SIMPLE:
            toks.append((_SIMPLE[c], c)); i += 1
        elif c == '-' or c.isdigit():
            j = i + 1
            while j < n and s[j].isascii() and s[j].isdigit():
                j += 1
            if s[i:j] == '-':
                raise JmesSyntaxError('bare -')
            toks.append(('number', int(s[i:j]))); i = j
        elif c == '"':
            j = i + 1
            while j < n and s[j] != '"':
                j += 2 if s[j] == '\\' else 1
            if j >= n:
                raise JmesSyntaxError('unterminated quoted identifier')
            try:
                val = json.loads(s[i:j + 1])
            except ValueError:
                raise JmesSyntaxError('bad quoted identifier')
            if val == '':
                raise JmesSyntaxError('empty quoted identifier')
            toks.append(('quoted', val)); i = j + 1
        elif c == "'":
            j = i + 1
            out = []
            while j < n and s[j] != "'":
                if s[j] == '\\' and j + 1 < n and s[j + 1] == "'":
                    out.append("'"); j += 2
                else:
                    out.append(s[j]); j += 1
            if j >= n:
                raise JmesSyntaxError('unterminated raw string')
            toks.append(('raw', ''.join(out))); i = j + 1
        elif c == '`':
            j = i + 1
            out = []
            while j < n and s[j] != '`':
                if s[j] == '\\' and j + 1 < n and s[j + 1] == '`':
                    out.append('`'); j += 2
                else:
                    out.append(s[j]); j += 1
            if j >= n:
                raise JmesSyntaxError('unterminated literal')
            txt = ''.join(out)
            try:
                val = json.loads(txt, parse_float=Decimal)
            except ValueError:
                raise JmesSyntaxError('literal is not JSON (deprecated bare form): ' + txt)
            toks.append(('literal', val)); i = j + 1
        elif c == '|':
            if s[i:i + 2] == '||':
                toks.append(('or', '||')); i += 2
            else:
                toks.append(('pipe', '|')); i += 1
        elif c == '&':
            if s[i:i + 2] == '&&':
                toks.append(('and', '&&')); i += 2
            else:
                toks.append(('expref', '&')); i += 1
        elif c in '<>=!':
            two = s[i:i + 2]
            m = {'<=': 'le', '>=': 'ge', '==': 'eq', '!=': 'ne'}
            if two in m:
                toks.append((m[two], two)); i += 2
            elif c == '<':
                toks.append(('lt', c)); i += 1
            elif c == '>':
                toks.append(('gt', c)); i += 1
            elif c == '!':
                toks.append(('not', c)); i += 1
            else:
                raise JmesSyntaxError('bare =')
        else:
            raise JmesSyntaxError('unexpected character %r' % c)
    toks.append(('eof', None))
    return toks


class Parser:
    def __init__(self, text):
        self.t = tokenize(text)
        self.i = 0

    def cur(self):
        return self.t[self.i][0]

    def look(self, k):
        return self.t[min(self.i + k, len(self.t) - 1)][0]

    def adv(self):
        tok = self.t[self.i]; self.i += 1
        return tok

    def match(self, ty):
        if self.cur() != ty:
            raise JmesSyntaxError('expected %s, got %s' % (ty, self.cur()))
        return self.adv()

    def parse(self):
        e = self.expr(0)
        if self.cur() != 'eof':
            raise JmesSyntaxError('trailing %s' % self.cur())
        return e

    def expr(self, rbp):
        left = self.nud(self.adv())
        while rbp < _BP[self.cur()]:
            left = self.led(self.adv(), left)
        return left

    # ---- prefix position
    def nud(self, tok):
        ty, val = tok
        if ty == 'literal':
            return ['lit', wire_of(val)]
        if ty == 'raw':
            return ['raw', cps(val)]
        if ty == 'current':
            return CUR
        if ty == 'unquoted':
            if self.cur() == 'lparen':
                return self.call(val)
            return ['fld', cps(val)]
        if ty == 'quoted':
            if self.cur() == 'lparen':
                raise JmesSyntaxError('quoted function name')
            return ['fld', cps(val)]
        if ty == 'star':
            return ['vpr', CUR, CUR if self.cur() == 'rbracket' else self.proj_rhs(_BP['star'])]
        if ty == 'filter':
            return self.filter(CUR)
        if ty == 'flatten':
            return ['flt', CUR, self.proj_rhs(_BP['flatten'])]
        if ty == 'lbrace':
            return self.hash()
        if ty == 'lparen':
            e = self.expr(0)
            self.match('rparen')
            return ['par', e]
        if ty == 'not':
            return ['not', self.expr(_BP['not'])]
        if ty == 'lbracket':
            if self.cur() in ('number', 'colon'):
                return self.index_or_slice(CUR)
            if self.cur() == 'star' and self.look(1) == 'rbracket':
                self.adv(); self.adv()
                return ['prj', CUR, self.proj_rhs(_BP['star'])]
            return self.mlist()
        if ty == 'expref':
            return ['ref', self.expr(_BP['expref'])]
        raise JmesSyntaxError('unexpected %s' % ty)

    # ---- infix / postfix position
    def led(self, tok, left):
        ty, val = tok
        if ty == 'dot':
            if self.cur() == 'star':
                self.adv()
                return ['vpr', left, self.proj_rhs(_BP['star'])]
            return ['sub', left, self.dot_primary()]
        if ty == 'pipe':
            return ['pipe', left, self.expr(_BP['pipe'])]
        if ty == 'or':
            return ['or', left, self.expr(_BP['or'])]
        if ty == 'and':
            return ['and', left, self.expr(_BP['and'])]
        if ty in ('eq', 'ne', 'lt', 'le', 'gt', 'ge'):
            return ['cmp', ty, left, self.expr(_BP[ty])]
        if ty == 'flatten':
            return ['flt', left, self.proj_rhs(_BP['flatten'])]
        if ty == 'filter':
            return self.filter(left)
        if ty == 'lbracket':
            if self.cur() in ('number', 'colon'):
                return self.index_or_slice(left)
            self.match('star'); self.match('rbracket')
            return ['prj', left, self.proj_rhs(_BP['star'])]
        raise JmesSyntaxError('unexpected %s after expression' % ty)

    def dot_primary(self):
        ty = self.cur()
        if ty == 'unquoted':
            tok = self.adv()
            if self.cur() == 'lparen':
                return self.call(tok[1])
            return ['fld', cps(tok[1])]
        if ty == 'quoted':
            tok = self.adv()
            if self.cur() == 'lparen':
                raise JmesSyntaxError('quoted function name')
            return ['fld', cps(tok[1])]
        if ty == 'lbracket':
            self.adv()
            return self.mlist()
        if ty == 'lbrace':
            self.adv()
            return self.hash()
        raise JmesSyntaxError('bad token after dot: %s' % ty)

    def proj_rhs(self, bp):
        """what follows a projection is applied to each element; leftmost operand is the implicit element"""
        ty = self.cur()
        if _BP[ty] < 10:
            return CUR
        if ty in ('lbracket', 'filter'):
            return self.expr(bp)
        if ty == 'dot':
            self.adv()
            if self.cur() == 'star':
                self.adv()
                left = ['vpr', CUR, self.proj_rhs(_BP['star'])]
            else:
                left = self.dot_primary()
                if left[0] in ('mls', 'mhs'):
                    return left                   # reference implementation: chain is not continued here
            while bp < _BP[self.cur()]:
                left = self.led(self.adv(), left)
            return left
        raise JmesSyntaxError('bad projection right-hand side: %s' % ty)

    def filter(self, left):
        cond = self.expr(0)
        self.match('rbracket')
        rhs = CUR if self.cur() == 'flatten' else self.proj_rhs(_BP['filter'])
        return ['fil', left, cond, rhs]

    def index_or_slice(self, left):
        if self.cur() == 'number' and self.look(1) == 'rbracket':
            n = self.adv()[1]; self.adv()
            return ['idx', left, n]
        parts = [[], [], []]
        k = 0
        while self.cur() != 'rbracket':
            if self.cur() == 'colon':
                k += 1
                if k > 2:
                    raise JmesSyntaxError('too many colons')
                self.adv()
            elif self.cur() == 'number':
                if parts[k]:
                    raise JmesSyntaxError('two numbers in one slice part')
                parts[k] = [self.adv()[1]]
            else:
                raise JmesSyntaxError('bad slice token %s' % self.cur())
        self.adv()
        if k == 0:
            raise JmesSyntaxError('not a slice')
        return ['slc', left, parts, self.proj_rhs(_BP['star'])]

    def mlist(self):
        es = []
        while True:
            es.append(self.expr(0))
            if self.cur() == 'comma':
                self.adv()
                continue
            self.match('rbracket')
            return ['mls', es]

    def hash(self):
        kvs = []
        while True:
            if self.cur() not in ('unquoted', 'quoted'):
                raise JmesSyntaxError('bad hash key %s' % self.cur())
            k = self.adv()[1]
            self.match('colon')
            kvs.append([cps(k), self.expr(0)])
            if self.cur() == 'comma':
                self.adv()
                continue
            self.match('rbrace')
            return ['mhs', kvs]

    def call(self, name):
        self.match('lparen')
        args = []
        if self.cur() == 'rparen':
            self.adv()
            return ['fn', name, args]
        while True:
            args.append(self.expr(0))
            if self.cur() == 'comma':
                self.adv()
                continue
            self.match('rparen')
            return ['fn', name, args]


def parse_expr(text):
    return Parser(text).parse()


def canon_ast(e):
    """canonical comparison form: literal objects sorted by key"""
    if isinstance(e, list):
        if len(e) == 2 and e[0] == 'obj' and isinstance(e[1], list):
            return ['obj', sorted(([kv[0], canon_ast(kv[1])] for kv in e[1]), key=lambda kv: kv[0])]
        return [canon_ast(x) for x in e]
    return e


# ------------------------------------------------------------------------------------------------
# Compliance corpus -> TLA+ module

def tla_cps(c):
    return '<<' + ','.join(str(x) for x in c) + '>>'


def tla_val(w):
    k = w[0]
    if k == 'null':
        return 'JNull'
    if k == 'bool':
        return 'JBool(%s)' % ('TRUE' if w[1] else 'FALSE')
    if k == 'int':
        if abs(w[1]) > 10 ** 9:
            raise ValueError('big int')
        return 'JInt(%s)' % (w[1] if w[1] >= 0 else '(0 - %d)' % -w[1])
    if k == 'dec':
        if abs(w[1]) > 10 ** 7 or abs(w[2]) > 6:
            raise ValueError('decimal outside the model')
        neg = lambda n: str(n) if n >= 0 else '(0 - %d)' % -n
        return '<<"dec", %s, %s>>' % (neg(w[1]), neg(w[2]))
    if k == 'str':
        return 'JStr(%s)' % tla_cps(w[1])
    if k == 'arr':
        return 'JArr(<<' + ', '.join(tla_val(x) for x in w[1]) + '>>)'
    if k == 'obj':
        if not w[1]:
            return 'EmptyObj'
        return 'JObj(' + ' @@ '.join('(%s :> %s)' % (tla_cps(kv[0]), tla_val(kv[1])) for kv in w[1]) + ')'
    raise ValueError(k)


KNOWN = {"abs", "avg", "ceil", "contains", "ends_with", "floor", "join", "keys", "length", "map", "max", "max_by", "merge",
         "min", "min_by", "not_null", "reverse", "sort", "sort_by", "starts_with", "sum", "to_array", "to_number", "to_string",
         "type", "values"}


def tla_ast(e):
    k = e[0]
    q = lambda s: '"%s"' % s
    if k == 'cur':
        return '<<"cur">>'
    if k in ('fld', 'raw'):
        return '<<%s, %s>>' % (q(k), tla_cps(e[1]))
    if k == 'lit':
        return '<<"lit", %s>>' % tla_val(e[1])
    if k in ('par', 'not', 'ref'):
        return '<<%s, %s>>' % (q(k), tla_ast(e[1]))
    if k in ('sub', 'pipe', 'or', 'and', 'prj', 'vpr', 'flt'):
        return '<<%s, %s, %s>>' % (q(k), tla_ast(e[1]), tla_ast(e[2]))
    if k == 'idx':
        return '<<"idx", %s, %s>>' % (tla_ast(e[1]), e[2] if e[2] >= 0 else '(0 - %d)' % -e[2])
    if k == 'cmp':
        return '<<"cmp", %s, %s, %s>>' % (q(e[1]), tla_ast(e[2]), tla_ast(e[3]))
    if k == 'slc':
        part = lambda p: '<<>>' if not p else '<<%s>>' % (p[0] if p[0] >= 0 else '(0 - %d)' % -p[0])
        return '<<"slc", %s, <<%s, %s, %s>>, %s>>' % (tla_ast(e[1]), part(e[2][0]), part(e[2][1]), part(e[2][2]), tla_ast(e[3]))
    if k == 'fil':
        return '<<"fil", %s, %s, %s>>' % (tla_ast(e[1]), tla_ast(e[2]), tla_ast(e[3]))
    if k == 'mls':
        return '<<"mls", <<%s>>>>' % ', '.join(tla_ast(x) for x in e[1])
    if k == 'mhs':
        return '<<"mhs", <<%s>>>>' % ', '.join('<<%s, %s>>' % (tla_cps(kv[0]), tla_ast(kv[1])) for kv in e[1])
    if k == 'fn':
        if not re.fullmatch(r'[A-Za-z_][A-Za-z0-9_]*', e[1]):
            raise ValueError('fn name')
        return '<<"fn", %s, <<%s>>>>' % (q(e[1]), ', '.join(tla_ast(x) for x in e[2]))
    raise ValueError(k)


def mkcorpus(src='/repo/test/jmespath/input/compliance', out=None):
    """Translate the official compliance suite into spec/gen/MC_C13corpus.tla.  Numbers with a fraction are exact
    decimals <<"dec", m, e>>.  Cases outside the model (deprecated literal forms, syntax-error cases - the spec has
    no parser) are listed in the module header with the reason."""
    out = out or os.path.join(vf.SPEC, 'gen', 'MC_C13corpus.tla')
    rows, skipped, nsyntax, nsyntax_rej = [], [], 0, 0
    for f in sorted(glob.glob(os.path.join(src, '*.json'))):
        name = os.path.basename(f)[:-5]
        for gi, g in enumerate(json.load(open(f), parse_float=Decimal)):
            for ci, c in enumerate(g['cases']):
                tag = '%s/%d/%d' % (name, gi, ci)
                ex = c['expression']
                if c.get('error') == 'syntax':
                    nsyntax += 1
                    try:
                        parse_expr(ex)
                    except JmesSyntaxError:
                        nsyntax_rej += 1
                    continue
                if 'error' not in c and 'result' not in c:
                    skipped.append((tag, 'benchmark without result')); continue
                try:
                    ast = parse_expr(ex)
                except JmesSyntaxError as e:
                    skipped.append((tag, 'reference parser: %s' % e)); continue
                except ValueError as e:
                    skipped.append((tag, 'literal not representable: %s' % e)); continue
                given = g['given']
                try:
                    d = tla_val(wire_of(given))
                    a = tla_ast(ast)
                    if 'error' in c:
                        r = '<<"err", "%s">>' % c['error']
                    else:
                        r = tla_val(wire_of(c['result']))
                except ValueError as e:
                    skipped.append((tag, 'not representable: %s' % e)); continue
                rows.append((tag, ex, a, d, r))
    with open(out, 'w') as fh:
        fh.write('---------------------------- MODULE MC_C13corpus ----------------------------\n')
        fh.write('(* GENERATED by `python3 checks/c13.py mkcorpus` from the official JMESPath compliance suite\n')
        fh.write('   (/repo/test/jmespath/input/compliance/*.json); expression strings were turned into trees by the\n')
        fh.write('   reference parser in checks/c13.py.  %d cases; %d syntax-error cases are not representable as trees\n' % (len(rows), nsyntax))
        fh.write('   (the reference parser rejects %d of them).  Not included:\n' % nsyntax_rej)
        for tag, why in skipped:
            fh.write('     %s: %s\n' % (tag, why.replace('*)', '* )')))
        fh.write('*)\nEXTENDS JsonValue, Integers, TLC\n\n')
        fh.write('CorpusSize == %d\n' % len(rows))
        fh.write('Corpus(i) ==\n  CASE ')
        parts = []
        for i, (tag, ex, a, d, r) in enumerate(rows):
            parts.append('i = %d -> [tag |-> "%s",\n      ast |-> %s,\n      doc |-> %s,\n      res |-> %s]' % (i + 1, tag, a, d, r))
        fh.write('\n    [] '.join(parts))
        fh.write('\n=============================================================================\n')
    return len(rows), skipped, nsyntax, nsyntax_rej


# ------------------------------------------------------------------------------------------------
# The check

def expr_of(case):
    try:
        return ''.join(chr(c) for c in case.get('e', []))
    except Exception:
        return '?'


def dev_of(case, doc):
    """names of the known-deviation classes the generator put this (case, document) into (doc < 0: any document)"""
    names = set()
    if isinstance(case, dict):
        for k, dn in enumerate(case.get('ds', [])):
            if (doc is None or doc < 0 or dn == doc) and k < len(case.get('dev', [])):
                names.update(case['dev'][k])
    return ','.join(sorted(names))


def sig(r):
    """Signature of a mismatch.  A mismatch on a (case, document) that the spec classified into known-deviation classes gets
    the coarse signature {dev, what} (matched against known_findings.jsonl; thousands of expressions share it); anything
    else keeps the detailed signature (expression + kind)."""
    c = r['case']
    dev = r['dev'] if 'dev' in r else dev_of(c, r.get('doc'))
    if dev:
        return {'dev': dev, 'what': r.get('what', 'crash')}
    s = {'dev': '', 'expr': expr_of(c) if isinstance(c, dict) else str(c)[:200]}
    if 'what' in r:           # one signature per (expression, kind of disagreement); flavour / document are in the detail
        s['what'] = r['what']
    return s


def pending_findings(rep):
    """see PENDING_FINDINGS"""
    try:
        known_text = open(os.path.join(vf.VERIF, 'known_findings.jsonl')).read()
    except OSError:
        known_text = ''
    known = vf.load_known(PROP)
    for name, p in PENDING_FINDINGS.items():
        if name in known_text:
            continue
        keep, n = [], 0
        for v in rep.violations:
            sg = v['sig']
            if (name in str(sg.get('dev', '')).split(',') and re.fullmatch(p['what'], str(sg.get('what', '')))
                    and not any(vf.sig_matches(e['match'], sg) for e in known)):
                n += 1
            else:
                keep.append(v)
        if n:
            rep.violations[:] = keep
            rep.notes.append('suspected defect pending a known_findings.jsonl entry: %s (%d cases)' % (name, n))
            print('SUSPECTED-DEFECT (known_findings.jsonl entry pending, see notes/C13.md): property=%s class=%s %s (%d cases)'
                  % (PROP, name, p['text'], n))


def docs_file():
    return vf.tlc_gen('gen/MC_C13', DOCS_CFG, timeout=600)[0]


def gens(tier):
    return [vf.tlc_gen('gen/MC_C13', c, timeout=3000) for c in CFG[tier]]


def validate_spec(tier, paths):
    """Spec validation (an InfraError, never a VIOLATION, when it fails): (1) the evaluator reproduces the
    compliance corpus, (2) parse(Show(tree)) = tree for every generated case that carries its tree."""
    vpath, vmeta = vf.tlc_gen('gen/MC_C13valid', 'gen/MC_C13valid.cfg', workers=4, timeout=1200)
    bad = [json.loads(l) for l in open(vpath)]
    mism = [b for b in bad if b.get('k') == 'mismatch']
    if mism:
        raise vf.InfraError('spec/Jmespath.tla disagrees with the compliance corpus on %d cases, e.g. %s' % (len(mism), json.dumps(mism[:3])[:1500]))
    ncorpus = vmeta.get('distinct', 1) - 1
    rt_path, rt_meta = vf.tlc_gen('gen/MC_C13', RT_CFG[tier], timeout=3000)
    nrt = 0
    for path in [rt_path] + list(paths):
        with open(path) as fh:
            for line in fh:
                if '"ast"' not in line:
                    continue
                c = json.loads(line)
                nrt += 1
                text = expr_of(c)
                try:
                    got = canon_ast(parse_expr(text))
                except (JmesSyntaxError, ValueError) as ex:
                    got = ['reference parser rejects: %s' % ex]
                if got != canon_ast(c['ast']):
                    raise vf.InfraError('un-parser round trip failed: Show(tree) = %r parses as %s, tree is %s'
                                        % (text, json.dumps(got)[:600], json.dumps(c['ast'])[:600]))
    return dict(corpus_cases=ncorpus, corpus_dontcare=len(bad) - len(mism), roundtrip_cases=nrt, rt_meta=rt_meta, valid_meta=vmeta)


def setup():
    vf.build('c13', ['c13.cpp'])
    docs_file()
    g = gens('quick')
    validate_spec('quick', [p for p, _ in g])


def run(tier):
    rep = vf.Report(PROP, tier)
    binary = vf.build('c13', ['c13.cpp'])
    docs = docs_file()
    g = gens(tier)
    v = validate_spec(tier, [p for p, _ in g])
    rep.add_tlc(v['rt_meta']); rep.add_tlc(v['valid_meta'])
    totals = vf.g_replay(rep, binary, g, sig, args=['--docs', docs], max_repro=600)
    pending_findings(rep)
    cov = rep.coverage
    cov['traces_validated_against_impl'] = totals.get('cases', 0)
    cov['evaluations'] = totals.get('checks', 0)
    cov['distinct_nontrivial'] = totals.get('nontrivial', 0)
    cov['dontcare_evaluations'] = totals.get('dontcare', 0)
    cov['exhaustive'] = True
    cov['spec_validation'] = {k: v[k] for k in ('corpus_cases', 'corpus_dontcare', 'roundtrip_cases')}
    cov['rule'] = ('one case = one distinct expression tree (rendered by the spec un-parser) evaluated against every document of its mode; '
                   '(wrap/deep/mix) all trees grown from {@, a, b, literals} by 2-3 layers of wrapping with every node kind - postfixes appended into '
                   'open projections, parentheses, pipe, ||, &&, !, six comparators, multi-select list/hash, 26 built-ins (+ unknown name) with the tree '
                   'as argument or expression-type, placement as projection right-hand side / filter condition - over sibling alphabets core/mid/full '
                   'of spec/gen/MC_C13.tla, restricted to trees whose string reading is unambiguous (Jmespath!Renderable); (fn) every function x every '
                   'argument tuple over an 18-value typed alphabet for 0-2 arguments (7-value alphabet for 3): well-typed, ill-typed, wrong arity, unknown '
                   'function; (slice) every [a:b:c] with a,b,c absent or in -R..R, R = 3 | 5, and indexes, over arrays of length 0-5 and non-arrays; (cmp) all '
                   'comparators, &&, ||, ! over all pairs of 14 values of every type; (ident) quoted / escaped / non-ASCII identifiers, hash keys, literals, '
                   'raw strings; (frac) numbers with a fraction, exact decimals in the spec: every built-in (+ unknown name) x 1-3 argument tuples over a number '
                   'alphabet of 18 | 34 values mixing integers, negative / positive fractions, doubles with a zero fraction (1.0, 2.0, 0.0), exponent form (1e2), '
                   'non-dyadic fractions (0.1, 1.2, -0.7) and non-numbers; all six comparators over all pairs of the alphabet, against every other type, inside one-element '
                   'arrays / objects (deep equality by value), against document members; truthiness; to_number over 47 strings (json-numbers in every notation and near '
                   'misses: ".5", "5.", "01", "+1", " 1", "1 ", "0x10", "1e", "1.5.2", "nan", "Infinity" ...), to_string / to_number round trips; fractional literals in '
                   'containers, multi-selects, pipes; thorough adds one layer of 30 numeric outer wraps (abs ceil floor sum avg max min sort comparators filters map ...); '
                   '(fracarr) every array of 0-3 numbers over 5 values (0-4 over 8 in thorough; all dyadic so that sums and averages are exact; 2 and 2.0 both present: '
                   'ties, maximum not last, one element) as literal under every built-in, sort_by / max_by / min_by / map with &@ / &abs(@) / &ceil(@), contains, filters, '
                   'sum/avg/ceil/floor compositions, and as array of {k, id} objects under sort_by / max_by / min_by / filters / projections; (fracdoc) the same functions, '
                   'filters [?@ op `x`] / [?k op `x`] with all comparators and 8 fractional operands on both sides, projections, map, indexes, comparisons between members, '
                   'contains over 7 documents holding fractional numbers built as C++ doubles / integers (not parsed) incl. non-dyadic values and number-like strings; '
                   '(stable) sort_by / sort / max_by / min_by / reverse / map over arrays of 17-40 elements with 2-3 distinct keys and a unique id (stability of sort_by; a library sort loses stability only above 16 elements), 154 expressions x 7 documents. 22 documents incl. empty containers, nulls, mixed arrays, nested arrays, sort ties, non-ASCII and quoted keys. '
                   'evaluations = (case, document, flavour json|ojson) x 4 entry points; distinct_nontrivial = evaluations with a non-null predicted value or a '
                   'predicted error')
    cov['bounds'] = {c: open(os.path.join(vf.SPEC, c)).read().split('CONSTANTS')[1].split('KnownDeviations')[0].split() for c in CFG[tier]}
    kd = '{' + ', '.join(sorted(set(n for c in CFG[tier]
                                     for n in re.findall(r'"[^"]+"', open(os.path.join(vf.SPEC, c)).read().split('KnownDeviations =')[1])))) + '}'
    cov['known_deviation_classes_tagged'] = kd
    cov['samples'] = vf.sample_lines(g[0][0], 2) + vf.sample_lines(g[2][0], 1)
    rep.assumptions += [
        'numbers are small integers and exact decimals with at most 4 fraction digits; a returned double must be bit-for-bit the double nearest to the predicted decimal, numbers compare by value (an integer and a double with the same value are the same JMESPath number); dont-care: sum / avg over elements that are not dyadic rationals (binary floating point rounding, e.g. 0.1 + 0.2), avg whose exact quotient needs more than 4 additional fraction digits (1/3), to_string of a number with an integral value (1 vs 1.0 vs 1e2) or more than 3 fraction digits, to_string of containers / null, to_number of a json-number with more than 7 digits / exponent beyond +-6; negative zero, NaN and infinities are not generated',
        'the enumeration order of object members is unspecified: order-dependent results are accepted in ascending or descending key order for json, verdict only for ojson',
        'an error is always acceptable for an expression that contains an unknown function, a wrong arity, a zero slice step or merge()/not_null() without arguments but does not evaluate it',
        'a value or an error is acceptable when || / && decides on the left operand and the right operand would fail (the specification does not say the right side is skipped)',
        'ordering comparators on two strings, contains(string, non-string), max_by/min_by ties between different elements, expression-types passed for "any" parameters, to_array(null) are dont-care',
        'expressions whose reading the grammar leaves open are not generated: "!" before a dotted/indexed expression, chained comparators, a filter inside the right-hand side of a filter projection, postfixes after a leading ".[..]"/".{..}" of a right-hand side, backslashes in raw strings, empty quoted identifiers',
        'cases that fall into a known-deviation class (notes/C13.md, SUSPECTED DEFECTS) are generated, predicted strictly and compared like all others; the spec only tags them (field dev) and a mismatch on a tagged (case, document) is matched against known_findings.jsonl by {dev, what}: ' + kd]
    return rep.finish(dict(harness='c13', docs=docs))


def replay(path):
    d = json.load(open(path))
    binary = vf.build('c13', ['c13.cpp'])
    recs = vf.run_one(binary, d['case'], args=['--docs', docs_file()])
    bad = [r for r in recs if r.get('k') != 'stat']
    for r in bad:
        print(json.dumps({k: v for k, v in r.items() if k != 'case'})[:1500])
    print('expression=%s' % (expr_of(d['case']) if isinstance(d['case'], dict) else d['case']))
    print('case=%s' % json.dumps(d['case'])[:1500])
    if bad:
        print('VIOLATION property=%s replay=%s' % (PROP, path))
        return 1
    print('no mismatch on this tree')
    return 0


if __name__ == '__main__':
    if len(sys.argv) > 1 and sys.argv[1] == 'mkcorpus':
        n, sk, ns, nr = mkcorpus()
        print('corpus: %d cases, %d skipped, %d/%d syntax-error cases rejected by the reference parser' % (n, len(sk), nr, ns))
        for t, w in sk:
            print('  skipped %s: %s' % (t, w))
