"""C11, reference-resolution family: "$id" / "$ref" are resolved per RFC 3986 section 5.2 (spec/Uri.tla, reproduced on the
RFC's own examples by spec/gen/MC_UriCorpus inside TLC); spec/gen/MC_C11uri enumerates base URI x nested relative "$id" x
reference (dot / dot-dot / empty / ordinary segments, absolute-path, network-path and absolute references, query, empty
fragment) with the identifier addressed and near-miss identifiers, and JSON Pointer fragments whose tokens need ~ escapes and
percent-encoding (RFC 6901 section 6); harness/c11uri.cpp requires the verdicts that follow."""
import json
import vf

CFGS = {'quick': ['gen/MC_C11uri_q.cfg', 'gen/MC_C11urinest_q.cfg', 'gen/MC_C11uriptr.cfg'],
        'thorough': ['gen/MC_C11uri_t.cfg', 'gen/MC_C11urinest_t.cfg', 'gen/MC_C11uriptr.cfg']}
SOURCES = ['c11uri.cpp']


def text(cps):
    return ''.join(chr(x) for x in cps or [])


def sig(r):
    c = r.get('case') or {}
    s = {'family': 'uri', 'cls': c.get('cls', '?')}
    if r.get('crash'):
        s.update(base=text(c.get('base')), inner=text(c.get('inner')), ref=text(c.get('ref')))
    for k in ('what', 'dialect', 'flavour'):
        if k in r:
            s[k] = r[k]
    return s


def is_uri_case(case):
    return isinstance(case, dict) and 'base' in case and (('ref' in case and 'target' in case) or ('key' in case and 'tok' in case))


def setup():
    vf.build('c11uri', SOURCES)
    for cfg in CFGS['quick']:
        vf.tlc_gen('gen/MC_C11uri', cfg, timeout=1200)


def run_family(rep, tier, totals):
    binary = vf.build('c11uri', SOURCES)
    r = vf.tlc_check('gen/MC_UriCorpus', 'gen/MC_UriCorpus.cfg', timeout=600)
    if r['rc'] != 0:
        raise vf.InfraError('spec/Uri.tla does not reproduce the RFC 3986 examples:\n' + r['tail'])
    rep.add_tlc(r)
    n = 0
    for cfg in CFGS[tier]:
        g = vf.tlc_gen('gen/MC_C11uri', cfg, timeout=2400)
        rep.add_tlc(g[1])
        n += vf.count_lines(g[0])
        recs = vf.run_shards(binary, g[0])
        vf.g_triage(rep, binary, recs, sig, totals=totals, max_repro=60)
    rep.coverage['uri_cases'] = n
    return n


def replay(path, case, prop):
    binary = vf.build('c11uri', SOURCES)
    recs = vf.run_one(binary, case)
    bad = [r for r in recs if r.get('k') in ('mismatch', 'terminate', 'signal')]
    for r in bad[:10]:
        print(json.dumps({k: v for k, v in r.items() if k != 'case'})[:600])
    if bad:
        print('VIOLATION property=%s replay=%s' % (prop, path))
        return 1
    print('no mismatch on this tree')
    return 0
