"""C17 - Typed encoding and decoding are inverse and route-independent.
Spec: Reflect (type algebra, ToJ = JSON image of a typed value, FromJ = typed reading of a JSON value in
ok | err | dc, Is = type selection) over JsonValue (+ integers beyond 32 bits as sign and decimal digits, decimal
fractions); TLC enumerates, per type of a fixed family mirrored by C++ declarations in harness/c17.cpp, every value
over small domains (integer kinds: their boundary values) and every JSON input within a fault budget of a seed
image, and checks the model-internal obligations (round trip, stability, ok => is, named faults => err, the two
tables of integer ranges agree).
Binding: G (predicted image / value / error replayed through encode_X, decode_X, try_ variants, basic_json + as<T>)."""
import json, os, random, re, subprocess
import vf

PROP = 'C17'
# quick: the 43 types of the first family in three runs (qa, qb, qc: Budget 1), the numeric / N_-flavour types (n: Budget 1), and a
# selection of both at Budget 2 (q2).  One TLC run has a single initial state and keeps mostly one worker busy, so the runs go in parallel.
CFG = {'quick': ['gen/MC_C17_qa.cfg', 'gen/MC_C17_qb.cfg', 'gen/MC_C17_qc.cfg', 'gen/MC_C17_n.cfg', 'gen/MC_C17_q2.cfg'],
       'thorough': ['gen/MC_C17_ta.cfg', 'gen/MC_C17_tb.cfg', 'gen/MC_C17_tc.cfg', 'gen/MC_C17_tn.cfg']}
NPARTS = 12
FLAGS = ['-D_GLIBCXX_ASSERTIONS']


def sig(r):
    c = r.get('case') or {}
    if isinstance(c, str):
        try:
            c = json.loads(c)
        except ValueError:
            c = {}
    dev = ','.join(sorted(c.get('dev') or []))
    fmt = r.get('fmt', '-')
    if dev:       # known-deviation classes: coarse signature {dev, what, fmt class, via} (one root cause = a handful of signatures)
        return {'dev': dev, 'what': r.get('what', 'crash'), 'fmt': fmt if fmt in ('-', 'ubjson') else 'stream',
                'via': 'basic_json' if 'json(v)' in r.get('route', '') else 'direct'}
    # unlisted: fine signature (one VIOLATION line per type / case kind / route / predicted outcome)
    return {'dev': '', 'what': r.get('what', 'crash'), 'fmt': fmt, 'ty': c.get('ty'), 'kind': c.get('k'), 'r': c.get('r', ''),
            'route': r.get('route', '-')}


def prepare(tier, cfgs=None):
    """the 12 translation units and the TLC runs (one initial state each: mostly one busy worker) all at once"""
    from concurrent.futures import ThreadPoolExecutor
    cfgs = CFG[tier] if cfgs is None else cfgs
    with ThreadPoolExecutor(max_workers=NPARTS + len(cfgs)) as ex:
        fb = {k: ex.submit(vf.build, 'c17_%d' % k, ['c17.cpp'], FLAGS + ['-DC17_PART=%d' % k], opt='-O0') for k in range(NPARTS)}
        fg = [ex.submit(vf.tlc_gen, 'gen/MC_C17', c, timeout=3000, xmx='6g', workers=4 if tier == 'quick' else 8) for c in cfgs]
        return {'c17_%d' % k: f.result() for k, f in fb.items()}, [f.result() for f in fg]


def binaries():
    return prepare('quick', cfgs=[])[0]


def setup():
    prepare('quick')


TY_RE = re.compile(r'"ty":"(\w+)"')


def split_cases(bins, g):
    """one case file per binary: the cases of the types it instantiates (`--types`), out of every generated file.
    A generated type that no binary instantiates is an infrastructure error (the C++ family must mirror MC_C17!Family)."""
    owner = {}
    for k in range(NPARTS):
        for t in subprocess.run([bins['c17_%d' % k], '--types'], stdout=subprocess.PIPE, text=True, check=True).stdout.split():
            owner[t] = k
    d = vf.ensure(os.path.join(vf.WORK, 'run'))
    tag = '%d-%d' % (os.getpid(), random.randrange(10**9))
    paths = [os.path.join(d, 'c17-%s-part%d.ndjson' % (tag, k)) for k in range(NPARTS)]
    files = [open(p, 'w') for p in paths]
    counts = [0] * NPARTS
    for path, meta in g:
        with open(path) as fh:
            for line in fh:
                m = TY_RE.search(line)
                k = owner.get(m.group(1)) if m else None
                if k is None:
                    raise vf.InfraError('generated case of a type that harness/c17.cpp does not instantiate: %s' % line[:200])
                files[k].write(line)
                counts[k] += 1
    for f in files:
        f.close()
    return paths, counts


def run(tier):
    from concurrent.futures import ThreadPoolExecutor
    rep = vf.Report(PROP, tier)
    bins, g = prepare(tier)
    totals = {}
    for path, meta in g:
        rep.add_tlc(meta)
    paths, counts = split_cases(bins, g)
    try:
        total = max(1, sum(counts))
        with ThreadPoolExecutor(max_workers=NPARTS) as ex:     # all binaries at once, shards in proportion to the cases of each
            futs = [ex.submit(vf.run_shards, bins['c17_%d' % k], paths[k], nshards=max(1, min(vf.NCPU, round(3 * vf.NCPU * counts[k] / total))),
                              timeout=3000) for k in range(NPARTS)]
            allrecs = [f.result() for f in futs]
        for k in range(NPARTS):
            vf.g_triage(rep, bins['c17_%d' % k], allrecs[k], sig, totals=totals, max_repro=120)
    finally:
        for p in paths:
            try:
                os.unlink(p)
            except OSError:
                pass
    cov = rep.coverage
    cov['traces_validated_against_impl'] = totals.get('cases', 0)
    cov['evaluations'] = totals.get('checks', 0)
    cov['distinct_nontrivial'] = totals.get('cases', 0)
    cov['exhaustive'] = True
    cov['rule'] = ('for each of the 80 types of MC_C17!Family (scalars incl. 8/16/32/64 bit signed and unsigned integers, float, double; sequence / '
                   'associative containers, std::array, optional, smart pointers, tuple, pair, variants, enums; classes declared with the N_/ALL_ '
                   'MEMBER, CTOR_GETTER, GETTER_SETTER, _NAME and TPL_ trait macros - every flavour that has an N_ form with a class holding mandatory '
                   'and optional members (integer with default, vector, optional<double>, 64 bit member); nested classes, polymorphic pointers, '
                   'bitsets, chrono seconds): (val) every value over the value universe UV (integer kinds: smallest, -1, 0, largest, for uint64_t '
                   'also INT64_MAX and INT64_MAX+1; floating point 0.5, -2.25, 0.1 (double only)); (inp) every JSON document reachable from the image '
                   'of a seed value (universe US) by at most Budget faults (node replaced by a Pool document, number replaced by the extreme values of '
                   'its kind / the nearest integers outside its range / a fraction, element dropped/appended, member dropped, undeclared member '
                   'added, omitted optional member supplied); one case = one distinct (type, value) or (type, document); each case is replayed in '
                   'JSON, CBOR, MessagePack, UBJSON, BSON (object-rooted types, integers within int64_t) through encode_X/decode_X, '
                   'try_encode_X/try_decode_X, basic_json(v), as<T>, try_as<T>, with members in ascending and descending order')
    cov['bounds'] = {c: open(os.path.join(vf.SPEC, c)).read().split('CONSTANTS')[1].split() for c in CFG[tier]}
    cov['samples'] = vf.sample_lines(g[0][0], 2) + [json.loads(l) for l in open(g[0][0]) if '"inp"' in l][:2]
    rep.assumptions += ['types outside the fixed family are not decided (DESIGN 5/C17)',
                        'declared dont-care readings (never compared): lenient scalar conversions documented in json/as.md (number<->number, '
                        'bool->integer, numeric strings, anything->std::string via dump; integer<->floating point, a double that float cannot represent), '
                        'integers outside the range of the target type (json/as.md examples (2),(5) show wrap-around), an integer outside both int64_t and '
                        'uint64_t offered to a variant, surplus tuple/pair/array elements, '
                        'non-canonical integer keys, null for a polymorphic pointer, a variant/polymorphic alternative selected by is() that then '
                        'fails to convert, non-canonical base16 text for bitsets',
                        'floating point values are limited to a few decimal fractions (exact in float, plus 0.1 for double); integer keys of maps are '
                        '32 bit; wide-character and stream overloads are not exercised; BSON is exercised only for documents whose integers fit int64_t',
                        'an error is "reported" when the call throws a jsoncons::json_exception or returns an error result; try_ variants that throw '
                        'a json_exception are counted as reporting the error']
    return rep.finish(dict(harness='c17'))


def replay(path):
    d = json.load(open(path))
    bins = binaries()
    bad = []
    for k in range(NPARTS):
        recs = vf.run_one(bins['c17_%d' % k], d['case'])
        bad += [r for r in recs if r.get('k') != 'stat']
    for r in bad:
        print(json.dumps({k: v for k, v in r.items() if k != 'case'}))
    print('case=%s' % json.dumps(d['case'])[:1000])
    if bad:
        print('VIOLATION property=%s replay=%s' % (PROP, path))
        return 1
    print('no mismatch on this tree')
    return 0
