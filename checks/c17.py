"""C17 - Typed encoding and decoding are inverse and route-independent.
Spec: Reflect (type algebra, ToJ = JSON image of a typed value, FromJ = typed reading of a JSON value in
ok | err | dc, Is = type selection) over JsonValue; TLC enumerates, per type of a fixed family mirrored by C++
declarations in harness/c17.cpp, every value over small domains and every JSON input within a fault budget of a
seed image, and checks the model-internal obligations (round trip, stability, ok => is, named faults => err).
Binding: G (predicted image / value / error replayed through encode_X, decode_X, try_ variants, basic_json + as<T>)."""
import json, os
import vf

PROP = 'C17'
CFG = {'quick': ['gen/MC_C17_q.cfg', 'gen/MC_C17_q2.cfg'], 'thorough': ['gen/MC_C17_t.cfg']}
NPARTS = 6
FLAGS = ['-D_GLIBCXX_ASSERTIONS']


def sig(r):
    c = r.get('case') or {}
    if isinstance(c, str):
        try:
            c = json.loads(c)
        except ValueError:
            c = {}
    dev = ','.join(sorted(c.get('dev') or []))
    fmt = r.get('fmt', '-')
    if dev:       # known-deviation classes: coarse signature {dev, what, fmt class} (one root cause = a handful of signatures)
        return {'dev': dev, 'what': r.get('what', 'crash'), 'fmt': fmt if fmt in ('-', 'ubjson') else 'stream'}
    # unlisted: fine signature (one VIOLATION line per type / case kind / route / predicted outcome)
    return {'dev': '', 'what': r.get('what', 'crash'), 'fmt': fmt, 'ty': c.get('ty'), 'kind': c.get('k'), 'r': c.get('r', ''),
            'route': r.get('route', '-')}


def binaries():
    specs = [dict(name='c17_%d' % k, sources=['c17.cpp'], flags=FLAGS + ['-DC17_PART=%d' % k], opt='-O0') for k in range(NPARTS)]
    return vf.build_many(specs)


def gens(tier):
    return [vf.tlc_gen('gen/MC_C17', c, timeout=3000) for c in CFG[tier]]


def setup():
    binaries()
    gens('quick')


def run(tier):
    rep = vf.Report(PROP, tier)
    bins = binaries()
    g = gens(tier)
    totals = {}
    for path, meta in g:
        rep.add_tlc(meta)
        for k in range(NPARTS):
            b = bins['c17_%d' % k]
            recs = vf.run_shards(b, path)
            vf.g_triage(rep, b, recs, sig, totals=totals, max_repro=120)
    cov = rep.coverage
    cov['traces_validated_against_impl'] = totals.get('cases', 0)
    cov['evaluations'] = totals.get('checks', 0)
    cov['distinct_nontrivial'] = totals.get('cases', 0)
    cov['exhaustive'] = True
    cov['rule'] = ('for each of the 43 types of MC_C17!Family (scalars, sequence / associative containers, std::array, optional, smart '
                   'pointers, tuple, pair, variants, enums, classes declared with the N_/ALL_ MEMBER, CTOR_GETTER, GETTER_SETTER, _NAME and TPL_ '
                   'trait macros with mandatory and optional members, nested classes, polymorphic pointers, bitsets, chrono seconds): (val) every '
                   'value over the value universe UV; (inp) every JSON document reachable from the image of a seed value (universe US) by at most '
                   'Budget faults (node replaced by a Pool document, element dropped/appended, member dropped, undeclared member added, omitted '
                   'optional member supplied); one case = one distinct (type, value) or (type, document); each case is replayed in JSON, CBOR, '
                   'MessagePack, UBJSON, BSON (object-rooted types) through encode_X/decode_X, try_encode_X/try_decode_X, basic_json(v), as<T>, '
                   'try_as<T>, with members in ascending and descending order')
    cov['bounds'] = {c: open(os.path.join(vf.SPEC, c)).read().split('CONSTANTS')[1].split() for c in CFG[tier]}
    cov['samples'] = vf.sample_lines(g[0][0], 2) + [json.loads(l) for l in open(g[0][0]) if '"inp"' in l][:2]
    rep.assumptions += ['types outside the fixed family are not decided (DESIGN 5/C17)',
                        'declared dont-care readings (never compared): lenient scalar conversions documented in json/as.md (number<->number, '
                        'bool->integer, numeric strings, anything->std::string via dump), out-of-range integers, surplus tuple/pair/array elements, '
                        'non-canonical integer keys, null for a polymorphic pointer, a variant/polymorphic alternative selected by is() that then '
                        'fails to convert, non-canonical base16 text for bitsets',
                        'floating point members are outside the model; wide-character and stream overloads are not exercised',
                        'an error is "reported" when the call throws a jsoncons::json_exception or returns an error result; try_ variants that throw '
                        'a json_exception are counted as reporting the error']
    return rep.finish(dict(harness='c17'))


def replay(path):
    d = json.load(open(path))
    bins = binaries()
    bad = []
    for k in range(NPARTS):
        recs = vf.run_one(bins['c17_%d' % k], d['case'])
        bad += [r for r in recs if r.get('k') != 'stat']
    for r in bad:
        print(json.dumps({k: v for k, v in r.items() if k != 'case'}))
    print('case=%s' % json.dumps(d['case'])[:1000])
    if bad:
        print('VIOLATION property=%s replay=%s' % (PROP, path))
        return 1
    print('no mismatch on this tree')
    return 0
