"""C12 - JSONPath queries select exactly the addressed nodes.
Spec: JsonPath (evaluator producing (normalized path, value) lists, nodups / sort, json_replace, un-parser to dot
and bracket notation) over JsonValue, written from doc/ref/jsonpath, RFC 9535 and the jsonpath test_data as reference
data; validated against that reference data inside TLC (MC_C12ref) before it is used as an oracle.
TLC enumerates queries segment by segment (MC_C12, modes seg / slice / filter) and checks the model-internal
obligations (paths resolve, normalized-path round trip, option laws, RFC 9535 slice closed form, replace laws) while
emitting the cases.
Functions family (MC_C12fn): the built-in functions (abs avg ceil contains ends_with floor keys length max min prod
starts_with sum to_number tokenize), unary minus and + - * / % with their operator levels, written from
doc/ref/jsonpath/functions/*.md, grammar.md and the functions / filters reference data (validated in MC_C12ref too):
every function x a typed value alphabet, arithmetic over 2-3 operands with every operator pair, function calls as
filter operands and as whole expressions.  Cases that fall into a suspected-defect class of jsoncons carry a tag
("dev"); their prediction stays the specification's and a mismatch is matched against known_findings.jsonl.
Binding: G - every case is replayed through json_query (values, paths, callback), make_expression + evaluate /
select_paths, the result options, json_location::parse + get for every returned path, json_replace (value and
callback forms) and jsonpath_expression::update, for json and ojson and every notation the un-parser produced."""
import json, os, hashlib
import vf

PROP = 'C12'
CFG = {'quick': ['gen/MC_C12seg_q.cfg', 'gen/MC_C12slice_q.cfg', 'gen/MC_C12filter_q.cfg', 'gen/MC_C12fn_q.cfg'],
       'thorough': ['gen/MC_C12seg_t.cfg', 'gen/MC_C12slice_t.cfg', 'gen/MC_C12filter_t.cfg', 'gen/MC_C12fn_t.cfg']}
# the functions family (built-in functions, unary minus, + - * / %, function calls as whole expressions) has a generator of its own
FN_MODULE = 'gen/MC_C12fn'
REF = os.path.join(vf.SPEC, 'validation', 'C12_ref.ndjson')

# Root causes of jsoncons defects found by this check (notes/C12.md, section SUSPECTED DEFECTS).  All four were
# repaired in /repo (fix commit 0d32cc9, known_findings.jsonl) and are therefore INCLUDED in the compared space.
INCLUDE = {
    'step_overflow': True,        # TLC constant InclStepOverflow: slice with step 2^63-1 and first index >= 1
    'empty_array_length': True,   # TLC constant InclEmptyArrLenP: x.length inside a filter where x is an empty array
    'json_rvalue_replace': True,  # harness --json-rvalue: json_replace(root, expr, Json&&) with two or more matches
    'get_root': True,             # harness --get-root: get(root, json_location "$") reports not found
}
TLC_FLAG = {'step_overflow': 'InclStepOverflow', 'empty_array_length': 'InclEmptyArrLenP'}
HARNESS_FLAG = {'json_rvalue_replace': '--json-rvalue', 'get_root': '--get-root'}


def included():
    inc = dict(INCLUDE)
    for name in (os.environ.get('VERIF_C12_INCLUDE') or '').split(','):
        name = name.strip()
        if name:
            if name not in inc:
                raise vf.InfraError('VERIF_C12_INCLUDE: unknown flag %r (known: %s)' % (name, ', '.join(sorted(inc))))
            inc[name] = True
    return inc


def is_fn(cfg):
    return os.path.basename(cfg).startswith('MC_C12fn')


def cfg_for(cfg, inc):
    """the registered cfg, or a derived copy (under .work) with the Incl* constants of the enabled flags set to TRUE"""
    on = [TLC_FLAG[k] for k in sorted(TLC_FLAG) if inc[k]]
    if not on or is_fn(cfg):
        return cfg
    txt = open(os.path.join(vf.SPEC, cfg)).read()
    for const in on:
        assert '%s = FALSE' % const in txt
        txt = txt.replace('%s = FALSE' % const, '%s = TRUE' % const)
    d = vf.ensure(os.path.join(vf.WORK, 'cfg'))
    path = os.path.join(d, os.path.basename(cfg)[:-4] + '-' + hashlib.sha256(txt.encode()).hexdigest()[:12] + '.cfg')
    if not os.path.exists(path):
        tmp = path + '.tmp%d' % os.getpid()
        open(tmp, 'w').write(txt)
        os.rename(tmp, path)
    return path


def harness_args(inc):
    return [HARNESS_FLAG[k] for k in sorted(HARNESS_FLAG) if inc[k]]


def text(cps):
    try:
        return ''.join(chr(c) for c in cps)
    except Exception:
        return '?'


def sig(r):
    c = r.get('case') or {}
    if not isinstance(c, dict):
        return {'case': str(c)[:200]}
    dev = ','.join(c.get('dev') or [])
    if dev:
        # a case the functions-family generator put into suspected-defect classes of jsoncons (notes/C12.md): coarse signature
        # {dev, what}, matched against known_findings.jsonl (hundreds of expressions share one root cause)
        return {'mode': c.get('m'), 'dev': dev, 'what': 'exception' if r.get('what') == 'exception' else ('crash' if r.get('crash') else 'result')}
    s = {'mode': c.get('m'), 'dev': '', 'doc': json.dumps(c.get('d')), 'query': text((c.get('ex') or [[]])[0])}
    for k in ('flavour', 'what', 'expr'):
        if k in r:
            s[k] = r[k]
    return s


def gens(tier, inc):
    return [vf.tlc_gen(FN_MODULE if is_fn(c) else 'gen/MC_C12', cfg_for(c, inc), timeout=3000) for c in CFG[tier]]


def validate_spec(rep=None):
    """the spec must reproduce jsoncons' own reference data for the constructs it covers (spec bug otherwise)"""
    d = vf.ensure(os.path.join(vf.WORK, 'run'))
    out = os.path.join(d, 'c12ref-%d.out' % os.getpid())
    try:
        r = vf.tlc('gen/MC_C12ref', 'gen/MC_C12ref.cfg', env={'C12REF': REF}, extra=('-continue',), timeout=900, keep_stdout=out)
        log = open(out).read()
    finally:
        if os.path.exists(out):
            os.unlink(out)
    ncases = vf.count_lines(REF)
    if 'REF-MISMATCH' in log or r['distinct'] != ncases + 1 or 'No error has been found' not in log:
        i = log.find('REF-MISMATCH')
        raise vf.InfraError('spec/JsonPath.tla disagrees with the jsonpath reference data (spec bug) or MC_C12ref did not run:\n'
                            + (log[max(0, i - 200):i + 3000] if i >= 0 else r['tail'][-3000:]))
    if rep is not None:
        rep.add_tlc(r)
        rep.coverage['reference_cases_reproduced_by_spec'] = ncases - log.count('REF-DONTCARE')
        rep.coverage['reference_cases_dont_care'] = log.count('REF-DONTCARE')


def setup():
    vf.build('c12', ['c12.cpp'])
    gens('quick', included())


def run(tier):
    rep = vf.Report(PROP, tier)
    inc = included()
    binary = vf.build('c12', ['c12.cpp'])
    validate_spec(rep)
    g = gens(tier, inc)
    totals = vf.g_replay(rep, binary, g, sig, args=harness_args(inc))
    cov = rep.coverage
    cov['traces_validated_against_impl'] = totals.get('cases', 0)
    cov['evaluations'] = totals.get('checks', 0)
    cov['distinct_nontrivial'] = totals.get('nonempty', 0)
    cov['dont_care_cases'] = totals.get('dontcare', 0)
    cov['exhaustive'] = True
    cov['rule'] = ('(seg) every query of up to MaxSegs segments over the segment alphabet of spec/gen/MC_C12.tla - names incl. quote, backslash, '
                   'double quote, empty and non-ASCII names, indices incl. negative and out of range, wildcard, slices, unions incl. duplicates, '
                   'slices, filters and relative paths, recursive descent, parent operator, a few filters - x the SegDocs documents, a query is '
                   'extended only while it selects something; (slice) every start:stop:step over the bound and step sets incl. absent and '
                   '+-(2^63-1) x arrays of length 0..MaxArr; (filter) one filter from the filter alphabet (6 comparison operators x operand paths '
                   'x literals, path-path and literal-path comparisons, length() and .length, truthiness tests of singular and non-singular '
                   'paths incl. nested filters, &&, ||, ! combinations) at the root, below "..", in unions, after a prefix and before a suffix x '
                   'FilterDocs; every case in up to 4 notations (dot / bracket, single / double quotes, with / without white space and filter '
                   'parentheses) x json and ojson x plain / nodups / sort / nodups|sort x values / paths / callback / compiled / select_paths / '
                   'json_replace / update; one case = one distinct (document, query)')
    cov['rule'] += ('; (fn) functions family: (un) each of abs avg ceil floor keys length max min prod sum to_number x every value of a typed '
                    'alphabet (integers incl. negative and zero, halves, strings incl. empty / non-ASCII / number texts, arrays: empty, one element, '
                    'numbers, strings, mixed, nested, objects, null, booleans, a missing member) as F(@) compared with 8 literals and with the value '
                    'the specification computes (==, !=, <, >=), as a test, negated, on literals and nested in abs / ceil / floor; (bin) contains, '
                    'starts_with, ends_with, tokenize x (source, search) pairs with the search string absent / at the start / in the middle / at the '
                    'end, tokenize through length and indices; (ar) a op b, (a op1 b) op2 c and a op1 (b op2 c) for every operator pair of + - * / % '
                    'over members, literals and function calls, unary minus in every position, division and modulus by zero, non-number operands, '
                    'each pinned by == to the value computed for one element, plus < >= and arithmetic below comparison / ! / && / ||; (mix) the '
                    'filters the reference pages show (avg / max / sum of $-paths, !contains(keys(@),..), tokenize(..)[i], nested filters in '
                    'arguments) after a prefix and before a suffix; (top) a function call as the whole expression, optionally followed by [*] / [i]: '
                    'values only (json_query, callback, compiled evaluate; numbers by numeric value); every case in 4 notations (tight / spaced '
                    'operators, minimal / full parentheses)')
    cov['bounds'] = {c: open(os.path.join(vf.SPEC, c)).read().split('CONSTANTS')[1].split() for c in CFG[tier]}
    cov['included_known_root_causes'] = sorted(k for k, v in inc.items() if v)
    cov['samples'] = vf.sample_lines(g[0][0], 1) + vf.sample_lines(g[2][0], 1) + vf.sample_lines(g[1][0], 1) + vf.sample_lines(g[3][0], 1)
    fams, tags = {}, {}
    with open(g[3][0]) as fh:
        for line in fh:
            c = json.loads(line)
            f = fams.setdefault(c.get('fam'), {'cases': 0, 'dont_care': 0, 'nonempty': 0})
            f['cases'] += 1
            if c.get('dc'):
                f['dont_care'] += 1
            elif c.get('r') or c.get('tv'):
                f['nonempty'] += 1
            for d in c.get('dev') or []:
                tags[d] = tags.get(d, 0) + 1
    cov['functions_family'] = {'cases_by_family': fams, 'cases_tagged_with_suspected_defect_class': tags}
    rep.assumptions += [
        'results are compared as lists; as multisets when the spec reports that members of an object with two or more members were enumerated '
        '(wildcard, filter, recursive descent), because neither doc/ref/jsonpath nor RFC 9535 fixes that order; sort results always as lists',
        'filter semantics where RFC 9535 and jsoncons differ follow the jsoncons reference data (missing = null, truthiness of operands, '
        'ordering comparisons of non-number non-string operands are false)',
        'not compared (declared dont-care, see notes/C12.md): length() of a non-container, <= / >= on equal booleans, arrays or objects, '
        'paths with ".." or "^" inside filters, absolute paths as union members, arrays of values in undetermined order',
        'functions family, not compared (declared dont-care, notes/C12.md "Functions family"): a type error in a function call or arithmetic '
        'on a non-number inside a filter when the "no value = null" reading would select the node (decided: not selected when both readings '
        'agree); division / modulus by zero; a non-integer quotient of two integers; remainders with a negative operand; % on non-integers; '
        'results that depend on the last bit of a double (values not exactly representable that compare equal or cancel); the order of keys(); '
        'tokenize with a pattern that is not a plain literal, an empty source or a trailing separator; to_number of " 1", "+1", "1e1"...; '
        'a missing member as the search value of contains; the value (false or nothing) of an ordering comparison of incomparable operands '
        'when it is compared again; the path reported for a function call used as the whole expression (values only)',
        'functions family: cases in the suspected-defect classes same-level-operators-grouped-from-right, number-minus-nospace, '
        'prod-of-empty-array, to_number-unparseable-gives-null are generated, predicted strictly and compared; a mismatch on a tagged case is '
        'matched against known_findings.jsonl by {dev, what}',
        'not generated: regular expressions (=~, and tokenize patterns other than plain literals are dont-care), custom functions, function '
        'calls with a wrong number of arguments, JSON array / object literals as operands, expression selectors [(..)], numeric names on arrays, '
        '"length" as a selector, the empty name in dot notation, a bare "..", the parent operator before other segments, step 0',
        'excluded root causes of suspected defects (default): ' + ', '.join(sorted(k for k, v in inc.items() if not v))]
    return rep.finish(dict(harness='c12', harness_args=harness_args(inc)))


def replay(path):
    d = json.load(open(path))
    binary = vf.build('c12', ['c12.cpp'])
    args = list((d.get('meta') or {}).get('harness_args') or harness_args(included()))
    recs = vf.run_one(binary, d['case'], args=args)
    bad = [r for r in recs if r.get('k') != 'stat']
    for r in bad:
        print(json.dumps({k: v for k, v in r.items() if k != 'case'})[:3000])
    c = d['case']
    if isinstance(c, dict):
        print('document=%s' % json.dumps(c.get('d'))[:1000])
        print('queries=%s' % json.dumps([text(e) for e in c.get('ex', [])]))
        print('predicted=%s' % json.dumps([[text(p), v] for p, v in c.get('r', [])])[:2000])
        if c.get('vo'):
            print('predicted values (function call as the whole expression)=%s' % json.dumps(c.get('tv'))[:2000])
        if c.get('dev'):
            print('suspected-defect classes of this case=%s' % ','.join(c['dev']))
    if bad:
        print('VIOLATION property=%s replay=%s' % (PROP, path))
        return 1
    print('no mismatch on this tree')
    return 0
