"""C15 - JSON Patch is RFC 6902-conformant and atomic.
Spec: JsonPatch = (1) Apply as an atomic function written from RFC 6902, (2) the undo-log machine
of apply_patch (operation_unwinder).  TLC model-checks that (2) refines (1) for every (document,
patch) in bound (MC_C15impl) - genuine design-level checking of the rollback scheme.
G: every reachable (document, patch) with predicted outcome replayed through apply_patch (both
overloads, json/ojson), failed patches must leave the target equal to the original.
V: every patch produced by from_diff is recorded and validated by Trace_C15 with the spec's Apply."""
import json, os
import vf

PROP = 'C15'
CFG = {'quick': dict(gen=['gen/MC_C15_q.cfg', 'gen/MC_C15na_q.cfg'], impl='gen/MC_C15impl.cfg', diff='gen/MC_C15diff_q.cfg'),
       'thorough': dict(gen=['gen/MC_C15_t.cfg', 'gen/MC_C15_t3.cfg', 'gen/MC_C15na_t.cfg'], impl='gen/MC_C15impl_t.cfg', diff='gen/MC_C15diff_t.cfg')}


def sig(r):
    c = r['case']
    s = {}
    for k in ('d', 'patch', 'a', 'b'):
        if k in c:
            s[k] = json.dumps(c[k])
    for k in ('flavour', 'what'):
        if k in r:
            s[k] = r[k]
    return s


def setup():
    vf.build('c15', ['c15.cpp'])
    for c in CFG['quick']['gen']:
        vf.tlc_gen('gen/MC_C15', c, timeout=1200)
    vf.tlc_gen('gen/MC_C15diff', CFG['quick']['diff'], timeout=1200)


def run(tier):
    rep = vf.Report(PROP, tier)
    binary = vf.build('c15', ['c15.cpp'])
    cfg = CFG[tier]
    r = vf.tlc_check('gen/MC_C15', cfg['impl'], timeout=2400)
    if r['rc'] != 0:
        # the implementation-shaped model is a transcription of the code as it is: a counterexample here is
        # either a spec error or a design defect; it is confirmed against the code by the G cases below
        rep.notes.append('undo-log machine does not refine Apply inside the model: ' + r['tail'][-1500:])
        raise vf.InfraError('JsonPatch undo-log machine does not refine the atomic function inside the model:\n' + r['tail'][-3000:])
    rep.add_tlc(r)
    rep.coverage['impl_refinement_states'] = r['distinct']
    gens = [vf.tlc_gen('gen/MC_C15', c, timeout=2400) for c in cfg['gen']]
    totals = vf.g_replay(rep, binary, gens, sig)
    # diff law
    gd = vf.tlc_gen('gen/MC_C15diff', cfg['diff'], timeout=2400)
    rep.add_tlc(gd[1])
    recs = vf.run_shards(binary, gd[0])
    traces = sorted([x for x in recs if x.get('k') == 'trace'], key=lambda x: x['idx'])
    vf.g_triage(rep, binary, [x for x in recs if x.get('k') != 'trace'], sig, totals=totals)
    lines = [json.dumps({'a': x['a'], 'd': x['d'], 'b': x['b']}) for x in traces]
    v = vf.validate_traces('trace/Trace_C15', 'trace/Trace_C15.cfg', lines)
    rep.coverage['states'] += v['states']
    rep.coverage['transitions'] += v['transitions']
    for i in v['rejected']:
        x = traces[i]
        rep.violation({'what': 'from_diff-rejected-by-spec', 'a': json.dumps(x['a']), 'b': json.dumps(x['b'])}, {'a': x['a'], 'b': x['b']}, {'d': x['d']})
    cov = rep.coverage
    cov['traces_validated_against_impl'] = v['validated'] + totals.get('cases', 0)
    cov['diff_traces_validated'] = v['validated']
    cov['evaluations'] = totals.get('checks', 0)
    cov['distinct_nontrivial'] = totals.get('cases', 0)
    cov['exhaustive'] = True
    cov['rule'] = ('patches = every sequence of up to MaxOps operations (add/remove/replace/move/copy/test over the path and value sets of '
                   'spec/gen/MC_C15.tla incl. "", "-", missing, index and nested paths, an invalid pointer, plus 8 malformed operations) applied '
                   'to 8 documents, extended only while the prefix succeeds, so a failing operation occurs at every position after every '
                   'successful prefix; diff law: all ordered pairs of the MC_C15diff universe; json and ojson')
    cov['bounds'] = {c: open(os.path.join(vf.SPEC, c)).read().split('CONSTANTS')[1].split() for c in cfg['gen'] + [cfg['diff']]}
    cov['samples'] = vf.sample_lines(gens[0][0], 2) + lines[:1]
    rep.assumptions += ['moving the whole document onto itself (from = path = "") is excluded (RFC 6902 leaves removal of the root undefined)',
                        'equality after a failed patch is JSON-value equality (ojson member order is not part of the claim)']
    return rep.finish(dict(harness='c15'))


def replay(path):
    d = json.load(open(path))
    binary = vf.build('c15', ['c15.cpp'])
    case = d['case']
    recs = vf.run_one(binary, case)
    bad = [r for r in recs if r.get('k') == 'mismatch']
    for r in bad:
        print(json.dumps({k: v for k, v in r.items() if k != 'case'}))
    if 'patch' not in case and not bad:
        tr = [r for r in recs if r.get('k') == 'trace']
        lines = [json.dumps({'a': x['a'], 'd': x['d'], 'b': x['b']}) for x in tr]
        v = vf.validate_traces('trace/Trace_C15', 'trace/Trace_C15.cfg', lines)
        if v['rejected']:
            bad = tr
            print('recorded diff rejected by spec:', json.dumps(tr[0]['d']))
    if bad:
        print('VIOLATION property=%s replay=%s' % (PROP, path))
        return 1
    print('no mismatch on this tree')
    return 0
