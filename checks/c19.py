"""C19 - Allocation failure at any point is handled cleanly.
Spec: AllocLedger (allocation ledger protocol: every free matches a live block with the same size
and an equal allocator; an injected failure propagates as std::bad_alloc and nothing else; survivors
stay usable and, where promised, equal to their pre-call state; after everything is destroyed no
block is live).  TLC model-checks the ledger itself (MC_C19model).
Binding: V - for every (scenario, input) enumerated by TLC and EVERY n in 1..N the harness forks one
execution in which the n-th allocation of the operation fails, records the ledger events, and the
concatenated traces are validated by Trace_C19 (a crash is an event the spec has no action for)."""
import json, os
import vf

PROP = 'C19'


def setup():
    vf.build('c19', ['c19.cpp'], opt='-O0')
    vf.tlc_gen('gen/MC_C19', 'gen/MC_C19.cfg', timeout=300)


def run(tier):
    rep = vf.Report(PROP, tier, level='fault_enumeration')
    binary = vf.build('c19', ['c19.cpp'], opt='-O0')
    r = vf.tlc_check('gen/MC_C19model', timeout=300)
    if r['rc'] != 0:
        raise vf.InfraError('AllocLedger model check failed:\n' + r['tail'])
    rep.add_tlc(r)
    g = vf.tlc_gen('gen/MC_C19', 'gen/MC_C19.cfg', timeout=300)
    rep.add_tlc(g[1])
    maxn = '150' if tier == 'quick' else '2000'
    recs = vf.run_shards(binary, g[0], args=['--maxn', maxn], timeout=2400)
    ex = sorted([x for x in recs if x.get('k') == 'exec'], key=lambda x: (x['idx'], x['n']))
    other = [x for x in recs if x.get('k') not in ('exec', 'stat')]
    if other:
        raise vf.InfraError('c19 harness failed: %s' % json.dumps(other[:2])[:1500])
    # one trace = concatenation of all executions (each starts with Reset); a crashed child ends with a Crash event
    lines, owner = [], []
    for i, x in enumerate(ex):
        evs = [l for l in x['trace'].split('\n') if l.strip()]
        if x['crashed']:
            evs.append(json.dumps({'e': 'Crash', 'status': x.get('status')}))
        for l in evs:
            lines.append(l)
            owner.append(i)
    # shard on execution boundaries (a shard must start with a Reset event)
    from concurrent.futures import ThreadPoolExecutor
    nsh = min(vf.NCPU, max(1, len(ex) // 50))
    per = (len(ex) + nsh - 1) // nsh
    rejected_exec = set()
    states = trans = validated = 0
    def job(k):
        first, last = k * per, min(len(ex), (k + 1) * per)
        idxs = [j for j in range(len(lines)) if first <= owner[j] < last]
        sub = [lines[j] for j in idxs]
        # validate execution by execution after a rejection: on a rejected line, skip to the next Reset
        out = dict(validated=0, rejected=[], states=0, transitions=0)
        pos = 0
        while pos < len(sub):
            r1 = vf.validate_traces('trace/Trace_C19', 'trace/Trace_C19.cfg', sub[pos:], nshards=1, max_fail=1, timeout=2400)
            out['states'] += r1['states']; out['transitions'] += r1['transitions']
            if not r1['rejected']:
                out['validated'] += len(sub) - pos
                break
            bad = pos + r1['rejected'][0]
            out['validated'] += r1['rejected'][0]
            out['rejected'].append(owner[idxs[bad]])
            nxt = bad + 1
            while nxt < len(sub) and not sub[nxt].startswith('{"e":"Reset"'):
                nxt += 1
            pos = nxt
        return out
    with ThreadPoolExecutor(max_workers=nsh) as pool:
        for out in pool.map(job, range(nsh)):
            validated += out['validated']; states += out['states']; trans += out['transitions']
            rejected_exec.update(out['rejected'])
    rep.coverage['states'] += states
    rep.coverage['transitions'] += trans
    for i in sorted(rejected_exec):
        x = ex[i]
        last = [l for l in x['trace'].split('\n') if l.strip()][-3:]
        rep.violation({'scenario': x['scn'], 'input': x['doc'], 'crashed': x['crashed'], 'outcome': 'crash' if x['crashed'] else 'ledger-violation'},
                      {'scn': x['scn'], 'doc': x['doc'], 'n': x['n']}, {'n': x['n'], 'status': x.get('status'), 'last_events': last})
    cov = rep.coverage
    cov['evaluations'] = len(ex)
    cov['distinct_nontrivial'] = sum(1 for x in ex if x['n'] > 0)
    cov['traces_validated_against_impl'] = len(ex) - len(rejected_exec)
    cov['events_validated'] = validated
    cov['exhaustive'] = (tier == 'thorough')
    cov['rule'] = ('fault sequences = for each of 75 (scenario, input) pairs from spec/gen/MC_C19.tla (parse, assign, copy, move, push_back/insert with '
                   'reallocation, erase/insert/resize, merge, dump, binary round trips, JSONPath, JMESPath, pointer edits, flatten, compare, apply_patch, '
                   'schema compile+validate, rvalue / hinted merges, the insertion-ordered container through the same operations, and 4 stateful-allocator scenarios for the sorted and for the insertion-ordered container), the n-th allocation of the operation window fails, for every n in '
                   '1..N (N measured by a dry run; evenly thinned to at most maxn per pair in the quick tier); one forked execution each; non-trivial = n > 0')
    cov['samples'] = [{'scn': ex[1]['scn'], 'doc': ex[1]['doc'], 'n': ex[1]['n'], 'trace_head': ex[1]['trace'].split('\n')[:6]}] if len(ex) > 1 else []
    rep.assumptions += ['one-shot failures only; the injection window is the operation itself; allocations made by destructors (stack-safe flatten_and_destroy) are not failed (DESIGN 5/C19)',
                        'equality with the pre-call state is evaluated with the library operator== in the harness']
    return rep.finish(dict(harness='c19'))


def replay(path):
    d = json.load(open(path))
    binary = vf.build('c19', ['c19.cpp'], opt='-O0')
    g = vf.tlc_gen('gen/MC_C19', 'gen/MC_C19.cfg', timeout=300)
    case = None
    for line in open(g[0]):
        c = json.loads(line)
        if c['scn'] == d['case']['scn'] and c['doc'] == d['case']['doc']:
            case = c
    recs = vf.run_one(binary, case, args=['--maxn', '100000'], timeout=900)
    ex = [x for x in recs if x.get('k') == 'exec' and x['n'] == d['case']['n']]
    bad = False
    for x in ex:
        evs = [l for l in x['trace'].split('\n') if l.strip()]
        if x['crashed']:
            evs.append(json.dumps({'e': 'Crash'}))
        v = vf.validate_traces('trace/Trace_C19', 'trace/Trace_C19.cfg', evs, nshards=1)
        print(x['scn'], x['doc'], 'n=%d' % x['n'], 'crashed=%s' % x['crashed'], 'rejected_at=%s' % v['rejected'], evs[-3:])
        bad = bad or bool(v['rejected'])
    if bad or not ex:
        print('VIOLATION property=%s replay=%s' % (PROP, path))
        return 1
    print('trace accepted on this tree')
    return 0
