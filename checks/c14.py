"""C14 - JSON Pointer operations follow RFC 6901.
Spec: JsonPointer (tokenizer, printer, evaluation, edit operations, flatten) over JsonValue;
TLC checks parse/print round trips inside the model while enumerating the cases.
Binding: G (predicted verdict / tokens / printed form / document after the call)."""
import json, os
import vf

PROP = 'C14'
CFG = {'quick': ['gen/MC_C14str_q.cfg', 'gen/MC_C14op_q.cfg', 'gen/MC_C14flat.cfg'],
       'thorough': ['gen/MC_C14str_t.cfg', 'gen/MC_C14op_t.cfg', 'gen/MC_C14flat.cfg']}


def ptr_of(case):
    try:
        return ''.join(chr(c) for c in case.get('s', []))
    except Exception:
        return '?'


def sig(r):
    c = r['case']
    s = {'kind': c.get('k'), 'pointer': ptr_of(c)}
    if c.get('k') == 'op':
        s['op'] = c.get('op'); s['create'] = c.get('cr'); s['doc'] = json.dumps(c.get('d'))
    if c.get('k') == 'flat':
        s['doc'] = json.dumps(c.get('d'))
    for k in ('flavour', 'what'):
        if k in r:
            s[k] = r[k]
    return s


def gens(tier):
    return [vf.tlc_gen('gen/MC_C14', c, timeout=2400) for c in CFG[tier]]


def setup():
    vf.build('c14', ['c14.cpp'])
    gens('quick')


def run(tier):
    rep = vf.Report(PROP, tier)
    binary = vf.build('c14', ['c14.cpp'])
    g = gens(tier)
    totals = vf.g_replay(rep, binary, g, sig)
    cov = rep.coverage
    cov['traces_validated_against_impl'] = totals.get('cases', 0)
    cov['evaluations'] = totals.get('checks', 0)
    cov['distinct_nontrivial'] = totals.get('cases', 0)
    cov['exhaustive'] = True
    cov['rule'] = ('(str) every pointer string over {/ ~ 0 1 a - e-acute} up to the configured length; (op) every (document, token sequence, '
                   'operation in get/contains/add/add_if_absent/replace/remove, create_if_missing) over the document universe and the 20-token '
                   'alphabet of spec/gen/MC_C14.tla (leading zeros, "-", "+1", "-1", "1x", "~", "/", "a/b", "m~n", non-ASCII, empty), for json and '
                   'ojson and for the string and json_pointer APIs; (flat) flatten and unflatten(flatten) over documents with keys needing escapes; '
                   'one case = one distinct generated tuple')
    cov['bounds'] = {c: open(os.path.join(vf.SPEC, c)).read().split('CONSTANTS')[1].split() for c in CFG[tier]}
    cov['samples'] = vf.sample_lines(g[1][0], 2) + vf.sample_lines(g[0][0], 1)
    rep.assumptions += ['edit semantics beyond RFC 6901 (add/add_if_absent/replace/remove, create_if_missing) are taken from doc/ref/jsonpointer and RFC 6902 section 4.1',
                        'flatten is compared with the spec only for object/array roots; the unflatten law only where no member name is index-like']
    return rep.finish(dict(harness='c14'))


def replay(path):
    d = json.load(open(path))
    binary = vf.build('c14', ['c14.cpp'])
    recs = vf.run_one(binary, d['case'])
    bad = [r for r in recs if r.get('k') != 'stat']
    for r in bad:
        print(json.dumps({k: v for k, v in r.items() if k != 'case'}))
    print('case=%s' % json.dumps(d['case'])[:1000])
    if bad:
        print('VIOLATION property=%s replay=%s' % (PROP, path))
        return 1
    print('no mismatch on this tree')
    return 0
