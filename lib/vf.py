"""Common machinery for /verif checks: build cache, TLC runner, sharded harness
runs, known-findings filter, evidence writer.  Python 3 stdlib only."""
import os, sys, json, hashlib, subprocess, time, shutil, re, fcntl, glob, random

VERIF = os.path.dirname(os.path.dirname(os.path.abspath(__file__)))
REPO = os.environ.get('VERIF_REPO', '/repo')
WORK = os.path.join(VERIF, '.work')
SPEC = os.path.join(VERIF, 'spec')
HARNESS = os.path.join(VERIF, 'harness')
TLA_CP = '/opt/veriftools/tla/tla2tools.jar:/opt/veriftools/tla/CommunityModules-deps.jar'
GUARD = 'JSONCONS_VERIF'
NCPU = os.cpu_count() or 4


class InfraError(Exception):
    pass


def log(*a):
    print(*a, file=sys.stderr, flush=True)


def sha(*parts):
    h = hashlib.sha256()
    for p in parts:
        if isinstance(p, str):
            p = p.encode()
        h.update(p)
        h.update(b'\0')
    return h.hexdigest()


def tree_hash(root, exts=None):
    h = hashlib.sha256()
    for d, dirs, files in sorted(os.walk(root)):
        dirs.sort()
        for f in sorted(files):
            if exts and not f.endswith(exts):
                continue
            p = os.path.join(d, f)
            h.update(os.path.relpath(p, root).encode())
            h.update(b'\0')
            with open(p, 'rb') as fh:
                h.update(fh.read())
            h.update(b'\0')
    return h.hexdigest()


_repo_hash = None


def repo_hash():
    global _repo_hash
    if _repo_hash is None:
        _repo_hash = tree_hash(os.path.join(REPO, 'include'))
    return _repo_hash


def ensure(d):
    os.makedirs(d, exist_ok=True)
    return d


class Lock:
    def __init__(self, path):
        self.path = path

    def __enter__(self):
        ensure(os.path.dirname(self.path))
        self.fh = open(self.path, 'w')
        fcntl.flock(self.fh, fcntl.LOCK_EX)
        return self

    def __exit__(self, *a):
        fcntl.flock(self.fh, fcntl.LOCK_UN)
        self.fh.close()


def prune(dirpath, keep):
    """keep only the `keep` most recently used entries of a cache directory"""
    try:
        ents = [os.path.join(dirpath, e) for e in os.listdir(dirpath) if not e.endswith('.lock')]
    except FileNotFoundError:
        return
    ents.sort(key=lambda p: os.path.getmtime(p), reverse=True)
    for p in ents[keep:]:
        try:
            if os.path.isdir(p):
                shutil.rmtree(p, ignore_errors=True)
            else:
                os.unlink(p)
            if os.path.exists(p + '.lock'):
                os.unlink(p + '.lock')
        except OSError:
            pass


# ------------------------------------------------------------------ build

def build(name, sources, flags=(), cxx='g++', opt='-O1', std='-std=c++17', libs=()):
    """Compile a harness binary from /repo's current working tree.  Cached by
    content hash of /repo/include + harness sources + flags."""
    srcs = [s if os.path.isabs(s) else os.path.join(HARNESS, s) for s in sources]
    parts = [repo_hash(), tree_hash(os.path.join(HARNESS, 'common')), cxx, opt, std, ' '.join(flags), ' '.join(libs)]
    for s in srcs:
        parts.append(open(s, 'rb').read())
    key = sha(*parts)[:24]
    bdir = os.path.join(WORK, 'build', name)
    out = os.path.join(bdir, key)
    with Lock(out + '.lock'):
        if os.path.exists(out):
            os.utime(out)
            return out
        ensure(bdir)
        tmp = out + '.tmp%d' % os.getpid()
        cmd = [cxx, std, opt, '-D' + GUARD, '-I' + os.path.join(REPO, 'include'),
               '-I' + os.path.join(HARNESS, 'common'), '-pthread', '-w'] + list(flags) + srcs + ['-o', tmp] + list(libs)
        t0 = time.time()
        p = subprocess.run(cmd, stdout=subprocess.PIPE, stderr=subprocess.STDOUT, text=True)
        if p.returncode != 0:
            raise InfraError('harness build failed (%s):\n%s' % (name, p.stdout[-4000:]))
        os.rename(tmp, out)
        log('[build] %s %.1fs' % (name, time.time() - t0))
    prune(bdir, 4)
    return out


def build_many(specs):
    """specs: list of dict(name=, sources=, ...) built in parallel -> {name: path}"""
    from concurrent.futures import ThreadPoolExecutor
    with ThreadPoolExecutor(max_workers=min(8, len(specs))) as ex:
        futs = {s['name']: ex.submit(build, **s) for s in specs}
        return {k: f.result() for k, f in futs.items()}


# ------------------------------------------------------------------ TLC

STATS_RE = re.compile(r'(\d+) states generated, (\d+) distinct states found')
SIM_RE = re.compile(r'(\d+) states checked')


def spec_hash():
    return tree_hash(SPEC, exts=('.tla', '.cfg'))


_DEP_RE = re.compile(r'^\s*(?:EXTENDS|LOCAL\s+INSTANCE|INSTANCE|\w+\s*==\s*INSTANCE)\s+(.*)$', re.M)


def module_hash(module, cfg=None):
    """hash of a root module, its cfg and every spec module it (transitively) uses"""
    seen, todo = {}, [module]
    while todo:
        m = todo.pop()
        path = m if os.path.isabs(m) else os.path.join(SPEC, m)
        if not path.endswith('.tla'):
            path += '.tla'
        if path in seen:
            continue
        if not os.path.exists(path):
            cand = [os.path.join(SPEC, d, os.path.basename(path)) for d in ('', 'gen', 'trace')]
            cand = [c for c in cand if os.path.exists(c)]
            if not cand:
                continue  # standard / community module
            path = cand[0]
            if path in seen:
                continue
        txt = open(path).read()
        seen[path] = txt
        for mm in _DEP_RE.finditer(txt):
            for name in re.split(r'[,\s]+', mm.group(1).split('WITH')[0].strip()):
                if re.fullmatch(r'\w+', name or ''):
                    todo.append(name)
    parts = []
    for pth in sorted(seen):
        parts += [os.path.basename(pth), seen[pth]]
    if cfg:
        c = cfg if os.path.isabs(cfg) else os.path.join(SPEC, cfg)
        parts.append(open(c).read())
    return sha(*parts)


def tlc(module, cfg=None, workers=None, simulate=None, seed=None, env=None, timeout=1800,
        xss='512m', xmx='12g', extra=(), out_cases=None, deque=False, keep_stdout=None, depth=None):
    """Run TLC on spec/<module>.tla (path relative to spec/).  Lines printed by
    PrintT(ToJson(..)) (a TLA+ string literal per line) are decoded and written
    to out_cases as ndjson.  Returns dict(stats)."""
    mod = os.path.join(SPEC, module)
    if not mod.endswith('.tla'):
        mod += '.tla'
    cfg = os.path.join(SPEC, cfg) if cfg else mod[:-4] + '.cfg'
    run = ensure(os.path.join(WORK, 'run', 'tlc-%d-%d' % (os.getpid(), int(time.time() * 1e6) % 10**9)))
    jopts = ['-XX:+UseParallelGC', '-Xss' + xss, '-Xmx' + xmx, '-DTLA-Library=' + SPEC]
    if deque:
        jopts.append('-Dtlc2.tool.queue.IStateQueue=StateDeque')
    cmd = ['java'] + jopts + ['-cp', TLA_CP, 'tlc2.TLC', '-metadir', os.path.join(run, 'meta'),
                               '-config', cfg, '-workers', str(workers or NCPU), '-noGenerateSpecTE', '-checkpoint', '0']      # (no checkpoints: the depth-first queue used for trace validation cannot write them)
    if simulate:
        cmd += ['-simulate', 'num=%d' % simulate]
        if depth:
            cmd += ['-depth', str(depth)]
        if seed is not None:
            cmd += ['-seed', str(seed)]
    cmd += list(extra) + [mod]
    e = dict(os.environ)
    e.pop('JAVA_TOOL_OPTIONS', None)
    if env:
        e.update({k: str(v) for k, v in env.items()})
    t0 = time.time()
    raw = os.path.join(run, 'stdout')
    with open(raw, 'w') as fh:
        try:
            p = subprocess.run(cmd, stdout=fh, stderr=subprocess.STDOUT, env=e, timeout=timeout, cwd=run)
            rc = p.returncode
        except subprocess.TimeoutExpired:
            shutil.rmtree(run, ignore_errors=True)
            raise InfraError('TLC timeout after %ds: %s' % (timeout, module))
    res = dict(rc=rc, generated=0, distinct=0, cases=0, wall=0.0, tail='', module=module)
    tail = []
    oc = open(out_cases, 'w') if out_cases else None
    with open(raw) as fh:
        for line in fh:
            if line.startswith('"') and oc is not None:
                try:
                    s = json.loads(line)
                except ValueError:
                    tail.append(line.rstrip())
                    continue
                oc.write(s)
                oc.write('\n')
                res['cases'] += 1
                continue
            m = STATS_RE.search(line)
            if m:
                res['generated'], res['distinct'] = int(m.group(1)), int(m.group(2))
            m = SIM_RE.search(line)
            if m and simulate:
                res['generated'] = int(m.group(1))
            if not line.startswith('"'):
                tail.append(line.rstrip())
                if len(tail) > 400:
                    del tail[:200]
    if oc:
        oc.close()
    res['wall'] = time.time() - t0
    res['tail'] = '\n'.join(tail[-60:])
    if keep_stdout:
        shutil.copy(raw, keep_stdout)
    shutil.rmtree(run, ignore_errors=True)
    return res


def tlc_gen(module, cfg=None, tag='', **kw):
    """Cached, deterministic case generation.  Returns (cases_path, meta)."""
    cfgp = cfg or (module[:-4] if module.endswith('.tla') else module) + '.cfg'
    key = sha(module_hash(module, cfgp), module, cfg or '', tag, json.dumps({k: str(v) for k, v in sorted(kw.items())}))[:24]
    cdir = ensure(os.path.join(WORK, 'cases'))
    path = os.path.join(cdir, key + '.ndjson')
    meta = path + '.meta'
    with Lock(path + '.lock'):
        if os.path.exists(path) and os.path.exists(meta):
            os.utime(path)
            return path, json.load(open(meta))
        tmp = path + '.tmp'
        r = tlc(module, cfg, out_cases=tmp, **kw)
        if r['rc'] != 0:
            raise InfraError('TLC generation failed rc=%d for %s:\n%s' % (r['rc'], module, r['tail']))
        # deterministic order
        subprocess.run(['sort', '-S', '1G', '-o', tmp, tmp], check=True, env=dict(os.environ, LC_ALL='C'))
        os.rename(tmp, path)
        json.dump(r, open(meta, 'w'))
        log('[tlc] %s: %d cases, %d generated / %d distinct, %.1fs' % (module, r['cases'], r['generated'], r['distinct'], r['wall']))
    return path, r


def tlc_check(module, cfg=None, **kw):
    """Model checking inside the spec (no emission).  rc 0 = all invariants hold."""
    r = tlc(module, cfg, **kw)
    return r


def tlc_trace(module, trace_path, cfg=None, env=None, **kw):
    """Trace validation: TRACE env, single worker.  Returns (accepted, res)."""
    e = {'TRACE': trace_path}
    if env:
        e.update(env)
    r = tlc(module, cfg, workers=1, env=e, **kw)
    return r['rc'] == 0, r


# ------------------------------------------------------------------ harness runs

def run_shards(binary, cases, args=(), nshards=None, timeout=1500, out_dir=None, env=None):
    """Run `binary --cases F --shard i/n args...` in parallel; returns list of
    decoded output records (ndjson on stdout).  A crash of a shard is returned
    as a record {'k':'crash', 'shard':i, 'rc':rc, 'stderr':...}.  Shard output goes to
    temporary files (not pipes), so a chatty shard never stalls behind the others."""
    nshards = nshards or NCPU
    procs = []
    e = dict(os.environ)
    # per-case CPU-time watchdog of the harness library (harness.hpp): a case that burns this much CPU does not terminate;
    # the harness then names the case like a fatal signal (sig 26) and g_triage reports it after reproducing it
    e.setdefault('HZ_CASE_CPU_SECONDS', os.environ.get('VERIF_CASE_CPU_SECONDS', '60'))
    if env:
        e.update(env)
    d = ensure(os.path.join(WORK, 'run'))
    tag = '%d-%d' % (os.getpid(), random.randrange(10**9))
    files = []
    for i in range(nshards):
        cmd = [binary, '--cases', cases, '--shard', '%d/%d' % (i, nshards)] + list(args)
        so = open(os.path.join(d, 'shard-%s-%d.out' % (tag, i)), 'w+b')
        se = open(os.path.join(d, 'shard-%s-%d.err' % (tag, i)), 'w+b')
        files.append((so, se))
        procs.append(subprocess.Popen(cmd, stdout=so, stderr=se, env=e))
    recs = []
    deadline = time.time() + timeout
    for i, p in enumerate(procs):
        so, se = files[i]
        timed_out = False
        try:
            p.wait(timeout=max(1, deadline - time.time()))
        except subprocess.TimeoutExpired:
            p.kill()
            p.wait()
            timed_out = True
        so.seek(0)
        se.seek(0)
        out = so.read()
        err = se.read().decode(errors='replace')[-2000:]
        for f in (so, se):
            name = f.name
            f.close()
            try:
                os.unlink(name)
            except OSError:
                pass
        if timed_out:
            recs.append({'k': 'crash', 'shard': i, 'rc': 'timeout', 'stderr': err})
        for line in out.decode(errors='replace').splitlines():
            if not line.strip():
                continue
            try:
                recs.append(json.loads(line))
            except ValueError:
                recs.append({'k': 'garbage', 'shard': i, 'line': line[:500]})
        if p.returncode not in (0, None) and not timed_out:
            recs.append({'k': 'crash', 'shard': i, 'rc': p.returncode, 'stderr': err})
    return recs


def run_one(binary, case_obj, args=(), timeout=120, env=None):
    """Run the harness on a single case in a fresh process (reproduction)."""
    d = ensure(os.path.join(WORK, 'run'))
    path = os.path.join(d, 'one-%d-%d.ndjson' % (os.getpid(), random.randrange(10**9)))
    with open(path, 'w') as fh:
        fh.write(json.dumps(case_obj) + '\n')
    try:
        return run_shards(binary, path, args=args, nshards=1, timeout=timeout, env=env)
    finally:
        os.unlink(path)


# ------------------------------------------------------------------ findings / evidence

def load_known(prop):
    path = os.path.join(VERIF, 'known_findings.jsonl')
    out = []
    if os.path.exists(path):
        for line in open(path):
            line = line.strip()
            if not line or line.startswith('#'):
                continue
            e = json.loads(line)
            if e.get('property') == prop and e.get('status') == 'known':
                out.append(e)
    return out


def witness_findings(prop, binary, args=(), is_bad=None):
    """Known findings whose input class is excluded from the generated space carry a concrete `witness_case`
    (a complete harness case with the specification's strict prediction).  Each run replays the witness: while
    the library still mis-handles it a KNOWN-FINDING line is printed; once it no longer does, nothing is printed."""
    n = 0
    for e in load_known(prop):
        wc = e.get('witness_case')
        if wc is None:
            continue
        recs = run_one(binary, wc, args=args)
        bad = [r for r in recs if (is_bad(r) if is_bad else r.get('k') in ('mismatch', 'terminate', 'signal', 'crash'))]
        if bad:
            print('KNOWN-FINDING: property=%s %s (witness replayed)' % (prop, e['what']))
            n += 1
    return n


def sig_matches(match, sig):
    for k, v in match.items():
        sv = sig.get(k)
        if isinstance(v, str) and v.startswith('re:'):
            if sv is None or not re.fullmatch(v[3:], str(sv)):
                return False
        elif sv != v:
            return False
    return True


class Report:
    """Collects violations (dict with 'sig' = structured signature and 'case')."""

    def __init__(self, prop, tier, level='model_checking'):
        self.prop, self.tier, self.level = prop, tier, level
        self.seed = int(os.environ.get('VERIF_SEED', '0') or 0)
        self.t0 = time.time()
        self.violations = []
        self.coverage = dict(states=0, transitions=0, traces_validated_against_impl=0, samples=[],
                             evaluations=0, distinct_nontrivial=0, rule='')
        self.assumptions = []
        self.notes = []

    def add_tlc(self, r):
        self.coverage['states'] += r.get('distinct', 0)
        self.coverage['transitions'] += r.get('generated', 0)

    def violation(self, sig, case, detail=None):
        self.violations.append(dict(sig=sig, case=case, detail=detail))

    def finish(self, replay_meta=None):
        known = load_known(self.prop)
        hit, fresh = {}, []
        for v in self.violations:
            for i, e in enumerate(known):
                if sig_matches(e['match'], v['sig']):
                    hit.setdefault(i, 0)
                    hit[i] += 1
                    break
            else:
                fresh.append(v)
        for i, n in sorted(hit.items()):
            print('KNOWN-FINDING: property=%s %s (%d cases)' % (self.prop, known[i]['what'], n))
        rdir = ensure(os.path.join(WORK, 'replays', self.prop))
        seen = set()
        nprinted = 0
        for v in fresh:
            s = json.dumps(v['sig'], sort_keys=True)
            if s in seen:
                continue
            seen.add(s)
            if nprinted >= 20:
                continue
            path = os.path.join(rdir, sha(s)[:16] + '.json')
            json.dump(dict(property=self.prop, sig=v['sig'], case=v['case'], detail=v['detail'], meta=replay_meta or {}),
                      open(path, 'w'), indent=1)
            print('VIOLATION property=%s replay=%s' % (self.prop, path))
            log('  sig=%s detail=%s' % (s[:600], json.dumps(v['detail'])[:800]))
            nprinted += 1
        cov = self.coverage
        ev = dict(property_id=self.prop, tier=self.tier, seed=self.seed, level=self.level, coverage=cov,
                  assumptions=self.assumptions, wall_s=round(time.time() - self.t0, 2),
                  violations=len(fresh), known_findings_matched=sum(hit.values()), notes=self.notes)
        edir = ensure(os.environ.get('VERIF_EVIDENCE_DIR') or os.path.join(VERIF, 'evidence'))
        json.dump(ev, open(os.path.join(edir, self.prop + '.json'), 'w'), indent=1)
        sys.stdout.flush()
        return 1 if fresh else 0


def sample_lines(path, k=3):
    out = []
    with open(path) as fh:
        for i, line in enumerate(fh):
            if i >= k:
                break
            try:
                out.append(json.loads(line))
            except ValueError:
                out.append(line.strip())
    return out


def count_lines(path):
    n = 0
    with open(path, 'rb') as fh:
        for _ in fh:
            n += 1
    return n


def cleanup_runs():
    prune_cases()
    d = os.path.join(WORK, 'run')
    if os.path.isdir(d):
        for e in os.listdir(d):
            p = os.path.join(d, e)
            try:
                if time.time() - os.path.getmtime(p) > 6 * 3600:
                    shutil.rmtree(p, ignore_errors=True) if os.path.isdir(p) else os.unlink(p)
            except OSError:
                pass


def prune_cases(budget=int(os.environ.get('VERIF_CASES_BUDGET_GB', '16')) * 10**9, min_age=1800):
    """Generated case files are a cache (keyed by the hash of the modules and the cfg): keep the directory under `budget` bytes by
    deleting the least recently used files (tlc_gen touches a file on every use); files used in the last `min_age` seconds stay."""
    d = os.path.join(WORK, 'cases')
    try:
        ents = [(os.path.getmtime(os.path.join(d, e)), os.path.getsize(os.path.join(d, e)), os.path.join(d, e)) for e in os.listdir(d) if not e.endswith('.lock')]
    except OSError:
        return
    total = sum(x[1] for x in ents)
    now = time.time()
    for mt, sz, path in sorted(ents):
        if total <= budget:
            break
        if now - mt < min_age:
            continue
        try:
            os.unlink(path)
            total -= sz
        except OSError:
            pass


# ------------------------------------------------------------------ generic G-binding replay

def g_triage(rep, binary, recs, sig_fn, args=(), max_repro=40, totals=None):
    """Triage harness records: sum stat records, reproduce each distinct mismatch signature in a
    fresh process before reporting it."""
    totals = totals if totals is not None else {}
    bad = {}
    for r in recs:
        k = r.get('k')
        if k == 'stat':
            for kk, vv in r.items():
                if isinstance(vv, int) and kk != 'k':
                    totals[kk] = totals.get(kk, 0) + vv
        elif k == 'mismatch':
            sg = sig_fn(r)
            bad.setdefault(json.dumps(sg, sort_keys=True), (sg, r))
        elif k in ('terminate', 'signal'):
            try:
                case = json.loads(r['case'])
            except Exception:
                case = r.get('case')
            sg = {'crash': k, 'what': str(r.get('what', r.get('sig')))}
            sg.update(sig_fn({'case': case, 'crash': True}))
            bad.setdefault(json.dumps(sg, sort_keys=True), (sg, dict(r, case=case)))
        elif k in ('crash', 'garbage'):
            if not any(x.get('k') in ('terminate', 'signal') for x in recs):
                raise InfraError('harness shard failed without naming a case: %s' % json.dumps(r)[:1500])
    n = 0
    for key, (sg, r) in bad.items():
        n += 1
        if n > max_repro:
            rep.notes.append('more than %d distinct mismatch signatures; remaining not reproduced' % max_repro)
            break
        again = run_one(binary, r['case'], args=args)
        ok = False
        for r2 in again:
            if r2.get('k') == 'mismatch' and json.dumps(sig_fn(r2), sort_keys=True) == key:
                ok = True
            if r2.get('k') in ('terminate', 'signal', 'crash') and 'crash' in sg:
                ok = True
        if ok:
            detail = {k2: v2 for k2, v2 in r.items() if k2 not in ('case',)}
            rep.violation(sg, r['case'], detail)
        else:
            rep.notes.append('unreproduced mismatch dropped: %s' % key[:300])
    return totals


def g_replay(rep, binary, gens, sig_fn, args=(), max_repro=40, label=''):
    """Replay generated cases (list of (path, meta)) through a harness binary (G binding)."""
    totals = {}
    for path, meta in gens:
        rep.add_tlc(meta)
        recs = run_shards(binary, path, args=args)
        g_triage(rep, binary, recs, sig_fn, args=args, max_repro=max_repro, totals=totals)
    return totals


# ------------------------------------------------------------------ generic V-binding trace validation

DEPTH_RE = re.compile(r'The depth of the complete state graph search is (\d+)')


def _validate_shard(module, cfg, lines, base, tag, timeout, max_fail):
    """returns (n_validated, [global indices of rejected lines], states, transitions)"""
    rejected = []
    d = ensure(os.path.join(WORK, 'run'))
    off = 0
    nval = 0
    gen = dist = 0
    while off < len(lines):
        path = os.path.join(d, 'trace-%d-%s-%d-%d.ndjson' % (os.getpid(), tag, off, random.randrange(10**9)))
        with open(path, 'w') as fh:
            fh.write('\n'.join(lines[off:]) + '\n')
        try:
            ok, r = tlc_trace(module, path, cfg=cfg, timeout=timeout, xmx='3g', deque=True)
        finally:
            os.unlink(path)
        gen += r['generated']
        dist += r['distinct']
        if ok:
            nval += len(lines) - off
            break
        m = DEPTH_RE.search(r['tail'])
        if 'ostcondition' not in r['tail'] or not m:
            raise InfraError('trace validation failed to run (%s):\n%s' % (module, r['tail'][-3000:]))
        k = int(m.group(1))           # 1-based index (within this file) of the first line the spec refused
        if k < 1 or k > len(lines) - off:
            raise InfraError('trace validation: implausible depth %d for %d lines:\n%s' % (k, len(lines) - off, r['tail'][-1500:]))
        rejected.append(base + off + k - 1)
        nval += k - 1
        off += k
        if len(rejected) >= max_fail:
            break
    return nval, rejected, dist, gen


def validate_traces(module, cfg, lines, nshards=None, timeout=1500, max_fail=10):
    """Validate trace lines (list of JSON strings, each an independent execution or event) with a TLC trace
    spec, in parallel shards.  Returns dict(validated=, rejected=[indices], states=, transitions=)."""
    from concurrent.futures import ThreadPoolExecutor
    n = len(lines)
    if n == 0:
        return dict(validated=0, rejected=[], states=0, transitions=0)
    nshards = max(1, min(nshards or NCPU, (n + 499) // 500))
    size = (n + nshards - 1) // nshards
    jobs = [(i * size, lines[i * size:(i + 1) * size]) for i in range(nshards) if lines[i * size:(i + 1) * size]]
    out = dict(validated=0, rejected=[], states=0, transitions=0)
    with ThreadPoolExecutor(max_workers=len(jobs)) as ex:
        futs = [ex.submit(_validate_shard, module, cfg, ls, base, 's%d' % i, timeout, max_fail) for i, (base, ls) in enumerate(jobs)]
        for f in futs:
            nval, rej, dist, gen = f.result()
            out['validated'] += nval
            out['rejected'] += rej
            out['states'] += dist
            out['transitions'] += gen
    return out
