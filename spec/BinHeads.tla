------------------------------ MODULE BinHeads ------------------------------
(***************************************************************************)
(* Header forms of LONG strings / byte strings / arrays / maps / member     *)
(* names in CBOR (RFC 8949 3), MessagePack (spec.md), UBJSON (draft 12)     *)
(* and BSON (bsonspec 1.1), for lengths at the 2^7 / 2^8 / 2^15 / 2^16      *)
(* width boundaries.  The byte-level reference decoders (Cbor, Msgpack,     *)
(* Ubjson, Bson) read whole inputs and are used for inputs up to a few      *)
(* hundred bytes; TLC cannot hold 65536-element sequences through their     *)
(* recursion.  Here the uniform payload is never materialised: a form is    *)
(*   [head |-> bytes before the payload, unit |-> bytes per payload unit    *)
(*    (0 = the payload is described by `extra`), trailer |-> bytes after]   *)
(* so that  total = Len(head) + PayloadLen + Len(trailer).                  *)
(* Shapes (n = the long length):                                            *)
(*   tstr  a text string of n ASCII characters   (BSON: {"a": tstr})        *)
(*   bstr  a byte string of n bytes              (BSON: {"a": bstr})        *)
(*   arr   an array of n nulls                   (BSON: {"a": [..]})        *)
(*   map   a map of n members, 5-digit decimal names, null values           *)
(*   key   a map of one member whose name has n characters, null value      *)
(*   strs  an array of n text strings of 100 ASCII characters each (outputs  *)
(*         of tens of KiB made of medium-sized items: stream sink buffers)   *)
(* Used by Trace_C06big (encoder output must be one of the forms) and       *)
(* MC_BigLen (every form, and malformed neighbours, as decoder input).      *)
(***************************************************************************)
EXTENDS Naturals, Sequences

Shapes == {"tstr", "bstr", "arr", "map", "key", "strs"}
Formats == {"cbor", "msgpack", "ubjson", "bson"}

\* w-byte big-endian representation of n < 2^24
BE(n, w) == CASE w = 1 -> <<n>>
              [] w = 2 -> <<n \div 256, n % 256>>
              [] w = 4 -> <<0, n \div 65536, (n \div 256) % 256, n % 256>>
              [] w = 8 -> <<0, 0, 0, 0, 0, n \div 65536, (n \div 256) % 256, n % 256>>
LE4(n) == <<n % 256, (n \div 256) % 256, (n \div 65536) % 256, n \div 16777216>>

\* total number of decimal digits of 0, 1, .., n-1 (BSON array element names), n <= 10^6
DigitSum(n) == (IF n > 0 THEN n ELSE 0)
             + (IF n > 10 THEN n - 10 ELSE 0)
             + (IF n > 100 THEN n - 100 ELSE 0)
             + (IF n > 1000 THEN n - 1000 ELSE 0)
             + (IF n > 10000 THEN n - 10000 ELSE 0)
             + (IF n > 100000 THEN n - 100000 ELSE 0)

Form(h, u, x, t) == [head |-> h, unit |-> u, extra |-> x, trailer |-> t]
\* payload length of a form for n units
PayloadLen(fm, n) == (fm.unit * n) + fm.extra

----------------------------------------------------------------------------
\* CBOR: initial byte = major * 32 + additional information; argument in 0 / 1 / 2 / 4 / 8 bytes (any width is well-formed)
CHeads(m, n) == (IF n < 24 THEN {<<(m * 32) + n>>} ELSE {})
          \cup (IF n < 256 THEN {<<(m * 32) + 24>> \o BE(n, 1)} ELSE {})
          \cup (IF n < 65536 THEN {<<(m * 32) + 25>> \o BE(n, 2)} ELSE {})
          \cup {<<(m * 32) + 26>> \o BE(n, 4), <<(m * 32) + 27>> \o BE(n, 8)}
CborForms(shape, n) ==
  CASE shape = "tstr" -> {Form(h, 1, 0, <<>>) : h \in CHeads(3, n)} \cup {Form(<<127>> \o h, 1, 0, <<255>>) : h \in CHeads(3, n)}   \* definite; one chunk of an indefinite string
    [] shape = "bstr" -> {Form(h, 1, 0, <<>>) : h \in CHeads(2, n)} \cup {Form(<<95>> \o h, 1, 0, <<255>>) : h \in CHeads(2, n)}
    [] shape = "arr" -> {Form(h, 1, 0, <<>>) : h \in CHeads(4, n)} \cup {Form(<<159>>, 1, 0, <<255>>)}                             \* n x f6
    [] shape = "map" -> {Form(h, 7, 0, <<>>) : h \in CHeads(5, n)} \cup {Form(<<191>>, 7, 0, <<255>>)}                             \* n x (65 d d d d d f6)
    [] shape = "key" -> {Form(<<161>> \o h, 1, 1, <<>>) : h \in CHeads(3, n)} \cup {Form(<<191>> \o h, 1, 1, <<255>>) : h \in CHeads(3, n)}
    [] shape = "strs" -> {Form(h, 102, 0, <<>>) : h \in CHeads(4, n)} \cup {Form(<<159>>, 102, 0, <<255>>)}                         \* n x (78 64 + 100 bytes)

\* MessagePack
MStr(n) == (IF n < 32 THEN {<<160 + n>>} ELSE {}) \cup (IF n < 256 THEN {<<217>> \o BE(n, 1)} ELSE {})
      \cup (IF n < 65536 THEN {<<218>> \o BE(n, 2)} ELSE {}) \cup {<<219>> \o BE(n, 4)}
MBin(n) == (IF n < 256 THEN {<<196>> \o BE(n, 1)} ELSE {}) \cup (IF n < 65536 THEN {<<197>> \o BE(n, 2)} ELSE {}) \cup {<<198>> \o BE(n, 4)}
MArr(n) == (IF n < 16 THEN {<<144 + n>>} ELSE {}) \cup (IF n < 65536 THEN {<<220>> \o BE(n, 2)} ELSE {}) \cup {<<221>> \o BE(n, 4)}
MMap(n) == (IF n < 16 THEN {<<128 + n>>} ELSE {}) \cup (IF n < 65536 THEN {<<222>> \o BE(n, 2)} ELSE {}) \cup {<<223>> \o BE(n, 4)}
MsgpackForms(shape, n) ==
  CASE shape = "tstr" -> {Form(h, 1, 0, <<>>) : h \in MStr(n)}
    [] shape = "bstr" -> {Form(h, 1, 0, <<>>) : h \in MBin(n)}
    [] shape = "arr" -> {Form(h, 1, 0, <<>>) : h \in MArr(n)}                     \* n x c0
    [] shape = "map" -> {Form(h, 7, 0, <<>>) : h \in MMap(n)}                     \* n x (a5 d d d d d c0)
    [] shape = "key" -> {Form(<<129>> \o h, 1, 1, <<>>) : h \in MStr(n)}
    [] shape = "strs" -> {Form(h, 102, 0, <<>>) : h \in MArr(n)}                   \* n x (d9 64 + 100 bytes)

\* UBJSON: lengths are integer values of type i (int8) U (uint8) I (int16) l (int32) L (int64), all but U signed, big-endian
ULen(n) == (IF n < 128 THEN {<<105, n>>} ELSE {}) \cup (IF n < 256 THEN {<<85, n>>} ELSE {})
      \cup (IF n < 32768 THEN {<<73>> \o BE(n, 2)} ELSE {}) \cup {<<108>> \o BE(n, 4), <<76>> \o BE(n, 8)}
\* a length written in a signed type that cannot hold it (reads as a negative number): malformed
UBadLen(n) == (IF n >= 128 /\ n < 256 THEN {<<105, n>>} ELSE {}) \cup (IF n >= 32768 /\ n < 65536 THEN {<<73>> \o BE(n, 2)} ELSE {})
UbjsonFormsL(shape, n, L(_)) ==
  CASE shape = "tstr" -> {Form(<<83>> \o h, 1, 0, <<>>) : h \in L(n)}
    [] shape = "bstr" -> {Form(<<91, 36, 85, 35>> \o h, 1, 0, <<>>) : h \in L(n)}                    \* [$U#n : n raw bytes
                   \cup {Form(<<91, 35>> \o h, 2, 0, <<>>) : h \in L(n)}                             \* [#n  : n x (U b)
    [] shape = "arr" -> {Form(<<91, 35>> \o h, 1, 0, <<>>) : h \in L(n)}                             \* [#n  : n x Z
                  \cup {Form(<<91, 36, 90, 35>> \o h, 0, 0, <<>>) : h \in L(n)}                      \* [$Z#n : no payload
    [] shape = "map" -> {Form(<<123, 35>> \o h, 8, 0, <<>>) : h \in L(n)}                            \* {#n  : n x (U 5 d d d d d Z)
                  \cup {Form(<<123, 36, 90, 35>> \o h, 7, 0, <<>>) : h \in L(n)}                     \* {$Z#n : n x (U 5 d d d d d)
    [] shape = "key" -> {Form(<<123>> \o h, 1, 1, <<125>>) : h \in L(n)}                             \* { len name Z }
                  \cup {Form(<<123, 35, c, 1>> \o h, 1, 1, <<>>) : h \in L(n), c \in {85, 105}}
                  \cup {Form(<<123, 36, 90, 35, c, 1>> \o h, 1, 0, <<>>) : h \in L(n), c \in {85, 105}}
UbjsonForms(shape, n) == (IF shape = "strs" THEN {Form(<<91, 35>> \o h, 103, 0, <<>>) : h \in ULen(n)} \cup {Form(<<91>>, 103, 0, <<93>>)}      \* n x (S U|i 100 + 100 bytes)
                                           \cup {Form(<<91, 36, 83, 35>> \o h, 102, 0, <<>>) : h \in ULen(n)}                                   \* [$S#n : n x (len + 100 bytes)
                          ELSE UbjsonFormsL(shape, n, ULen))
                    \cup (CASE shape = "bstr" -> {Form(<<91>>, 2, 0, <<93>>)}                        \* [ .. ] uncounted
                            [] shape = "arr" -> {Form(<<91>>, 1, 0, <<93>>)}
                            [] shape = "map" -> {Form(<<123>>, 8, 0, <<125>>)}
                            [] OTHER -> {})
UbjsonBadForms(shape, n) == IF shape = "strs" THEN {} ELSE UbjsonFormsL(shape, n, UBadLen)

\* BSON: document ::= int32 e_list 00; the root is a document.  AnyByte (256) in a head = any byte there (binary subtype)
AnyByte == 256
BsonForms(shape, n) ==
  CASE shape = "tstr" -> {Form(LE4(n + 13) \o <<2, 97, 0>> \o LE4(n + 1), 1, 0, <<0, 0>>)}            \* 02 "a" 00 int32(n+1) bytes 00 | 00
    [] shape = "bstr" -> {Form(LE4(n + 13) \o <<5, 97, 0>> \o LE4(n) \o <<AnyByte>>, 1, 0, <<0>>)}     \* 05 "a" 00 int32(n) subtype bytes | 00
    [] shape = "arr" -> {Form(LE4(DigitSum(n) + (2 * n) + 13) \o <<4, 97, 0>> \o LE4(DigitSum(n) + (2 * n) + 5), 0, DigitSum(n) + (2 * n), <<0, 0>>)}   \* n x (0a digits 00)
    [] shape = "map" -> {Form(LE4((7 * n) + 5), 7, 0, <<0>>)}                                          \* n x (0a d d d d d 00)
    [] shape = "key" -> {Form(LE4(n + 7) \o <<10>>, 1, 1, <<0>>)}                                      \* 0a name 00 | 00
    [] shape = "strs" -> {Form(LE4(DigitSum(n) + (107 * n) + 13) \o <<4, 97, 0>> \o LE4(DigitSum(n) + (107 * n) + 5), 0, DigitSum(n) + (107 * n), <<0, 0>>)}   \* n x (02 digits 00 int32(101) 100 bytes 00)
\* a document length that is one too small / too large
BsonBadForms(shape, n) == {[fm EXCEPT !.head = LE4(((fm.head[1] + (256 * fm.head[2]) + (65536 * fm.head[3])) + d) - 1) \o SubSeq(fm.head, 5, Len(fm.head))] :
                             fm \in BsonForms(shape, n), d \in {0, 2}}

Forms(f, shape, n) == CASE f = "cbor" -> CborForms(shape, n) [] f = "msgpack" -> MsgpackForms(shape, n)
                        [] f = "ubjson" -> UbjsonForms(shape, n) [] f = "bson" -> BsonForms(shape, n)
BadForms(f, shape, n) == CASE f = "ubjson" -> UbjsonBadForms(shape, n) [] f = "bson" -> BsonBadForms(shape, n) [] OTHER -> {}

\* does the recorded beginning `h` of an output (at least Len(fm.head) bytes, or the whole output) start with the form's head?
HeadMatches(fm, h) == /\ Len(h) >= Len(fm.head)
                      /\ \A k \in 1..Len(fm.head) : fm.head[k] = AnyByte \/ fm.head[k] = h[k]
\* the recorded last bytes `t` of an output end with the form's trailer
TrailerMatches(fm, t) == /\ Len(t) >= Len(fm.trailer)
                         /\ \A k \in 1..Len(fm.trailer) : fm.trailer[k] = t[Len(t) - Len(fm.trailer) + k]
\* an output of `total` bytes beginning with h and ending with t is an encoding of the shape with length n
IsEncodingOf(f, shape, n, h, t, total) ==
  \E fm \in Forms(f, shape, n) : HeadMatches(fm, h) /\ TrailerMatches(fm, t) /\ total = Len(fm.head) + PayloadLen(fm, n) + Len(fm.trailer)
=============================================================================
