----------------------------- MODULE SharedReaders -----------------------------
(***************************************************************************)
(* Property C20: an immutable artefact (compiled JSON Schema, compiled     *)
(* JSONPath / JMESPath expression, a basic_json value that nobody          *)
(* modifies) is used by N threads at once.  Each operation is modelled at  *)
(* the granularity                                                         *)
(*     Issue -> AllocPrivate (thread-local evaluation context)             *)
(*           -> ReadShared* (reads of the shared artefact)                 *)
(*           -> Return(result)                                             *)
(* The only actions on the shared state are READS.  TLC checks over all    *)
(* interleavings (a) Safety: every returned result equals the sequential   *)
(* result F(op) - results are schedule independent; (b) Liveness (WF):     *)
(* every issued operation returns.  With Memo = TRUE the model contains    *)
(* the one thing the property forbids - an action that WRITES shared state *)
(* (a `mutable` memo / function-local static scratch buffer): TLC then     *)
(* finds an interleaving in which a reader observes the half-written memo  *)
(* (config MC_C20memo, kept as documentation of what the conformance       *)
(* harness listens for: a write to shared state = a ThreadSanitizer race   *)
(* report = an event without an action in Trace_C20).                      *)
(***************************************************************************)
EXTENDS Naturals, Sequences, FiniteSets, TLC
CONSTANTS Threads, Ops, Memo, MaxOps
VARIABLES pc, cur, acc, done, memo, issued
vars == <<pc, cur, acc, done, memo, issued>>

\* the artefact: an immutable table; F(op) is the sequential result (here: the sum of the two cells an op reads)
Artefact == [o \in Ops |-> <<o, o + 1>>]
F(o) == Artefact[o][1] + Artefact[o][2]

Init == /\ pc = [t \in Threads |-> "idle"] /\ cur = [t \in Threads |-> 0] /\ acc = [t \in Threads |-> 0]
        /\ done = [t \in Threads |-> <<>>] /\ memo = <<0, 0>> /\ issued = [t \in Threads |-> 0]
Issue(t, o) == pc[t] = "idle" /\ issued[t] < MaxOps /\ pc' = [pc EXCEPT ![t] = "ctx"] /\ cur' = [cur EXCEPT ![t] = o]
               /\ issued' = [issued EXCEPT ![t] = @ + 1] /\ UNCHANGED <<acc, done, memo>>
AllocPrivate(t) == pc[t] = "ctx" /\ pc' = [pc EXCEPT ![t] = "read1"] /\ acc' = [acc EXCEPT ![t] = 0] /\ UNCHANGED <<cur, done, memo, issued>>
\* reads of shared state; with Memo the first read also publishes the operands in a shared scratch cell, in two steps
Read1(t) == /\ pc[t] = "read1"
            /\ IF Memo THEN memo' = <<Artefact[cur[t]][1], memo[2]>> /\ pc' = [pc EXCEPT ![t] = "memo2"] /\ UNCHANGED acc
               ELSE acc' = [acc EXCEPT ![t] = Artefact[cur[t]][1]] /\ pc' = [pc EXCEPT ![t] = "read2"] /\ UNCHANGED memo
            /\ UNCHANGED <<cur, done, issued>>
Memo2(t) == pc[t] = "memo2" /\ memo' = <<memo[1], Artefact[cur[t]][2]>> /\ pc' = [pc EXCEPT ![t] = "read2"] /\ UNCHANGED <<cur, acc, done, issued>>
Read2(t) == /\ pc[t] = "read2"
            /\ acc' = [acc EXCEPT ![t] = IF Memo THEN memo[1] + memo[2] ELSE acc[t] + Artefact[cur[t]][2]]
            /\ pc' = [pc EXCEPT ![t] = "ret"] /\ UNCHANGED <<cur, done, memo, issued>>
Return(t) == pc[t] = "ret" /\ done' = [done EXCEPT ![t] = Append(@, <<cur[t], acc[t]>>)] /\ pc' = [pc EXCEPT ![t] = "idle"] /\ UNCHANGED <<cur, acc, memo, issued>>
Next == \E t \in Threads : (\E o \in Ops : Issue(t, o)) \/ AllocPrivate(t) \/ Read1(t) \/ Memo2(t) \/ Read2(t) \/ Return(t)
Spec == Init /\ [][Next]_vars /\ \A t \in Threads : WF_vars(AllocPrivate(t) \/ Read1(t) \/ Memo2(t) \/ Read2(t) \/ Return(t))

ScheduleIndependent == \A t \in Threads : \A k \in 1..Len(done[t]) : done[t][k][2] = F(done[t][k][1])
NoSharedWrite == Memo \/ memo = <<0, 0>>
EveryOpReturns == \A t \in Threads : (pc[t] # "idle") ~> (pc[t] = "idle")
=============================================================================
