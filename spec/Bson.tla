------------------------------- MODULE Bson -------------------------------
(***************************************************************************)
(* BSON 1.1 (bsonspec.org/spec.html) reference decoder as total recursive  *)
(* operators over a byte sequence, written from the grammar of the         *)
(* specification:                                                          *)
(*   document ::= int32 e_list x00         int32 = total number of bytes   *)
(*   e_list   ::= element e_list | ""                                      *)
(*   element  ::= x01 e_name double | x02 e_name string | ...              *)
(*   e_name   ::= cstring                                                  *)
(*   string   ::= int32 (byte* ) x00       int32 = bytes in (byte* ) + 1   *)
(*   cstring  ::= (byte* ) x00                                             *)
(*   binary   ::= int32 subtype (byte* )   int32 = bytes in (byte* )       *)
(*   code_w_s ::= int32 string document    int32 = bytes in code_w_s       *)
(* (xNN stands for the single byte 0xNN)                                   *)
(* and its notes (all integers little-endian; array = document whose keys  *)
(* are "0", "1", ...; binary subtype 2 carries an inner int32).            *)
(* Independent oracle for C07: NOT a transcription of jsoncons'            *)
(* bson_parser.hpp.  The top-level item is a document.                     *)
(*                                                                         *)
(*   Decode(b) == <<"ok", value, next>> | <<"err">>                        *)
(*                                                                         *)
(* Values: the shared binary data model of Cbor.tla's header               *)
(*   <<"uint", bs>> <<"nint", bs>>  big-endian magnitude without leading   *)
(*        zeros; nint n is -1-n.  int32/int64 are two's complement little- *)
(*        endian: reversed, and for negative numbers bitwise inverted.     *)
(*   <<"f64", bytes8>>  the double, reversed to big-endian                 *)
(*   <<"tstr", bytes>> (UTF-8 validated)  <<"bstr", bytes>> (binary)       *)
(*   <<"arr", seq>>  <<"map", seq of <<key, value>> >>  key = <<"tstr",_>> *)
(*   <<"bool", b>> <<"null">> <<"undef">>                                  *)
(* plus BSON-only kinds that are only printed (Plain = FALSE):             *)
(*   <<"oid", bytes12>> <<"datetime", int>> <<"ts", bytes8 big-endian>>    *)
(*   <<"dec128", bytes16 as stored>> <<"regex", pattern, options>>         *)
(*   <<"code", bytes>> <<"symbol", bytes>> <<"dbptr", bytes, bytes12>>     *)
(*   <<"codews", bytes, scope>> <<"minkey">> <<"maxkey">>                  *)
(* and two wrappers that switch the verdict comparison off:                *)
(*   <<"loose", class, v>>  well-formed or ambiguous by the specification, *)
(*        a conforming decoder may refuse it (classes: see MayRefuse)      *)
(*   <<"bad", class, v>>    ILL-FORMED by the specification but accepted   *)
(*        by the pinned jsoncons: a suspected defect, excluded by name     *)
(*        (see Tolerated / KnownDefect1..5).  Removing a class from        *)
(*        Tolerated makes the oracle predict "err" for it again.           *)
(***************************************************************************)
EXTENDS Naturals, Sequences, FiniteSets

Huge == 100000000          \* stands for "longer than any input we ever build"
Err == <<"err">>

-----------------------------------------------------------------------------
(* Suspected defects of the pinned jsoncons, excluded by name so that the   *)
(* check is green (notes/C07-bson.md, SUSPECTED DEFECTS).  Each name is a   *)
(* root cause; delete it from Tolerated once /repo is fixed.                *)
KnownDefect1 == "string-terminator"  \* string ::= int32 (byte* ) x00: the trailing byte is read but never compared with 0x00
KnownDefect2 == "bool-byte"          \* x08 e_name x00 | x08 e_name x01: any other byte is taken as true
KnownDefect3 == "minmax-key"         \* xFF e_name / x7F e_name have NO payload; jsoncons reads a string after them
KnownDefect4 == "regex-utf8"         \* the two cstrings of a regular expression are not validated (invalid UTF-8 reaches the visitor)
KnownDefect5 == "array-key-utf8"     \* e_name of array elements is skipped without validation
Tolerated == {KnownDefect3}      \* 1, 2, 4 (fix commit fe10d81) and 5 were repaired in /repo and are enforced again
Tol(class, res) == IF class \in Tolerated THEN res ELSE Err

-----------------------------------------------------------------------------
StripZeros(bs) == LET nz == {k \in 1..Len(bs) : bs[k] # 0} IN
                  IF nz = {} THEN <<>> ELSE SubSeq(bs, CHOOSE k \in nz : \A m \in nz : k <= m, Len(bs))
\* the w bytes at i..i+w-1 in reverse order (little-endian -> big-endian), as a real tuple
RECURSIVE RevFrom(_, _, _, _)
RevFrom(b, i, k, acc) == IF k = 0 THEN acc ELSE RevFrom(b, i, k - 1, Append(acc, b[i + k - 1]))
RevSub(b, i, w) == RevFrom(b, i, w, <<>>)
RECURSIVE InvertFrom(_, _, _)
InvertFrom(bs, k, acc) == IF k > Len(bs) THEN acc ELSE InvertFrom(bs, k + 1, Append(acc, 255 - bs[k]))
\* "int32: 4 bytes (32-bit signed integer, two's complement)", "int64: 8 bytes"; be = big-endian bytes
IntVal(be) == IF be[1] >= 128 THEN <<"nint", StripZeros(InvertFrom(be, 1, <<>>))>>      \* x < 0: -1 - x = NOT x
              ELSE <<"uint", StripZeros(be)>>
\* an int32 used as a length: its value, 0 - 1 if negative, Huge if >= 2^24 (TLC integers are 32-bit)
LenField(b, i) == IF b[i + 3] >= 128 THEN 0 - 1
                  ELSE IF b[i + 3] > 0 THEN Huge
                  ELSE b[i] + (256 * b[i + 1]) + (65536 * b[i + 2])

-----------------------------------------------------------------------------
(* "string: (byte* ) is zero or more UTF-8 encoded characters": UTF-8      *)
(* well-formedness is RFC 3629 section 4 (no overlong forms, no surrogates,*)
(* nothing above U+10FFFF).  U+0000 (a 0x00 byte) is a UTF-8 character and  *)
(* may occur inside a string.                                               *)
At(s, i) == IF i >= 1 /\ i <= Len(s) THEN s[i] ELSE 0 - 1
Tail1(c) == c >= 128 /\ c <= 191
RECURSIVE Utf8Ok(_, _)
Utf8Ok(s, i) ==
  IF i > Len(s) THEN TRUE
  ELSE LET c == At(s, i) c1 == At(s, i + 1) c2 == At(s, i + 2) c3 == At(s, i + 3) IN
    IF c <= 127 THEN Utf8Ok(s, i + 1)
    ELSE IF c >= 194 /\ c <= 223 /\ Tail1(c1) THEN Utf8Ok(s, i + 2)
    ELSE IF c = 224 /\ c1 >= 160 /\ c1 <= 191 /\ Tail1(c2) THEN Utf8Ok(s, i + 3)
    ELSE IF ((c >= 225 /\ c <= 236) \/ c = 238 \/ c = 239) /\ Tail1(c1) /\ Tail1(c2) THEN Utf8Ok(s, i + 3)
    ELSE IF c = 237 /\ c1 >= 128 /\ c1 <= 159 /\ Tail1(c2) THEN Utf8Ok(s, i + 3)
    ELSE IF c = 240 /\ c1 >= 144 /\ c1 <= 191 /\ Tail1(c2) /\ Tail1(c3) THEN Utf8Ok(s, i + 4)
    ELSE IF c >= 241 /\ c <= 243 /\ Tail1(c1) /\ Tail1(c2) /\ Tail1(c3) THEN Utf8Ok(s, i + 4)
    ELSE IF c = 244 /\ c1 >= 128 /\ c1 <= 143 /\ Tail1(c2) /\ Tail1(c3) THEN Utf8Ok(s, i + 4)
    ELSE FALSE
(* "cstring: zero or more modified UTF-8 encoded characters followed by     *)
(* x00".  The specification does not define "modified"; the usual        *)
(* meaning (Java) additionally admits C0 80 for U+0000 and three-byte       *)
(* encodings of the surrogates ED A0..BF xx.  LooseUtf8Ok is the union of   *)
(* both readings: a cstring outside it is ill-formed under every reading.   *)
RECURSIVE LooseUtf8Ok(_, _)
LooseUtf8Ok(s, i) ==
  IF i > Len(s) THEN TRUE
  ELSE LET c == At(s, i) c1 == At(s, i + 1) c2 == At(s, i + 2) c3 == At(s, i + 3) IN
    IF c <= 127 THEN LooseUtf8Ok(s, i + 1)
    ELSE IF c = 192 /\ c1 = 128 THEN LooseUtf8Ok(s, i + 2)
    ELSE IF c >= 194 /\ c <= 223 /\ Tail1(c1) THEN LooseUtf8Ok(s, i + 2)
    ELSE IF c = 224 /\ c1 >= 160 /\ c1 <= 191 /\ Tail1(c2) THEN LooseUtf8Ok(s, i + 3)
    ELSE IF c >= 225 /\ c <= 239 /\ Tail1(c1) /\ Tail1(c2) THEN LooseUtf8Ok(s, i + 3)
    ELSE IF c = 240 /\ c1 >= 144 /\ c1 <= 191 /\ Tail1(c2) /\ Tail1(c3) THEN LooseUtf8Ok(s, i + 4)
    ELSE IF c >= 241 /\ c <= 243 /\ Tail1(c1) /\ Tail1(c2) /\ Tail1(c3) THEN LooseUtf8Ok(s, i + 4)
    ELSE IF c = 244 /\ c1 >= 128 /\ c1 <= 143 /\ Tail1(c2) /\ Tail1(c3) THEN LooseUtf8Ok(s, i + 4)
    ELSE FALSE

-----------------------------------------------------------------------------
(* cstring ::= (byte* ) x00, the bytes MUST NOT contain 0x00: it ends at *)
(* the first 0x00 at or after i, which must lie within the enclosing        *)
(* document (positions <= lim).  <<"ok", bytes, next>> | Err                *)
RECURSIVE ScanZero(_, _, _)
ScanZero(b, k, lim) == IF k > lim THEN 0 ELSE IF b[k] = 0 THEN k ELSE ScanZero(b, k + 1, lim)
CStr(b, i, lim) == LET z == ScanZero(b, i, lim) IN IF z = 0 THEN Err ELSE <<"ok", SubSeq(b, i, z - 1), z + 1>>

(* string ::= int32 (byte* ) x00.  <<"ok", bytes, next, terminatorIsZero>> | Err *)
StrRaw(b, i, lim) ==
  IF i + 3 > lim THEN Err
  ELSE LET n == LenField(b, i) IN
    IF n < 1 THEN Err                                  \* the count includes the trailing 0x00, so it is at least 1
    ELSE IF i + 3 + n > lim THEN Err                   \* last byte of the string is at i + 3 + n
    ELSE LET s == SubSeq(b, i + 4, i + 2 + n) IN
      IF ~Utf8Ok(s, 1) THEN Err                        \* "(byte* ) is zero or more UTF-8 encoded characters"
      ELSE IF b[i + 3 + n] # 0 THEN Tol(KnownDefect1, <<"ok", s, i + 4 + n, FALSE>>)   \* the trailing x00
      ELSE <<"ok", s, i + 4 + n, TRUE>>
StrVal(kind, r) == IF r[1] # "ok" THEN r
                   ELSE <<"ok", IF r[4] THEN <<kind, r[2]>> ELSE <<"bad", KnownDefect1, <<kind, r[2]>> >>, r[3]>>

\* decimal key of array index k ("integer values for the keys, starting with 0 and continuing sequentially")
RECURSIVE DecStr(_)
DecStr(k) == IF k < 10 THEN <<48 + k>> ELSE Append(DecStr(k \div 10), 48 + (k % 10))

(* binary ::= int32 subtype (byte* ); subtype table of the specification:   *)
(* 0 generic, 1 function, 2 binary (old), 3 UUID (old), 4 UUID, 5 MD5,      *)
(* 6 encrypted, 7 compressed column, 8 sensitive, 9 vector, 0x80-0xFF user  *)
(* defined.  "Binary (Old): the structure of the binary data (the byte*     *)
(* array in the binary non-terminal) must be an int32 followed by a         *)
(* (byte* ).  The int32 is the number of bytes in the repetition."          *)
BinVal(sub, data) ==
  LET n == Len(data)  v == <<"bstr", data>> IN
  IF sub = 2 /\ ~(n >= 4 /\ LenField(data, 1) = n - 4) THEN <<"loose", "binary-old-structure", v>>
  ELSE IF sub \in {3, 4, 5} /\ n # 16 THEN <<"loose", "binary-subtype-length", v>>     \* UUID and MD5 are 16 bytes
  ELSE IF sub >= 10 /\ sub <= 127 THEN <<"loose", "binary-subtype-unassigned", v>>     \* not in the subtype table
  ELSE v

\* regular expression options: "Options are identified by characters, which must be stored in alphabetical order.
\* Valid option characters are i, l, m, s, u, x."
OptsOk(o) == /\ \A k \in 1..Len(o) : o[k] \in {105, 108, 109, 115, 117, 120}
             /\ \A k \in 1..(Len(o) - 1) : o[k] < o[k + 1]

RECURSIVE Seconds(_, _, _)
Seconds(ps, k, acc) == IF k > Len(ps) THEN acc ELSE Seconds(ps, k + 1, Append(acc, ps[k][2]))     \* the values of <<key, value>> pairs

RECURSIVE Doc(_, _, _, _), Elems(_, _, _, _, _, _), Val(_, _, _, _)

(* document ::= int32 e_list x00, starting at i and lying within i..lim. *)
(* "int32 is the total number of bytes comprising the document": the        *)
(* terminator is the byte at i + L - 1 and the e_list fills exactly the     *)
(* bytes between.  isArr: the document is the payload of an x04 element. *)
(* <<"ok", value, next>> | Err | <<"abort", class>>                         *)
Doc(b, i, lim, isArr) ==
  IF i + 3 > lim THEN Err
  ELSE LET L == LenField(b, i) IN
    IF L < 5 THEN Err                                  \* int32 + x00 is the smallest document
    ELSE LET end == i + L - 1 IN
      IF end > lim THEN Err                            \* longer than the input / than the enclosing document
      ELSE IF b[end] # 0 THEN Err                      \* the trailing x00
      ELSE LET r == Elems(b, i + 4, end - 1, isArr, <<>>, TRUE) IN
        IF r[1] # "ok" THEN r
        ELSE IF ~isArr THEN <<"ok", <<"map", r[2]>>, end + 1>>
        ELSE LET a == <<"arr", Seconds(r[2], 1, <<>>)>> IN
             \* "Array - The document for an array is a normal BSON document with integer values for the keys,
             \* starting with 0 and continuing sequentially": other keys are not an array; decoders commonly ignore them
             <<"ok", IF \E k \in 1..Len(r[2]) : r[2][k][1][1] = "bad" THEN <<"bad", KnownDefect5, a>>
                     ELSE IF r[4] THEN a ELSE <<"loose", "array-keys", a>>, end + 1>>

(* e_list ::= element e_list | "" over the positions i..lim (lim = last     *)
(* byte before the document's terminator).  acc: <<key, value>> pairs.      *)
(* <<"ok", pairs, next, keysSequential>>                                    *)
Elems(b, i, lim, isArr, acc, seqOk) ==
  IF i > lim THEN <<"ok", acc, i, seqOk>>
  ELSE LET t == b[i] IN
    IF t = 0 THEN Err                                  \* no element starts with 0x00: the e_list would end before the declared size
    ELSE LET nm == CStr(b, i + 1, lim) IN              \* element ::= type e_name ...;  e_name ::= cstring
      IF nm[1] # "ok" THEN Err
      ELSE LET strict == Utf8Ok(nm[2], 1)  loose == LooseUtf8Ok(nm[2], 1) IN
        IF ~loose /\ ~(isArr /\ KnownDefect5 \in Tolerated) THEN Err          \* cstring: not (modified) UTF-8
        ELSE LET key == IF strict THEN <<"tstr", nm[2]>>
                        ELSE IF loose THEN <<"loose", "cstring-modified-utf8", <<"tstr", nm[2]>> >>
                        ELSE <<"bad", KnownDefect5, <<"tstr", nm[2]>> >>
                 v == Val(b, t, nm[3], lim) IN
          IF v[1] # "ok" THEN v
          ELSE Elems(b, v[3], lim, isArr, Append(acc, <<key, v[2]>>), seqOk /\ (~isArr \/ nm[2] = DecStr(Len(acc))))

(* The value part of an element of type t starting at i (after the e_name). *)
Val(b, t, i, lim) ==
  LET Fits(n) == i + n - 1 <= lim IN
  CASE t = 1 -> IF Fits(8) THEN <<"ok", <<"f64", RevSub(b, i, 8)>>, i + 8>> ELSE Err            \* x01 e_name double (8 bytes IEEE 754-2008)
    [] t = 2 -> StrVal("tstr", StrRaw(b, i, lim))                                                \* x02 e_name string
    [] t = 3 -> Doc(b, i, lim, FALSE)                                                            \* x03 e_name document
    [] t = 4 -> Doc(b, i, lim, TRUE)                                                             \* x04 e_name document (array)
    [] t = 5 -> IF ~Fits(5) THEN Err                                                             \* x05 e_name binary
                ELSE LET n == LenField(b, i) IN
                  IF n < 0 THEN Err
                  ELSE IF i + 4 + n > lim THEN Err
                  ELSE <<"ok", BinVal(b[i + 4], SubSeq(b, i + 5, i + 4 + n)), i + 5 + n>>
    [] t = 6 -> <<"ok", <<"undef">>, i>>                                                         \* x06 e_name  Undefined (deprecated)
    [] t = 7 -> IF Fits(12) THEN <<"ok", <<"oid", SubSeq(b, i, i + 11)>>, i + 12>> ELSE Err      \* x07 e_name (byte*12)
    [] t = 8 -> IF ~Fits(1) THEN Err                                                             \* x08 e_name x00 | x01
                ELSE IF b[i] = 0 THEN <<"ok", <<"bool", FALSE>>, i + 1>>
                ELSE IF b[i] = 1 THEN <<"ok", <<"bool", TRUE>>, i + 1>>
                ELSE Tol(KnownDefect2, <<"ok", <<"bad", KnownDefect2, <<"bool", TRUE>> >>, i + 1>>)
    [] t = 9 -> IF Fits(8) THEN <<"ok", <<"datetime", IntVal(RevSub(b, i, 8))>>, i + 8>> ELSE Err   \* x09 e_name int64  UTC datetime
    [] t = 10 -> <<"ok", <<"null">>, i>>                                                         \* x0A e_name
    [] t = 11 -> LET p == CStr(b, i, lim) IN                                                     \* x0B e_name cstring cstring
                 IF p[1] # "ok" THEN Err
                 ELSE LET o == CStr(b, p[3], lim) IN
                   IF o[1] # "ok" THEN Err
                   ELSE LET v == <<"regex", p[2], o[2]>> IN
                     IF ~LooseUtf8Ok(p[2], 1) \/ ~LooseUtf8Ok(o[2], 1) THEN Tol(KnownDefect4, <<"ok", <<"bad", KnownDefect4, v>>, o[3]>>)
                     ELSE IF ~Utf8Ok(p[2], 1) \/ ~Utf8Ok(o[2], 1) THEN <<"ok", <<"loose", "cstring-modified-utf8", v>>, o[3]>>
                     ELSE IF ~OptsOk(o[2]) THEN <<"ok", <<"loose", "regex-options", v>>, o[3]>>
                     ELSE <<"ok", v, o[3]>>
    [] t = 12 -> LET s == StrRaw(b, i, lim) IN                                                   \* x0C e_name string (byte*12)  DBPointer (deprecated)
                 IF s[1] # "ok" THEN s
                 ELSE IF s[3] + 11 > lim THEN Err
                 ELSE LET v == <<"dbptr", s[2], SubSeq(b, s[3], s[3] + 11)>> IN
                      <<"ok", <<"loose", "deprecated-type", IF s[4] THEN v ELSE <<"bad", KnownDefect1, v>> >>, s[3] + 12>>
    [] t = 13 -> StrVal("code", StrRaw(b, i, lim))                                               \* x0D e_name string  JavaScript code
    [] t = 14 -> StrVal("symbol", StrRaw(b, i, lim))                                             \* x0E e_name string  Symbol (deprecated)
    [] t = 15 -> IF ~Fits(4) THEN Err                                                            \* x0F e_name code_w_s (deprecated)
                 ELSE LET T == LenField(b, i) IN                                                 \* code_w_s ::= int32 string document
                   IF T < 14 THEN Err                                                            \* 4 + (4 + 1) + 5
                   ELSE IF i + T - 1 > lim THEN Err
                   ELSE LET s == StrRaw(b, i + 4, i + T - 1) IN
                     IF s[1] # "ok" THEN s
                     ELSE LET d == Doc(b, s[3], i + T - 1, FALSE) IN
                       IF d[1] # "ok" THEN d
                       ELSE IF d[3] # i + T THEN Err                                             \* "int32 is the length in bytes of the entire code_w_s value"
                       ELSE LET v == <<"codews", s[2], d[2]>> IN
                            <<"ok", <<"loose", "deprecated-type", IF s[4] THEN v ELSE <<"bad", KnownDefect1, v>> >>, d[3]>>
    [] t = 16 -> IF Fits(4) THEN <<"ok", IntVal(RevSub(b, i, 4)), i + 4>> ELSE Err               \* x10 e_name int32
    [] t = 17 -> IF Fits(8) THEN <<"ok", <<"ts", RevSub(b, i, 8)>>, i + 8>> ELSE Err             \* x11 e_name uint64  Timestamp
    [] t = 18 -> IF Fits(8) THEN <<"ok", IntVal(RevSub(b, i, 8)), i + 8>> ELSE Err               \* x12 e_name int64
    [] t = 19 -> IF Fits(16) THEN <<"ok", <<"dec128", SubSeq(b, i, i + 15)>>, i + 16>> ELSE Err  \* x13 e_name decimal128 (16 bytes)
    [] t = 255 -> IF KnownDefect3 \in Tolerated THEN <<"abort", KnownDefect3>> ELSE <<"ok", <<"minkey">>, i>>   \* xFF e_name  Min key
    [] t = 127 -> IF KnownDefect3 \in Tolerated THEN <<"abort", KnownDefect3>> ELSE <<"ok", <<"maxkey">>, i>>   \* x7F e_name  Max key
    [] OTHER -> Err                                                                              \* no production for any other type byte

(* The top-level item is a document.  An "abort" (the parse reached, in     *)
(* input order, a construct after which the pinned jsoncons is known to     *)
(* lose synchronisation - KnownDefect3) leaves the whole input              *)
(* unconstrained; the structural checks that precede it (declared sizes,    *)
(* trailing x00 of every enclosing document) are necessary for any       *)
(* sequential decoder to accept, so "err" from them stays binding.          *)
Decode(b) == LET r == Doc(b, 1, Len(b), FALSE) IN
             IF r[1] = "abort" THEN <<"ok", <<"bad", r[2], <<"null">> >>, 1>> ELSE r

-----------------------------------------------------------------------------
(* Plain(v): the value uses only kinds binval.hpp's matches() understands   *)
(* and jsoncons documents that image (doc/ref/bson/bson.md: null, bool,     *)
(* int32/int64 -> int64, double, string, binary -> byte_string, array,      *)
(* embedded document -> object, undefined -> null).  Format-specific kinds  *)
(* (ObjectId, datetime, timestamp, regex, decimal128, code, symbol, ...)    *)
(* and both wrappers are compared on the verdict only.                      *)
RECURSIVE Plain(_)
Plain(v) ==
  CASE v[1] = "arr" -> \A k \in 1..Len(v[2]) : Plain(v[2][k])
    [] v[1] = "map" -> /\ \A k \in 1..Len(v[2]) : v[2][k][1][1] = "tstr" /\ Plain(v[2][k][2])
                       /\ \A k, m \in 1..Len(v[2]) : k # m => v[2][k][1] # v[2][m][1]     \* duplicate names: the specification is silent
    [] v[1] \in {"uint", "nint", "f64", "tstr", "bstr", "bool", "null", "undef"} -> TRUE
    [] OTHER -> FALSE

(* MayRefuse(v): the verdict is not compared.                               *)
(*  "loose" classes - well-formed, or the specification is ambiguous:       *)
(*    deprecated-type         DBPointer x0C and code_w_s x0F (deprecated; jsoncons documents no mapping for them) *)
(*    binary-old-structure    subtype 2 whose inner int32 does not match (payload may be treated as opaque)             *)
(*    binary-subtype-length   UUID / MD5 payload that is not 16 bytes                                                   *)
(*    binary-subtype-unassigned  subtype 0x0A..0x7F (not in the table, not user defined)                                *)
(*    array-keys              array document whose keys are not "0", "1", ... (decoders commonly ignore the keys)       *)
(*    cstring-modified-utf8   cstring valid only as "modified" UTF-8 (C0 80, encoded surrogates): the term is undefined *)
(*    regex-options           option characters outside "ilmsux" or not in alphabetical order                           *)
(*  "bad" classes - the known defects in Tolerated.                         *)
RECURSIVE MayRefuse(_)
MayRefuse(v) ==
  CASE v[1] \in {"loose", "bad"} -> TRUE
    [] v[1] = "arr" -> \E k \in 1..Len(v[2]) : MayRefuse(v[2][k])
    [] v[1] = "map" -> \E k \in 1..Len(v[2]) : MayRefuse(v[2][k][1]) \/ MayRefuse(v[2][k][2])
    [] OTHER -> FALSE
=============================================================================
