------------------------------- MODULE Bson -------------------------------
(* STUB - to be replaced by the Bson reference decoder (same interface as Cbor.tla). *)
EXTENDS Naturals, Sequences, FiniteSets
Decode(b) == <<"err">>
Plain(v) == TRUE
MayRefuse(v) == FALSE
=============================================================================
