------------------------------ MODULE AllocLedger ------------------------------
(***************************************************************************)
(* Allocation ledger (property C19): the memory-management protocol an     *)
(* operation must follow when one allocation fails.                        *)
(*                                                                         *)
(* State:  live   - function from block id to <<size, allocator id>>       *)
(*         inop   - an operation is in flight                              *)
(*         failed - the injected failure has occurred in this operation    *)
(*         ended  - outcome of the last operation                          *)
(* Actions are the events recorded by the harness (one per allocation,     *)
(* deallocation, operation boundary, probe of the survivors, destruction   *)
(* of all objects).  There is deliberately NO action for: a deallocation   *)
(* that does not match a live block with the same size and an equal        *)
(* allocator, an outcome other than success or std::bad_alloc, success     *)
(* after the injected failure (the failure did not propagate), a survivor  *)
(* that is not usable / not equal to its pre-call state where the property *)
(* promises that, blocks still live after everything was destroyed, and a  *)
(* crash.  A trace containing such an event is rejected at that event.     *)
(***************************************************************************)
EXTENDS Naturals, FiniteSets, Sequences

VARIABLES live, inop, failed, ended
vars == <<live, inop, failed, ended>>
Empty == [x \in {} |-> <<0, 0>>]

Reset == live' = Empty /\ inop' = FALSE /\ failed' = FALSE /\ ended' = "none"
Alloc(id, size, al) == /\ id \notin DOMAIN live
                       /\ live' = [x \in (DOMAIN live) \cup {id} |-> IF x = id THEN <<size, al>> ELSE live[x]]
                       /\ UNCHANGED <<inop, failed, ended>>
Free(id, size, al) == /\ id \in DOMAIN live /\ live[id] = <<size, al>>           \* same size, equal allocator
                      /\ live' = [x \in (DOMAIN live) \ {id} |-> live[x]]
                      /\ UNCHANGED <<inop, failed, ended>>
OpBegin == ~inop /\ inop' = TRUE /\ failed' = FALSE /\ ended' = "none" /\ UNCHANGED live
InjectFailure == inop /\ ~failed /\ failed' = TRUE /\ UNCHANGED <<live, inop, ended>>          \* one-shot
OpEnd(outcome) == /\ inop /\ outcome \in {"ok", "bad_alloc"}
                  /\ (failed => outcome = "bad_alloc")              \* the failure propagates to the caller
                  /\ (outcome = "bad_alloc" => failed)              \* and nothing else throws bad_alloc
                  /\ inop' = FALSE /\ ended' = outcome /\ UNCHANGED <<live, failed>>
\* survivors are probed (dump / size / destroy-ability); `same` = equal to the state before the call, required where
\* the property promises it (strong = TRUE, e.g. apply_patch) and the operation failed
Probe(usable, same, strong) == /\ ~inop /\ usable
                               /\ (strong /\ ended = "bad_alloc" => same)
                               /\ UNCHANGED vars
Destroyed == ~inop /\ live = Empty /\ UNCHANGED vars                  \* every block has been returned
=============================================================================
