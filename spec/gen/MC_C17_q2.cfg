INIT Init
NEXT Next
INVARIANTS Emit RoundTrip Normal OkFits RootKind
CHECK_DEADLOCK FALSE
CONSTANTS
  Budget = 2
  Big = FALSE
  Types = {"SA", "SN", "CG", "GS", "GSN", "SNM", "TISB", "PIB", "AI2", "OVI", "VOI", "MSI", "MIB", "XSD", "XBVCS", "PB", "VTIB", "MSSA", "TCN", "TGS", "TNUM"}
