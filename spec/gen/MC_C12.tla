------------------------------ MODULE MC_C12 ------------------------------
(* C12 generators.  BFS over queries built segment by segment (Appendix A.1 *)
(* of DESIGN.md): the state carries the document, the segments so far and   *)
(* the node list they select, so the oracle for a query costs one segment   *)
(* application more than its prefix's.  Every reachable state with at least *)
(* one segment is one case: the document, the query rendered by the         *)
(* un-parser in four notations, and the predicted (normalized path, value)  *)
(* list, its nodups / sort / nodups+sort index lists and the document after *)
(* json_replace with a marker.  A query whose node list became empty is     *)
(* emitted once and not extended.                                           *)
(*   Mode "seg"    general paths over the segment alphabet (names incl.     *)
(*                 quotes, backslashes, empty, non-ASCII; indices; wildcard; *)
(*                 slices; unions incl. unions of paths; recursive descent; *)
(*                 parent operator; a few filters) x documents SegDocs      *)
(*   Mode "slice"  every slice start:stop:step over Bounds/Steps (incl.     *)
(*                 absent and +-(2^63-1)) x arrays of length 0..MaxArr      *)
(*   Mode "filter" one filter selector from the filter alphabet (compar-    *)
(*                 isons of paths/literals/length, boolean operators,       *)
(*                 nested filters, existence tests) at the root, after a    *)
(*                 prefix, below "..", in unions, followed by a suffix      *)
(* The same run checks the model-internal obligations (INVARIANTs below).   *)
(*                                                                          *)
(* Root causes of suspected jsoncons defects are excluded by default and    *)
(* included by setting the corresponding constant to TRUE:                  *)
(*   InclStepOverflow   slice with step 2^63-1 whose first index is >= 1    *)
(*   InclEmptyArrLenP   ".length" of an empty array inside a filter         *)
EXTENDS JsonPath, Json, TLC
CONSTANTS Mode, MaxSegs, Big, MaxArr, InclStepOverflow, InclEmptyArrLenP
VARIABLES doc, segs, raw

\* ---------------------------------------------------------------- names and documents
kA == <<97>>  kB == <<98>>  kE == <<>>  kU == <<233>>  kQ == <<39>>  kS == <<92>>  kD == <<34>>
kM == <<97, 39, 92, 34, 8364, 128512>>          \* a ' \ " EURO SIGN, U+1F600: every quoting hazard and 2-,3-,4-byte UTF-8
kZ == <<122>>                                    \* never a member
kP == <<97, 46, 98, 32, 91>>                     \* "a.b [" : characters that end an unquoted name
I(n) == JInt(n)
O1(k, v) == JObj([q \in {k} |-> v])
O2(k1, v1, k2, v2) == JObj([q \in {k1, k2} |-> IF q = k1 THEN v1 ELSE v2])
A1(x) == JArr(<<x>>)
A2(x, y) == JArr(<<x, y>>)
A3(x, y, z) == JArr(<<x, y, z>>)
Str(s) == JStr(s)

SegDocsQ == {
  A3(I(1), I(2), I(3)),
  A3(A2(I(1), I(2)), A1(I(3)), EmptyArr),
  O2(kA, I(1), kB, I(2)),
  O2(kA, O2(kA, I(1), kB, A2(I(1), I(2))), kB, A2(O1(kA, I(2)), I(3))),
  JObj([q \in {kE, kU, kQ, kS, kD} |-> CASE q = kE -> I(1) [] q = kU -> I(2) [] q = kQ -> I(3) [] q = kS -> I(4) [] q = kD -> I(5)]),
  O1(kM, A2(I(0), O1(kE, JNull))),
  O1(kA, A1(O1(kA, A2(I(1), I(2))))),
  A3(O1(kA, I(1)), O2(kA, I(2), kB, I(3)), O1(kB, O1(kA, I(4)))),
  O1(kQ, O1(kS, O1(kE, A1(I(1))))),
  A3(I(1), I(1), A2(I(1), I(1))),                 \* equal values at different locations: nodups is by location, not by value
  I(1), EmptyArr, EmptyObj }
SegDocsT == SegDocsQ \cup {
  A1(A1(A2(I(1), I(2)))),
  O2(kA, Str(<<115>>), kE, JBool(TRUE)),
  O2(kP, I(1), kA, O1(kP, I(2))),
  O1(kU, O2(kU, I(1), kD, A2(I(2), O1(kD, I(3))))),
  A2(O2(kA, A2(I(1), I(2)), kB, A1(I(1))), O2(kA, EmptyArr, kB, I(0))),
  Str(<<115>>), JNull }

ArrOfLen(n) == JArr([i \in 1..n |-> I(10 + i)])
SliceDocs == { ArrOfLen(n) : n \in 0..MaxArr }

FilterDocs == {
  JArr(<<O1(kA, I(1)), O1(kA, I(0)), O1(kA, I(0 - 1)), O1(kA, I(2))>>),
  JArr(<<O1(kA, Str(<<115>>)), O1(kA, Str(<<>>)), O1(kA, Str(<<116>>)), O1(kA, JNull), O1(kB, I(1)), EmptyObj>>),
  JArr(<<O1(kA, A1(I(1))), O1(kA, EmptyArr), O1(kA, O1(kA, I(1))), O1(kA, EmptyObj), O1(kA, JBool(TRUE)), O1(kA, JBool(FALSE))>>),
  JArr(<<I(0), I(1), Str(<<115>>), Str(<<>>), JNull, JBool(TRUE), JBool(FALSE), EmptyArr, A1(I(0)), EmptyObj, O1(kA, I(1))>>),
  O2(kA, O2(kA, I(1), kB, I(1)), kB, O2(kA, I(0), kB, I(1))),
  O1(kB, O2(kA, I(1), kB, I(2))),
  JArr(<<A2(I(1), I(2)), A2(I(2), I(1)), A1(I(1)), EmptyArr, Str(<<115, 233>>)>>),
  JArr(<<O2(kA, I(1), kB, I(1)), O2(kA, I(1), kB, I(2)), O2(kA, I(2), kB, I(1)), O2(kA, Str(<<115>>), kB, Str(<<115>>)), O2(kA, Str(<<115>>), kB, Str(<<116>>))>>) }

FilterDocsT == FilterDocs \cup {
  JArr(<<O1(kM, Str(kM)), O1(kM, Str(<<115>>)), O1(kE, Str(kM)), O2(kA, Str(kM), kM, I(1)), Str(kM), A2(Str(<<115>>), Str(kM))>>),
  JArr(<<A2(I(2), I(1)), A3(I(0), I(2), I(2)), Str(<<115, 233>>), Str(<<115>>), Str(<<115, 233, 116>>), O1(kA, Str(<<115, 233>>)), I(2)>>) }
Docs == CASE Mode = "seg" -> (IF Big THEN SegDocsT ELSE SegDocsQ)
          [] Mode = "slice" -> SliceDocs
          [] Mode = "filter" -> (IF Big THEN FilterDocsT ELSE FilterDocs)

\* ---------------------------------------------------------------- segment alphabets
N(k) == Child(<<SName(k)>>)
Ix(i) == Child(<<SIdx(i)>>)
W == Child(<<SWild>>)
Sl(s, e, st) == SSlice(s, e, st)
Q1(k) == <<Child(<<SName(k)>>)>>
Cur(segs_) == FQ("cur", segs_)
Root(segs_) == FQ("root", segs_)
L(v) == FLit(v)

NamesQ == {kA, kB, kE, kU, kQ, kS, kD}
NamesT == NamesQ \cup {kM, kZ, kP}
Names == IF Big THEN NamesT ELSE NamesQ
IdxQ == {0, 1, 0 - 1, 0 - 2, 3}
IdxT == IdxQ \cup {2, 0 - 3, 0 - 4, 4}
Idxs == IF Big THEN IdxT ELSE IdxQ
SlicesQ == { Sl(BAbs, BAbs, BAbs), Sl(BV(1), BAbs, BAbs), Sl(BAbs, BAbs, BV(0 - 1)), Sl(BV(0), BV(2), BAbs),
             Sl(BV(0 - 2), BAbs, BAbs), Sl(BAbs, BAbs, BV(2)), Sl(BV(1), BV(0), BV(0 - 1)) }
SlicesT == SlicesQ \cup { Sl(BAbs, BV(0 - 1), BAbs), Sl(BV(5), BV(0 - 5), BV(0 - 2)), Sl(BV(0 - 1), BAbs, BV(0 - 1)), Sl(BMin, BMax, BAbs) }
Slices == IF Big THEN SlicesT ELSE SlicesQ

FewFilters == { Cur(<<N(kA)>>),                                                     \* ?(@.a)
                FCmp("==", Cur(<<N(kA)>>), L(I(1))),                                \* ?(@.a == 1)
                FCmp(">", Cur(<<>>), L(I(1))),                                      \* ?(@ > 1)
                FCmp("!=", Cur(<<Ix(0)>>), L(JNull)),                               \* ?(@[0] != null)
                FNot(Cur(<<N(kB)>>)),                                               \* ?(!@.b)
                FAnd(Cur(<<N(kA)>>), FNot(FCmp("==", Cur(<<N(kA)>>), Root(<<N(kA)>>)))) }

UnionsQ == { <<SName(kA), SName(kB)>>, <<SName(kB), SName(kA)>>, <<SName(kA), SName(kA)>>, <<SName(kQ), SName(kE), SName(kS)>>,
             <<SIdx(0), SIdx(0)>>, <<SIdx(1), SIdx(0)>>, <<SIdx(0 - 1), SIdx(0), SIdx(2)>>,
             <<SWild, SIdx(0)>>, <<SName(kA), SWild>>, <<Sl(BV(1), BAbs, BAbs), SIdx(0)>>, <<SIdx(0), Sl(BAbs, BAbs, BV(0 - 1))>>,
             <<SPath("cur", <<N(kA), Ix(0)>>), SName(kA)>>, <<SPath("root", <<N(kA)>>), SIdx(0)>>,
             <<SName(kB), SPath("cur", <<N(kB), W>>)>>, <<SPath("cur", <<Ix(0)>>), SPath("cur", <<Ix(0)>>)>>,
             <<SIdx(0), SPath("root", <<N(kA)>>)>>, <<SPath("root", <<N(kA), Ix(0)>>), SPath("cur", <<N(kA)>>)>>, <<SPath("root", <<N(kB)>>)>>,    \* root-anchored members, first and later
             <<SPath("cur", <<N(kA)>>), SPath("root", <<W>>)>>,
             <<SFilter(FCmp("==", Cur(<<N(kA)>>), L(I(1)))), SIdx(0)>>, <<SName(kA), SFilter(Cur(<<N(kA)>>))>> }
UnionsT == UnionsQ \cup { <<SName(kU), SName(kD)>>, <<SName(kM), SName(kZ), SName(kM)>>, <<SWild, SWild>>, <<SIdx(1), SIdx(1), SIdx(1)>>,
             <<SPath("cur", <<Desc(<<SName(kA)>>)>>), SWild>>, <<SPath("cur", <<W, N(kA)>>), SIdx(0 - 1)>>,
             <<Sl(BAbs, BAbs, BAbs), Sl(BAbs, BAbs, BV(0 - 1))>>,
             <<SFilter(FCmp(">", Cur(<<>>), L(I(1)))), SFilter(FCmp("<", Cur(<<>>), L(I(3))))>> }
Unions == IF Big THEN UnionsT ELSE UnionsQ

DescSelsQ == { <<SName(kA)>>, <<SName(kE)>>, <<SName(kS)>>, <<SWild>>, <<SIdx(0)>>, <<SIdx(0 - 1)>>, <<SName(kA), SName(kB)>>,
               <<Sl(BV(1), BAbs, BAbs)>>, <<SFilter(Cur(<<N(kA)>>))>>, <<SWild, SName(kB)>> }
DescSelsT == DescSelsQ \cup { <<SName(kB)>>, <<SName(kQ)>>, <<SName(kU)>>, <<SName(kD)>>, <<SName(kM)>>, <<SIdx(1), SIdx(0)>>,
               <<Sl(BAbs, BAbs, BV(0 - 1))>>, <<SFilter(FCmp("==", Cur(<<>>), L(I(1))))>>, <<SPath("cur", <<N(kA)>>)>> }
DescSels == IF Big THEN DescSelsT ELSE DescSelsQ

SegFull == { N(k) : k \in Names } \cup { Ix(i) : i \in Idxs } \cup { W } \cup { Child(<<s>>) : s \in Slices }
           \cup { Child(u) : u \in Unions } \cup { Desc(s) : s \in DescSels } \cup { Parent }
           \cup { Child(<<SFilter(f)>>) : f \in FewFilters }
SegTail == { N(kA), N(kE), N(kQ), Ix(0), Ix(0 - 1), W, Parent, Child(<<Sl(BAbs, BAbs, BV(0 - 1))>>), Desc(<<SWild>>),
             Child(<<SName(kA), SName(kB)>>), Child(<<SFilter(Cur(<<N(kA)>>))>>) }

\* slices: every start:stop:step
BoundVals == IF Big THEN (0 - 7)..7 ELSE (0 - 5)..5
StepVals == (IF Big THEN (0 - 5)..5 ELSE (0 - 3)..3) \ {0}
Bounds == { BV(n) : n \in BoundVals } \cup { BAbs, BMax, BMin }
Steps == { BV(n) : n \in StepVals } \cup { BAbs, BMax, BMin }
SliceSegs == { Child(<<Sl(s, e, st)>>) : s \in Bounds, e \in Bounds, st \in Steps }

\* filters
FPaths == { <<>>, <<N(kA)>>, <<N(kB)>>, <<Ix(0)>>, <<Ix(0 - 1)>>, <<N(kA), N(kA)>>, <<N(kA), Ix(0)>> }
          \cup (IF Big THEN { <<N(kM)>>, <<N(kE)>>, <<Ix(1)>> } ELSE {})
FOperands == { Cur(p) : p \in FPaths } \cup { Root(<<Ix(0), N(kA)>>), Root(<<Ix(1)>>) }
FLits == { L(I(0)), L(I(1)), L(I(0 - 1)), L(Str(<<115>>)), L(Str(<<>>)), L(JNull), L(JBool(TRUE)), L(JBool(FALSE)) }
         \cup (IF Big THEN { L(Str(kM)), L(I(2)), L(Str(<<115, 233>>)) } ELSE {})
CmpOps == {"==", "!=", "<", "<=", ">", ">="}
FCmpPL == { FCmp(op, x, y) : op \in CmpOps, x \in FOperands, y \in FLits }
FCmpLP == { FCmp(op, y, x) : op \in CmpOps, x \in {Cur(<<>>), Cur(<<N(kA)>>)}, y \in {L(I(1)), L(Str(<<115>>)), L(JNull)} }
FCmpPP == { FCmp(op, x[1], x[2]) : op \in CmpOps,
            x \in { <<Cur(<<N(kA)>>), Cur(<<N(kB)>>)>>, <<Cur(<<N(kA)>>), Root(<<Ix(0), N(kA)>>)>>, <<Cur(<<Ix(0)>>), Cur(<<Ix(0 - 1)>>)>>,
                    <<Cur(<<N(kA)>>), Cur(<<N(kA)>>)>>, <<Cur(<<N(kA), N(kA)>>), Cur(<<N(kB)>>)>>, <<Cur(<<>>), Root(<<Ix(1)>>)>> } }
FCmpLen == { FCmp(op, FLen(x), y) : op \in CmpOps, x \in {Cur(<<>>), Cur(<<N(kA)>>)}, y \in {L(I(0)), L(I(1)), L(I(2))} }
           \cup { FCmp(op, FLenP("cur", p), y) : op \in CmpOps, p \in {<<>>, <<N(kA)>>}, y \in {L(I(0)), L(I(1)), L(JNull)} }
           \cup { FLenP("cur", <<>>), FNot(FLenP("cur", <<N(kA)>>)) }
\* existence / truthiness tests, singular and not
NonSing == { <<W>>, <<Child(<<Sl(BV(0), BV(1), BAbs)>>)>>, <<Desc(<<SName(kA)>>)>>, <<Child(<<SName(kA), SName(kB)>>)>>,
             <<Child(<<SFilter(FCmp("==", Cur(<<>>), L(I(1))))>>)>>, <<N(kA), Child(<<SFilter(Cur(<<>>))>>)>>,
             <<N(kA), W>>, <<Child(<<SFilter(Cur(<<Child(<<SFilter(FCmp("==", Cur(<<>>), L(I(1))))>>)>>))>>)>> }
FTests == { Cur(p) : p \in FPaths \cup NonSing } \cup { FNot(Cur(p)) : p \in FPaths \cup NonSing }
          \cup { Root(<<Ix(0), N(kA)>>), L(JBool(TRUE)), L(JBool(FALSE)), FNot(L(JBool(FALSE))) }
\* arrays of selected values compared with arrays of the document
FCmpArr == { FCmp(op, Cur(p), Root(q)) : op \in {"==", "!="}, p \in {<<W>>, <<Child(<<Sl(BV(0), BV(1), BAbs)>>)>>, <<>>},
             q \in {<<Ix(0)>>, <<Ix(2)>>, <<Ix(3)>>} }
FBase == { FCmp("==", Cur(<<N(kA)>>), L(I(1))), FCmp("==", Cur(<<N(kB)>>), L(I(1))), Cur(<<N(kA)>>), FNot(Cur(<<N(kB)>>)),
           L(JBool(TRUE)), L(JBool(FALSE)), FCmp("<", Cur(<<N(kA)>>), Cur(<<N(kB)>>)) }
FBase3 == { FCmp("==", Cur(<<N(kA)>>), L(I(1))), Cur(<<N(kB)>>), FCmp(">", Cur(<<N(kB)>>), L(I(1))) }
FBool == { FAnd(x, y) : x \in FBase, y \in FBase } \cup { FOr(x, y) : x \in FBase, y \in FBase }
         \cup { FAnd(FOr(x, y), z) : x \in FBase3, y \in FBase3, z \in FBase3 } \cup { FOr(x, FAnd(y, z)) : x \in FBase3, y \in FBase3, z \in FBase3 }
         \cup { FOr(FAnd(x, y), z) : x \in FBase3, y \in FBase3, z \in FBase3 } \cup { FAnd(x, FOr(y, z)) : x \in FBase3, y \in FBase3, z \in FBase3 }
         \cup { FNot(FAnd(x, y)) : x \in FBase3, y \in FBase3 } \cup { FNot(FOr(x, y)) : x \in FBase3, y \in FBase3 }
         \cup { FNot(FNot(x)) : x \in FBase3 } \cup { FNot(x) : x \in FBase }
FAll == FCmpPL \cup FCmpLP \cup FCmpPP \cup FCmpLen \cup FTests \cup FCmpArr \cup FBool
FSmall == { FCmp("==", Cur(<<N(kA)>>), L(I(1))), Cur(<<N(kA)>>), FNot(Cur(<<N(kA)>>)), FCmp(">=", Cur(<<N(kB)>>), L(I(1))),
            FCmp("!=", Cur(<<>>), L(I(1))), FCmp("==", FLen(Cur(<<>>)), L(I(1))), FOr(Cur(<<N(kB)>>), FCmp("<", Cur(<<>>), L(I(1)))) }
FilterFirst == { Child(<<SFilter(f)>>) : f \in FAll } \cup { Desc(<<SFilter(f)>>) : f \in FSmall }
               \cup { Child(<<SFilter(f), SFilter(g)>>) : f \in FSmall, g \in FSmall } \cup { N(kA), N(kB), W, Ix(0) }
FilterNext == { Child(<<SFilter(f)>>) : f \in FSmall } \cup { N(kA), N(kB), Ix(0), W, Parent, Desc(<<SName(kA)>>) }

SegMid == SegTail \cup { N(kB), N(kS), N(kD), N(kU), Ix(1), Ix(0 - 2), Child(<<Sl(BV(1), BAbs, BAbs)>>), Child(<<SIdx(1), SIdx(0)>>),
                        Child(<<SName(kA), SWild>>), Child(<<SPath("cur", <<N(kA), Ix(0)>>), SName(kA)>>), Desc(<<SName(kA)>>), Desc(<<SIdx(0)>>),
                        Child(<<SFilter(FCmp("==", Cur(<<N(kA)>>), L(I(1))))>>), Child(<<SFilter(FNot(Cur(<<N(kB)>>)))>>) }
\* positions 1..2 draw from the full alphabet, position 3 from SegMid, position 4 (thorough) from SegTail
Alphabet(pos) == CASE Mode = "seg" -> (IF pos <= 2 THEN SegFull ELSE IF pos = 3 THEN SegMid ELSE SegTail)
                   [] Mode = "slice" -> SliceSegs
                   [] Mode = "filter" -> (IF pos = 1 THEN FilterFirst ELSE FilterNext)

\* ---------------------------------------------------------------- exclusions
\* the parent operator is only generated at the end of a query: [data] parent-operator.json has it nowhere else and the
\* grammar documents do not mention it at all
AfterParentOk(s) == IF segs = <<>> THEN TRUE ELSE IF segs[Len(segs)][1] # "parent" THEN TRUE ELSE s[1] = "parent"

\* suspected defect 1 (see notes/C12.md): i += step overflows int64 when step = 2^63-1 and the first index is >= 1
SliceOverflows(sel, v) == sel[1] = "slice" /\ sel[4] = BMax /\ IsArr(v)
                          /\ SliceLower(Len(v[2]), sel[2], sel[3], sel[4]) >= 1
                          /\ SliceLower(Len(v[2]), sel[2], sel[3], sel[4]) < SliceUpper(Len(v[2]), sel[2], sel[3], sel[4])
StepOverflow(s) == s[1] = "child" /\ \E i \in 1..Len(s[2]) : \E j \in 1..Len(raw) : IsNode(raw[j]) /\ SliceOverflows(s[2][i], NVal(raw[j]))

\* suspected defect 2: x.length inside a filter where x is an empty array
RECURSIVE LenPEmpty(_, _, _)
LenPEmpty(e, c, r) == CASE e[1] = "lenp" -> FVal(FQ(e[2], e[3]), c, r) = EmptyArr
                        [] e[1] \in {"not", "len"} -> LenPEmpty(e[2], c, r)
                        [] e[1] \in {"and", "or"} -> LenPEmpty(e[2], c, r) \/ LenPEmpty(e[3], c, r)
                        [] e[1] = "cmp" -> LenPEmpty(e[3], c, r) \/ LenPEmpty(e[4], c, r)
                        [] OTHER -> FALSE
EmptyArrLenP(s) == s[1] \in {"child", "desc"} /\ \E i \in 1..Len(s[2]) : s[2][i][1] = "filter" /\
                     \E j \in 1..Len(raw) : IsNode(raw[j]) /\
                        LET ks == IF s[1] = "child" THEN Kids(raw[j]) ELSE SelectSeq(Descend(<<SWild>>, raw[j], doc), IsNode) IN
                        \E k \in 1..Len(ks) : LenPEmpty(s[2][i][2], ks[k], doc)
Excluded(s) == (~InclStepOverflow /\ StepOverflow(s)) \/ (~InclEmptyArrLenP /\ EmptyArrLenP(s))

\* ---------------------------------------------------------------- state machine
Init == doc \in Docs /\ segs = <<>> /\ raw = <<MkNode(<<>>, doc)>>
Next == /\ Len(segs) < MaxSegs
        /\ NodesOf(raw) # <<>> /\ ~Unconstrained(raw)
        /\ \E s \in Alphabet(Len(segs) + 1) :
             /\ AfterParentOk(s) /\ ~Excluded(s)
             /\ segs' = Append(segs, s)
             /\ raw' = ApplyAll(s, raw, 1, doc)
        /\ doc' = doc

\* ---------------------------------------------------------------- emission
Marker == JInt(77)
Res == NodesOf(raw)
Case == LET ns == Res  nd == NoDupIdx(ns) IN
  [ m |-> Mode, d |-> Wire(doc),
    ex |-> SetToSeq({ Show(segs, sty) : sty \in {StyDot, StyBrS, StyBrD, StyDotD} }),
    dc |-> Unconstrained(raw), ord |-> ~OrderOpen(raw),
    r |-> [i \in 1..Len(ns) |-> <<NormPath(NPath(ns[i])), Wire(NVal(ns[i]))>>],
    nd |-> nd, so |-> SortIdx(ns, AllIdx(ns)), ns |-> SortIdx(ns, nd),
    mk |-> Wire(Marker), rep |-> Wire(JPReplace(doc, ns, Marker)) ]
Emit == segs # <<>> => PrintT(ToJson(Case))

\* ---------------------------------------------------------------- model-internal obligations
\* every result path resolves, in the document, to the value returned alongside it
PathsResolve == \A i \in 1..Len(Res) : Resolve(doc, NPath(Res[i])) = <<"some", NVal(Res[i])>>
\* normalized path strings denote exactly their location
NormRoundTrip == \A i \in 1..Len(Res) : ParseNormPath(NormPath(NPath(Res[i]))) = NPath(Res[i])
\* nodups / sort are the de-duplicated / sorted plain result
Strictly(ix) == \A i \in 1..(Len(ix) - 1) : ix[i] < ix[i + 1]
OptionLaws ==
  LET ns == Res  nd == NoDupIdx(ns)  so == SortIdx(ns, AllIdx(ns))  nso == SortIdx(ns, nd)  P(ix) == { NPath(ns[ix[i]]) : i \in 1..Len(ix) } IN
  /\ Strictly(nd) /\ P(nd) = P(AllIdx(ns)) /\ Cardinality(P(nd)) = Len(nd)
  /\ \A i \in 1..Len(nd) : \A j \in 1..(nd[i] - 1) : NPath(ns[j]) # NPath(ns[nd[i]])            \* the first occurrence is the one kept
  /\ Len(so) = Len(ns) /\ { so[i] : i \in 1..Len(so) } = 1..Len(ns)
  /\ \A i \in 1..(Len(so) - 1) : ~PathLess(NPath(ns[so[i + 1]]), NPath(ns[so[i]]))
  /\ { nso[i] : i \in 1..Len(nso) } = { nd[i] : i \in 1..Len(nd) }
  /\ \A i \in 1..(Len(nso) - 1) : PathLess(NPath(ns[nso[i]]), NPath(ns[nso[i + 1]]))
\* RFC 9535 2.3.4.2.2 agrees with the clamp-then-walk definition, for every slice in the query and every length
SliceClosedForm ==
  \A i \in 1..Len(segs) : segs[i][1] \in {"child", "desc"} =>
    \A j \in 1..Len(segs[i][2]) : segs[i][2][j][1] = "slice" =>
      \A len \in 0..(MaxArr + 2) : LET s == segs[i][2][j] IN SliceIdx(len, s[2], s[3], s[4]) = SliceIdx2(len, s[2], s[3], s[4])
\* json_replace: selected locations that still exist carry the marker, an untouched query leaves the document alone
ReplaceLaws ==
  LET ns == Res  rep == JPReplace(doc, ns, Marker) IN
  /\ (ns = <<>> => rep = doc)
  /\ \A i \in 1..Len(ns) : LET x == Resolve(rep, NPath(ns[i])) IN x[1] = "some" => x[2] = Marker
  /\ \A i \in 1..Len(ns) : \E k \in 0..Len(NPath(ns[i])) : Resolve(rep, SubSeq(NPath(ns[i]), 1, k)) = <<"some", Marker>>
=============================================================================
