------------------------------ MODULE MC_C08 ------------------------------
(* C08 generator: every grammatically well-formed, complete event sequence  *)
(* up to MaxEv events (declared container lengths right, wrong or absent),  *)
(* with the value it denotes.  The harness pushes each sequence into every  *)
(* encoder; Trace_C08 validates the recorded output.                        *)
EXTENDS Events, Json, TLC
CONSTANTS MaxEv, Lens
VARIABLES evs, st, done, res

Scal == { <<"uint", <<1>>>>, <<"nint", <<>>>>, <<"tstr", <<120>>>>, <<"tstr", <<31, 34, 92, 127>>>>, <<"null">>, <<"bool", TRUE>>, <<"f64", <<63,248,0,0,0,0,0,0>>>>, <<"bstr", <<1>>>> }
LensAll == Lens \cup {NoLen}
Alphabet == { <<"ba", n>> : n \in LensAll } \cup { <<"bo", n>> : n \in LensAll } \cup { <<"ea">>, <<"eo">>, <<"key", <<97>>>>, <<"key", <<98>>>> }
            \cup { <<"val", s>> : s \in Scal }
\* a second occurrence of a key inside one object is excluded (duplicate member names: outside the property)
KeyFresh(e) == e[1] = "key" => LET top == st[Len(st)] IN \A k \in 1..Len(top[2]) : top[2][k][1][2] # e[2]
Init == evs = <<>> /\ st = InitStack /\ done = FALSE /\ res = <<"none">>
Next == /\ Len(evs) < MaxEv
        /\ \E e \in Alphabet :
             /\ Allowed(st, done, e) /\ KeyFresh(e)
             /\ LET r == Step(st, e) IN st' = r[1] /\ done' = r[2] /\ res' = r[3]
             /\ evs' = Append(evs, e)
Emit == done => PrintT(ToJson([ev |-> evs, v |-> res, right |-> LengthsRight(evs, 1, <<>>)]))
=============================================================================
