INIT Init
NEXT Next
INVARIANTS Emit
CHECK_DEADLOCK FALSE
CONSTANTS
  MaxOps = 2
  Big = FALSE
  CheckImpl = FALSE
  NonAscii = TRUE
