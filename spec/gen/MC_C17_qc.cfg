INIT Init
NEXT Next
INVARIANTS Emit RoundTrip Normal OkFits RootKind
CHECK_DEADLOCK FALSE
CONSTANTS
  Budget = 1
  Big = FALSE
  Types = {"SN", "CG", "GS", "SNM", "CGN", "GSN", "I32", "U8", "BOOL", "STR", "COL", "SUIT", "BS8", "BS12", "SEC"}
