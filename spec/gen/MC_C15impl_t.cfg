INIT Init
NEXT Next
INVARIANTS ImplRefines
CHECK_DEADLOCK FALSE
CONSTANTS
  MaxOps = 2
  Big = TRUE
  CheckImpl = TRUE
  NonAscii = FALSE
