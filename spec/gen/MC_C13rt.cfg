INIT Init
NEXT Next
VIEW View
INVARIANTS Emit
CHECK_DEADLOCK FALSE
CONSTANTS
  Mode = "wrap"
  MaxDepth = 2
  WrapSet = "mid"
  SlRange = 2
  EmitAst = TRUE
