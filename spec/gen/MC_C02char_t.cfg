INIT Init
NEXT Next
INVARIANT Emit
CHECK_DEADLOCK FALSE
CONSTANTS
  MaxLen = 6
  Alphabet = {32, 13, 10, 91, 93, 123, 125, 44, 58, 34, 92, 47, 42, 48, 49, 45, 43, 46, 101, 69, 117, 116, 114, 110, 108, 31, 195, 169}
