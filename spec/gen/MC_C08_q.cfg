INIT Init
NEXT Next
INVARIANT Emit
CHECK_DEADLOCK FALSE
CONSTANTS
  MaxEv = 6
  Lens = {0, 1, 2}
