----------------------------- MODULE MC_BigLen -----------------------------
(* Generator for the long-length families of C06 (Mode = "enc": (format,     *)
(* shape, n) triples - the encoder output is validated by Trace_C06big) and  *)
(* C07 (Mode = "dec": every header form of BinHeads for every boundary       *)
(* length, with the exact payload (accept, shape and length predicted), a    *)
(* short payload / missing trailer (reject) and the malformed neighbours of  *)
(* BinHeads!BadForms (reject)).  The payload is emitted as a run-length      *)
(* program that the harness expands mechanically:                            *)
(*   <<"rep", bytes, count>>            count copies of bytes                *)
(*   <<"seq5", pre, post, count>>       for i in 0..count-1: pre, 5 decimal  *)
(*                                      digits of i, post                    *)
(*   <<"seqdec", pre, post, count>>     same with the unpadded decimal of i  *)
EXTENDS BinHeads, Json, TLC
CONSTANTS Mode, Big
VARIABLES c, phase

Lens == IF Big THEN {127, 128, 255, 256, 32767, 32768, 65535, 65536, 70000} ELSE {255, 256, 32767, 32768, 65535, 65536}
EncCases == {[f |-> f, shape |-> sh, n |-> n] : f \in Formats, sh \in Shapes \ {"strs"}, n \in Lens} \cup {[f |-> f, shape |-> "strs", n |-> n] : f \in Formats, n \in {400, 1000}}

Null(f) == CASE f = "cbor" -> <<246>> [] f = "msgpack" -> <<192>> [] f = "ubjson" -> <<90>> [] f = "bson" -> <<>>
Key5(f) == CASE f = "cbor" -> <<101>> [] f = "msgpack" -> <<165>> [] f = "ubjson" -> <<85, 5>> [] f = "bson" -> <<10>>
\* payload program of form fm with k units
Program(f, sh, fm, k) ==
  CASE sh = "tstr" -> << <<"rep", <<97>>, k>> >>
    [] sh = "bstr" -> << <<"rep", IF fm.unit = 2 THEN <<85, 1>> ELSE <<1>>, k>> >>
    [] sh = "arr" -> IF f = "bson" THEN << <<"seqdec", <<10>>, <<0>>, k>> >>
                     ELSE IF fm.unit = 0 THEN << >> ELSE << <<"rep", Null(f), k>> >>
    [] sh = "map" -> << <<"seq5", Key5(f), IF f = "bson" THEN <<0>> ELSE IF fm.unit = 7 /\ f = "ubjson" THEN <<>> ELSE Null(f), k>> >>
    [] sh = "key" -> << <<"rep", <<107>>, k>>, <<"rep", IF f = "bson" THEN <<0>> ELSE IF fm.extra = 0 THEN <<>> ELSE Null(f), 1>> >>
Concrete(h) == [k \in 1..Len(h) |-> IF h[k] = AnyByte THEN 0 ELSE h[k]]
Good(f, sh, n, fm) == [f |-> f, shape |-> sh, n |-> n, head |-> Concrete(fm.head), prog |-> Program(f, sh, fm, n), trailer |-> fm.trailer,
                       expect |-> <<"ok", sh, n>>, variant |-> "exact"]
\* definite / length-prefixed forms: one unit missing; delimiter-terminated forms: the delimiter missing
Short(f, sh, n, fm) == IF fm.trailer # <<>> /\ f # "bson"
                       THEN [f |-> f, shape |-> sh, n |-> n, head |-> Concrete(fm.head), prog |-> Program(f, sh, fm, n), trailer |-> <<>>, expect |-> <<"err">>, variant |-> "no-trailer"]
                       ELSE [f |-> f, shape |-> sh, n |-> n, head |-> Concrete(fm.head), prog |-> Program(f, sh, fm, n - 1), trailer |-> fm.trailer, expect |-> <<"err">>, variant |-> "short"]
Bad(f, sh, n, fm) == [f |-> f, shape |-> sh, n |-> n, head |-> Concrete(fm.head), prog |-> Program(f, sh, fm, n), trailer |-> fm.trailer, expect |-> <<"err">>, variant |-> "bad-length-field"]
DecShapes == Shapes \ {"strs"}
DecCases == UNION {{Good(f, sh, n, fm) : fm \in Forms(f, sh, n)} \cup {Short(f, sh, n, fm) : fm \in {x \in Forms(f, sh, n) : x.unit > 0}}
                   \cup {Bad(f, sh, n, fm) : fm \in BadForms(f, sh, n)} : f \in Formats, sh \in DecShapes, n \in Lens}
Cases == IF Mode = "enc" THEN EncCases ELSE DecCases
Init == phase = 0 /\ c = [f |-> ""]
Next == phase = 0 /\ phase' = 1 /\ c' \in Cases
Emit == phase = 1 => PrintT(ToJson(c))
=============================================================================
