---------------------------- MODULE MC_C06pta ----------------------------
(* C06, string references next to typed arrays (CBOR pack_strings together *)
(* with use_typed_arrays): every sequence of up to MaxItems items drawn    *)
(* from two text strings, a byte string and typed arrays of three element  *)
(* kinds.  The byte string inside a typed-array tag is a string of the     *)
(* stringref namespace like any other (cbor.schmorp.de/stringref), so the  *)
(* indices the encoder hands out must stay in step with a decoder's.       *)
EXTENDS Naturals, Sequences, Json, TLC
CONSTANTS MaxItems
VARIABLES seq, phase
Items == {"s1", "s2", "b1", "u16", "f64", "u8", "short"}
RECURSIVE Seqs(_)
Seqs(n) == IF n = 0 THEN {<<>>} ELSE LET S == Seqs(n - 1) IN S \cup { Append(s, i) : s \in {x \in S : Len(x) = n - 1}, i \in Items }
Init == seq = <<>> /\ phase = 0
Next == phase = 0 /\ phase' = 1 /\ seq' \in Seqs(MaxItems) \ {<<>>}
Emit == phase = 1 => PrintT(ToJson([items |-> seq]))
=============================================================================
