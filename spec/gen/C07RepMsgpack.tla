---------------------------- MODULE C07RepMsgpack ----------------------------
(* STUB - length-boundary inputs of Msgpack (see C07RepCbor.tla). *)
MsgpackRepInputs == { <<0>> }
=============================================================================
