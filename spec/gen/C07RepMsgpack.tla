---------------------------- MODULE C07RepMsgpack ----------------------------
(* Length-boundary inputs for MessagePack: every length-carrying head form  *)
(* (fixstr / str 8,16,32; bin 8,16,32; fixarray / array 16,32; fixmap /     *)
(* map 16,32; ext 8,16,32) at the boundary counts of its width - 15/16 for  *)
(* fixarray and fixmap, 31/32 for fixstr, 255/256 for the 8-bit forms, and  *)
(* the same counts in the wider (non-minimal) forms - followed by exactly / *)
(* one fewer / one more elements (symbolic repetition).  Maps have distinct *)
(* text keys, so the decoded value is compared as well as the verdict.      *)
(* Every input stays below ~1100 bytes.  Used by MC_C07 in TokMode "rep".   *)
EXTENDS Naturals, Sequences
LOCAL Rep(x, n) == [i \in 1..(n * Len(x)) |-> x[((i - 1) % Len(x)) + 1]]
LOCAL BE(n, w) == [i \in 1..w |-> (n \div (256 ^ (w - i))) % 256]
\* head with count n: w = 0 is the fix form on base code fix (count in the low bits), else code c8/c16/c32 followed by a w-byte big-endian count
LOCAL Hd(fix, c8, c16, c32, n, w) == IF w = 0 THEN <<fix + n>> ELSE <<CASE w = 1 -> c8 [] w = 2 -> c16 [] w = 4 -> c32>> \o BE(n, w)
LOCAL Key(i) == <<162, 64 + (i \div 60), 64 + (i % 60)>>          \* fixstr of two characters: distinct text keys
LOCAL Pairs(n) == IF n = 0 THEN <<>> ELSE [i \in 1..(n * 4) |-> LET p == (i - 1) \div 4  q == (i - 1) % 4 IN IF q < 3 THEN Key(p)[q + 1] ELSE 1]
LOCAL Adj(n) == {n} \cup (IF n > 0 THEN {n - 1} ELSE {}) \cup {n + 1}
\* <<count, width>>
LOCAL Wide == { <<0, 2>>, <<1, 2>>, <<15, 2>>, <<16, 2>>, <<31, 2>>, <<32, 2>>, <<255, 2>>, <<256, 2>>, <<0, 4>>, <<1, 4>>, <<16, 4>>, <<256, 4>> }
LOCAL Byte == { <<0, 1>>, <<1, 1>>, <<15, 1>>, <<16, 1>>, <<31, 1>>, <<32, 1>>, <<255, 1>> }
LOCAL Fix15 == { <<0, 0>>, <<1, 0>>, <<14, 0>>, <<15, 0>> }          \* fixarray / fixmap: 4-bit count
LOCAL Fix31 == { <<0, 0>>, <<1, 0>>, <<15, 0>>, <<16, 0>>, <<30, 0>>, <<31, 0>> }   \* fixstr: 5-bit length
MsgpackRepInputs ==
  UNION { { Hd(144, 0, 220, 221, c[1], c[2]) \o Rep(<<0>>, k) : k \in Adj(c[1]) } : c \in Fix15 \cup Wide } \cup           \* arrays of positive fixint 0 (no array 8 form)
  UNION { { Hd(128, 0, 222, 223, c[1], c[2]) \o Pairs(k) : k \in Adj(c[1]) } : c \in Fix15 \cup Wide } \cup                \* maps with distinct keys (no map 8 form)
  UNION { { Hd(160, 217, 218, 219, c[1], c[2]) \o Rep(<<97>>, k) : k \in Adj(c[1]) } : c \in Fix31 \cup Byte \cup Wide } \cup   \* text strings
  UNION { { Hd(0, 196, 197, 198, c[1], c[2]) \o Rep(<<255>>, k) : k \in Adj(c[1]) } : c \in Byte \cup Wide } \cup          \* byte strings (no fix form)
  UNION { { Hd(0, 199, 200, 201, c[1], c[2]) \o <<5>> \o Rep(<<255>>, k) : k \in Adj(c[1]) } : c \in Byte \cup Wide } \cup  \* ext objects of application type 5
  { <<220, 0, 16>> \o Rep(<<161, 97>>, 16), <<220, 1, 0>> \o Rep(<<192>>, 256), <<221, 0, 0, 1, 0>> \o Rep(<<145, 1>>, 256) } \cup  \* arrays of strings / nil / nested arrays
  { <<144 + 15>> \o Rep(<<129, 161, 97, 1>>, 15), <<222, 0, 16>> \o Pairs(15) \o <<162, 97, 97, 144>> }                    \* array of maps; map whose last value is an array
=============================================================================
