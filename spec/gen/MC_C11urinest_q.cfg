CONSTANTS
 MaxSegs = 2
 Nested = TRUE
INIT Init
NEXT Next
INVARIANT Emit
CHECK_DEADLOCK FALSE
