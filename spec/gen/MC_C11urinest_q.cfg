CONSTANTS
 MaxSegs = 2
 PtrMode = FALSE
 Nested = TRUE
INIT Init
NEXT Next
INVARIANT Emit
CHECK_DEADLOCK FALSE
