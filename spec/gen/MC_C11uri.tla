----------------------------- MODULE MC_C11uri -----------------------------
(* C11, reference resolution family.                                         *)
(* A schema identifies its subschemas by URI: "$id" (d4: "id") is resolved   *)
(* against the base URI in force (RFC 3986 section 5.2) and "$ref" likewise; *)
(* the reference addresses the subschema whose identifier equals the result  *)
(* (Uri!Target).  Every case is a base URI, an optional relative "$id" of a  *)
(* nested subschema (which changes the base for the reference inside it) and *)
(* a reference built from dot / dot-dot / empty / ordinary segments, with    *)
(* the identifier the reference addresses and near-miss identifiers          *)
(* (decoys) that it must NOT be taken to address.  The harness builds        *)
(*   { "$id": base, "allOf": [ { "$ref": "#/$defs/m" } ],                    *)
(*     "$defs": { "m": { "$id": inner, "allOf": [ { "$ref": ref } ] },       *)
(*                "x": { "$id": target, "type": "integer" },                 *)
(*                "y<i>": { "$id": decoy_i, "type": "string" } } }           *)
(* and requires: an integer instance is valid, a string instance is not.     *)
EXTENDS Uri, Json, TLC, FiniteSets
CONSTANTS MaxSegs, Nested, PtrMode
VARIABLES base, inner, ref, phase

Http == <<104,116,116,112,58,47,47,104>>   \* http://h
A == 97  B == 98  C == 99  G == 103  Q == 113  Y == 121

BasePaths == { <<>>, <<Slash>>, <<Slash,A>>, <<Slash,A,Slash>>, <<Slash,A,Slash,B>>, <<Slash,A,Slash,B,Slash>>,
               <<Slash,A,Slash,B,Slash,C>> }
Bases == { Http \o p \o q : p \in BasePaths, q \in { <<>>, <<Quest,Q>> } }

Segs == { <<Dot>>, <<Dot,Dot>>, <<G>>, <<>> }
RECURSIVE SegSeqs(_)
SegSeqs(n) == IF n = 0 THEN {<<>>} ELSE LET S == SegSeqs(n - 1) IN S \cup { Append(s, g) : s \in {x \in S : Len(x) = n - 1}, g \in Segs }
RECURSIVE Join(_)
Join(ss) == IF ss = <<>> THEN <<>> ELSE IF Len(ss) = 1 THEN ss[1] ELSE ss[1] \o <<Slash>> \o Join(Tail(ss))
\* relative references: [/] seg / seg ... [/] [?y] [#]   (a leading empty segment after "/" makes a network-path reference //g...)
RelRefs(n) == { (IF lead THEN <<Slash>> ELSE <<>>) \o Join(ss) \o (IF trail /\ ss # <<>> THEN <<Slash>> ELSE <<>>) \o q \o f :
                ss \in SegSeqs(n), lead \in BOOLEAN, trail \in BOOLEAN, q \in { <<>>, <<Quest,Y>> }, f \in { <<>>, <<Hash>> } }
\* absolute references whose path has dot segments (5.2.2: T.path = remove_dot_segments(R.path))
AbsRefs(n) == { Http \o <<Slash>> \o Join(ss) : ss \in SegSeqs(n) \ {<<>>} }
InnerIds == { <<>>, <<G>>, <<G,Slash>>, <<Dot,Dot,Slash,G>>, <<Slash,G,Slash,C>>, <<Dot,Slash>>, <<Quest,Y>> }

WellFormedRef(r) == LET s == Split(r) IN
  /\ (IsDef(s.authority) => Chars(s.authority) \in {<<G>>, <<104>>})          \* network-path references name the host g ("///", "//.", "//.." are not http identifiers)
  /\ ~(~IsDef(s.scheme) /\ ~IsDef(s.authority) /\ StartsWith(s.path, <<Slash,Slash>>))
  \* network-path references are not supported by the pinned tree at all (known finding): the class is kept to plain paths, since a
  \* mis-resolved "//g/../.." can come out as the enclosing schema itself, a reference cycle that only overflows the stack
  /\ ((~IsDef(s.scheme) /\ IsDef(s.authority)) => RemoveDotSegments(s.path) = s.path /\ \A i \in 1..Len(s.path) : s.path[i] # Dot)

SetToSeq(S) == CHOOSE f \in [1..Cardinality(S) -> S] : \A i, j \in 1..Cardinality(S) : i # j => f[i] # f[j]
\* ---- (ptr) references by JSON Pointer fragment: "#/<defs>/<token>", the token addressing a member whose name needs "~" escapes and
\* percent-encoding (RFC 6901 section 6); decoys are the members literally named like the encoded forms
PtrKeys == { <<97>>, <<97,32,98>>, <<97,47,98>>, <<97,126,98>>, <<97,37,98>>, <<97,37,50,53,98>>, <<233>>, <<8364>>, <<126,48>>, <<126,49>>, <<37,55,69>>,
             <<97,34,98>>, <<97,94,98>>, <<97,124,98>>, <<97,60,98>>, <<97,92,98>>, <<97,96,98>>, <<97,123,125>>, <<47>>, <<126>>, <<37>>, <<97,63,98>>, <<97,35,98>>,
             <<97,58,64,98>>, <<43>>, <<128512>>, <<97,126,49,98>>, <<97,37,50,48,98>> }
\* cls "ptr": the token is encoded only where RFC 3986 requires it (upper- or lower-case hex digits, equivalent by 2.1), the member
\* name holds no literal percent triplet, and no member is literally named like the encoded token.
\* cls "ptrx": the remaining combinations - everything that is not unreserved is encoded (all), members literally named like the
\* encoded token are present (lit), or the member name itself contains a percent triplet.
HexCp(c) == (c >= 48 /\ c <= 57) \/ (c >= 65 /\ c <= 70) \/ (c >= 97 /\ c <= 102)
HasTriplet(k) == \E i \in 1..Len(k) : k[i] = 37 /\ i + 2 <= Len(k) /\ HexCp(k[i + 1]) /\ HexCp(k[i + 2])
PtrCase(k, all, upper, lit) ==
  LET tok == FragmentToken(k, all, upper)
      dec == ({ PtrEscape(k) } \cup (IF k = <<97,32,98>> THEN {<<97,43,98>>} ELSE {}) \cup (IF lit THEN { tok, PctEncode(k, all, upper) } ELSE {})) \ {k}
  IN [cls |-> IF lit \/ all \/ HasTriplet(k) THEN "ptrx" ELSE "ptr", base |-> Http \o <<Slash,A>>, key |-> k, tok |-> tok, decoys |-> SetToSeq(dec),
      all |-> all, upper |-> upper, lit |-> lit]
PtrCases == { PtrCase(k, all, upper, FALSE) : k \in PtrKeys, all \in BOOLEAN, upper \in BOOLEAN }
            \cup { PtrCase(k, all, upper, TRUE) : k \in { x \in PtrKeys : \E a \in BOOLEAN : FragmentToken(x, a, TRUE) # PtrEscape(x) }, all \in BOOLEAN, upper \in BOOLEAN }

Init == /\ phase = 0 /\ base \in (IF PtrMode THEN {<<>>} ELSE Bases) /\ inner = <<>> /\ ref = <<>>
Next == /\ ~PtrMode /\ phase = 0 /\ phase' = 1 /\ base' = base
        /\ inner' \in (IF Nested THEN InnerIds ELSE {<<>>})
        /\ ref' \in { r \in RelRefs(MaxSegs) \cup AbsRefs(MaxSegs) : WellFormedRef(r) }

\* the base in force where the reference stands
InnerBase == IF inner = <<>> THEN Target(base, <<>>) ELSE Target(base, inner)
Tgt == Target(InnerBase, ref)
\* (RFC 3986 6.2.3: an empty path and "/" are equivalent for http, so identifiers differing only in that are not told apart here)
SlashPath(u) == LET t == Split(u) IN Recompose([t EXCEPT !.path = IF t.path = <<>> THEN <<Slash>> ELSE t.path])
\* near misses: the trailing slash toggled, the query toggled, one path segment more / fewer
Decoys ==
  LET t == Split(Tgt)
      p == t.path
      alt == { [t EXCEPT !.query = IF IsDef(t.query) THEN Undef ELSE Def(<<Y>>)] }
             \cup (IF Len(p) > 1 /\ p[Len(p)] = Slash THEN { [t EXCEPT !.path = Sub(p, 1, Len(p) - 1)] } ELSE {})
             \cup (IF Len(p) > 1 /\ p[Len(p)] # Slash THEN { [t EXCEPT !.path = p \o <<Slash>>] } ELSE {})
             \cup { [t EXCEPT !.path = p \o (IF p # <<>> /\ p[Len(p)] = Slash THEN <<G>> ELSE <<Slash,G>>)] }
             \cup (IF Len(DropLast(p)) > 0 THEN { [t EXCEPT !.path = DropLast(p)] } ELSE {})
  IN { x \in { Recompose(d) : d \in alt } : SlashPath(x) \notin { SlashPath(Tgt), SlashPath(Target(base, <<>>)), SlashPath(InnerBase) } }

\* a reference to an enclosing schema would recurse without consuming the instance (undefined); not generated
Applicable == SlashPath(Tgt) # SlashPath(Target(base, <<>>)) /\ SlashPath(Tgt) # SlashPath(InnerBase)

Case == [base |-> base, inner |-> inner, ref |-> ref, target |-> Tgt, decoys |-> SetToSeq(Decoys),
         cls |-> LET s == Split(ref) IN IF IsDef(s.scheme) THEN "abs" ELSE IF IsDef(s.authority) THEN "net" ELSE "rel"]
Emit == IF PtrMode THEN (phase = 0 => \A pc \in PtrCases : PrintT(ToJson(pc)))
        ELSE ((phase = 1 /\ Applicable) => PrintT(ToJson(Case)))
=============================================================================
