INIT Init
NEXT Next
INVARIANT Emit
CHECK_DEADLOCK FALSE
CONSTANTS
  Format = "cbor"
  MaxLen = 4
  ExhLen = 2
  Reps = {0, 1, 23, 24, 25, 27, 31, 32, 65, 95, 97, 127, 128, 129, 130, 159, 161, 191, 194, 244, 246, 249, 255, 195}
  OnlyAccepted = FALSE
  TokMode = "bytes"
