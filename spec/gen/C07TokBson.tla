---------------------------- MODULE C07TokBson ----------------------------
(* STUB - head/payload tokens of the Bson token-level generator. *)
BsonTokens == { <<0>> }
BsonSmallTokens == { <<0>> }
=============================================================================
