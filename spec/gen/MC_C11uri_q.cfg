CONSTANTS
 MaxSegs = 2
 Nested = FALSE
INIT Init
NEXT Next
INVARIANT Emit
CHECK_DEADLOCK FALSE
