------------------------------ MODULE MC_C01 ------------------------------
(* C01 generator: data-model values x encode option vectors.  The harness   *)
(* serialises each value with the real encoder, parses the text back and    *)
(* serialises again; Trace_C01 validates the recorded execution.            *)
(* An option vector is a sequence of small naturals:                        *)
(*  1 pretty(0/1) 2 indent_size{0,1,4} 3 indent_char{0 space,1 tab}         *)
(*  4 spaces_around_colon{0..3} 5 spaces_around_comma{0..3}                 *)
(*  6 pad_inside_object_braces 7 pad_inside_array_brackets                  *)
(*  8 root 9 object_object 10 object_array 11 array_array 12 array_object   *)
(*    line splits {0 multi_line,1 new_line,2 same_line}                     *)
(*  13 line_length_limit{0 default,1,8,40} 14 new_line_chars{0 LF,1 CRLF}   *)
(*  15 escape_all_non_ascii 16 escape_solidus                               *)
EXTENDS Naturals, Sequences, FiniteSets, Json, TLC
CONSTANTS Big
VARIABLES v, o, phase

Dom == <<2, 3, 2, 4, 4, 2, 2, 3, 3, 3, 3, 3, 4, 2, 2, 2>>
Default == <<1, 2, 0, 1, 1, 0, 0, 0, 0, 0, 0, 0, 0, 0, 0, 0>>      \* pretty, indent 4, space after colon / comma (library defaults)
OneFactor == { [Default EXCEPT ![i] = x] : i \in 1..16, x \in 0..3 } 
Mixed == { [i \in 1..16 |-> ((k * (2 * i + 1)) + (i * i)) % Dom[i]] : k \in 1..(IF Big THEN 120 ELSE 30) }
Opts == { w \in OneFactor : \A i \in 1..16 : w[i] < Dom[i] } \cup Mixed \cup { [Default EXCEPT ![1] = 0] }

Digits(s) == s
Ints == { <<"int", <<48>>>>, <<"int", <<49>>>>, <<"int", <<45, 49>>>>, <<"int", <<49, 50, 51>>>>,
          <<"int", <<57,50,50,51,51,55,50,48,51,54,56,53,52,55,55,53,56,48,55>>>>, <<"int", <<45,57,50,50,51,51,55,50,48,51,54,56,53,52,55,55,53,56,48,56>>>>,
          <<"uint", <<57,50,50,51,51,55,50,48,51,54,56,53,52,55,55,53,56,48,56>>>>, <<"uint", <<49,56,52,52,54,55,52,52,48,55,51,55,48,57,53,53,49,54,49,53>>>>,
          <<"uint", <<52,50,57,52,57,54,55,50,57,54>>>>, <<"int", <<45,50,49,52,55,52,56,51,54,52,57>>>> }
Bigs == { <<"big", <<49,56,52,52,54,55,52,52,48,55,51,55,48,57,53,53,49,54,49,54>>>>, <<"big", <<45,57,50,50,51,51,55,50,48,51,54,56,53,52,55,55,53,56,48,57>>>>,
          <<"big", <<49,50,51,52,53,54,55,56,57,48,49,50,51,52,53,54,55,56,57,48,49,50,51,52,53,54,55,56,57,48>>>> }
\* doubles by bit pattern (16 hex digits as code units are built by the harness from these 8 bytes)
Dbls == { <<"dbl", b>> : b \in { <<0,0,0,0,0,0,0,0>>, <<63,240,0,0,0,0,0,0>>, <<63,248,0,0,0,0,0,0>>, <<191,240,0,0,0,0,0,0>>, <<63,185,153,153,153,153,153,154>>,
          <<64,9,33,251,84,68,45,24>>, <<67,64,0,0,0,0,0,0>>, <<67,240,0,0,0,0,0,0>>, <<68,21,175,29,120,181,140,64>>, <<127,239,255,255,255,255,255,255>>, <<0,0,0,0,0,0,0,1>>,
          <<0,16,0,0,0,0,0,0>>, <<63,240,0,0,0,0,0,1>>, <<65,205,205,101,0,0,0,0>>, <<66,55,72,118,232,0,0,0>>, <<60,176,0,0,0,0,0,0>>, <<128,0,0,0,0,0,0,0>>, <<84,178,73,173,37,148,195,125>>,
          <<56,106,149,161,196,104,33,59>>, <<67,63,255,255,255,255,255,255>> } }
Cps == { 0, 1, 8, 9, 10, 12, 13, 31, 32, 34, 47, 92, 97, 127, 128, 233, 2047, 2048, 8364, 55295, 57344, 65533, 65535, 65536, 128512, 1114111 }
Strs == { <<"str", <<>>>> } \cup { <<"str", <<c>>>> : c \in Cps } \cup { <<"str", <<97, c, 98>>>> : c \in {34, 92, 47, 10, 233, 65535, 65536} }
        \cup { <<"str", [i \in 1..n |-> 120]>> : n \in {13, 14, 15, 16, 40} }
Scalars == { <<"null">>, <<"bool", TRUE>>, <<"bool", FALSE>> } \cup Ints \cup Bigs \cup Dbls \cup Strs
Small == { <<"null">>, <<"int", <<49>>>>, <<"dbl", <<63,248,0,0,0,0,0,0>>>>, <<"str", <<97>>>>, <<"str", <<34, 233, 47>>>>, <<"arr", <<>>>>, <<"obj", <<>>>>, <<"bool", TRUE>> }
KeysC == { <<97>>, <<98>>, <<>>, <<34, 92>>, <<233>>, <<47>>, <<65535>>, <<128512>>, <<10>> }
Arr1 == { <<"arr", <<a>>>> : a \in Small } \cup { <<"arr", <<a, b>>>> : a \in Small, b \in Small } \cup { <<"arr", <<a, a, a, a, a, a, a, a, a, a, a, a>>>> : a \in {<<"int", <<49,50,51,52,53,54>>>>, <<"str", <<97,98,99>>>>, <<"str", <<233,233,233,233>>>>, <<"str", <<8364,8364>>>>, <<"str", <<128512,97>>>>} }
Obj1 == { <<"obj", <<<<k, a>>>>>> : k \in KeysC, a \in Small } \cup { <<"obj", <<<<<<98>>, a>>, <<<<97>>, b>>>>>> : a \in Small, b \in Small }
        \* member names mixing ASCII and non-ASCII (their UTF-8 bytes order differently under signed and unsigned comparison), given in both orders
        \cup { <<"obj", <<<<<<122>>, a>>, <<<<233>>, b>>>>>> : a \in Small, b \in {<<"int", <<49>>>>, <<"str", <<233>>>>} }
        \cup { <<"obj", <<<<<<233>>, <<"int", <<50>>>>>>, <<<<97>>, <<"arr", <<>>>>>>, <<<<122>>, <<"int", <<51>>>>>>>>>>,
                <<"obj", <<<<<<99, 97, 102, 233>>, <<"int", <<49>>>>>>, <<<<99, 97, 102, 101>>, <<"int", <<50>>>>>>, <<<<99, 97, 102>>, <<"null">>>>>>>>,
                <<"obj", <<<<<<128512>>, <<"int", <<49>>>>>>, <<<<126>>, <<"int", <<50>>>>>>, <<<<233, 233, 233, 233>>, <<"str", <<233, 233, 233, 233>>>>>>>>>> }
Nested == { <<"arr", <<x, <<"int", <<49>>>>, x>>>> : x \in {y \in Arr1 \cup Obj1 : Len(y[2]) = 2} } \cup
          { <<"obj", <<<<<<97>>, x>>, <<<<98>>, <<"arr", <<x, x>>>>>>>>>> : x \in {y \in Arr1 \cup Obj1 : Len(y[2]) = 2} }
\* (carry) a token that goes through the parser's scratch buffer (a number of any class, a string or member name with an escape) directly
\* followed by a nested container whose FIRST element is a number of either sign / class or a string: nothing of the earlier token may
\* carry over into the later one when the text is parsed back
Prev == { <<"int", <<49, 50, 51>>>>, <<"int", <<45, 49>>>>, <<"dbl", <<63,248,0,0,0,0,0,0>>>>, <<"dbl", <<191,240,0,0,0,0,0,0>>>>, <<"str", <<34, 233, 47>>>>,
          <<"big", <<49,56,52,52,54,55,52,52,48,55,51,55,48,57,53,53,49,54,49,54>>>> }
First == { <<"int", <<45, 49>>>>, <<"int", <<49>>>>, <<"int", <<48>>>>, <<"dbl", <<191,240,0,0,0,0,0,0>>>>, <<"dbl", <<63,248,0,0,0,0,0,0>>>>,
           <<"big", <<45,57,50,50,51,51,55,50,48,51,54,56,53,52,55,55,53,56,48,57>>>>, <<"str", <<97>>>> }
Carry == { <<"arr", <<q, <<"arr", <<f>>>>>>>> : q \in Prev, f \in First }
         \cup { <<"arr", << <<"arr", <<q, q>>>>, <<"arr", <<f, q>>>> >>>> : q \in Prev, f \in First }
         \cup { <<"obj", << <<<<34, 92>>, <<"arr", <<f>>>>>> >>>> : f \in First }
         \cup { <<"obj", << <<<<97>>, q>>, <<<<98>>, <<"arr", <<f, f>>>>>> >>>> : q \in Prev, f \in First }
         \cup { <<"arr", <<q, <<"obj", << <<<<97>>, f>> >>>>>>>> : q \in Prev, f \in First }
Values == Scalars \cup Arr1 \cup Obj1 \cup (IF Big THEN Nested ELSE {y \in Nested : y[1] = "arr"}) \cup Carry
\* scalars with every option vector; containers with every option vector too (layout options only matter there)
Init == phase = 0 /\ v = <<"null">> /\ o = Default
Next == phase = 0 /\ phase' = 1 /\ v' \in Values /\ o' \in (IF v'[1] \in {"arr", "obj"} \/ v'[1] = "str" THEN Opts ELSE {Default, [Default EXCEPT ![1] = 0]})
Emit == phase = 1 => PrintT(ToJson([v |-> v, o |-> o]))
=============================================================================
