----------------------------- MODULE MC_C03csv -----------------------------
(* C03, CSV text: every string over a small alphabet of the characters the   *)
(* CSV reader distinguishes (field content letter / digit, the delimiter,    *)
(* the quote, CR, LF, space, the comment starter, a second delimiter used by *)
(* one option set) up to MaxLen code units.  No verdict is predicted: the    *)
(* property is delivery independence, so the harness compares every delivery *)
(* (stream buffer size, chunking of the push parser, cursor) of a text with  *)
(* the contiguous one, for each option set.                                  *)
EXTENDS Naturals, Sequences, Json, TLC
CONSTANTS MaxLen, Alphabet
VARIABLES t
Init == t = <<>>
Next == Len(t) < MaxLen /\ \E ch \in Alphabet : t' = Append(t, ch)
Emit == PrintT(ToJson([csv |-> t]))
=============================================================================
