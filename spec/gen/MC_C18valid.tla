---------------------------- MODULE MC_C18valid ----------------------------
(* Validation of Csv.tla against its governing documents before it is used  *)
(* as an oracle: the example files of RFC 4180 section 2 (rules 1-7) and    *)
(* the typed readings shown in /repo/doc/ref/csv/decode_csv.md are fed      *)
(* through the SPEC's reader (not the library).  TLC evaluates the ASSUMEs. *)
EXTENDS Csv, TLC
VARIABLE x
a == 97  b == 98  c == 99  xx == 120  y == 121  z == 122
RfcOpts == [fd |-> COMMA, qc |-> DQUOTE, ec |-> DQUOTE, style |-> "minimal", ld |-> <<CR, LF>>, infer |-> FALSE,
            mapping |-> "n_rows", header |-> "none", iel |-> TRUE]
U(t) == Fld(FALSE, t)
Q(t) == Fld(TRUE, t)
SV(t) == <<"str", t>>
AAA == <<a, a, a>>  BBB == <<b, b, b>>  CCC == <<c, c, c>>  ZZZ == <<z, z, z>>  YYY == <<y, y, y>>  XXX == <<xx, xx, xx>>
Line1 == AAA \o <<COMMA>> \o BBB \o <<COMMA>> \o CCC
Line2 == ZZZ \o <<COMMA>> \o YYY \o <<COMMA>> \o XXX
Two == << <<U(AAA), U(BBB), U(CCC)>>, <<U(ZZZ), U(YYY), U(XXX)>> >>
\* rule 1: each record on a separate line, delimited by CRLF
ASSUME Records(Line1 \o <<CR, LF>> \o Line2 \o <<CR, LF>>, RfcOpts) = <<"ok", Two>>
\* rule 2: the last record may or may not have an ending line break
ASSUME Records(Line1 \o <<CR, LF>> \o Line2, RfcOpts) = <<"ok", Two>>
\* [OPT] the reader also accepts LF and CR alone
ASSUME Records(Line1 \o <<LF>> \o Line2 \o <<CR>>, RfcOpts) = <<"ok", Two>>
\* rule 3: optional header line, same format as the records
ASSUME ReadTable(Line1 \o <<CR, LF>> \o Line2 \o <<CR, LF>>, [RfcOpts EXCEPT !.header = "assume", !.mapping = "n_objects"])
         = <<"ok", [names |-> <<AAA, BBB, CCC>>, rows |-> << <<SV(ZZZ), SV(YYY), SV(XXX)>> >>]>>
\* rule 4: spaces are part of a field; the last field must not be followed by a comma (a trailing comma is an empty field)
ASSUME Records(<<a, SPACE, COMMA, SPACE, b>>, RfcOpts) = <<"ok", << <<U(<<a, SPACE>>), U(<<SPACE, b>>)>> >>>>
ASSUME Records(<<a, COMMA>>, RfcOpts) = <<"ok", << <<U(<<a>>), U(<<>>)>> >>>>
\* rule 5: fields may or may not be enclosed in double quotes; no quote inside an unquoted field
ASSUME Records(<<DQUOTE>> \o AAA \o <<DQUOTE, COMMA, DQUOTE>> \o BBB \o <<DQUOTE, CR, LF>> \o Line2, RfcOpts)
         = <<"ok", << <<Q(AAA), Q(BBB)>>, <<U(ZZZ), U(YYY), U(XXX)>> >>>>
ASSUME Records(<<a, DQUOTE, b>>, RfcOpts)[1] = "err"
\* rule 6: line breaks, double quotes and commas inside a quoted field:  "aaa","b CRLF bb","c,c"
ASSUME Records(<<DQUOTE>> \o AAA \o <<DQUOTE, COMMA, DQUOTE, b, CR, LF, b, b, DQUOTE, COMMA, DQUOTE, c, COMMA, c, DQUOTE>>, RfcOpts)
         = <<"ok", << <<Q(AAA), Q(<<b, CR, LF, b, b>>), Q(<<c, COMMA, c>>)>> >>>>
\* rule 7: a double quote inside a field is escaped by another double quote:  "aaa","b""bb"
ASSUME Records(<<DQUOTE>> \o AAA \o <<DQUOTE, COMMA, DQUOTE, b, DQUOTE, DQUOTE, b, b, DQUOTE>>, RfcOpts)
         = <<"ok", << <<Q(AAA), Q(<<b, DQUOTE, b, b>>)>> >>>>
ASSUME Records(<<DQUOTE, a, DQUOTE, b>>, RfcOpts)[1] = "err"
ASSUME Records(<<DQUOTE, a>>, RfcOpts)[1] = "err"
\* [OPT] quote_escape_char:  "a\"b"  under escape character backslash
ASSUME Records(<<DQUOTE, a, BSLASH, DQUOTE, b, DQUOTE>>, [RfcOpts EXCEPT !.ec = BSLASH]) = <<"ok", << <<Q(<<a, DQUOTE, b>>)>> >>>>
\* [OPT] ignore_empty_lines
ASSUME Records(<<a, LF, LF, b, LF>>, RfcOpts) = <<"ok", << <<U(<<a>>)>>, <<U(<<b>>)>> >>>>
ASSUME Records(<<a, LF, LF, b, LF>>, [RfcOpts EXCEPT !.iel = FALSE]) = <<"ok", << <<U(<<a>>)>>, <<U(<<>>)>>, <<U(<<b>>)>> >>>>
\* decode_csv.md, first example (infer_types default):  "Joe Bloggs",false,"4162722561","55416",...: quoted digits stay
\* strings, unquoted 55416 is a number, false / null are inferred
Inf == [RfcOpts EXCEPT !.infer = TRUE]
D55416 == <<53, 53, 52, 49, 54>>
ASSUME ReadTable(<<DQUOTE>> \o D55416 \o <<DQUOTE, COMMA>> \o D55416 \o <<COMMA, 102, 97, 108, 115, 101, COMMA, 110, 117, 108, 108, COMMA, 45, 55>>, Inf)
         = <<"ok", [names |-> <<>>, rows |-> << << <<"str", D55416>>, <<"int", 55416>>, <<"bool", FALSE>>, <<"null">>, <<"int", 0 - 7>> >> >>]>>
\* ... and what the spec does not decide (leading zeros, floating point) is unspecified, not guessed
ASSUME Infer(<<48, 49>>) = <<"unspec">> /\ Infer(<<48, 46, 53>>) = <<"unspec">> /\ Infer(<<>>) = <<"unspec">>
\* the writer: RFC 4180 2.6 / 2.7 on the reference encoder
ASSUME SpecEncode([names |-> <<>>, rows |-> << << <<"str", <<a, COMMA>>>>, <<"str", <<b, DQUOTE>>>>, <<"str", <<c>>>> >> >>], RfcOpts)
         = <<DQUOTE, a, COMMA, DQUOTE, COMMA, DQUOTE, b, DQUOTE, DQUOTE, DQUOTE, COMMA, c, CR, LF>>
Init == x = 0
Next == UNCHANGED x
=============================================================================
