SPECIFICATION Spec
INVARIANTS ScheduleIndependent NoSharedWrite
PROPERTY EveryOpReturns
CONSTANTS
  Threads = {1, 2, 3}
  Ops = {1, 2}
  Memo = FALSE
  MaxOps = 2
CHECK_DEADLOCK FALSE
