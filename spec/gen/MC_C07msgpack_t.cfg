INIT Init
NEXT Next
INVARIANT Emit
CHECK_DEADLOCK FALSE
CONSTANTS
  Format = "msgpack"
  MaxLen = 4
  ExhLen = 2
  Reps = {0, 1, 4, 12, 97, 127, 128, 129, 145, 161, 162, 191, 192, 193, 195, 196, 199, 202, 204, 208, 212, 217, 220, 255}
  OnlyAccepted = FALSE
  TokMode = "bytes"
