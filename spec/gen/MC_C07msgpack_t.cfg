INIT Init
NEXT Next
INVARIANT Emit
CHECK_DEADLOCK FALSE
CONSTANTS
  Format = "msgpack"
  MaxLen = 4
  ExhLen = 2
  Reps = {0, 1, 97, 128, 129, 145, 161, 192, 196, 199, 212, 255}
  OnlyAccepted = FALSE
  TokMode = "bytes"
