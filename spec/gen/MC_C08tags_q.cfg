INIT Init
NEXT Next
INVARIANT Grammatical
INVARIANT Emit
CHECK_DEADLOCK FALSE
CONSTANTS
  Big = FALSE
