INIT Init
NEXT Next
INVARIANT Emit
CHECK_DEADLOCK FALSE
CONSTANTS
  Limits_ = {0, 1, 2, 3, 16}
  Big = FALSE
