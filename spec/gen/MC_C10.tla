------------------------------ MODULE MC_C10 ------------------------------
(* C10 generator: format x container-opening path x limit x depth around    *)
(* the limit (decoders and encoders), UBJSON max_items x announced counts,  *)
(* and claimed-length headers x a few payload bytes.                        *)
EXTENDS Limits, Json, TLC
CONSTANTS Limits_, Big
Extra == {<<>>, <<0>>, <<97, 97, 97>>} \cup (IF Big THEN {<<255, 255, 255, 255>>} ELSE {})
VARIABLES c, phase
Depths(l) == {d \in {l - 1, l, l + 1, l + 2} : d >= 0} \cup (IF l = 0 THEN {0, 1} ELSE {})
DepthCases == { [k |-> "depth", f |-> p[1], path |-> p[2], open |-> p[3], close |-> p[4], leaf |-> p[5], limit |-> l, depth |-> d, accept |-> AcceptDepth(d, l)]
                : p \in DecoderPaths, l \in Limits_, d \in UNION {Depths(x) : x \in Limits_} }
EncCases == { [k |-> "enc-depth", f |-> f, kind |-> kd, limit |-> l, depth |-> d, accept |-> AcceptDepth(d, l)]
              : f \in EncoderFormats, kd \in EncoderKinds, l \in Limits_, d \in UNION {Depths(x) : x \in Limits_} }
ItemCases == { [k |-> "maxitems", kind |-> kd, maxitems |-> m, count |-> n, refuse |-> RefuseItems(n, m)]
               : kd \in {"array-counted", "array-typed", "object-counted"}, m \in {0, 1, 2, 5}, n \in {0, 1, 2, 3, 5, 6} }
ClaimCases == { [k |-> "claim", f |-> q[1], name |-> q[2], head |-> q[3], extra |-> e] : q \in Claims, e \in Extra }
DeepCases == { [k |-> "deep", op |-> o, depth |-> d] : o \in {"copy", "compare", "dump", "destroy", "parse-destroy"}, d \in {1024} } \cup
             { [k |-> "deep", op |-> "destroy", depth |-> 1000000], [k |-> "deep", op |-> "destroy-object", depth |-> 200000] }
All == {x \in DepthCases : x.depth \in Depths(x.limit)} \cup {x \in EncCases : x.depth \in Depths(x.limit)} \cup ItemCases \cup ClaimCases \cup DeepCases
Init == phase = 0 /\ c = [k |-> "none"]
Next == phase = 0 /\ phase' = 1 /\ c' \in All
Emit == phase = 1 => PrintT(ToJson(c))
=============================================================================
