------------------------------ MODULE MC_C10 ------------------------------
(* C10 generator: format x container-opening path x limit x depth around    *)
(* the limit (decoders and encoders), UBJSON max_items x announced counts,  *)
(* and claimed-length headers x a few payload bytes.                        *)
EXTENDS Limits, Json, TLC
CONSTANTS Limits_, Big
Extra == {<<>>, <<0>>, <<97, 97, 97>>} \cup (IF Big THEN {<<255, 255, 255, 255>>} ELSE {})
VARIABLES c, phase
Depths(l) == {d \in {l - 1, l, l + 1, l + 2} : d >= 0} \cup (IF l = 0 THEN {0, 1} ELSE {})
DepthCases == { [k |-> "depth", f |-> p[1], path |-> p[2], open |-> p[3], close |-> p[4], leaf |-> p[5], limit |-> l, depth |-> d, accept |-> AcceptDepth(d, l)]
                : p \in DecoderPaths, l \in Limits_, d \in UNION {Depths(x) : x \in Limits_} }
EncCases == { [k |-> "enc-depth", f |-> f, kind |-> kd, limit |-> l, depth |-> d, accept |-> AcceptDepth(d, l)]
              : f \in EncoderFormats, kd \in EncoderKinds, l \in Limits_, d \in UNION {Depths(x) : x \in Limits_} }
ItemCases == { [k |-> "maxitems", kind |-> kd, maxitems |-> m, count |-> n, refuse |-> RefuseItems(n, m)]
               : kd \in {"array-counted", "array-typed", "object-counted", "object-typed"}, m \in {0, 1, 2, 5}, n \in {0, 1, 2, 3, 5, 6} }
\* at: 0 = the claimed-length header is the first thing in the input; otherwise the header is preceded, inside an enclosing array, by one
\* filler string so that it ENDS exactly at that offset of the input (the stream sources read in chunks of 16384 bytes: header ending just
\* before / at / just after a chunk boundary; BSON has no such wrapper here)
ClaimCases == { [k |-> "claim", f |-> q[1], name |-> q[2], head |-> q[3], extra |-> e, at |-> 0] : q \in Claims, e \in Extra }
               \cup { [k |-> "claim", f |-> q[1], name |-> q[2], head |-> q[3], extra |-> <<97, 97, 97>>, at |-> o]
                      : q \in { x \in Claims : x[1] # "bson" }, o \in {16383, 16384, 16385, 32768} }
\* K siblings, then a nest that reaches exactly the limit / one beyond (msgpack: the outer array16 announces 9 items: 8 siblings + nest)
SiblingCases == { [k |-> "sibling", f |-> q[1], sib |-> q[2], item |-> q[3], open |-> q[4], close |-> q[5], count |-> (IF q[1] = "msgpack" THEN 8 ELSE n),
                   limit |-> l, depth |-> l + dd, accept |-> AcceptDepth(l + dd, l)] : q \in Siblings, n \in {1, 3, 8}, l \in {4, 5, 16}, dd \in {0, 1} }   \* limits above the depth of the siblings themselves (at most 3 with the outer array)
\* encoders: an outer array of `count` sibling containers (arrays / objects of one element), then one nest down to `depth`: the nesting counter
\* must come back down after every sibling, so the verdict depends on the deepest nest only (AcceptDepth), never on how many were closed
EncSiblingCases == { [k |-> "enc-sibling", f |-> f, kind |-> kd, count |-> n, limit |-> l, depth |-> d, accept |-> AcceptDepth(d, l)]
                     : f \in EncoderFormats, kd \in {"array", "object"}, n \in {1, 3, 12}, l \in {2, 3, 8}, d \in {2, 3, 4, 8, 9} }
DeepCases == { [k |-> "deep", op |-> o, depth |-> d] : o \in {"copy", "compare", "dump", "destroy", "parse-destroy"}, d \in {1024} } \cup
             { [k |-> "deep", op |-> "destroy", depth |-> 1000000], [k |-> "deep", op |-> "destroy-object", depth |-> 200000],
               [k |-> "deep", op |-> "destroy-alternating", depth |-> 200000], [k |-> "deep", op |-> "destroy-alternating-ojson", depth |-> 200000],
               [k |-> "deep", op |-> "copy-alternating", depth |-> 1024], [k |-> "deep", op |-> "dump-alternating", depth |-> 1024] }
All == {x \in DepthCases : x.depth \in Depths(x.limit)} \cup {x \in EncCases : x.depth \in Depths(x.limit)} \cup ItemCases \cup ClaimCases \cup DeepCases \cup SiblingCases \cup {x \in EncSiblingCases : x.depth \in {x.limit, x.limit + 1}}
Init == phase = 0 /\ c = [k |-> "none"]
Next == phase = 0 /\ phase' = 1 /\ c' \in All
Emit == phase = 1 => PrintT(ToJson(c))
=============================================================================
