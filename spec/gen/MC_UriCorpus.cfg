INIT Init
NEXT Next
