INIT Init
NEXT Next
INVARIANT Emit
CHECK_DEADLOCK FALSE
CONSTANTS
  MaxLen = 7
  Alphabet = {97, 49, 44, 34, 10, 13, 32, 35, 59}
