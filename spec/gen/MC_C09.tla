------------------------------ MODULE MC_C09 ------------------------------
(* C09 generator (a): one conformance test per TRANSITION of the Container  *)
(* model (DESIGN Appendix A.2): the witness history is hidden from the      *)
(* state identity by VIEW, every generated edge is emitted from an          *)
(* ACTION_CONSTRAINT with the history that reaches it and the expected      *)
(* abstract state of every slot after it.  BFS + CONSTRAINT on the history  *)
(* length bounds the depth (BFS reaches each state first by a shortest      *)
(* history).                                                                *)
EXTENDS Container, Json
CONSTANTS MaxHist

LongStr == <<"str", <<108,111,110,103,45,115,116,114,105,110,103,45,48,49,50,51,52,53,54,55,56,57>>>>   \* "long-string-0123456789": beyond the short-string capacity
\* (two one-member object literals with a small and a great key, and a one-element array, bring object / array operations on
\* non-empty containers within reach of short histories)
MCLits == { <<"null">>, <<"bool", TRUE>>, <<"int", 1>>, <<"str", <<115>>>>, LongStr, <<"obj", <<>>>>, <<"arr", <<>>>>,
            <<"obj", << <<<<97>>, <<"int", 1>>>> >>>>, <<"obj", << <<<<99>>, <<"null">>>> >>>>, <<"arr", << <<"int", 1>> >>>> }
MCKeys == { <<97>>, <<98>>, <<99>> }

View == slot
Bound == Len(hist) <= MaxHist        \* a successor violating the state constraint is dropped before the action constraint is evaluated
IndepStep == \A i \in Slots : slot'[i] # slot[i] => LET e == hist'[Len(hist')] IN \E p \in 2..Len(e) : e[p] = i
EmitEdge == /\ Assert(IndepStep, "an action changed a slot it does not name")
            /\ PrintT(ToJson([h |-> hist', s |-> slot']))
=============================================================================
