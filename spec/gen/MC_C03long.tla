---------------------------- MODULE MC_C03long ----------------------------
(* C03, binary formats, long items: a document holding a first item that    *)
(* goes through the parser's scratch buffer (or not) followed by TWO strings *)
(* longer than the 16384-byte chunk of the stream / iterator sources.  The   *)
(* bytes are given as a program [ [bytes, repeat], ... ] that the harness    *)
(* expands (TLC does not hold 40000-element sequences comfortably).  Every   *)
(* delivery must give what the contiguous buffer gives.                      *)
EXTENDS Naturals, Sequences, Json, TLC
VARIABLES c, phase
Lens == {16384, 16385, 20000, 40000}
BE4(n) == <<0, n \div 65536, (n \div 256) % 256, n % 256>>
LE4(n) == <<n % 256, (n \div 256) % 256, n \div 65536, 0>>
Seg(bs, k) == <<bs, k>>
Pres(f) == CASE f = "cbor" -> { <<1>>, <<127, 97, 97, 255>>, <<194, 65, 1>>, <<98, 97, 97>> }          \* int, chunked text, bignum, short text
             [] f = "msgpack" -> { <<1>>, <<161, 97>>, <<196, 1, 7>> }                                    \* int, short text, short bin
             [] f = "ubjson" -> { <<105, 1>>, <<67, 120>>, <<83, 105, 1, 97>>, <<72, 105, 1, 49>> }        \* int8, char, short string, high-precision number
             [] f = "bson" -> { <<16, 112, 0, 1, 0, 0, 0>>, <<2, 112, 0, 2, 0, 0, 0, 97, 0>>, <<7, 112, 0, 1, 2, 3, 4, 5, 6, 7, 8, 9, 10, 11, 12>> }   \* int32, short string, ObjectId
Prog(f, pre, a, b) ==
  CASE f = "cbor" -> << Seg(<<131>> \o pre \o <<122>> \o BE4(a), 1), Seg(<<97>>, a), Seg(<<90>> \o BE4(b), 1), Seg(<<1>>, b) >>
    [] f = "msgpack" -> << Seg(<<147>> \o pre \o <<219>> \o BE4(a), 1), Seg(<<97>>, a), Seg(<<198>> \o BE4(b), 1), Seg(<<1>>, b) >>
    [] f = "ubjson" -> << Seg(<<91>> \o pre \o <<83, 108>> \o BE4(a), 1), Seg(<<97>>, a), Seg(<<83, 108>> \o BE4(b), 1), Seg(<<98>>, b), Seg(<<93>>, 1) >>
    [] f = "bson" -> LET total == 4 + Len(pre) + (1 + 2 + 4 + a + 1) + (1 + 2 + 4 + b + 1) + 1 IN
                     << Seg(LE4(total) \o pre \o <<2, 97, 0>> \o LE4(a + 1), 1), Seg(<<97>>, a), Seg(<<0, 2, 98, 0>> \o LE4(b + 1), 1), Seg(<<98>>, b), Seg(<<0, 0>>, 1) >>
Init == phase = 0 /\ c = [f |-> "none"]
Next == phase = 0 /\ phase' = 1 /\ \E f \in {"cbor", "msgpack", "ubjson", "bson"}, a \in Lens, b \in Lens : \E pre \in Pres(f) : c' = [f |-> f, prog |-> Prog(f, pre, a, b), a |-> a, b_ |-> b]
Emit == phase = 1 => PrintT(ToJson(c))
=============================================================================
