INIT Init
NEXT Next
INVARIANTS Emit PathsResolve NumbersNormal FilterSelectsKids
CHECK_DEADLOCK FALSE
CONSTANTS
  Big = TRUE
  Fams = {"un", "bin", "ar", "mix", "top"}
