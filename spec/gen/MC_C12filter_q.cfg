INIT Init
NEXT Next
INVARIANTS Emit PathsResolve NormRoundTrip OptionLaws SliceClosedForm ReplaceLaws
CHECK_DEADLOCK FALSE
CONSTANTS
  Mode = "filter"
  MaxSegs = 2
  Big = FALSE
  MaxArr = 5
  InclStepOverflow = FALSE
  InclEmptyArrLenP = FALSE
