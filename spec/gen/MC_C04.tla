------------------------------ MODULE MC_C04 ------------------------------
(* C04 generator: operands for the arbitrary-precision integer (values       *)
(* centred on the 2^32k limb boundaries of the implementation, built with   *)
(* BigNat so that the oracle is independent of that implementation),        *)
(* integer literals around the native-range boundaries, and integers in     *)
(* [2^52, 2^65] whose correctly rounded double is decidable with exact      *)
(* integer arithmetic (round-half-even midpoints included).                 *)
EXTENDS BigNat, Json, TLC
CONSTANTS Big
VARIABLES c, phase

P(k) == Pow2(k)
Around(x) == { Sub(x, <<2>>), Sub(x, <<1>>), x, Add(x, <<1>>), Add(x, <<2>>) }
Ks == IF Big THEN {31, 32, 33, 63, 64, 65, 96, 127, 128, 129, 192, 255, 256, 257} ELSE {32, 63, 64, 65, 128, 256}
Mags == UNION { Around(P(k)) : k \in Ks } \cup { <<>>, <<1>>, <<2>>, <<9999>>, <<0, 1>>, FromDec(<<49,50,51,52,53,54,55,56,57,48,49,50,51,52,53,54,55,56,57,48,49,50,51,52,53,54,55,56,57,48,49,50,51,52,53,54,55,56,57,48>>) }
SmallMags == { <<>>, <<1>>, <<2>>, <<7>>, <<0, 1>>, P(32), Sub(P(32), <<1>>), Add(P(32), <<1>>), P(64), Sub(P(64), <<1>>), P(33), FromDec(<<57,57,57,57,57,57,57,57,57,57,57,57,57,57,57,57,57,57,57,57>>) }
Signed(M) == { <<0, ToDec(m)>> : m \in M } \cup { <<1, ToDec(m)>> : m \in (M \ {<<>>}) }
Ops == {"add", "sub", "mul", "div", "mod", "cmp"}
Arith == { [e |-> "arith", op |-> op, a |-> a, b |-> b, k |-> 0] : op \in Ops, a \in Signed(Mags), b \in Signed(SmallMags) } \cup
         { [e |-> "arith", op |-> op, a |-> a, b |-> b, k |-> 0] : op \in {"mul", "div", "mod", "add"}, a \in Signed({P(128), Sub(P(128), <<1>>), Add(P(96), <<1>>)}), b \in Signed({P(64), Sub(P(64), <<1>>), Add(P(65), <<1>>), Sub(P(96), <<1>>)}) }
Shifts == { [e |-> "arith", op |-> op, a |-> <<0, ToDec(m)>>, b |-> <<0, <<48>>>>, k |-> k] : op \in {"shl", "shr"}, m \in Mags, k \in {0, 1, 31, 32, 33, 63, 64, 65, 100} }
Convs == { [e |-> "conv", a |-> a] : a \in Signed(Mags) }
\* integer literals around the native boundaries (class prediction: JsonText!NumClass, checked in Trace_C04)
Lits == { [e |-> "lit", text |-> (IF s = 1 THEN <<45>> ELSE <<>>) \o ToDec(m)] : s \in {0, 1}, m \in UNION { Around(P(k)) : k \in {31, 32, 53, 63, 64} } \cup {<<>>, <<1>>} }
\* decimal -> double: integers N in [2^52, 2^65] written as "N.0", "Ne0" and "N0e-1"; includes exact midpoints (2^53 + 1, 2^54 + 2, 2^54 + 6, ...)
RoundInts == UNION { Around(P(k)) : k \in {52, 53, 54, 55, 60, 63, 64} } \cup { Add(P(53), <<d>>) : d \in 0..9 } \cup { Add(P(54), <<d>>) : d \in 0..13 }
             \cup { Add(P(63), <<1024 + d>>) : d \in {0, 1, 1023} } \cup { Add(P(64), MulSmall(<<1>>, 2048)), Add(P(64), <<2049>>), Add(P(64), <<2047>>), Add(P(64), <<6144>>) }
             \cup { PowSmall(10, k) : k \in {15, 16, 17, 18, 19, 20, 21, 22} }
Rounds == { [e |-> "round", n |-> ToDec(m)] : m \in RoundInts }
\* binary64 boundary family: every biased exponent field 0..2046 (subnormals .. the largest binade) x significand fields at the edges
\* of the binade (0 = an exact power of two, whose lower neighbour is only half as far away as the upper one; 1; 2; all ones;
\* all ones - 1) and at its middle, x both signs.  The 52-bit field is given as two 26-bit halves (TLC integers are 32 bit).
H26 == 67108863
ManPatterns == {<<0, 0>>, <<0, 1>>, <<0, 2>>, <<H26, H26>>, <<H26, H26 - 1>>, <<33554432, 0>>, <<33554432, 1>>, <<33554431, H26>>}
ExpFields == 0..2046
DblBounds == { [e |-> "dblb", sign |-> sg, exp |-> ex, hi |-> m[1], lo |-> m[2]] : sg \in {0, 1}, ex \in ExpFields, m \in ManPatterns }
All == Arith \cup Shifts \cup Convs \cup Lits \cup Rounds \cup DblBounds
Init == phase = 0 /\ c = [e |-> "none"]
Next == phase = 0 /\ phase' = 1 /\ c' \in All
Emit == phase = 1 => PrintT(ToJson(c))
=============================================================================
