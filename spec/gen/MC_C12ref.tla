------------------------------ MODULE MC_C12ref ------------------------------
(* Validation of spec/JsonPath.tla against jsoncons' own JSONPath reference  *)
(* data (DESIGN 1.2: every document-shaped module is validated against an    *)
(* authoritative corpus before it is trusted as an oracle).                  *)
(* spec/validation/C12_ref.ndjson holds the cases of                         *)
(* /repo/test/jsonpath/input/test_data/*.json that use only constructs the   *)
(* specification covers (converted by spec/validation/c12_refdata.py: the    *)
(* expression text is parsed to the abstract syntax, nothing is evaluated).  *)
(* For every case the spec's evaluator must give the documented result       *)
(* values and normalized paths, as lists (the data was recorded with sorted  *)
(* object members, which is the canonical member order of JsonPath!Kids).    *)
(* A disagreement is a spec bug: the check reports an infrastructure error.  *)
(* Functions family: cases with function calls / arithmetic in filters, and  *)
(* cases whose whole expression is a function call (kind "top": fe + segs,   *)
(* evaluated with JsonPath!TopEval, values only) are part of the corpus;     *)
(* non-integer numbers arrive as normalised rationals <<"rat", n, d>>.       *)
EXTENDS JsonPath, Json, IOUtils, TLC
VARIABLE l
Ref == ndJsonDeserialize(IOEnv.C12REF)

RECURSIVE FromWire(_)
FromWire(w) == CASE w[1] = "arr" -> JArr([i \in 1..Len(w[2]) |-> FromWire(w[2][i])])
               [] w[1] = "obj" -> JObj([k \in {w[2][i][1] : i \in 1..Len(w[2])} |->
                                         FromWire(w[2][CHOOSE i \in 1..Len(w[2]) : w[2][i][1] = k][2])])
               [] OTHER -> w

Init == l = 0
Next == l = 0 /\ l' \in 1..Len(Ref)

GotTop(c) == LET doc == FromWire(c.doc)
                 t == TopEval(c.fe, c.segs, doc)
             IN [dc |-> t.dc, vals |-> t.vals, paths |-> <<>>]
GotPath(c) == LET doc == FromWire(c.doc)
              raw == EvalRaw(c.segs, doc)
              ns == NodesOf(raw)
              i0 == IF c.nodups THEN NoDupIdx(ns) ELSE AllIdx(ns)
              ix == IF c.sort THEN SortIdx(ns, i0) ELSE i0
          IN [dc |-> Unconstrained(raw),
              vals |-> [i \in 1..Len(ix) |-> NVal(ns[ix[i]])],
              paths |-> [i \in 1..Len(ix) |-> NormPath(NPath(ns[ix[i]]))]]
Got(c) == IF c.kind = "top" THEN GotTop(c) ELSE GotPath(c)
Agrees(c) == LET g == Got(c) IN
  \/ g.dc
  \/ /\ c.hasv => (Len(g.vals) = Len(c.want) /\ \A i \in 1..Len(c.want) : JEq(g.vals[i], FromWire(c.want[i])))
     /\ c.hasp => (Len(g.paths) = Len(c.paths) /\ \A i \in 1..Len(c.paths) : g.paths[i] = c.paths[i])
RefAgrees == l > 0 => (Agrees(Ref[l]) \/ (PrintT(<<"REF-MISMATCH", l, Ref[l].src, Got(Ref[l])>>) /\ FALSE))
\* how much of the corpus is decided (not don't-care): printed once per case for the evidence
Decided == l > 0 => (Got(Ref[l]).dc => PrintT(<<"REF-DONTCARE", Ref[l].src>>))
=============================================================================
