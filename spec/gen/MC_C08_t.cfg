INIT Init
NEXT Next
INVARIANT Emit
CHECK_DEADLOCK FALSE
CONSTANTS
  MaxEv = 7
  Lens = {0, 1, 2, 3}
