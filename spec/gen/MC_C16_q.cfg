INIT Init
NEXT Next
INVARIANT Emit
CHECK_DEADLOCK FALSE
CONSTANTS
  Depth2 = FALSE
  NonAscii = FALSE
