------------------------------ MODULE MC_C19 ------------------------------
(* C19 generator: scenario x input.  The fault sequences are "the n-th      *)
(* allocation of the operation fails" for EVERY n in 1..N, where N is the   *)
(* number of allocations the operation makes without a fault (measured by   *)
(* the harness in a dry run of the same window); the harness forks one      *)
(* execution per (scenario, input, n) and records the AllocLedger events.   *)
EXTENDS Naturals, Sequences, Json, TLC, C19Inputs
VARIABLES c, phase
DocNames == DOMAIN Docs
Kinds == {"sstr", "lstr", "bstr", "bstr2", "arr", "obj", "num", "tagged"}
Scenarios == {"parse", "parse-assign", "copy", "copy-assign", "move-assign", "push_back", "insert_or_assign", "erase-insert", "merge", "dump", "dump-pretty",
              "cbor-roundtrip", "msgpack-roundtrip", "ubjson-roundtrip", "bson-roundtrip", "jsonpath", "jmespath", "pointer-add", "flatten", "compare",
              "stateful-parse", "stateful-copy", "stateful-assign", "stateful-insert",
              "merge-rvalue", "ojson-ops", "mergepatch", "diffs", "jsonpath-replace", "csv-roundtrip", "toon-roundtrip", "typed", "cursor", "sort-erase", "stateful-o-parse", "stateful-o-copy", "stateful-o-assign", "stateful-o-insert"}
Cases == { [scn |-> s, doc |-> d, text |-> Docs[d]] : s \in Scenarios, d \in DocNames } \cup
         { [scn |-> "patch", doc |-> p, text |-> Docs["small"], patch |-> Patches[p]] : p \in DOMAIN Patches } \cup
         { [scn |-> "schema", doc |-> "small", text |-> Docs["small"]] } \cup
         { [scn |-> s, doc |-> "small", text |-> Docs["small"]] : s \in {"stateful-w-copy", "stateful-w-assign", "stateful-w-insert"} } \cup     \* wide characters on a size-checking allocator
         \* copy / move assignment over an existing value, for every (existing kind, assigned kind) pair
         { [scn |-> "assign-kind", doc |-> k1 \o "<-" \o k2, text |-> Docs["small"]] : k1 \in Kinds, k2 \in Kinds }
Init == phase = 0 /\ c = [scn |-> "none"]
Next == phase = 0 /\ phase' = 1 /\ c' \in Cases
Emit == phase = 1 => PrintT(ToJson(c))
=============================================================================
