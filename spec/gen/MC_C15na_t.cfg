INIT Init
NEXT Next
INVARIANTS Emit
CHECK_DEADLOCK FALSE
CONSTANTS
  MaxOps = 2
  Big = TRUE
  CheckImpl = FALSE
  NonAscii = TRUE
