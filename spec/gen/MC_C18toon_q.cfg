INIT Init
NEXT Next
INVARIANTS Emit Law
CHECK_DEADLOCK FALSE
CONSTANTS
  Indents = {2}
  ToonDelims = {"comma", "tab", "pipe"}
  Markers = {0}
  Deep = TRUE
