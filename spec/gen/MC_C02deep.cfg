INIT Init
NEXT Next
INVARIANT Emit
CHECK_DEADLOCK FALSE
CONSTANTS
  MaxTok = 10
  Small = TRUE
  Members = FALSE
