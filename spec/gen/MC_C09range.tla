---------------------------- MODULE MC_C09range ----------------------------
(* C09 generator (c): range insertion of MANY pairs with repeated keys into  *)
(* an object that already has some of them.  The model is Container!RangeInto *)
(* - a key already present (in the object or earlier in the range) is        *)
(* skipped, first wins - whatever the number of pairs; the small universe of *)
(* MC_C09 only reaches ranges of three.  24 pairs over 12 keys, each key     *)
(* twice, in four interleavings, into objects holding none / one / two /     *)
(* all of the keys.                                                          *)
EXTENDS Container, Json
VARIABLES phase
K(d) == <<97 + d>>
RangeKeys(m) == [j \in 1..24 |-> K((j * m) % 12)]                \* m coprime with 12: every key twice, 12 positions apart
RECURSIVE Members(_, _)
Members(ds, ps) == IF ds = <<>> THEN ps ELSE Members(Tail(ds), InsertMember(ps, K(Head(ds)), <<"str", <<120, 48 + Head(ds)>>>>))
Existing == { <<>>, <<3>>, <<11, 0>>, <<5, 6, 7>>, <<0, 1, 2, 3, 4, 5, 6, 7, 8, 9, 10, 11>>, <<11, 10, 9, 8, 7, 6, 5, 4, 3, 2, 1, 0>> }
RInit == slot = [i \in Slots |-> <<"null">>] /\ hist = <<>> /\ phase = 0
RNext == /\ phase = 0 /\ phase' = 1
         /\ \E e \in Existing, m \in {1, 5, 7, 11} :
              LET ex == <<"obj", Members(e, <<>>)>>  ks == RangeKeys(m) IN
              /\ hist' = << <<"assign", 1, ex>>, <<"insert_range", 1, ks>> >>
              /\ slot' = [slot EXCEPT ![1] = <<"obj", RangeInto(ex[2], ks, 1)>>]
REmit == phase = 1 => PrintT(ToJson([h |-> hist, s |-> slot]))
=============================================================================
