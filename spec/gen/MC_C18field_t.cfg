INIT Init
NEXT Next
INVARIANTS Emit Law Necessity
CHECK_DEADLOCK FALSE
CONSTANTS
  Family = "field"
  Delims = {44, 59, 9, 124}
  QEs = {"dd", "db", "ss", "sb", "sd"}
  Lds = {"lf", "crlf", "cr"}
  Big = TRUE
