INIT Init
NEXT Next
INVARIANTS Emit Law Necessity
CHECK_DEADLOCK FALSE
CONSTANTS
  Family = "grid"
  Delims = {44, 59}
  QEs = {"dd", "db", "sd"}
  Lds = {"lf", "crlf"}
  Big = TRUE
