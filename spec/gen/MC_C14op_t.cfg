INIT Init
NEXT Next
INVARIANTS Emit RoundTrip TokRoundTrip
CHECK_DEADLOCK FALSE
CONSTANTS
  Mode = "op"
  MaxLen = 5
  PAlpha = {47, 126, 48, 49, 97, 45, 233}
  MaxToks = 3
  Big = TRUE
