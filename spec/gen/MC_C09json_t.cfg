INIT Init
NEXT Next
VIEW View
CONSTRAINT Bound
ACTION_CONSTRAINT EmitEdge
INVARIANT ModelInv
CHECK_DEADLOCK FALSE
CONSTANTS
  Ordered = FALSE
  NSlots = 3
  Keys <- MCKeys
  Lits <- MCLits
  MaxSize = 3
  MaxDepth = 2
  MaxHist = 5
