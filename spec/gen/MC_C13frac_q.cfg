INIT Init
NEXT Next
VIEW View
INVARIANTS Emit Identities
CHECK_DEADLOCK FALSE
CONSTANTS
  Mode = "frac"
  MaxDepth = 1
  W1 = "core"
  W2 = "core"
  W3 = "core"
  SlRange = 2
  EmitAst = TRUE
  KnownDeviations = {"filter-on-non-array", "merge-no-override", "operator-before-pipe", "pipe-into-literal", "argument-context-leak", "projection-skips-null", "sort-singleton", "null-vs-reference-equality", "parenthesised-operand", "multiselect-leading-star", "by-key-error-ignored", "to_number-non-json-number"}
