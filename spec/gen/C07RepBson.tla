---------------------------- MODULE C07RepBson ----------------------------
(* STUB - length-boundary inputs of Bson (see C07RepCbor.tla). *)
BsonRepInputs == { <<0>> }
=============================================================================
