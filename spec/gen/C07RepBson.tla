---------------------------- MODULE C07RepBson ----------------------------
(* Complete BSON inputs for MC_C07 in TokMode "rep".                        *)
(*  (1) length boundaries: every length-carrying form of BSON (all are      *)
(*      little-endian int32: string size, binary size, document size,       *)
(*      array document size) at the byte boundaries of the size field       *)
(*      (0, 1, 2, 127/128, 255/256/257, 300) with exactly / one fewer /    *)
(*      one more payload bytes or elements than declared; documents with    *)
(*      DISTINCT keys; arrays with the keys "0", "1", ... (digit-count      *)
(*      boundaries 9/10/11, 99/100/101), a skipped key, a repeated key;     *)
(*      total document sizes 255/256/257, top-level and nested;             *)
(*  (2) every type code 0..255 x six payload shapes, in a document and in   *)
(*      an array;                                                           *)
(*  (3) every strict prefix of every sample document of C07TokBson;         *)
(*  (4) single-byte mutations of every sample document at every position    *)
(*      (0, 255, +1, top bit flipped).                               *)
(*  (5) the authoritative corpus BsonCorpusDocs (bsonspec.org examples,     *)
(*      jsoncons' documented examples, libbson's test documents).          *)
(* Every input is below 700 bytes.                                          *)
EXTENDS Naturals, Sequences
LOCAL INSTANCE C07TokBson
LOCAL Rep(x, n) == [i \in 1..n |-> x]
LOCAL LE4(n) == <<n % 256, (n \div 256) % 256, (n \div 65536) % 256, 0>>
LOCAL Adj(n) == {n} \cup (IF n > 0 THEN {n - 1} ELSE {}) \cup {n + 1}
LOCAL Counts == {0, 1, 2, 127, 128, 255, 256, 257, 300}
\* a document whose body (the e_list) is given, with the size field off by delta (a natural number added to sz - sub)
LOCAL DocOf(body, add, sub) == LE4(4 + Len(body) + 1 + add - sub) \o body \o <<0>>
LOCAL Doc0(body) == DocOf(body, 0, 0)

\* {"a": string} : declared n content bytes (+1), actual k
LOCAL StrDoc(n, k) == Doc0(<<2, 97, 0>> \o LE4(n + 1) \o Rep(97, k) \o <<0>>)
\* {"a": binary subtype 0} : declared n, actual k
LOCAL BinBody(n, k) == <<5, 97, 0>> \o LE4(n) \o <<0>> \o Rep(255, k)
LOCAL BinDoc(n, k) == Doc0(BinBody(n, k))
\* {"a": {"a": binary}} : nested document sizes
LOCAL NestDoc(n, k) == Doc0(<<3, 97, 0>> \o Doc0(BinBody(n, k)))
\* distinct two-character keys
LOCAL Key(i) == <<64 + (i \div 60), 64 + (i % 60)>>
LOCAL NullBody(n) == IF n = 0 THEN <<>> ELSE [i \in 1..(n * 4) |-> LET p == (i - 1) \div 4  q == (i - 1) % 4 IN
                                                 IF q = 0 THEN 10 ELSE IF q = 3 THEN 0 ELSE Key(p)[q]]
\* document of k null members, size field computed for n members
LOCAL MapDoc(n, k) == LE4(4 + (4 * n) + 1) \o NullBody(k) \o <<0>>
\* array body with the keys "0" .. "n-1" (real tuples)
RECURSIVE DecStr(_), ArrBody(_)
LOCAL DecStr(k) == IF k < 10 THEN <<48 + k>> ELSE Append(DecStr(k \div 10), 48 + (k % 10))
LOCAL ArrBody(n) == IF n = 0 THEN <<>> ELSE ArrBody(n - 1) \o <<10>> \o DecStr(n - 1) \o <<0>>
LOCAL ArrEl(k) == <<10>> \o DecStr(k) \o <<0>>
\* {"a": [null x k]} with the array's size field computed for n elements
LOCAL ArrDoc(n, k) == Doc0(<<4, 97, 0>> \o LE4(4 + Len(ArrBody(n)) + 1) \o ArrBody(k) \o <<0>>)
LOCAL ArrCounts == {0, 1, 2, 9, 10, 11, 99, 100, 101}

LOCAL Payloads == { <<>>, <<0>>, <<1, 0, 0, 0, 0>>, Rep(0, 8), Rep(0, 12), Rep(0, 16) }
LOCAL Subst(d, k, x) == [j \in 1..Len(d) |-> IF j = k THEN x ELSE d[j]]

BsonRepInputs ==
  UNION { { StrDoc(n, k) : k \in Adj(n) } : n \in Counts } \cup
  UNION { { BinDoc(n, k) : k \in Adj(n) } : n \in Counts \cup {241, 242, 243, 244, 245} } \cup                 \* 242 -> total size 255
  UNION { { NestDoc(n, k) : k \in Adj(n) } : n \in {0, 233, 234, 235, 236, 237, 238, 239, 240, 241, 242} } \cup  \* inner 255 at 242, outer 255 at 234
  UNION { { MapDoc(n, k) : k \in Adj(n) } : n \in {0, 1, 2, 15, 16, 62, 63, 64, 100} } \cup                       \* 62 -> total size 253, 63 -> 257
  { Doc0(NullBody(62) \o f) : f \in { <<10, 0>>, <<10, 33, 0>>, <<8, 0, 1>> } } \cup                              \* total sizes 255, 256, 256
  { Doc0(<<3, 97, 0>> \o Doc0(NullBody(n) \o f) \o <<10, 33, 0>>) : n \in {61, 62}, f \in { <<10, 0>>, <<10, 33, 0>> } } \cup   \* the same, nested, then one more member
  UNION { { ArrDoc(n, k) : k \in Adj(n) } : n \in ArrCounts } \cup
  { Doc0(<<4, 97, 0>> \o Doc0(ArrBody(n) \o ArrEl(n + 1))) : n \in ArrCounts } \cup                           \* a skipped key
  { Doc0(<<4, 97, 0>> \o Doc0(ArrBody(n + 1) \o ArrEl(n))) : n \in ArrCounts } \cup                           \* a repeated key
  { Doc0(<<4, 97, 0>> \o Doc0(ArrEl(1) \o ArrEl(0))) } \cup                                                    \* keys out of order
  { DocOf(NullBody(n), d, 0) : n \in {0, 1, 63}, d \in {1, 2, 251, 256} } \cup                                \* size field too large
  { DocOf(NullBody(n), 0, d) : n \in {1, 63}, d \in {1, 2, 4} } \cup                                          \* size field too small
  { Doc0(<<t, 97, 0>> \o p) : t \in 0..255, p \in Payloads } \cup
  { Doc0(<<4, 97, 0>> \o Doc0(<<t, 48, 0>> \o p)) : t \in 0..255, p \in Payloads } \cup
  BsonCorpusDocs \cup
  UNION { { SubSeq(d, 1, k) : k \in 1..(Len(d) - 1) } : d \in BsonSampleDocs } \cup
  UNION { UNION { { Subst(d, k, x) : x \in {0, 255, (d[k] + 1) % 256, (d[k] + 128) % 256} } : k \in 1..Len(d) } : d \in BsonSampleDocs }
=============================================================================
