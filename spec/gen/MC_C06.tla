------------------------------ MODULE MC_C06 ------------------------------
(* C06 generator: values of the binary data model at every width / length   *)
(* boundary.  The harness builds each value in jsoncons, encodes it with    *)
(* every format (and option set) and decodes the bytes again; the recorded  *)
(* (value, bytes, decoded) triple is validated by Trace_C06 with the        *)
(* format's independent reference decoder.                                  *)
EXTENDS Naturals, Sequences, FiniteSets, Json, TLC
CONSTANTS Big
VARIABLES v, depth

Rep(x, n) == [i \in 1..n |-> x]
UInts == { <<>>, <<1>>, <<23>>, <<24>>, <<127>>, <<128>>, <<255>>, <<1,0>>, <<127,255>>, <<128,0>>, <<255,255>>, <<1,0,0>>, <<127,255,255,255>>, <<128,0,0,0>>,
           <<255,255,255,255>>, <<1,0,0,0,0>>, <<127,255,255,255,255,255,255,255>>, <<128,0,0,0,0,0,0,0>>, <<255,255,255,255,255,255,255,255>> }
NInts == { <<>>, <<23>>, <<24>>, <<31>>, <<32>>, <<127>>, <<128>>, <<255>>, <<1,0>>, <<127,255>>, <<128,0>>, <<255,255>>, <<1,0,0>>, <<127,255,255,255>>, <<128,0,0,0>>,
           <<255,255,255,255>>, <<1,0,0,0,0>>, <<127,255,255,255,255,255,255,255>> }
F64s == { <<0,0,0,0,0,0,0,0>>, <<128,0,0,0,0,0,0,0>>, <<63,240,0,0,0,0,0,0>>, <<63,248,0,0,0,0,0,0>>, <<191,240,0,0,0,0,0,0>>,
          <<63,240,4,0,0,0,0,0>>,       \* 1 + 2^-10 : exact in half
          <<63,240,0,0,32,0,0,0>>,      \* 1 + 2^-23 : exact in float, not half
          <<63,240,0,0,16,0,0,0>>,      \* 1 + 2^-24 : needs double
          <<64,239,252,0,0,0,0,0>>,     \* 65504 = half max
          <<64,240,0,0,0,0,0,0>>,       \* 65536 : float, not half
          <<63,16,0,0,0,0,0,0>>,        \* 2^-14 half min normal
          <<62,112,0,0,0,0,0,0>>,       \* 2^-24 half min subnormal
          <<71,239,255,255,224,0,0,0>>, \* FLT_MAX
          <<54,160,0,0,0,0,0,0>>,       \* 2^-149 float min subnormal
          <<127,239,255,255,255,255,255,255>>, <<0,0,0,0,0,0,0,1>>, <<0,16,0,0,0,0,0,0>>,
          <<127,240,0,0,0,0,0,0>>, <<255,240,0,0,0,0,0,0>>, <<127,248,0,0,0,0,0,0>>,
          <<64,9,33,251,84,68,45,24>>, <<67,64,0,0,0,0,0,1>> }
Lens == IF Big THEN {0, 1, 15, 16, 23, 24, 31, 32, 255, 256, 257} ELSE {0, 1, 23, 24, 31, 32, 255, 256}
\* (lengths of 2^15 and more are beyond what the TLC trace validation handles in reasonable time: see DESIGN)
Strs == { <<"tstr", Rep(97, n)>> : n \in Lens } \cup { <<"tstr", <<195,169>>>>, <<"tstr", <<226,130,172,97>>>>, <<"tstr", <<240,159,152,128>>>>, <<"tstr", <<0>>>>, <<"tstr", <<34,92,47,127>>>> }
BStrs == { <<"bstr", Rep(255, n)>> : n \in Lens } \cup { <<"bstr", <<0,1,2>>>> }
Scalars == { <<"uint", u>> : u \in UInts } \cup { <<"nint", n>> : n \in NInts } \cup { <<"f64", f>> : f \in F64s }
            \cup Strs \cup BStrs \cup { <<"bool", TRUE>>, <<"bool", FALSE>>, <<"null">> }
Key(i) == <<"tstr", <<107, 64 + (i \div 60), 64 + (i % 60)>>>>
Small == { <<"uint", <<>>>>, <<"nint", <<>>>>, <<"tstr", <<97>>>>, <<"bool", TRUE>>, <<"null">>, <<"f64", <<63,248,0,0,0,0,0,0>>>>, <<"bstr", <<1>>>>, <<"arr", <<>>>>, <<"map", <<>>>> }
CLens == IF Big THEN {0, 1, 15, 16, 23, 24, 255, 256} ELSE {0, 1, 15, 16, 23, 24}
Arrs(E) == { <<"arr", Rep(e, n)>> : e \in E, n \in CLens } \cup { <<"arr", <<a, b>>>> : a \in E, b \in E }
Maps(E) == { <<"map", [i \in 1..n |-> <<Key(i), e>>]>> : e \in E, n \in CLens } \cup { <<"map", <<<<Key(1), a>>, <<Key(2), b>>>>>> : a \in E, b \in E }
             \cup { <<"map", << <<<<"tstr", <<>>>>, a>> >>>> : a \in E }
Level1 == Arrs(Small) \cup Maps(Small)
Nested == { <<"arr", <<x>>>> : x \in {y \in Level1 : Len(y[2]) <= 2} } \cup { <<"map", <<<<Key(1), x>>>>>> : x \in {y \in Level1 : Len(y[2]) <= 2} }

\* string-reference family (CBOR pack_strings): tables crossing the 24-entry threshold, text and byte strings sharing
\* one index space, strings of exactly the minimum length before and after the threshold, repeated occurrences
T3(i) == <<"tstr", <<115, 64 + (i \div 60), 64 + (i % 60)>>>>
T4(i) == <<"tstr", <<115, 116, 64 + (i \div 60), 64 + (i % 60)>>>>
B3(i) == <<"bstr", <<1, i \div 60, i % 60>>>>
Fill(n, nb) == [i \in 1..n |-> IF i <= nb THEN B3(i) ELSE T3(i)]
RefFam == { <<"arr", Fill(n, nb) \o <<T3(900), T4(901), T3(900), T4(901), T3(1), T3(n), <<"tstr", <<97, 98>>>>, <<"tstr", <<97, 98>>>> >> >>
              : n \in {1, 2, 22, 23, 24, 25}, nb \in {0, 1, 12} } \cup
          { <<"map", [i \in 1..n |-> <<T3(i), T3(i)>>]>> : n \in {1, 23, 24, 25} } \cup
          { <<"arr", << <<"arr", Fill(3, 1)>>, <<"arr", Fill(3, 1)>>, <<"map", <<<<T3(2), T3(3)>>>>>> >> >> }

\* every scalar also as the only member of an object and the only element of an array (BSON is rooted in an object)
Wrapped == { <<"map", << <<Key(1), x>> >>>> : x \in Scalars } \cup { <<"arr", <<x>>>> : x \in Scalars }
           \cup { <<"map", << <<Key(1), <<"arr", <<x, x>>>>>> >>>> : x \in Scalars }

Init == v = <<"null">> /\ depth = 0
Next == depth = 0 /\ depth' = 1 /\ v' \in Scalars \cup Level1 \cup Nested \cup RefFam \cup Wrapped
Emit == depth = 1 => PrintT(ToJson([v |-> v]))
=============================================================================
