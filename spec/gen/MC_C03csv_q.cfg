INIT Init
NEXT Next
INVARIANT Emit
CHECK_DEADLOCK FALSE
CONSTANTS
  MaxLen = 6
  Alphabet = {97, 49, 44, 34, 10, 13, 32}
