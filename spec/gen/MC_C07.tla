------------------------------ MODULE MC_C07 ------------------------------
(* C07 generator: byte strings, built one byte at a time (BFS, so every      *)
(* strict prefix of every input is an input too), with the verdict and the  *)
(* value predicted by the format's reference decoder.  Bytes 1..ExhLen      *)
(* range over all 256 values, later bytes over the representative set Reps  *)
(* (one per head class / payload class of the format).                      *)
EXTENDS Naturals, Sequences, Json, TLC, C07Tokens, C07TokMsgpack, C07TokUbjson, C07TokBson, C07RepCbor, C07RepMsgpack, C07RepUbjson, C07RepBson
CONSTANTS Format, MaxLen, ExhLen, Reps, OnlyAccepted,
          TokMode      \* "bytes": one byte per step; "tok": one head/payload token per step (ExhLen steps over the full token set, then the small set)
VARIABLES bs, n
C == INSTANCE Cbor
M == INSTANCE Msgpack
U == INSTANCE Ubjson
B == INSTANCE Bson

Dec(b) == CASE Format = "cbor" -> C!Decode(b) [] Format = "msgpack" -> M!Decode(b) [] Format = "ubjson" -> U!Decode(b) [] Format = "bson" -> B!Decode(b)
Plain(v) == CASE Format = "cbor" -> C!Plain(v) [] Format = "msgpack" -> M!Plain(v) [] Format = "ubjson" -> U!Plain(v) [] Format = "bson" -> B!Plain(v)
\* well-formed, but a decoder may refuse it
Loose(v) == CASE Format = "cbor" -> C!HasSimple(v) [] Format = "msgpack" -> M!MayRefuse(v) [] Format = "ubjson" -> U!MayRefuse(v) [] Format = "bson" -> B!MayRefuse(v)

AllToks == CASE Format = "cbor" -> CborTokens [] Format = "msgpack" -> MsgpackTokens [] Format = "ubjson" -> UbjsonTokens [] Format = "bson" -> BsonTokens
SmallToks == CASE Format = "cbor" -> CborSmallTokens [] Format = "msgpack" -> MsgpackSmallTokens [] Format = "ubjson" -> UbjsonSmallTokens [] Format = "bson" -> BsonSmallTokens
\* TokMode "tagsib" (CBOR): [ tag(item), sibling ] - a tag applies to exactly one data item (RFC 8949 3.4): whatever the tagged item is
\* (simple values, floats of every width, integers, strings, empty containers) the item after it must get its own untagged image
TagHeads == { <<192>>, <<193>>, <<194>>, <<195>>, <<196>>, <<197>>, <<198>>, <<213>>, <<214>>, <<215>>, <<216, 32>>, <<216, 33>>, <<216, 64>>, <<216, 25>>, <<217, 1, 0>>, <<216, 100>> }
TagContents == { <<244>>, <<245>>, <<246>>, <<247>>, <<249, 60, 0>>, <<250, 63, 128, 0, 0>>, <<251, 63, 240, 0, 0, 0, 0, 0, 0>>, <<1>>, <<32>>, <<65, 0>>, <<97, 97>>, <<128>>, <<160>>, <<130, 1, 2>> }
TagSiblings == { <<66, 1, 0>>, <<130, 1, 2>>, <<10>>, <<97, 97>>, <<249, 60, 0>>, <<246>>, <<33>>, <<161, 97, 97, 1>> }
TagSibInputs == { <<130>> \o t \o x \o y : t \in TagHeads, x \in TagContents, y \in TagSiblings }
                \cup { <<159>> \o t \o x \o y \o <<255>> : t \in TagHeads, x \in TagContents, y \in TagSiblings }
                \cup { <<161, 97, 97>> \o t \o x : t \in TagHeads, x \in TagContents } \cup { <<162, 97, 97>> \o t \o x \o <<97, 98>> \o y : t \in TagHeads, x \in TagContents, y \in TagSiblings }
\* TokMode "sref" (CBOR): string references across nested namespaces (tags 256 / 25, cbor.schmorp.de/stringref): an inner namespace around a
\* definite or indefinite container has its own table, and when it closes the references of the enclosing namespace count on from where they were
SA == <<99, 97, 97, 97>>  SB == <<99, 98, 98, 98>>  SC == <<99, 99, 99, 99>>  SD == <<99, 100, 100, 100>>      \* "aaa" "bbb" "ccc" "ddd"
Ref(i) == <<216, 25, i>>
NS == <<217, 1, 0>>
Inners == { <<191>> \o SB \o SC \o <<255>>, <<161>> \o SB \o SC, <<191>> \o SB \o Ref(0) \o <<255>>, <<161>> \o SB \o Ref(0), <<191, 255>>, <<160>>,
            <<159>> \o SB \o Ref(0) \o <<255>>, <<130>> \o SB \o Ref(0), <<159, 255>>, <<128>>, <<162>> \o SB \o SC \o SC \o Ref(1), <<191>> \o SB \o SC \o SC \o Ref(0) \o <<255>> }
Tails == { Ref(0), SD \o Ref(1), SD \o Ref(0), Ref(0) \o SD \o Ref(1) }
ItemsOf(t) == IF t = Ref(0) THEN 1 ELSE IF t = Ref(0) \o SD \o Ref(1) THEN 3 ELSE 2
SrefInputs == { NS \o <<128 + 2 + ItemsOf(t)>> \o SA \o NS \o inn \o t : inn \in Inners, t \in Tails }
              \cup { NS \o <<159>> \o SA \o NS \o inn \o t \o <<255>> : inn \in Inners, t \in Tails }
              \cup { NS \o <<128 + 2 + ItemsOf(t)>> \o SA \o inn \o t : inn \in Inners, t \in {Ref(0)} }                 \* (no inner namespace: one table)
Init == bs = <<>> /\ n = 0
Next == /\ n < MaxLen /\ n' = n + 1
        /\ IF TokMode = "sref" THEN (n = 0 /\ bs' \in SrefInputs)
           ELSE IF TokMode = "tagsib" THEN (n = 0 /\ bs' \in TagSibInputs)
           ELSE IF TokMode = "rep" THEN (n = 0 /\ bs' \in (CASE Format = "cbor" -> CborRepInputs [] Format = "msgpack" -> MsgpackRepInputs
                                                       [] Format = "ubjson" -> UbjsonRepInputs [] Format = "bson" -> BsonRepInputs))
           ELSE IF TokMode = "tok" THEN \E t \in (IF n < ExhLen THEN AllToks ELSE SmallToks) : bs' = bs \o t
           ELSE \E x \in (IF n < ExhLen THEN 0..255 ELSE Reps) : bs' = Append(bs, x)

R == Dec(bs)
Ok == R[1] = "ok"
HasTag(v) == FALSE
RECURSIVE Tagged(_)
Tagged(v) == CASE v[1] = "tag" -> TRUE
               [] v[1] = "arr" -> \E k \in 1..Len(v[2]) : Tagged(v[2][k])
               [] v[1] = "map" -> \E k \in 1..Len(v[2]) : Tagged(v[2][k][1]) \/ Tagged(v[2][k][2])
               [] OTHER -> FALSE
\* vd: verdict is compared; pv: value is compared
Case == [f |-> Format, b |-> bs, ok |-> Ok,
         vd |-> (~Ok \/ (~Tagged(R[2]) /\ ~Loose(R[2]))),
         pv |-> (Ok /\ Plain(IF TokMode = "sref" THEN C!ResolveStringRefs(R[2]) ELSE R[2])),
         v |-> IF Ok THEN (IF Format = "cbor" THEN C!Image(IF TokMode = "sref" THEN C!ResolveStringRefs(R[2]) ELSE R[2]) ELSE R[2]) ELSE <<"none">>,
         used |-> IF Ok THEN R[3] - 1 ELSE 0]
Emit == (bs # <<>> /\ (Ok \/ ~OnlyAccepted)) => PrintT(ToJson(Case))
=============================================================================
