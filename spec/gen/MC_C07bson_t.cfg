INIT Init
NEXT Next
INVARIANT Emit
CHECK_DEADLOCK FALSE
CONSTANTS
  Format = "bson"
  MaxLen = 9
  ExhLen = 0
  Reps = {0, 1, 8, 9, 10}
  OnlyAccepted = FALSE
  TokMode = "bytes"
