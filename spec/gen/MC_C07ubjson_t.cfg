INIT Init
NEXT Next
INVARIANT Emit
CHECK_DEADLOCK FALSE
CONSTANTS
  Format = "ubjson"
  MaxLen = 4
  ExhLen = 1
  Reps = {90, 78, 84, 105, 85, 73, 108, 76, 100, 68, 72, 67, 83, 91, 93, 123, 125, 36, 35, 0, 1, 97, 49, 128, 195, 255}
  OnlyAccepted = FALSE
  TokMode = "bytes"
