INIT Init
NEXT Next
INVARIANT Emit
CHECK_DEADLOCK FALSE
CONSTANTS
  Format = "ubjson"
  MaxLen = 4
  ExhLen = 1
  Reps = {90, 78, 84, 70, 105, 85, 73, 108, 76, 100, 68, 72, 67, 83, 91, 93, 123, 125, 36, 35, 0, 1, 2, 97, 49, 45, 127, 128, 195, 169, 255, 88}
  OnlyAccepted = FALSE
  TokMode = "bytes"
