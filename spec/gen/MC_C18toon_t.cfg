INIT Init
NEXT Next
INVARIANTS Emit Law
CHECK_DEADLOCK FALSE
CONSTANTS
  Indents = {1, 2, 4}
  ToonDelims = {"comma", "tab", "pipe"}
  Markers = {0, 35}
  Deep = TRUE
