INIT Init
NEXT Next
INVARIANTS Emit
CHECK_DEADLOCK FALSE
CONSTANTS
  MaxOps = 3
  Big = FALSE
  CheckImpl = FALSE
  NonAscii = FALSE
