---------------------------- MODULE MC_C02char ----------------------------
(* C02 generator (i): every viable prefix over a character alphabet that   *)
(* has one representative per class the grammar distinguishes; each        *)
(* reachable state is one conformance case carrying the predicted verdict  *)
(* and value.  BFS is prefix-closed: every strict prefix is a case too.    *)
EXTENDS JsonText, Json
CONSTANTS MaxLen, Alphabet
VARIABLES txt, st

Init == txt = <<>> /\ st = Init0
Next == /\ st.m # "dead" /\ Len(txt) < MaxLen
        /\ \E c \in Alphabet : txt' = Append(txt, c) /\ st' = Step(st, c)

Case == [t |-> txt, acc |-> AcceptAtEof(st), uc |-> st.uc, ut |-> st.ut, tc |-> st.tc, dc |-> st.dc,
         dep |-> st.dep, v |-> IF AcceptAtEof(st) THEN ValueOf(ResultAtEof(st)) ELSE <<"none">>]
Emit == PrintT(ToJson(Case))
=============================================================================
