---------------------------- MODULE MC_C02char ----------------------------
(* C02 generator (i): every viable prefix over a character alphabet that   *)
(* has one representative per class the grammar distinguishes; each        *)
(* reachable state is one conformance case carrying the predicted verdict  *)
(* and value.  BFS is prefix-closed: every strict prefix is a case too.    *)
EXTENDS JsonText, Json
CONSTANTS MaxLen, Alphabet
VARIABLES txt, st

Init == txt = <<>> /\ st = Init0
Next == /\ st.m # "dead" /\ Len(txt) < MaxLen
        /\ \E c \in Alphabet : txt' = Append(txt, c) /\ st' = Step(st, c)

RECURSIVE J(_)
J(v) == CASE v[1] = "num" -> <<"num", NumClass(v[2]), v[2]>>
        [] v[1] = "arr" -> <<"arr", [i \in 1..Len(v[2]) |-> J(v[2][i])]>>
        [] v[1] = "obj" -> <<"obj", [i \in 1..Len(v[2]) |-> <<v[2][i][1], J(v[2][i][2])>>]>>
        [] OTHER -> v

Case == [t |-> txt, acc |-> AcceptAtEof(st), uc |-> st.uc, ut |-> st.ut, tc |-> st.tc, dc |-> st.dc,
         dep |-> st.dep, v |-> IF AcceptAtEof(st) THEN J(ResultAtEof(st)) ELSE <<"none">>]
Emit == PrintT(ToJson(Case))
=============================================================================
