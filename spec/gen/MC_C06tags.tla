---------------------------- MODULE MC_C06tags ----------------------------
(* C06 "tags" family generator: semantically tagged values and typed        *)
(* arrays.  Every case is replayed by harness/c06tags.cpp through every      *)
(* format and route; the recorded executions are validated by                *)
(* trace/Trace_C06tags.tla against spec/BinTags.tla.                         *)
(*                                                                           *)
(*   [fam |-> "val", v, dev, dc, out]   v = data model value with            *)
(*        <<"tagged", tag, base>> leaves; dc / out = the formats for which   *)
(*        BinTags!LineClass says "don't care" / "must be refused" (carried   *)
(*        for the reader of a replay file; the trace spec recomputes them);  *)
(*        dev = names of the KNOWN DEVIATION classes the case belongs to     *)
(*        (notes/C06tags.md, SUSPECTED DEFECTS; known_findings.jsonl)        *)
(*   [fam |-> "ta", et, el, dev]        a std::vector<et> of raw elements    *)
(*                                                                           *)
(* Number strings are built from their grammar (sign, digits, fraction,      *)
(* exponent) and from BigNat arithmetic (2^63, 2^64, ... as decimal digits), *)
(* so the boundaries are stated, not typed in.                               *)
EXTENDS BinTags, Json, TLC
CONSTANTS Big
VARIABLES c, depth

Formats == {"cbor", "msgpack", "ubjson", "bson"}
Tg(tag, base) == <<"tagged", tag, base>>
Tx(s) == <<"tstr", s>>
Bx(s) == <<"bstr", s>>
Rep(x, n) == [i \in 1..n |-> x]
Neg(s) == <<45>> \o s
Dec(n) == N!ToDec(n)                             \* decimal digits (code units) of a BigNat
One == <<1>>
Pw(k) == N!Pow2(k)
Minus1(n) == N!Sub(n, One)
Plus1(n) == N!Add(n, One)
RECURSIVE Asc(_, _, _)
Asc(ds, k, acc) == IF k > Len(ds) THEN acc ELSE Asc(ds, k + 1, Append(acc, IF ds[k] < 10 THEN 48 + ds[k] ELSE 87 + ds[k]))   \* digit values -> '0'..'9','a'..'f'
A(ds) == Asc(ds, 1, <<>>)

-----------------------------------------------------------------------------
(* bigint: positive, negative, the 64-bit boundaries +-1, magnitude-length   *)
(* boundaries of the CBOR bignum byte string, long                           *)
Ten32 == N!Mul(N!Mul(<<0, 0, 1>>, <<0, 0, 1>>), N!Mul(<<0, 0, 1>>, <<0, 0, 1>>))        \* (10^8)^4 = 10^32
BigIntMags == { <<>>, One, <<255>>, <<256>>, <<5535, 6>>, <<5536, 6>>, Minus1(Pw(24)), Pw(24), Minus1(Pw(32)), Pw(32),
                Minus1(Pw(63)), Pw(63), Plus1(Pw(63)), Minus1(Pw(64)), Pw(64), Plus1(Pw(64)), Pw(128), Plus1(Ten32),
                \* magnitude byte length on the CBOR length-header boundary: 23 bytes (2^184 - 1; tag 3: -2^184), 24 bytes (2^184 .. 2^192 - 1;
                \* tag 3: -(2^184 + 1) .. -2^192), 25 bytes (2^192; tag 3: -(2^192 + 1))
                Minus1(Pw(184)), Pw(184), Plus1(Pw(184)), Pw(191), Minus1(Pw(192)), Pw(192), Plus1(Pw(192)) }
                \cup (IF Big THEN { Minus1(Pw(56)), Pw(56), N!Mul(Ten32, Plus1(Ten32)) } ELSE {})
BigIntStrs == { Dec(m) : m \in BigIntMags } \cup { Neg(Dec(m)) : m \in BigIntMags \ {<<>>} }
              \cup { Neg(<<48>>), <<48, 48, 55>> }                                                \* "-0", "007" (not JSON number syntax)
BigInts == { Tg("bigint", Tx(s)) : s \in BigIntStrs }
\* 255 / 256 magnitude bytes (one-byte / two-byte length argument of the byte string).  2^2032 < 10^612 and 10^614 < 2^2040 < 10^615 < 2^2048:
\* a number of 613 or 614 digits has 255 bytes, one of 616 digits has 256.  (Written as digit runs: BigNat!Pow2(2040) takes TLC 15 s.)
LongStrs == { <<49>> \o Rep(48, 613), Rep(57, 614), <<49>> \o Rep(48, 615), <<50>> \o Rep(48, 614) \o <<55>> }
LongBigInts == { Tg("bigint", Tx(s)) : s \in LongStrs } \cup { Tg("bigint", Tx(Neg(s))) : s \in LongStrs }

(* bigdec: [-] ip [. fp] [e [+-] digits]  (integer-looking, fraction,        *)
(* negative, exponent forms, mantissa beyond 64 bits, huge exponents)        *)
BD(neg, ip, fp, ex) == (IF neg THEN <<45>> ELSE <<>>) \o ip \o (IF fp = <<>> THEN <<>> ELSE <<46>> \o fp) \o ex
Ex(ch, sign, ds) == <<ch>> \o sign \o ds
IPs == { <<48>>, <<49>>, <<49, 48, 48>>, A(<<1, 2, 3, 4, 5>>), Dec(Pw(63)), Dec(Pw(64)), Dec(Plus1(Ten32)) }
MantBoundary == { Dec(Minus1(Pw(184))), Dec(Pw(184)), Dec(Plus1(Pw(184))), Dec(Minus1(Pw(192))), Dec(Pw(192)), Dec(Plus1(Pw(192))) }      \* 23 / 24 / 25 mantissa bytes
FPs == { <<>>, <<53>>, <<48, 48, 49>>, <<53, 48>>, Dec(Plus1(Ten32)) }
SmallExps == { <<>>, Ex(101, <<>>, <<51>>), Ex(69, <<>>, <<51>>), Ex(101, <<43>>, <<51>>), Ex(101, <<45>>, <<51>>), Ex(101, <<>>, <<49, 48, 48>>), Ex(101, <<45>>, <<52, 48, 48>>) }
HugeExps == { Ex(101, <<>>, Dec(Minus1(Pw(31)))), Ex(101, <<>>, Dec(Pw(31))), Ex(101, <<45>>, Dec(Pw(31))), Ex(101, <<45>>, Dec(Plus1(Pw(31)))),
              Ex(101, <<>>, Dec(Minus1(Pw(63)))), Ex(101, <<>>, Dec(Pw(63))), Ex(101, <<45>>, Dec(Pw(63))), Ex(101, <<45>>, Dec(Plus1(Pw(63)))),
              Ex(101, <<>>, Dec(Minus1(Pw(64)))), Ex(101, <<>>, Dec(Pw(64))), Ex(101, <<45>>, Dec(Pw(64))), Ex(101, <<45>>, Dec(Plus1(Pw(64)))),
              Ex(101, <<>>, Dec(Ten32)) }
BigDecStrs == { BD(neg, ip, fp, ex) : neg \in BOOLEAN, ip \in (IF Big THEN IPs ELSE IPs \ {Dec(Pw(63))}), fp \in (IF Big THEN FPs ELSE {<<>>, <<53>>, <<48, 48, 49>>}),
                                      ex \in (IF Big THEN SmallExps ELSE {<<>>, Ex(101, <<>>, <<51>>), Ex(69, <<45>>, <<51>>)}) }
              \cup { BD(FALSE, ip, fp, ex) : ip \in {<<49>>, Dec(Pw(64))}, fp \in {<<>>, <<53>>}, ex \in HugeExps }
              \cup { BD(FALSE, <<49>>, <<>>, ex) : ex \in (SmallExps \ {<<>>}) }
              \cup { BD(neg, ip, fp, <<>>) : neg \in BOOLEAN, ip \in MantBoundary, fp \in {<<>>, <<53>>} }
              \cup { <<46, 53>>, <<49, 46>>, <<43, 49>> }                                         \* ".5" "1." "+1": outside the decimal grammar (dc)
BigDecs == { Tg("bigdec", Tx(s)) : s \in BigDecStrs }

(* bigfloat: [+-] 0x hex [. hex] [p [+-] digits]                             *)
HF(sign, x, ip, fp, ex) == sign \o <<48, x>> \o ip \o (IF fp = <<>> THEN <<>> ELSE <<46>> \o fp) \o ex
HIPs == { <<48>>, <<49>>, <<51>>, A(<<1, 0>>), A(<<10, 11, 12>>), <<65, 66>>,
          A(<<7>>) \o Rep(102, 15), A(<<8>>) \o Rep(48, 15), Rep(102, 16), A(<<1, 2, 3, 4, 5, 6, 7, 8, 9, 10, 11, 12, 13, 14, 15, 0, 1, 2, 3>>) }      \* 2^63-1, 2^63, 2^64-1, 76 bits
HExps == { <<>>, Ex(112, <<>>, <<48>>), Ex(112, <<45>>, <<49>>), Ex(112, <<43>>, <<51>>), Ex(80, <<>>, <<55>>), Ex(112, <<>>, <<49, 48>>), Ex(112, <<45>>, <<49, 50, 51>>),
           Ex(112, <<>>, A(<<10>>)), Ex(112, <<>>, <<55>> \o Rep(102, 15)), Ex(112, <<45>>, <<56>> \o Rep(48, 15)), Ex(112, <<>>, <<56>> \o Rep(48, 15)) }
BigFloatStrs == { HF(sign, 120, ip, <<>>, ex) : sign \in {<<>>, <<45>>}, ip \in HIPs, ex \in (IF Big THEN HExps ELSE {<<>>, Ex(112, <<45>>, <<49>>), Ex(112, <<>>, <<49, 48>>)}) }
                \cup { HF(<<>>, 120, <<49>>, <<>>, ex) : ex \in HExps }
                \cup { HF(sign, 120, ip, <<>>, Ex(112, <<>>, <<49>>)) : sign \in {<<>>, <<45>>}, ip \in {Rep(102, 46), <<49>> \o Rep(48, 46), Rep(102, 48), <<49>> \o Rep(48, 48)} }   \* 23 / 24 / 25 mantissa bytes
                \cup { HF(sign, x, ip, fp, ex) : sign \in {<<>>, <<45>>, <<43>>}, x \in {120, 88}, ip \in {<<49>>}, fp \in {<<>>, <<56>>, A(<<0, 8>>)}, ex \in {<<>>, Ex(112, <<>>, <<49>>)} }
BigFloats == { Tg("bigfloat", Tx(s)) : s \in BigFloatStrs }

(* date-time strings (RFC 3339), URIs, base-N hints                          *)
DateTimes == { <<50,48,49,51,45,48,51,45,50,49,84,50,48,58,48,52,58,48,48,90>>,                   \* 2013-03-21T20:04:00Z
               <<49,57,54,57,45,49,50,45,51,49,84,50,51,58,53,57,58,53,57,46,53,45,48,53,58,48,48>>,   \* 1969-12-31T23:59:59.5-05:00
               <<>>, <<110,111,119>> }                                                              \* "" and "now": jsoncons does not validate the content
Uris == { <<104,116,116,112,58,47,47,97,46,98,47,99,63,100,61,37,50,48>>, <<117,114,110,58,120>>, <<>> }      \* http://a.b/c?d=%20  urn:x
Texts == { <<65, 81, 73, 68>>, <<>>, <<95, 45, 43, 47, 61>>, Rep(65, 24) }                           \* "AQID", "", "_-+/=", 24 x 'A'
Bytes == { <<1, 2, 3>>, <<>>, <<0>>, <<255, 254>>, Rep(255, 24) }
Hints == { Tg("datetime", Tx(s)) : s \in DateTimes } \cup { Tg("uri", Tx(s)) : s \in Uris }
         \cup { Tg(t, Tx(s)) : t \in {"base64", "base64url", "base16"}, s \in Texts }
         \cup { Tg(t, Bx(s)) : t \in {"base64", "base64url", "base16"}, s \in Bytes }

(* epoch_second / epoch_milli / epoch_nano on integers, doubles, strings     *)
UIntB == { <<>>, <<1>>, <<5, 220>>, <<255, 255, 255, 255>>, <<1, 0, 0, 0, 0>>, <<3, 255, 255, 255, 255>>, <<4, 0, 0, 0, 0>>,          \* 0 1 1500 2^32-1 2^32 2^34-1 2^34
           <<59, 154, 202, 0>>, <<89, 104, 47, 0>>, <<81, 75, 103, 176>>, <<1, 61, 142, 141, 7, 128>>,                                \* 10^9 1.5*10^9 1363896240 1363896240000
           <<127, 255, 255, 255, 255, 255, 255, 255>>, <<128, 0, 0, 0, 0, 0, 0, 0>>, <<255, 255, 255, 255, 255, 255, 255, 255>> }      \* 2^63-1 2^63 2^64-1
NIntB == { <<>>, <<5, 219>>, <<3, 231>>, <<3, 232>>, <<59, 154, 201, 255>>, <<89, 104, 46, 255>>, <<59, 154, 202, 0>>,                \* -1 -1500 -1000 -1001 -10^9 -1.5*10^9 -(10^9+1)
           <<81, 75, 103, 175>>, <<1, 0, 0, 0, 0>>, <<127, 255, 255, 255, 255, 255, 255, 255>> }                                       \* -1363896240 -(2^32+1) -2^63
F64B == { <<0,0,0,0,0,0,0,0>>, <<128,0,0,0,0,0,0,0>>, <<63,248,0,0,0,0,0,0>>, <<191,248,0,0,0,0,0,0>>, <<65,212,82,217,236,32,0,0>>,     \* 0 -0 1.5 -1.5 1363896240.5
          <<63,240,0,0,16,0,0,0>>, <<126,55,228,60,136,0,117,156>>, <<127,248,0,0,0,0,0,0>>, <<127,240,0,0,0,0,0,0>>, <<65,151,132,128,0,0,0,0>> }  \* 1+2^-24 1e300 NaN inf 1e8
EpochNums == { <<"uint", b>> : b \in UIntB } \cup { <<"nint", b>> : b \in NIntB } \cup { <<"f64", b>> : b \in (IF Big THEN F64B ELSE {<<63,248,0,0,0,0,0,0>>, <<191,248,0,0,0,0,0,0>>, <<127,248,0,0,0,0,0,0>>, <<65,212,82,217,236,32,0,0>>}) }
             \cup { Tx(<<49, 53, 48, 48>>), Tx(<<45, 49, 53, 48, 48>>), Tx(<<45, 50, 48, 48, 48>>) }                                   \* "1500" "-1500" "-2000"
Epochs == { Tg(t, b) : t \in EpochTags, b \in EpochNums }

Leaves == BigInts \cup BigDecs \cup BigFloats \cup Hints \cup Epochs

-----------------------------------------------------------------------------
(* each leaf alone and nested inside arrays / maps, also next to untagged    *)
(* members                                                                   *)
K(ch) == Tx(<<ch>>)
U1 == <<"uint", <<1>>>>
Shapes == IF Big THEN 1..8 ELSE 1..6
Shape(s, x) ==
  CASE s = 1 -> x
    [] s = 2 -> <<"arr", <<x>>>>
    [] s = 3 -> <<"map", << <<K(97), x>> >>>>                                                       \* {"a": x}  (BSON root)
    [] s = 4 -> <<"map", << <<K(97), U1>>, <<K(107), x>>, <<K(122), Tx(<<115>>)>> >>>>              \* {"a": 1, "k": x, "z": "s"}
    [] s = 5 -> <<"arr", <<x, x>>>>                                                                 \* repeated (string references when packing)
    [] s = 6 -> <<"map", << <<K(97), <<"arr", <<U1, x, <<"map", << <<K(98), x>> >>>> >>>> >> >>>>   \* {"a": [1, x, {"b": x}]}
    [] s = 7 -> <<"arr", <<<<"arr", <<<<"arr", <<x>>>>>>>>, <<"null">>, x>>>>
    [] s = 8 -> <<"map", << <<K(97), x>>, <<K(98), <<"f64", <<63,248,0,0,0,0,0,0>>>>>>, <<K(99), x>> >>>>

(* string packing next to tags (CBOR pack_strings): tagged and untagged      *)
(* occurrences of the same string share one table; bignum byte strings in    *)
(* between; tables crossing the 24-entry threshold                           *)
LongInt == Tg("bigint", Tx(Dec(Plus1(Ten32))))
LongDec == Tg("bigdec", Tx(Dec(Plus1(Ten32)) \o <<46, 53>>))
LongFlt == Tg("bigfloat", Tx(<<48, 120>> \o Rep(102, 20) \o <<112, 49>>))
Abc == Tx(<<97, 98, 99>>)
Dt == Tg("datetime", Tx(<<50,48,49,51,45,48,51,45,50,49,84,50,48,58,48,52,58,48,48,90>>))
Ur(s) == Tg("uri", Tx(s))
HttpA == <<104,116,116,112,58,47,47,97>>
T3(i) == Tx(<<115, 64 + (i \div 60), 64 + (i % 60)>>)
PackFam == { <<"arr", <<Dt, Dt, Dt>>>>, <<"arr", <<Ur(HttpA), Tx(HttpA), Ur(HttpA)>>>>,
             <<"arr", <<Tg("base64", Bx(<<1, 2, 3>>)), Bx(<<1, 2, 3>>), Tg("base16", Bx(<<1, 2, 3>>)), Tg("base64url", Tx(<<1 + 64, 2 + 64, 3 + 64>>)), Tx(<<65, 66, 67>>)>>>>,
             <<"arr", <<Abc, LongInt, Abc>>>>,                                   \* reference to a string registered BEFORE the bignum
             <<"arr", <<LongInt, Abc, Abc>>>>,                                   \* ... AFTER the bignum
             <<"arr", <<LongDec, Abc, Abc>>>>, <<"arr", <<LongFlt, Abc, Abc>>>>,
             <<"arr", <<LongInt, LongInt, Abc, Abc>>>>,
             <<"arr", <<Tg("bigint", Tx(Dec(<<5535, 6>>))), Abc, Abc>>>>,        \* 2-byte magnitude: below the minimum length
             <<"arr", <<Tg("bigint", Tx(Dec(<<5536, 6>>))), Abc, Abc>>>>,        \* 3-byte magnitude
             <<"map", << <<Abc, Dt>>, <<Tx(<<100, 101, 102>>), Abc>>, <<Tx(<<103, 104, 105>>), Dt>> >>>> }
           \cup { <<"arr", [i \in 1..n |-> T3(i)] \o <<Dt, Ur(HttpA), Dt, Ur(HttpA), T3(1), T3(n)>>>> : n \in {22, 23, 24} }

\* pairs of different tags in one array
Mix == { Tg("bigint", Tx(Dec(Pw(64)))), Tg("bigdec", Tx(<<49, 46, 53>>)), Tg("bigfloat", Tx(<<48, 120, 51, 112, 45, 49>>)), Dt, Ur(HttpA),
         Tg("base64", Bx(<<1, 2, 3>>)), Tg("base16", Bx(<<1, 2, 3>>)), Tg("epoch_second", <<"uint", <<5, 220>>>>), Tg("epoch_milli", <<"nint", <<5, 219>>>>) }
Pairs == { <<"map", << <<K(97), <<"arr", <<x, y>>>>>> >>>> : x \in Mix, y \in Mix }

-----------------------------------------------------------------------------
(* typed arrays: std::vector<T>, lengths 0..3, boundary element values       *)
Pat(w) == [i \in 1..w |-> i]                          \* 01 02 03 .. : tells the byte orders apart
ElemsOf(et) ==
  LET w == Width(et) IN
  IF et = "half" THEN { <<60, 0>>, <<59, 255>>, <<0, 1>>, <<128, 0>>, <<124, 0>>, <<126, 0>>, <<123, 255>> }                      \* 1.0 0.99951 min-subnormal -0 inf NaN max
  ELSE IF et = "f32" THEN { <<63, 192, 0, 0>>, <<128, 0, 0, 0>>, <<127, 192, 0, 0>>, <<127, 128, 0, 0>>, <<0, 0, 0, 1>>, <<127, 127, 255, 255>>, <<63, 128, 0, 1>> }
  ELSE IF et = "f64" THEN { <<63, 248, 0, 0, 0, 0, 0, 0>>, <<128, 0, 0, 0, 0, 0, 0, 0>>, <<127, 248, 0, 0, 0, 0, 0, 0>>, <<255, 240, 0, 0, 0, 0, 0, 0>>, <<0, 0, 0, 0, 0, 0, 0, 1>>,
                            <<127, 239, 255, 255, 255, 255, 255, 255>>, <<63, 240, 0, 0, 0, 0, 0, 1>>, <<63, 240, 0, 0, 16, 0, 0, 0>> }
  ELSE { Rep(0, w), Rep(0, w - 1) \o <<1>>, Rep(255, w), <<127>> \o Rep(255, w - 1), <<128>> \o Rep(0, w - 1), Pat(w), <<255>> \o Rep(0, w - 1) }     \* 0 1 max/-1 signed-max signed-min pattern
TAs == UNION { { <<et, <<>>>> } \cup { <<et, <<a>>>> : a \in ElemsOf(et) }
               \cup { <<et, <<a, b>>>> : a \in ElemsOf(et), b \in {Pat(Width(et)), Rep(255, Width(et))} }
               \cup { <<et, <<Pat(Width(et)), Rep(0, Width(et)), Rep(255, Width(et))>>>>,
                      <<et, <<<<127>> \o Rep(255, Width(et) - 1), <<128>> \o Rep(0, Width(et) - 1), Pat(Width(et))>>>> }
               : et \in ElemTypes }

-----------------------------------------------------------------------------
(* KNOWN DEVIATIONS of the pinned jsoncons (one name per root cause; see     *)
(* notes/C06tags.md).  A case that belongs to a class carries its name in    *)
(* `dev`; the check still validates the case and reports a refused line      *)
(* under that name (known_findings.jsonl), so a repaired tree stops          *)
(* reporting it and an unrelated break of the same value still shows up in   *)
(* the other formats / routes.                                               *)
Contains(s, S) == \E k \in 1..Len(s) : s[k] \in S
EpochNeg(tag, base) == LET e == EpochInt(base) IN e[1] = "ok" /\ e[2][1]                 \* negative
SubSecond(tag, base) ==    \* the instant is not a whole number of seconds
  LET e == EpochInt(base) IN
  e[1] = "ok" /\ (IF tag = "epoch_milli" THEN N!DivSmall(e[2][2], 1000)[2] # 0
                  ELSE tag = "epoch_nano" /\ (N!DivSmall(e[2][2], 1000)[2] # 0 \/ N!DivSmall(N!DivSmall(e[2][2], 1000)[1], 1000)[2] # 0
                                                \/ N!DivSmall(N!DivSmall(N!DivSmall(e[2][2], 1000)[1], 1000)[1], 1000)[2] # 0))
LeafDev(tag, base) ==
  (IF tag \in EpochTags /\ base[1] = "tstr" THEN {"msgpack-timestamp-string-count"} ELSE {})
  \cup (IF tag = "bigfloat" /\ Contains(base[2], {46}) /\ Contains(base[2], {112, 80}) THEN {"cbor-bigfloat-fraction-exponent"} ELSE {})
  \cup (IF tag = "bigfloat" /\ base[2] # <<>> /\ base[2][1] = 43 THEN {"cbor-bigfloat-plus-sign"} ELSE {})
  \cup (IF tag = "bigfloat" /\ HexFloat(base[2], 16)[1] = "ok" /\ N!Le(P63, HexFloat(base[2], 16)[3]) THEN {"cbor-bigfloat-bignum-mantissa"} ELSE {})
  \cup (IF tag = "bigdec" /\ DecNum(base[2])[1] = "ok" /\ InInt64(DecNum(base[2])[4]) /\ ~InInt32(DecNum(base[2])[4]) THEN {"cbor-bigdec-exponent-int32"} ELSE {})
  \cup (IF tag \in {"epoch_milli", "epoch_nano"} /\ EpochNeg(tag, base) /\ SubSecond(tag, base) THEN {"msgpack-timestamp-negative-subsecond"} ELSE {})
  \cup (IF tag \in EpochTags /\ BigUint(base) THEN {"msgpack-timestamp-uint64-cast"} ELSE {})
  \cup (IF tag = "epoch_milli" /\ BigUint(base) THEN {"bson-datetime-uint64-wrap"} ELSE {})
\* the CBOR image contains a bignum byte string that the stringref rules register (3 bytes or more)
LeafBignum(tag, base) ==
  \/ tag = "bigint" /\ DecInt(base[2])[1] = "ok" /\ N!Le(<<5536, 6>>, DecInt(base[2])[2][2])
  \/ tag = "bigdec" /\ DecNum(base[2])[1] = "ok" /\ N!Le(P63, N!FromDec(DecNum(base[2])[3]))
  \/ tag = "bigfloat" /\ HexFloat(base[2], 16)[1] = "ok" /\ N!Le(P63, HexFloat(base[2], 16)[3])
RECURSIVE DevOf(_), HasBignum(_), StrsOf(_)
DevOf(v) == CASE v[1] = "arr" -> UNION { DevOf(v[2][k]) : k \in 1..Len(v[2]) }
              [] v[1] = "map" -> UNION { DevOf(v[2][k][2]) : k \in 1..Len(v[2]) }
              [] v[1] = "tagged" -> LeafDev(v[2], v[3])
              [] OTHER -> {}
HasBignum(v) == CASE v[1] = "arr" -> \E k \in 1..Len(v[2]) : HasBignum(v[2][k])
                  [] v[1] = "map" -> \E k \in 1..Len(v[2]) : HasBignum(v[2][k][2])
                  [] v[1] = "tagged" -> LeafBignum(v[2], v[3])
                  [] OTHER -> FALSE
\* all text / byte strings of 3 and more bytes, in order
StrsOf(v) == CASE v[1] = "arr" -> IF v[2] = <<>> THEN <<>> ELSE StrsOf(v[2][1]) \o StrsOf(<<"arr", Tail(v[2])>>)
               [] v[1] = "map" -> IF v[2] = <<>> THEN <<>> ELSE StrsOf(v[2][1][1]) \o StrsOf(v[2][1][2]) \o StrsOf(<<"map", Tail(v[2])>>)
               [] v[1] = "tagged" -> IF v[2] \in {"bigint", "bigdec", "bigfloat"} THEN <<>> ELSE StrsOf(v[3])
               [] v[1] \in {"tstr", "bstr"} -> IF Len(v[2]) >= 3 THEN <<v>> ELSE <<>>
               [] OTHER -> <<>>
Repeats(s) == \E i, j \in 1..Len(s) : i < j /\ s[i] = s[j]
Dev(v) == DevOf(v) \cup (IF HasBignum(v) /\ Repeats(StrsOf(v)) THEN {"cbor-packed-bignum-stringref"} ELSE {})

ValCase(v) == [fam |-> "val", v |-> v, dev |-> Dev(v),
               dc |-> {f \in Formats : LineClass(f, v) = "dc"}, out |-> {f \in Formats : LineClass(f, v) = "out"}]
TaCase(a) == [fam |-> "ta", et |-> a[1], el |-> a[2], dev |-> {}]

Init == c = [fam |-> "none"] /\ depth = 0
Next == /\ depth = 0 /\ depth' = 1
        /\ \/ \E x \in Leaves, s \in Shapes : c' = ValCase(Shape(s, x))
           \/ \E x \in BigInts \cup LongBigInts \cup BigDecs \cup BigFloats : c' = ValCase(<<"arr", <<x, U1>>>>)      \* followed by another item: a wrong length header corrupts the rest
           \/ \E x \in LongBigInts : c' = ValCase(x)
           \/ \E v \in PackFam \cup Pairs : c' = ValCase(v)
           \/ \E a \in TAs : c' = TaCase(a)
Emit == depth = 1 => PrintT(ToJson(c))
=============================================================================
