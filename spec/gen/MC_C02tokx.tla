---------------------------- MODULE MC_C02tokx ----------------------------
(* C02 generator (iii): sequences of whole tokens over SmallTokens plus     *)
(* C02Tokens!ExtraTokens - the corners of the escaped surrogate-pair range, *)
(* scalar-value boundaries, and characters above U+00FF whose low byte is   *)
(* an ASCII character with a role in the grammar (outside and inside        *)
(* strings).  Every text that is valid UTF-8 is also given to the wchar_t   *)
(* parser (one wchar_t per code point) with the same predicted verdict and  *)
(* value.  Same machine as the other C02 generators.                        *)
EXTENDS JsonText, Json, C02Tokens
CONSTANTS MaxTok
VARIABLES txt, st, ntok, nextra
Init == txt = <<>> /\ st = Init0 /\ ntok = 0 /\ nextra = 0
\* at most two extra tokens per text, anywhere among small tokens
Next == /\ st.m # "dead" /\ ntok < MaxTok
        /\ \/ \E t \in SmallTokens : txt' = txt \o t /\ st' = Run(st, t, 1) /\ ntok' = ntok + 1 /\ nextra' = nextra
           \/ nextra < 2 /\ \E t \in ExtraTokens : txt' = txt \o t /\ st' = Run(st, t, 1) /\ ntok' = ntok + 1 /\ nextra' = nextra + 1
Case == [t |-> txt, acc |-> AcceptAtEof(st), uc |-> st.uc, ut |-> st.ut, tc |-> st.tc, dc |-> st.dc,
         dep |-> st.dep, v |-> IF AcceptAtEof(st) THEN ValueOf(ResultAtEof(st)) ELSE <<"none">>]
Emit == nextra > 0 => PrintT(ToJson(Case))
=============================================================================
