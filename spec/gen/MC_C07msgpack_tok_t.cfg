INIT Init
NEXT Next
INVARIANT Emit
CHECK_DEADLOCK FALSE
CONSTANTS
  Format = "msgpack"
  MaxLen = 3
  ExhLen = 2
  Reps = {}
  OnlyAccepted = FALSE
  TokMode = "tok"
