------------------------------ MODULE MC_C12fn ------------------------------
(* C12 generator, "functions" family: the built-in JSONPath functions,      *)
(* unary minus and the arithmetic operators + - * / % in filter expressions, *)
(* and function calls as whole expressions (spec/JsonPath.tla, section       *)
(* "Built-in functions and arithmetic", TopEval).                            *)
(*                                                                           *)
(* A state is (family, document, query).  Families:                          *)
(*   "un"   every one-argument function x every value V of the typed value   *)
(*          alphabet: documents [V], filters F(@) == L for a literal set     *)
(*          that includes the value the specification computes, F(@) < L,    *)
(*          F(@), !F(@), F(@.z) (missing), F(literal); keys() through        *)
(*          contains / length / index                                        *)
(*   "bin"  contains, starts_with, ends_with, tokenize x (source, search)    *)
(*          pairs: documents [{"s": V1, "t": V2}], filters F(@.s, @.t),      *)
(*          !F, F == true/false/null, F(@.s, literal); tokenize through      *)
(*          length and indices [0] [1] [-1] pinned to the computed pieces    *)
(*   "ar"   arithmetic: a op b, (a op1 b) op2 c and a op1 (b op2 c) for      *)
(*          every operator pair, unary minus in every position, function     *)
(*          calls as operands; compared with == to the value the spec        *)
(*          computes for ONE element of the document (so that exactly the    *)
(*          elements with that value are selected), with < and >=, with      *)
(*          arithmetic on both sides, inside && / || / ! (precedence)        *)
(*   "mix"  filters of the kind the reference pages show                     *)
(*          (@.x > avg($.a[*].x), !contains(keys(@),'w'), sum(@.v) - 1 ==    *)
(*          @.w, tokenize(@.s, ',')[0] == 'a', ...) after a prefix, before a *)
(*          suffix, nested                                                   *)
(*   "top"  a function call as the whole expression, optionally followed by  *)
(*          segments (values only: no document location corresponds)         *)
(* Every state with a query is one case in the format of MC_C12 (document,   *)
(* notations, predicted (normalized path, value) list, option index lists,   *)
(* document after json_replace) plus                                         *)
(*   fam  the family                                                         *)
(*   dev  names of the suspected-defect classes of jsoncons the case falls   *)
(*        into (notes/C12.md); the prediction is the specification's, the    *)
(*        tag only lets the driver match a mismatch with known_findings.jsonl*)
(*   vo   (family "top") values only: "tv" is the predicted value list       *)
(* Notations in which a number literal is directly followed by "-" are       *)
(* emitted as a case of their own (tag number-minus-nospace).                *)
EXTENDS JsonPath, Json, TLC
CONSTANTS Big, Fams
VARIABLES fam, doc, qry

\* ---------------------------------------------------------------- values
kA == <<97>>  kB == <<98>>  kS == <<115>>  kT == <<116>>  kV == <<118>>  kW == <<119>>  kX == <<120>>  kY == <<121>>  kZ == <<122>>
kN == <<110>> kH == <<104>> kE == <<101>>  kM == <<109>>  kQ == <<113>>  kO == <<111>>  kP == <<112>>  kU == <<117>>
I(n) == JInt(n)
R(n, d) == MkNum(n, d)
Str(s) == JStr(s)
A1(x) == JArr(<<x>>)
A2(x, y) == JArr(<<x, y>>)
A3(x, y, z) == JArr(<<x, y, z>>)
ObjOf(ks, vs) == JObj([k \in {ks[i] : i \in 1..Len(ks)} |-> vs[CHOOSE i \in 1..Len(ks) : ks[i] = k]])
O1(k, v) == ObjOf(<<k>>, <<v>>)
O2(k1, v1, k2, v2) == ObjOf(<<k1, k2>>, <<v1, v2>>)

sE == <<>>  sA == <<97>>  sB == <<98>>  sAB == <<97, 98>>  sBA == <<98, 97>>  sBAB == <<98, 97, 98>>
sU == <<233>>                         \* e acute
sAU == <<97, 233, 128512>>            \* a, e acute, U+1F600: 1-, 2- and 4-byte UTF-8
sUB == <<233, 98>>
s12 == <<49, 50>>  sM3 == <<45, 51>>  s15 == <<49, 46, 53>>  sXx == <<120>>  sSp1 == <<32, 49>>  s1e1 == <<49, 101, 49>>
sAcB == <<97, 44, 98>>  scA == <<44, 97>>  sAc == <<97, 44>>  sAccB == <<97, 44, 44, 98>>  sC == <<44>>  sDot == <<46>>

NumsQ == { I(0 - 2), I(0), I(3), R(3, 2), R(0 - 5, 2) }
NumsT == NumsQ \cup { I(1), R(1, 4), R(0 - 1, 2), I(0 - 7) }
StrsQ == { Str(sE), Str(sA), Str(sAB), Str(sBA), Str(sU), Str(sAU), Str(s12), Str(sM3), Str(s15), Str(sXx), Str(sAcB) }
StrsT == StrsQ \cup { Str(sBAB), Str(sUB), Str(sSp1), Str(s1e1), Str(scA), Str(sAc), Str(<<48>>), Str(<<48, 46, 50, 53>>) }
ArrsQ == { EmptyArr, A1(I(3)), A3(I(3), I(0 - 2), I(0)), A2(R(3, 2), R(5, 2)), A2(I(1), R(1, 2)), A3(Str(sB), Str(sA), Str(sU)), A1(Str(sA)),
           A2(I(1), Str(sA)), A1(A1(I(1))), A1(JNull), A2(Str(sE), Str(sA)) }
ArrsT == ArrsQ \cup { A3(I(2), I(2), I(2)), A3(I(1), I(1), I(2)), A2(Str(sAB), Str(sA)), A2(JBool(TRUE), I(1)), A1(EmptyObj), A3(I(0 - 1), I(0 - 2), I(0 - 3)),
                      A2(Str(sAU), Str(sU)) }
ObjsQ == { EmptyObj, O1(kA, I(1)), O2(kA, I(1), kB, I(2)) }
OthersQ == { JNull, JBool(TRUE), JBool(FALSE) }
Nums == IF Big THEN NumsT ELSE NumsQ
Strs == IF Big THEN StrsT ELSE StrsQ
Arrs == IF Big THEN ArrsT ELSE ArrsQ
Vals == Nums \cup Strs \cup Arrs \cup ObjsQ \cup OthersQ
Scalar(v) == v[1] \in {"null", "bool", "int", "str"} \/ (v[1] = "rat" /\ Renderable(v))

\* ---------------------------------------------------------------- expression shorthands
Cur(segs_) == FQ("cur", segs_)
Root(segs_) == FQ("root", segs_)
N(k) == Child(<<SName(k)>>)
Ix(i) == Child(<<SIdx(i)>>)
W == Child(<<SWild>>)
L(v) == FLit(v)
F1(f, a) == IF f = "length" THEN FLen(a) ELSE FFn(f, <<a>>)
F2(f, a, b) == FFn(f, <<a, b>>)
Eq(a, b) == FCmp("==", a, b)
At == Cur(<<>>)
X == Cur(<<N(kX)>>)  Y == Cur(<<N(kY)>>)  Z == Cur(<<N(kZ)>>)  V == Cur(<<N(kV)>>)  S_ == Cur(<<N(kS)>>)  T_ == Cur(<<N(kT)>>)  W_ == Cur(<<N(kW)>>)
Node0(d) == MkNode(<<PIdx(0)>>, d[2][1])            \* the first element of an array document
ValAt(e, c, d) == FVal(e, c, d)
\* filters E == <the value the specification computes for node c> (when that is a literal that can be written down)
Pin(e, c, d) == LET v == ValAt(e, c, d) IN IF v # DCV /\ Scalar(v) THEN { Eq(e, L(v)) } ELSE {}
PinOp(op, e, c, d) == LET v == ValAt(e, c, d) IN IF v # DCV /\ Scalar(v) THEN { FCmp(op, e, L(v)) } ELSE {}

UnaryFns == {"abs", "avg", "ceil", "floor", "keys", "max", "min", "prod", "sum", "to_number", "length"}
BinFns == {"contains", "starts_with", "ends_with", "tokenize"}

\* ---------------------------------------------------------------- family "un"
UnDocs == { A1(v) : v \in Vals } \cup { A1(O1(kZ, I(1))) }
UnLits == { L(I(0 - 2)), L(I(0)), L(I(1)), L(I(3)), L(R(3, 2)), L(JNull), L(Str(sA)), L(JBool(TRUE)) }
          \cup (IF Big THEN { L(I(0 - 1)), L(I(2)), L(R(0 - 5, 2)), L(Str(sE)), L(JBool(FALSE)), L(Str(sB)) } ELSE {})
InnerFns == IF Big THEN UnaryFns ELSE {"abs", "sum", "min", "max", "avg", "to_number"}
OuterFns == IF Big THEN UnaryFns ELSE {"abs", "ceil", "floor"}
UnFilters(d) ==
  LET c == Node0(d) IN
  UNION { LET e == F1(f, At) IN
          { Eq(e, l) : l \in UnLits } \cup Pin(e, c, d) \cup PinOp("<", e, c, d) \cup PinOp(">=", e, c, d) \cup PinOp("!=", e, c, d)
          \cup { e, FNot(e), FCmp(">", e, L(I(0))), FCmp("<=", e, L(R(3, 2))), Eq(L(I(3)), e) }
          \cup Pin(F1(f, Cur(<<N(kA)>>)), c, d) \cup { F1(f, Cur(<<N(kA)>>)), F1(f, Cur(<<Ix(0)>>)), Eq(F1(f, Cur(<<N(kQ)>>)), L(JNull)) }
          \cup Pin(F1(f, Cur(<<Ix(0)>>)), c, d) \cup Pin(F1(f, Cur(<<W>>)), c, d)
          \cup (IF Scalar(d[2][1]) THEN Pin(F1(f, L(d[2][1])), c, d) \cup { F1(f, L(d[2][1])), FNot(F1(f, L(d[2][1]))) } ELSE {})
        : f \in UnaryFns }
  \cup { F2("contains", F1("keys", At), L(Str(sA))), FNot(F2("contains", F1("keys", At), L(Str(sB)))), Eq(FLen(F1("keys", At)), L(I(1))),
         Eq(FLen(F1("keys", At)), L(I(2))), Eq(FFq(F1("keys", At), <<Ix(0)>>), L(Str(sA))), Eq(F1("keys", At), At),
         Eq(F1("min", F1("keys", At)), L(Str(sA))), Eq(F1("max", F1("keys", At)), L(Str(sB))) }
  \* a function of a function
  \cup UNION { Pin(F1(g, F1(f, At)), c, d) \cup (IF Big THEN { F1(g, F1(f, At)), Eq(F1(g, F1(f, At)), L(I(3))) } ELSE {}) : f \in InnerFns, g \in OuterFns }
UnQueries(d) == { <<"path", <<>>, f, <<>>>> : f \in UnFilters(d) }

\* ---------------------------------------------------------------- family "bin"
SrcCont == { Str(sE), Str(sA), Str(sAB), Str(sBA), Str(sBAB), Str(sAU), Str(sUB), EmptyArr, A3(I(3), I(0 - 2), I(0)), A3(Str(sB), Str(sA), Str(sU)),
             A2(I(1), Str(sA)), A1(JNull), A1(A1(I(1))), A2(R(3, 2), R(5, 2)), A2(Str(sE), Str(sA)), JNull, I(3), O1(kA, I(1)), JBool(TRUE) }
Search == { Str(sE), Str(sA), Str(sB), Str(sAB), Str(sU), Str(sXx), I(3), R(3, 2), JNull, JBool(TRUE), A1(I(1)) }
SrcStr == { Str(sE), Str(sA), Str(sAB), Str(sBA), Str(sBAB), Str(sAU), Str(sUB), Str(sU), JNull, I(3), A1(Str(sA)), O1(kA, I(1)) }
SrcTok == { Str(sAcB), Str(scA), Str(sAc), Str(sAccB), Str(sE), Str(sA), Str(sBAB), Str(sAU), Str(sC), I(3), JNull, A1(Str(sAcB)) }
Pats == { Str(sC), Str(sB), Str(sAB), Str(sU), Str(sE), Str(sDot), I(3), JNull }
BinDoc(v1, v2) == A1(O2(kS, v1, kT, v2))
SearchT == { Str(sBA), Str(sBAB), Str(sAU), Str(sUB), I(0), I(1), JBool(FALSE), EmptyArr, A1(JNull), O1(kA, I(1)), Str(<<128512>>), R(5, 2) }
PatsT == { Str(<<44, 44>>), Str(sA), Str(<<98, 97>>), Str(<<59>>), Str(<<32>>), Str(<<128512>>) }
SrcTokT == { Str(<<97, 59, 98, 59, 99>>), Str(<<97, 32, 98>>), Str(<<44, 44>>), Str(<<97, 44, 98, 44, 99>>), Str(<<233, 44, 128512>>) }
BinDocs == { BinDoc(v1, v2) : v1 \in SrcCont, v2 \in Search \cup (IF Big THEN SearchT ELSE {}) }
           \cup { BinDoc(v1, v2) : v1 \in SrcStr, v2 \in Search \cup (IF Big THEN SearchT ELSE {}) }
           \cup { BinDoc(v1, v2) : v1 \in SrcTok \cup (IF Big THEN SrcTokT ELSE {}), v2 \in Pats \cup (IF Big THEN PatsT ELSE {}) }
IsTokDoc(d) == d[2][1][2][kS] \in SrcTok \cup SrcTokT /\ d[2][1][2][kT] \in Pats \cup PatsT
BinFilters(d) ==
  LET c == Node0(d)  v1 == d[2][1][2][kS]  v2 == d[2][1][2][kT] IN
  UNION { LET e == F2(f, S_, T_) IN
          { e, FNot(e), Eq(e, L(JBool(TRUE))), Eq(e, L(JBool(FALSE))), Eq(e, L(JNull)) }
          \cup (IF Scalar(v2) THEN { F2(f, S_, L(v2)), FNot(F2(f, S_, L(v2))) } ELSE {})
          \cup (IF Scalar(v1) /\ Scalar(v2) THEN { F2(f, L(v1), L(v2)) } ELSE {})
        : f \in (IF v1 \in SrcCont THEN {"contains"} ELSE {}) \cup (IF v1 \in SrcStr THEN {"starts_with", "ends_with"} ELSE {}) }
  \cup (IF IsTokDoc(d) THEN
          LET t == F2("tokenize", S_, T_)
              tl == IF Scalar(v2) THEN F2("tokenize", S_, L(v2)) ELSE t
          IN { t, FNot(t), Eq(t, L(JNull)), Eq(FFq(t, <<Ix(0)>>), L(Str(sA))), Eq(FFq(tl, <<Ix(1)>>), L(Str(sB))), Eq(FFq(t, <<Ix(5)>>), L(JNull)),
               Eq(FLen(tl), L(I(2))), Eq(FFq(t, <<Ix(0 - 1)>>), L(Str(sB))) }
             \cup Pin(FLen(t), c, d) \cup Pin(FFq(t, <<Ix(0)>>), c, d) \cup Pin(FFq(t, <<Ix(1)>>), c, d) \cup Pin(FFq(tl, <<Ix(0 - 1)>>), c, d)
             \cup Pin(FLen(FFq(t, <<Ix(0)>>)), c, d) \cup Pin(F1("max", tl), c, d) \cup { F2("contains", t, L(Str(sA))) }
             \cup { Eq(FFq(t, <<Child(<<SSlice(BV(0), BV(1), BAbs)>>)>>), Cur(<<N(kZ)>>)) }
        ELSE {})
BinQueries(d) == { <<"path", <<>>, f, <<>>>> : f \in BinFilters(d) }

\* ---------------------------------------------------------------- family "ar"
Env(x, y, z, v) == ObjOf(<<kX, kY, kZ, kV>>, <<x, y, z, v>>)
ArDocsQ == { A3(Env(I(7), I(3), I(2), A2(I(1), I(2))), Env(I(0 - 6), I(2), I(0 - 3), A1(I(4))), Env(I(12), I(4), I(3), EmptyArr)),
             A3(Env(R(3, 2), I(2), R(1, 2), A1(R(1, 2))), Env(I(8), I(0 - 2), I(2), A2(I(2), I(2))), Env(I(0), I(5), I(1), A1(I(0)))),
             JArr(<<Env(Str(sA), I(3), I(2), EmptyArr), Env(JNull, I(1), I(1), A1(I(1))), ObjOf(<<kY, kZ, kV>>, <<I(2), I(2), A1(Str(sA))>>),
                    Env(JBool(TRUE), I(2), I(1), JNull), Env(A1(I(1)), I(1), I(2), A1(I(1)))>>),
             A2(Env(I(6), I(0), I(3), EmptyArr), Env(I(6), I(3), I(0), A1(I(0)))) }
ArDocsT == ArDocsQ \cup { A3(Env(I(1), I(1), I(1), A1(I(1))), Env(I(2), I(3), I(5), A2(I(2), I(3))), Env(I(0 - 1), I(0 - 1), I(0 - 1), A1(I(0 - 1)))),
                          A3(Env(I(9), I(0 - 3), I(2), A1(I(9))), Env(R(1, 4), R(1, 2), I(4), A1(R(1, 4))), Env(I(10), I(5), I(0 - 5), A1(I(5)))) }
ArDocs == IF Big THEN ArDocsT ELSE ArDocsQ
Ops == {"+", "-", "*", "/", "%"}
OperandsQ == { X, Y, Z, L(I(2)), L(I(0 - 3)) }
OperandsT == OperandsQ \cup { L(I(12)), L(R(1, 2)), Root(<<Ix(0), N(kY)>>) }
Operands == IF Big THEN OperandsT ELSE OperandsQ
TriplesQ == { <<X, Y, Z>>, <<X, L(I(2)), Y>>, <<L(I(12)), Y, Z>> }
TriplesT == TriplesQ \cup { <<Z, Y, X>>, <<X, Y, L(I(0 - 3))>>, <<F1("sum", V), Y, L(I(2))>>, <<X, X, X>> }
Triples == IF Big THEN TriplesT ELSE TriplesQ
ArBin == { FAr(op, a, b) : op \in Ops, a \in Operands, b \in Operands }
ArTern == { FAr(o2, FAr(o1, t[1], t[2]), t[3]) : o1 \in Ops, o2 \in Ops, t \in Triples }
          \cup { FAr(o1, t[1], FAr(o2, t[2], t[3])) : o1 \in Ops, o2 \in Ops, t \in Triples }
ArNeg == { FNeg(a) : a \in {X, Y, L(I(2)), F1("sum", V)} }
         \cup { FAr(op, FNeg(a), b) : op \in Ops, a \in {X, Y}, b \in {Y, L(I(2))} }
         \cup { FAr(op, a, FNeg(b)) : op \in Ops, a \in {X, L(I(2))}, b \in {Y, Z} }
         \cup { FNeg(FAr(op, a, b)) : op \in Ops, a \in {X}, b \in {Y, L(I(2))} }
         \cup { FNeg(FNeg(X)), FAr("-", FNeg(X), FNeg(Y)), FAr("*", FNeg(X), FNeg(Y)), FNeg(FAr("+", FNeg(X), Y)) }
ArFn == { FAr(op, F1("sum", V), b) : op \in Ops, b \in {Y, L(I(1))} }
        \cup { FAr(op, a, FLen(V)) : op \in Ops, a \in {X, L(I(2))} }
        \cup { FAr("-", F1("max", V), F1("min", V)), FAr("/", F1("sum", V), FLen(V)), FAr("*", F1("abs", X), L(I(2))), F1("abs", FAr("-", X, Y)),
               F1("ceil", FAr("/", X, L(I(2)))), F1("floor", FAr("*", X, L(R(1, 2)))), FAr("+", F1("to_number", L(Str(s12))), X),
               FAr("+", FAr("*", X, Y), FAr("*", Z, L(I(2)))), FAr("-", FAr("*", X, Y), FAr("/", X, Z)), FAr("*", FAr("+", X, Y), FAr("-", X, Z)),
               FAr("-", FAr("-", FAr("-", X, Y), Z), L(I(1))), FAr("/", FAr("/", FAr("*", X, Y), Z), L(I(2))) }
\* thorough: chains of four operands (grouped from the left, from the right and in the middle)
ArQuad == IF Big THEN { FAr(o3, FAr(o2, FAr(o1, X, Y), Z), L(I(2))) : o1 \in Ops, o2 \in Ops, o3 \in Ops }
                      \cup { FAr(o1, X, FAr(o2, Y, FAr(o3, Z, L(I(2))))) : o1 \in Ops, o2 \in Ops, o3 \in Ops }
                      \cup { FAr(o2, FAr(o1, X, Y), FAr(o3, Z, L(I(2)))) : o1 \in Ops, o2 \in Ops, o3 \in Ops }
          ELSE {}
ArExprs == ArBin \cup ArTern \cup ArNeg \cup ArFn \cup ArQuad
ArNodes(d) == ArrKids(<<>>, d[2], 1)
\* comparison with arithmetic on both sides, comparison chains, and arithmetic below ! && || : operator levels
ArLogic == { FCmp(op, FAr("+", X, Y), FAr("*", Z, L(I(2)))) : op \in {"==", "<", ">="} }
           \cup { FCmp(op, FAr("-", X, L(I(1))), FAr("/", X, Y)) : op \in {"!=", ">", "<="} }
           \cup { FAnd(FCmp(">", FAr("+", X, L(I(1))), Y), FCmp("<", FAr("*", Z, L(I(2))), X)),
                  FOr(FCmp("==", FAr("%", X, Y), L(I(1))), FCmp("==", Z, FAr("-", Y, L(I(1))))),
                  FOr(FAnd(FCmp("<", X, FAr("+", Y, Z)), FCmp("==", Z, L(I(2)))), FCmp("==", FAr("*", Y, Z), X)),
                  FAnd(FCmp("<", X, FAr("+", Y, Z)), FOr(FCmp("==", Z, L(I(2))), FCmp("==", FAr("*", Y, Z), X))),
                  FNot(FCmp("==", FAr("+", X, Y), L(I(10)))), FNot(FAr("+", X, Y)), FAnd(FAr("+", X, Y), FNeg(Z)), FOr(FAr("-", X, X), FCmp(">", Y, L(I(3)))),
                  FCmp("==", FCmp("<", X, Y), L(JBool(TRUE))), FCmp("==", L(JBool(FALSE)), FCmp(">", FAr("+", X, L(I(1))), Y)),
                  FCmp("==", FCmp("<", X, Y), FCmp("<", Z, Y)), FCmp("<", FCmp("==", X, Y), L(I(1))), FCmp("==", FCmp("==", X, Y), L(JBool(FALSE))),
                  FCmp("!=", FNot(X), L(JBool(TRUE))), FCmp("==", FNeg(X), FAr("-", L(I(0)), X)), FNot(FNeg(X)), FNeg(FNot(X)) }
CmpOpsAll == {"==", "!=", "<", "<=", ">", ">="}
ArSides == { FAr("+", X, Y), FAr("*", Z, L(I(2))), FAr("-", X, L(I(1))), FAr("/", X, Y), FNeg(Z), F1("sum", V), X, L(I(4)) }
ArLogicT == IF Big THEN { FCmp(op, a, b) : op \in CmpOpsAll, a \in ArSides, b \in ArSides }
                        \cup { FAnd(FCmp(op, a, L(I(4))), FCmp(">", Y, L(I(2)))) : op \in CmpOpsAll, a \in ArSides }
                        \cup { FOr(FCmp(">", Y, L(I(3))), FCmp(op, a, Z)) : op \in CmpOpsAll, a \in ArSides }
            ELSE {}
ArQueries(d) ==
  LET ns == ArNodes(d) IN
  UNION { UNION { { <<"path", <<>>, f, <<>>>> : f \in Pin(e, ns[i], d) } : i \in 1..Len(ns) } : e \in ArExprs }
  \cup { <<"path", <<>>, Eq(e, L(I(1))), <<>>>> : e \in ArBin }
  \cup UNION { UNION { { <<"path", <<>>, f, <<>>>> : f \in PinOp("<", e, ns[i], d) \cup PinOp(">=", e, ns[i], d) } : i \in {1} } : e \in ArTern \cup ArNeg }
  \cup { <<"path", <<>>, e, <<>>>> : e \in ArNeg \cup ArFn }                          \* as tests: every number is true
  \cup { <<"path", <<>>, f, <<>>>> : f \in ArLogic \cup ArLogicT }

\* ---------------------------------------------------------------- family "mix"
Item(x, v, s, w) == ObjOf(<<kX, kV, kS, kW>>, <<x, v, s, w>>)
MixDocsQ == {
  O2(kA, JArr(<<Item(I(1), A2(I(1), I(2)), Str(sAcB), I(2)), Item(I(3), EmptyArr, Str(sE), I(0 - 1)), Item(I(0 - 2), A2(I(1), Str(sA)), Str(sAU), I(0)),
                 ObjOf(<<kX, kV, kS>>, <<I(5), A1(I(5)), Str(sA)>>)>>), kB, I(2)),
  O2(kA, JArr(<<Item(R(3, 2), A2(R(1, 2), I(1)), Str(sBAB), R(1, 2)), Item(I(2), A3(I(3), I(0 - 2), I(0)), Str(s12), I(0)),
                 Item(I(2), A1(I(2)), Str(sAccB), I(1))>>), kB, I(0 - 1)),
  O2(kA, EmptyArr, kB, I(1)),
  O2(kA, JArr(<<Item(Str(sA), JNull, I(1), JBool(TRUE)), I(3), JNull, A1(I(1)), EmptyObj>>), kB, Str(sA)) }
MixDocs == MixDocsQ
AllX == Root(<<N(kA), W, N(kX)>>)
MixFilters == {
  FCmp(">", X, F1("avg", AllX)), FCmp("<", X, F1("max", AllX)), FCmp("==", X, F1("min", AllX)), FCmp(">=", X, FAr("/", F1("sum", AllX), FLen(AllX))),
  FCmp(">", X, FAr("/", F1("sum", AllX), FLen(Root(<<N(kA), W>>)))),
  Eq(FLen(V), L(I(2))), Eq(FAr("-", F1("sum", V), L(I(1))), W_), Eq(FFq(F2("tokenize", S_, L(Str(sC))), <<Ix(0)>>), L(Str(sA))),
  Eq(FFq(F2("tokenize", S_, L(Str(sC))), <<Ix(0 - 1)>>), L(Str(sB))), FNot(F2("contains", F1("keys", At), L(Str(kW)))),
  F2("contains", F1("keys", At), L(Str(kW))), FAnd(F2("starts_with", S_, L(Str(sA))), F2("ends_with", S_, L(Str(sB)))),
  FOr(F2("starts_with", S_, L(Str(sB))), F2("contains", V, L(I(1)))), Eq(F1("abs", X), L(I(2))), Eq(F1("abs", F1("min", V)), L(I(2))),
  Eq(FLen(F2("tokenize", S_, L(Str(sC)))), L(I(2))), Eq(FAr("-", F1("max", V), F1("min", V)), L(I(1))), Eq(FAr("/", F1("sum", V), FLen(V)), F1("avg", V)),
  Eq(F1("ceil", F1("avg", V)), L(I(2))), Eq(F1("floor", X), L(I(1))), Eq(FAr("+", F1("to_number", S_), L(I(1))), L(I(13))), Eq(F1("prod", V), L(I(2))),
  Eq(F1("prod", V), L(JNull)), Eq(F1("avg", V), L(JNull)), Eq(F1("sum", V), L(I(0))), Eq(F1("max", V), L(JNull)), F1("sum", V), FNot(F1("sum", V)),
  Eq(F1("sum", Cur(<<N(kV), Child(<<SFilter(FCmp(">", At, L(I(1))))>>)>>)), L(I(2))),
  Eq(F1("sum", Cur(<<N(kV), Child(<<SFilter(FCmp(">", FAr("*", At, L(I(2))), L(I(1))))>>)>>)), L(I(3))),
  Eq(FLen(Cur(<<N(kV), Child(<<SFilter(Eq(F1("abs", At), L(I(2))))>>)>>)), L(I(1))),
  FCmp(">", FAr("*", X, L(I(2))), Root(<<N(kB)>>)), Eq(FAr("+", X, Root(<<N(kB)>>)), L(I(3))), Eq(FAr("%", X, L(I(2))), L(I(1))),
  Eq(FNeg(X), L(I(2))), FCmp("<", FNeg(X), W_), FAnd(FCmp(">", FAr("+", X, L(I(1))), L(I(1))), FNot(F2("contains", V, L(Str(sA))))),
  F2("contains", Root(<<N(kA), W, N(kX)>>), W_), F2("contains", V, X), Eq(F1("max", Root(<<N(kA), W, N(kS)>>)), S_),
  Eq(F1("min", Root(<<N(kA), W, N(kS)>>)), S_), Eq(F1("to_number", S_), L(I(12))), Eq(FLen(S_), F1("sum", V)) }
MixQueries == { <<"path", <<N(kA)>>, f, suf>> : f \in MixFilters, suf \in {<<>>, <<N(kX)>>} }
              \cup { <<"path", <<>>, f, <<>>>> : f \in { Eq(F1("sum", At), L(I(0))), Eq(FLen(At), L(I(4))), FCmp(">", F1("abs", At), L(I(1))), Eq(F1("avg", Cur(<<W, N(kX)>>)), L(I(2))) } }
              \cup { <<"desc", f>> : f \in { Eq(F1("abs", X), L(I(2))), Eq(FAr("+", X, L(I(1))), L(I(3))), FCmp(">", F1("sum", V), L(I(2))) } }

\* ---------------------------------------------------------------- family "top"
TopDoc == ObjOf(<<kN, kH, kS, kE, kA, kM, kQ, kO, kP, kZ, kT, kB, kU, kX, kV>>,
                <<I(0 - 2), R(3, 2), Str(sAcB), EmptyArr, A3(I(3), I(0 - 2), I(0)), A2(I(1), Str(sA)), A3(Str(sB), Str(sA), Str(sU)), O1(kA, I(1)),
                  O2(kA, I(1), kB, I(2)), JNull, JBool(TRUE), A3(O1(kX, I(1)), O1(kX, I(3)), O1(kX, I(0 - 2))), Str(sAU), Str(sXx), A2(R(3, 2), R(5, 2))>>)
TopDocs == { TopDoc, A3(I(4), I(1), I(1)), Str(s12), I(0 - 3), EmptyArr }
TopArgs(d) == (IF IsObj(d) THEN { Root(<<N(k)>>) : k \in DOMAIN d[2] } \cup { Root(<<N(kB), W, N(kX)>>), Root(<<N(kY)>>), Cur(<<N(kA)>>), Root(<<N(kA), Ix(0)>>) } ELSE {})
              \cup { Root(<<>>), At, Root(<<W>>) }
TopLitArgs == { L(I(0 - 24)), L(I(0)), L(R(5, 2)), L(R(0 - 5, 2)), L(Str(s12)), L(Str(s15)), L(Str(sM3)), L(Str(sXx)), L(Str(sE)), L(Str(sU)), L(JNull), L(JBool(FALSE)), L(Str(sSp1)) }
TopQueries(d) ==
  { <<"top", F1(f, a), <<>>>> : f \in UnaryFns, a \in TopArgs(d) }
  \cup (IF d = TopDoc THEN
     { <<"top", F1(f, a), <<>>>> : f \in UnaryFns, a \in TopLitArgs }
     \cup { <<"top", F2(f, a, b), <<>>>> : f \in {"contains", "starts_with", "ends_with"}, a \in {Root(<<N(kS)>>), Root(<<N(kU)>>), Root(<<N(kQ)>>), Root(<<N(kN)>>)},
                                       b \in {L(Str(sA)), L(Str(sB)), L(Str(sU)), L(Str(sE)), L(I(3)), Root(<<N(kX)>>)} }
     \cup { <<"top", F2("contains", Root(<<N(kA)>>), b), <<>>>> : b \in {L(I(3)), L(I(1)), L(Str(sA)), Root(<<N(kN)>>), Root(<<N(kA), Ix(1)>>)} }
     \cup { <<"top", F2("tokenize", a, b), sg>> : a \in {Root(<<N(kS)>>), Root(<<N(kU)>>), Root(<<N(kN)>>)}, b \in {L(Str(sC)), L(Str(sU)), L(I(1))},
                                                sg \in {<<>>, <<W>>, <<Ix(0)>>, <<Ix(0 - 1)>>, <<Ix(7)>>} }
     \cup { <<"top", F1("keys", a), sg>> : a \in {Root(<<N(kP)>>), Root(<<N(kO)>>), Root(<<>>)}, sg \in {<<W>>, <<Ix(0)>>} }
     \cup { <<"top", e, <<>>>> : e \in { F1("abs", F1("min", Root(<<N(kA)>>))), F1("ceil", FAr("*", Root(<<N(kH)>>), L(I(3)))), F1("floor", FAr("/", Root(<<N(kN)>>), L(I(4)))),
                                        F1("ceil", FAr("*", L(R(5, 2)), L(I(3)))), F1("abs", FAr("-", L(I(1)), L(I(4)))), F1("abs", FNeg(Root(<<N(kH)>>))),
                                        F1("sum", Root(<<N(kB), Child(<<SFilter(FCmp(">", X, L(I(0))))>>), N(kX)>>)), FLen(F2("tokenize", Root(<<N(kS)>>), L(Str(sC)))),
                                        F1("max", F2("tokenize", Root(<<N(kS)>>), L(Str(sC)))), F1("avg", Root(<<N(kB), W, N(kX)>>)), F1("to_number", F1("max", Root(<<N(kQ)>>))),
                                        F2("contains", F1("keys", Root(<<N(kP)>>)), L(Str(kB))), F1("abs", F1("abs", Root(<<N(kS)>>))),
                                        F2("contains", Root(<<N(kA)>>), F1("abs", Root(<<N(kS)>>))), F1("sum", F1("keys", Root(<<N(kP)>>))), F1("min", F1("keys", Root(<<N(kP)>>))) } }
   ELSE {})

\* ---------------------------------------------------------------- state machine
DocsOf(f) == CASE f = "un" -> UnDocs [] f = "bin" -> BinDocs [] f = "ar" -> ArDocs [] f = "mix" -> MixDocs [] f = "top" -> TopDocs
QueriesOf(f, d) == CASE f = "un" -> UnQueries(d) [] f = "bin" -> BinQueries(d) [] f = "ar" -> ArQueries(d) [] f = "mix" -> MixQueries [] f = "top" -> TopQueries(d)
None == <<"none">>
Init == fam \in Fams /\ doc \in DocsOf(fam) /\ qry = None
Next == qry = None /\ qry' \in QueriesOf(fam, doc) /\ UNCHANGED <<fam, doc>>

\* ---------------------------------------------------------------- suspected-defect classes (tags only)
Segs == CASE qry[1] = "path" -> qry[2] \o <<Child(<<SFilter(qry[3])>>)>> \o qry[4]
          [] qry[1] = "desc" -> <<Desc(<<SFilter(qry[2])>>)>>
TheFilter == IF qry[1] = "path" THEN qry[3] ELSE IF qry[1] = "desc" THEN qry[2] ELSE qry[2]
\* nodes the outermost filter is evaluated for
FilterNodes == CASE qry[1] = "path" -> LET ns == NodesOf(EvalSegs(qry[2], <<MkNode(<<>>, doc)>>, doc)) IN
                                     UNION { { Kids(ns[i])[j] : j \in 1..Len(Kids(ns[i])) } : i \in 1..Len(ns) }
                 [] qry[1] = "desc" -> LET ns == NodesOf(Descend(<<SWild>>, MkNode(<<>>, doc), doc)) IN { ns[i] : i \in 1..Len(ns) }
                 [] qry[1] = "top" -> { MkNode(<<>>, doc) }
IsBinaryE(e) == e[1] \in {"ar", "cmp"}
Immune(inner, outer) == (inner[1] = "ar" /\ outer[1] = "ar") /\ ( (inner[2] = "+" /\ outer[2] \in {"+", "-"}) \/ (inner[2] = "*" /\ outer[2] = "*") )
RECURSIVE SubExprs(_), SegsExprs(_), SameCtx(_)
\* every filter expression occurring in e, including those of filters nested in paths
SubExprs(e) == {e} \cup
  (CASE e[1] \in {"len", "not", "neg"} -> SubExprs(e[2])
     [] e[1] = "fq" -> SubExprs(e[2]) \cup SegsExprs(e[3])
     [] e[1] = "fn" -> UNION { SubExprs(e[3][i]) : i \in 1..Len(e[3]) }
     [] e[1] \in {"ar", "cmp"} -> SubExprs(e[3]) \cup SubExprs(e[4])
     [] e[1] \in {"and", "or"} -> SubExprs(e[2]) \cup SubExprs(e[3])
     [] e[1] \in {"qry", "lenp"} -> SegsExprs(e[3])
     [] OTHER -> {})
SegsExprs(segs) == UNION { IF segs[i][1] = "parent" THEN {}
                           ELSE UNION { IF segs[i][2][j][1] = "filter" THEN SubExprs(segs[i][2][j][2]) ELSE {} : j \in 1..Len(segs[i][2]) }
                         : i \in 1..Len(segs) }
\* the sub-expressions evaluated for the same current node as e
SameCtx(e) == {e} \cup
  (CASE e[1] \in {"len", "not", "neg", "fq"} -> SameCtx(e[2])
     [] e[1] = "fn" -> UNION { SameCtx(e[3][i]) : i \in 1..Len(e[3]) }
     [] e[1] \in {"ar", "cmp"} -> SameCtx(e[3]) \cup SameCtx(e[4])
     [] e[1] \in {"and", "or"} -> SameCtx(e[2]) \cup SameCtx(e[3])
     [] OTHER -> {})
\* (1) binary operators of one level are grouped from the right: a - b - c is evaluated as a - (b - c)
LeftChain == \E e \in SubExprs(TheFilter) : IsBinaryE(e) /\ IsBinaryE(e[3]) /\ Prec(e[3]) = Prec(e) /\ ~Immune(e[3], e)
\* (2) prod of an empty array is a type error instead of null
ProdEmpty == \E e \in SameCtx(TheFilter) : e[1] = "fn" /\ e[2] = "prod" /\
               \E c \in FilterNodes : LET a == FVal(e[3][1], c, doc) IN a # DCV /\ IsArrLike(a) /\ a[2] = <<>>
\* (3) to_number of a string that is not a number gives null instead of a type error (visible where null is a result: "top")
ToNumberNull == qry[1] = "top" /\ \E e \in SameCtx(TheFilter) : e[1] = "fn" /\ e[2] = "to_number" /\
                  LET a == FVal(e[3][1], MkNode(<<>>, doc), doc) IN a # DCV /\ a[1] = "str" /\ ParseNumber(a[2]) = ERRV
DevStruct == (IF LeftChain THEN {"same-level-operators-grouped-from-right"} ELSE {})
             \cup (IF ProdEmpty THEN {"prod-of-empty-array"} ELSE {})
             \cup (IF ToNumberNull THEN {"to_number-unparseable-gives-null"} ELSE {})

\* ---------------------------------------------------------------- emission
StyF1 == [dot |-> TRUE, q |-> "s", sp |-> TRUE, par |-> TRUE, min |-> TRUE, tight |-> FALSE]
StyF2 == [dot |-> FALSE, q |-> "d", sp |-> FALSE, par |-> FALSE, min |-> FALSE, tight |-> TRUE]
StyF3 == [dot |-> TRUE, q |-> "s", sp |-> FALSE, par |-> TRUE, min |-> TRUE, tight |-> TRUE]
StyF4 == [dot |-> FALSE, q |-> "d", sp |-> TRUE, par |-> TRUE, min |-> FALSE, tight |-> FALSE]
Styles == {StyF1, StyF2, StyF3, StyF4}
Texts == IF qry[1] = "top" THEN { ShowTop(qry[2], qry[3], sty) : sty \in Styles } ELSE { Show(Segs, sty) : sty \in Styles }
\* a number literal directly followed by "-"
Hazard(s) == \E i \in 1..(Len(s) - 1) : s[i] >= 48 /\ s[i] <= 57 /\ s[i + 1] = 45

RECURSIVE WireX(_)
WireX(v) == CASE v[1] \in {"arr", "uarr"} -> <<"arr", [i \in 1..Len(v[2]) |-> WireX(v[2][i])]>>
              [] v[1] = "obj" -> LET ks == SetToSeq(DOMAIN v[2]) IN <<"obj", [i \in 1..Len(ks) |-> <<ks[i], WireX(v[2][ks[i]])>>]>>
              [] v[1] = "rat" -> (CASE v[3] = 2 -> <<"dec", v[2] * 5, 0 - 1>> [] v[3] = 4 -> <<"dec", v[2] * 25, 0 - 2>> [] v[3] = 8 -> <<"dec", v[2] * 125, 0 - 3>>)
              [] OTHER -> v
RECURSIVE Wirable(_)
Wirable(v) == CASE v[1] \in {"arr", "uarr"} -> \A i \in 1..Len(v[2]) : Wirable(v[2][i])
                [] v[1] = "obj" -> \A k \in DOMAIN v[2] : Wirable(v[2][k])
                [] v[1] = "rat" -> v[3] \in {2, 4, 8}
                [] OTHER -> TRUE

Marker == JInt(77)
PathCase(ex, dev) ==
  LET raw == EvalRaw(Segs, doc)  ns == NodesOf(raw)  nd == NoDupIdx(ns) IN
  [ m |-> "fn", fam |-> fam, d |-> WireX(doc), ex |-> SetToSeq(ex), dev |-> SetToSeq(dev),
    dc |-> Unconstrained(raw), ord |-> ~OrderOpen(raw),
    r |-> [i \in 1..Len(ns) |-> <<NormPath(NPath(ns[i])), WireX(NVal(ns[i]))>>],
    nd |-> nd, so |-> SortIdx(ns, AllIdx(ns)), ns |-> SortIdx(ns, nd),
    mk |-> WireX(Marker), rep |-> WireX(JPReplace(doc, ns, Marker)) ]
TopCase(ex, dev) ==
  LET t == TopEval(qry[2], qry[3], doc)  ok == \A i \in 1..Len(t.vals) : Wirable(t.vals[i]) IN
  [ m |-> "fntop", fam |-> fam, d |-> WireX(doc), ex |-> SetToSeq(ex), dev |-> SetToSeq(dev), vo |-> TRUE,
    dc |-> t.dc \/ ~ok, ord |-> t.ord, tv |-> IF ok THEN [i \in 1..Len(t.vals) |-> WireX(t.vals[i])] ELSE <<>>,
    r |-> <<>>, nd |-> <<>>, so |-> <<>>, ns |-> <<>>, mk |-> WireX(Marker), rep |-> WireX(doc) ]
CaseOf(ex, dev) == IF qry[1] = "top" THEN TopCase(ex, dev) ELSE PathCase(ex, dev)
Emit == qry # None =>
  LET safe == { s \in Texts : ~Hazard(s) }  haz == { s \in Texts : Hazard(s) } IN
  /\ (safe # {} => PrintT(ToJson(CaseOf(safe, DevStruct))))
  /\ (haz # {} => PrintT(ToJson(CaseOf(haz, DevStruct \cup {"number-minus-nospace"}))))

\* ---------------------------------------------------------------- model-internal obligations
Res == IF qry = None \/ qry[1] = "top" THEN <<>> ELSE NodesOf(EvalRaw(Segs, doc))
PathsResolve == \A i \in 1..Len(Res) : Resolve(doc, NPath(Res[i])) = <<"some", NVal(Res[i])>>
\* every number the evaluator produces is normalised (reduced, positive denominator, integers as "int")
RECURSIVE NormalNum(_)
NormalNum(v) == CASE v[1] = "rat" -> v[3] >= 2 /\ Gcd(AbsI(v[2]), v[3]) = 1
                  [] v[1] \in {"arr", "uarr"} -> \A i \in 1..Len(v[2]) : NormalNum(v[2][i])
                  [] OTHER -> TRUE
NumbersNormal == (qry # None /\ qry[1] = "top") => LET t == TopEval(qry[2], qry[3], doc) IN \A i \in 1..Len(t.vals) : NormalNum(t.vals[i])
\* a filter selects a subsequence of the children it tests: results of "path" queries without suffix are children of the prefix nodes
FilterSelectsKids == (qry # None /\ qry[1] = "path" /\ qry[4] = <<>>) => \A i \in 1..Len(Res) : Res[i] \in FilterNodes
=============================================================================
