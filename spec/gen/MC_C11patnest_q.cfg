INIT Init
NEXT Next
INVARIANTS Emit
CHECK_DEADLOCK FALSE
CONSTANTS
  PlanName = "patnest"
  Ds = {"d4", "d6", "d7", "d2019", "d2020"}
  KnownDeviations = {"ojson-member-order", "not-keeps-annotations", "contains-leaks-child-items", "d4-integer-zero-fraction", "unevaluatedProperties-leaks-child-properties"}
