---------------------------- MODULE C07TokMsgpack ----------------------------
(* STUB - head/payload tokens of the Msgpack token-level generator. *)
MsgpackTokens == { <<0>> }
MsgpackSmallTokens == { <<0>> }
=============================================================================
