INIT Init
NEXT Next
INVARIANT Emit
CHECK_DEADLOCK FALSE
CONSTANTS
  Format = "bson"
  MaxLen = 3
  ExhLen = 1
  Reps = {}
  OnlyAccepted = FALSE
  TokMode = "tok"
