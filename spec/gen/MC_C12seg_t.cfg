INIT Init
NEXT Next
INVARIANTS Emit PathsResolve NormRoundTrip OptionLaws SliceClosedForm ReplaceLaws
CHECK_DEADLOCK FALSE
CONSTANTS
  Mode = "seg"
  MaxSegs = 4
  Big = TRUE
  MaxArr = 5
  InclStepOverflow = FALSE
  InclEmptyArrLenP = FALSE
