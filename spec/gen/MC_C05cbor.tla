----------------------------- MODULE MC_C05cbor -----------------------------
(* C05, CBOR tag family: byte strings for the tagged data items jsoncons     *)
(* interprets (RFC 8949 3.4: date/time 0 1, bignums 2 3, decimal fraction 4, *)
(* bigfloat 5, expected conversions 21-23, embedded CBOR 24, URI 32, base64  *)
(* 33 34, regex 35, MIME 36, self-described 55799; RFC 8746: typed arrays    *)
(* 64-87, multi-dimensional arrays 40 and 1040; stringref 25 / 256) with     *)
(* boundary arguments: extents and exponents at the 2^31 / 2^32 / 2^62 /     *)
(* 2^63 / 2^64 boundaries, byte string lengths around the element sizes,     *)
(* and contents of the wrong kind.  Only the outcome is observed (ApiOutcome)*)
(* - no value is predicted.                                                  *)
EXTENDS Naturals, Sequences, Json, TLC
VARIABLES c, phase

RECURSIVE Cat(_)
Cat(ss) == IF ss = <<>> THEN <<>> ELSE Head(ss) \o Cat(Tail(ss))
RECURSIVE Rep(_, _)
Rep(b, n) == IF n = 0 THEN <<>> ELSE <<b>> \o Rep(b, n - 1)
\* unsigned / negative integers given by their 8 argument bytes, or small
U8(bs) == <<27>> \o bs
N8(bs) == <<59>> \o bs
Sm(n) == <<n>>
NegSm(n) == <<32 + n>>
B8 == { <<0,0,0,0,0,0,0,0>>, <<0,0,0,0,0,0,0,1>>, <<0,0,0,0,0,0,0,4>>, <<0,0,0,0,127,255,255,255>>, <<0,0,0,0,128,0,0,0>>, <<0,0,0,0,255,255,255,255>>,
        <<0,0,0,1,0,0,0,0>>, <<64,0,0,0,0,0,0,1>>, <<127,255,255,255,255,255,255,255>>, <<128,0,0,0,0,0,0,0>>, <<255,255,255,255,255,255,255,255>> }
UInts == { U8(b) : b \in B8 } \cup { Sm(0), Sm(1), Sm(2), Sm(4), Sm(23) }
Ints == UInts \cup { N8(b) : b \in B8 } \cup { NegSm(0), NegSm(1) }
Arr(items) == <<128 + Len(items)>> \o Cat(items)
Bstr(n, fill) == (IF n < 24 THEN <<64 + n>> ELSE <<88, n>>) \o Rep(fill, n)
Tstr(s) == <<96 + Len(s)>> \o s
TagH(t) == IF t < 24 THEN <<192 + t>> ELSE IF t < 256 THEN <<216, t>> ELSE <<217, t \div 256, t % 256>>
Tag(t, item) == TagH(t) \o item
F64One == <<251, 63, 240, 0, 0, 0, 0, 0, 0>>
Others == { Sm(1), NegSm(0), Tstr(<<97>>), Tstr(<<50, 48, 50, 48>>), Bstr(2, 1), F64One, Arr(<<>>), Arr(<<Sm(1), Sm(2)>>), <<246>>, <<160>> }

\* (a) multi-dimensional arrays
Contents == { Tag(64, Bstr(4, 1)), Tag(85, Bstr(8, 0)), Tag(65, Bstr(3, 1)), Arr(<<Sm(1), Sm(2), Sm(3), Sm(4)>>), Arr(<<>>), Sm(7), Tag(64, Bstr(0, 0)) }
ExtSmall == { Sm(0), Sm(1), Sm(2), Sm(4), U8(<<0,0,0,1,0,0,0,0>>), U8(<<64,0,0,0,0,0,0,1>>), U8(<<128,0,0,0,0,0,0,0>>), U8(<<255,255,255,255,255,255,255,255>>), NegSm(0), Tstr(<<97>>) }
Extents == { <<>> } \cup { <<a>> : a \in ExtSmall } \cup { <<a, b>> : a, b \in ExtSmall } \cup { <<a, b, Sm(2)>> : a, b \in {Sm(2), U8(<<64,0,0,0,0,0,0,1>>), U8(<<128,0,0,0,0,0,0,0>>)} }
MultiDim == { Tag(t, Arr(<<Arr(e), x>>)) : t \in {40, 1040}, e \in Extents, x \in Contents }
       \cup { Tag(t, x) : t \in {40, 1040}, x \in {Arr(<<>>), Arr(<<Arr(<<Sm(2)>>)>>), Arr(<<Sm(2), Sm(2)>>), Sm(1), Arr(<<Arr(<<Sm(1)>>), Sm(1), Sm(1)>>)} }
\* (b) typed arrays
Typed == { Tag(t, Bstr(n, 1)) : t \in 64..87, n \in {0, 1, 2, 3, 4, 5, 7, 8, 9, 15, 16, 17, 32} } \cup { Tag(t, x) : t \in {64, 69, 77, 82, 86, 87}, x \in Others }
\* (c) bignums
Bignums == { Tag(t, Bstr(n, f)) : t \in {2, 3}, n \in {0, 1, 8, 9, 16, 24}, f \in {0, 1, 255} } \cup { Tag(t, x) : t \in {2, 3}, x \in Others }
\* (d) decimal fraction / bigfloat
Mantissas == { Sm(0), Sm(1), NegSm(0), U8(<<127,255,255,255,255,255,255,255>>), U8(<<255,255,255,255,255,255,255,255>>), N8(<<255,255,255,255,255,255,255,255>>),
               Tag(2, Bstr(9, 255)), Tag(3, Bstr(9, 255)), Tag(2, Bstr(0, 0)), Tstr(<<49>>), F64One }
Fractions == { Tag(t, Arr(<<e, m>>)) : t \in {4, 5}, e \in Ints, m \in Mantissas }
        \cup { Tag(t, x) : t \in {4, 5}, x \in Others \cup { Arr(<<Sm(1)>>), Arr(<<Sm(1), Sm(1), Sm(1)>>), Arr(<<Tstr(<<97>>), Sm(1)>>) } }
\* (e) other interpreted tags with every kind of content
Plain == { Tag(t, x) : t \in {0, 1, 21, 22, 23, 24, 32, 33, 34, 35, 36, 100, 1004, 55799}, x \in Others \cup { U8(<<255,255,255,255,255,255,255,255>>), N8(<<255,255,255,255,255,255,255,255>>), Bstr(3, 130), Tag(1, Sm(1)) } }
\* (f) string references
Refs == { Tag(256, Arr(pre \o <<Tag(25, i)>>)) : pre \in { <<>>, <<Tstr(<<97, 98, 99>>)>>, <<Tstr(<<97, 98, 99>>), Bstr(3, 1)>> }, i \in UInts \cup {NegSm(0), Tstr(<<97>>)} }
   \cup { Tag(25, Sm(0)), Tag(256, Tag(256, Arr(<<Tstr(<<97, 98, 99>>), Tag(25, Sm(0))>>))), Tag(256, Arr(<<Tstr(<<97, 98, 99>>), Tag(25, Sm(0)), Tag(25, Sm(0))>>)) }
All == MultiDim \cup Typed \cup Bignums \cup Fractions \cup Plain \cup Refs
\* MessagePack timestamp extension (type -1 = 255): timestamp 32 (fixext4), 64 (fixext8: 30-bit nanoseconds, 34-bit seconds), 96 (ext8 of 12 bytes:
\* 32-bit nanoseconds, signed 64-bit seconds) with boundary seconds (-2^63, -1, 0, 2^34-1, 2^63-1) and nanoseconds (0, 999999999, 10^9, 2^32-1), and wrong lengths
S8 == { <<128,0,0,0,0,0,0,0>>, <<255,255,255,255,255,255,255,255>>, <<0,0,0,0,0,0,0,0>>, <<0,0,0,3,255,255,255,255>>, <<127,255,255,255,255,255,255,255>>, <<0,0,0,0,0,0,0,1>> }
N4 == { <<0,0,0,0>>, <<59,154,201,255>>, <<59,154,202,0>>, <<255,255,255,255>>, <<0,0,0,1>> }
MsgTs == { <<199, 12, 255>> \o n \o sec : n \in N4, sec \in S8 }
     \cup { <<215, 255>> \o x : x \in S8 \cup { <<238,107,39,252,0,0,0,1>>, <<238,107,40,0,0,0,0,0>> } }
     \cup { <<214, 255>> \o n : n \in N4 }
     \cup { <<199, k, 255>> \o Rep(1, k) : k \in {0, 1, 5, 11, 13} } \cup { <<212, 255, 1>>, <<213, 255, 1, 2>>, <<216, 255>> \o Rep(1, 16) }
Init == phase = 0 /\ c = [f |-> "none", b |-> <<>>]
Next == /\ phase = 0 /\ phase' = 1
        /\ \/ \E x \in All : c' = [f |-> "cbor", b |-> x]
           \/ \E x \in MsgTs : c' = [f |-> "msgpack", b |-> x]
Emit == phase = 1 => PrintT(ToJson(c))
=============================================================================
