INIT Init
NEXT Next
INVARIANTS Emit RoundTrip Normal OkFits RootKind
CHECK_DEADLOCK FALSE
CONSTANTS
  Budget = 2
  Big = TRUE
  Types = {"OUTER", "PB", "MSSA", "XSD", "SA", "BOXI"}
