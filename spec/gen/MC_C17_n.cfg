INIT Init
NEXT Next
INVARIANTS Emit RoundTrip Normal OkFits RootKind
CHECK_DEADLOCK FALSE
CONSTANTS
  Budget = 1
  Big = FALSE
  Types = {"I8", "I16", "U16", "U32", "I64", "U64", "F32", "F64", "VI64", "VU64", "VF64", "MSU64", "UMSI64", "PUI", "TNUM", "OU64", "VOU64", "VPSU", "AU2", "SPU64", "XUS", "XIF", "NUM", "CGU", "GSA", "SAN", "MX", "CX", "GSX", "SNX", "CGX", "GSNX", "TM", "TMN", "TCN", "TGS", "TGN"}
