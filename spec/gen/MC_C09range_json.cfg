INIT RInit
NEXT RNext
INVARIANT REmit
CHECK_DEADLOCK FALSE
CONSTANTS
  Ordered = FALSE
  NSlots = 3
  Keys = {}
  Lits = {}
  MaxSize = 30
  MaxDepth = 2
