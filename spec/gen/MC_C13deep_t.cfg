INIT Init
NEXT Next
VIEW View
INVARIANTS Emit Identities
CHECK_DEADLOCK FALSE
CONSTANTS
  Mode = "wrap"
  MaxDepth = 3
  WrapSet = "mid"
  SlRange = 2
  EmitAst = FALSE
  ExcludeFilterOnNonArray = TRUE
  ExcludeMergeNoOverride = TRUE
  ExcludeNotBeforePipe = TRUE
  ExcludePipeIntoLiteral = TRUE
