INIT Init
NEXT Next
VIEW View
INVARIANTS Emit Identities
CHECK_DEADLOCK FALSE
CONSTANTS
  Mode = "wrap"
  MaxDepth = 4
  W1 = "mid"
  W2 = "mid"
  W3 = "core"
  SlRange = 2
  EmitAst = FALSE
  KnownDeviations = {"filter-on-non-array", "merge-no-override", "operator-before-pipe", "pipe-into-literal", "argument-context-leak", "projection-skips-null", "sort-singleton", "null-vs-reference-equality", "parenthesised-operand", "multiselect-leading-star", "by-key-error-ignored"}
