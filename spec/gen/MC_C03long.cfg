INIT Init
NEXT Next
INVARIANT Emit
CHECK_DEADLOCK FALSE
