SPECIFICATION Spec
INVARIANTS ScheduleIndependent
CONSTANTS
  Threads = {1, 2}
  Ops = {1, 2}
  Memo = TRUE
  MaxOps = 1
CHECK_DEADLOCK FALSE
