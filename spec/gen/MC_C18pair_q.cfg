INIT Init
NEXT Next
INVARIANTS Emit Law Necessity
CHECK_DEADLOCK FALSE
CONSTANTS
  Family = "pair"
  Delims = {44}
  QEs = {"dd", "db", "ss"}
  Lds = {"lf", "cr"}
  Big = FALSE
