INIT Init
NEXT Next
INVARIANTS Emit Law Necessity
CHECK_DEADLOCK FALSE
CONSTANTS
  Family = "pair"
  Delims = {44, 9}
  QEs = {"dd", "db"}
  Lds = {"lf", "cr"}
  Big = FALSE
