---------------------------- MODULE MC_C08tags ----------------------------
(* C08 "tagged events" family generator.  Event sequences over the grammar  *)
(* of Events.tla (balanced containers, keys alternating with values,        *)
(* container lengths declared rightly, wrongly or not at all) whose value   *)
(* events are the part of the visitor interface that MC_C08 leaves out:     *)
(*   <<"val", <<"tagged", tag, base>>>>   string_value / byte_string_value /*)
(*        uint64_value / int64_value / double_value / half_value carrying a *)
(*        semantic_tag (base = tstr | bstr | uint | nint | f64 | f16); all  *)
(*        combinations the interface accepts, including ones that make no   *)
(*        sense for the kind (bigint on "abc", on bytes, on a double; an    *)
(*        epoch tag on a string)                                            *)
(*   <<"val", <<"f16", b2>>>>             half_value(uint16)                *)
(*   <<"val", <<"ext", tagbytes, bytes>>>> byte_string_value(b, raw_tag)    *)
(*   <<"val", <<"ta", et, elements>>>>    typed_array(span<const T>) /      *)
(*        typed_array(half_arg, span<const uint16_t>), elements as raw      *)
(*        big-endian bit patterns, 0-3 of them                              *)
(*   <<"bmd", order, shape>> item <<"emd">>   begin_multi_dim(shape, tag)   *)
(*        ... end_multi_dim(): exactly one item (the storage: a typed array *)
(*        or a classical array) in between (doc/ref/cbor/typed_arrays.md);  *)
(*        value <<"md", order, shape, data>>                                *)
(* plus untagged NaN / infinities / -0 / 2^64-1.  Each item X stands alone  *)
(* at the root, inside arrays of declared (right, too small, too large) and *)
(* undeclared length, next to another item, twice (string packing), nested, *)
(* and as an object member value.  Every sequence is run through the        *)
(* pushdown automaton of Events.tla (extended here by the multi_dim frame): *)
(* a template that is not grammatical fails the invariant Grammatical.      *)
(*                                                                          *)
(* Case = [ev, v, right, dev]: events, the value they denote, whether every *)
(* declared length is right, and the names of the KNOWN DEVIATION classes   *)
(* (notes/C08tags.md, SUSPECTED DEFECTS; known_findings.jsonl) it is in.    *)
EXTENDS BinTags, Events, Json, TLC
CONSTANTS Big
VARIABLES c, depth

Tg(tag, base) == <<"tagged", tag, base>>
Tx(s) == <<"tstr", s>>
Bx(s) == <<"bstr", s>>
Ux(b) == <<"uint", b>>
Nx(b) == <<"nint", b>>
Dx(b) == <<"f64", b>>
Hx(b) == <<"f16", b>>
Rep(x, n) == [i \in 1..n |-> x]
Neg(s) == <<45>> \o s
Dec(n) == N!ToDec(n)

-----------------------------------------------------------------------------
(* tagged text strings                                                      *)
Abc == <<97, 98, 99>>
BigIntStrs == { <<48>>, <<45, 49>>, Dec(N!Pow2(64)), Neg(Dec(N!Add(N!Pow2(64), <<1>>))),        \* "0" "-1" "18446744073709551616" "-18446744073709551617"
                Abc, <<48, 48, 55>>, <<>> }                                                     \* "abc" "007" "": not an integer / not JSON number syntax / empty
               \cup (IF Big THEN { <<45, 48>>, <<43, 49>>, <<49, 50, 51>>, <<49, 101, 50>> } ELSE {})   \* "-0" "+1" "123" "1e2"
BigDecStrs == { <<50, 55, 51, 46, 49, 53>>, <<45, 49, 46, 53, 101, 45, 51>>, <<49, 69, 43, 50>>,   \* "273.15" "-1.5e-3" "1E+2"
                <<49, 46>>, Abc }                                                               \* "1." "abc"
               \cup (IF Big THEN { <<46, 53>>, <<49, 101, 53>>, <<48, 46, 48>>, <<>> } ELSE {})  \* ".5" "1e5" "0.0" ""
BigFloatStrs == { <<48, 120, 51, 112, 45, 49>>, <<45, 48, 120, 49, 112, 49>>, <<48, 120, 49, 46, 56, 112, 49>>, Abc }   \* "0x3p-1" "-0x1p1" "0x1.8p1" "abc"
DateTimes == { <<50,48,49,51,45,48,51,45,50,49,84,50,48,58,48,52,58,48,48,90>>, <<110, 111, 119>> }                     \* "2013-03-21T20:04:00Z" "now"
Uris == { <<104,116,116,112,58,47,47,97>>, <<>> }                                                                       \* "http://a" ""
EpochStrs == { <<49, 53, 48, 48>>, <<45, 49, 53, 48, 48>>, Abc } \cup (IF Big THEN { <<45, 50, 48, 48, 48>>, <<49, 46, 53>> } ELSE {})   \* "1500" "-1500" "abc" ("-2000" "1.5")
TextLeaves ==
  { Tg("bigint", Tx(s)) : s \in BigIntStrs } \cup { Tg("bigdec", Tx(s)) : s \in BigDecStrs } \cup { Tg("bigfloat", Tx(s)) : s \in BigFloatStrs }
  \cup { Tg("datetime", Tx(s)) : s \in DateTimes } \cup { Tg("uri", Tx(s)) : s \in Uris }
  \cup { Tg("base64", Tx(<<65, 81, 73, 68>>)), Tg("base64", Tx(<<95, 45, 43, 47, 61>>)), Tg("base64url", Tx(<<65, 81, 73, 68>>)), Tg("base16", Tx(<<48, 49, 48, 50>>)) }   \* "AQID" "_-+/=" "0102"
  \cup { Tg(t, Tx(s)) : t \in EpochTags, s \in EpochStrs }

(* byte strings: encoding hints, tags that make no sense, ext (raw) tags     *)
ByteStrs == { <<>>, <<1, 2, 3>>, <<255, 254, 253, 252>> } \cup (IF Big THEN { <<0>>, <<1, 2>>, Rep(255, 24) } ELSE {})
ByteLeaves == { Tg(t, Bx(b)) : t \in {"base16", "base64", "base64url"}, b \in ByteStrs }
              \cup { Bx(b) : b \in ByteStrs }
              \cup { Tg(t, Bx(<<1, 2, 3>>)) : t \in {"bigint", "epoch_second"} \cup (IF Big THEN {"bigdec", "datetime", "uri", "epoch_milli"} ELSE {}) }
ExtTags == { <<>>, <<7>>, <<127>>, <<128>>, <<255>>, <<1, 0>>, <<1, 18>>, <<1, 0, 0, 0, 0>> }      \* 0 7 127 128 255 256 274 2^32
           \cup (IF Big THEN { <<2>>, <<5>>, <<25>>, <<255, 255, 255, 255, 255, 255, 255, 255>> } ELSE {})   \* 2 (CBOR bignum / BSON old binary) 5 25 2^64-1
ExtBytes == { <<>>, <<1, 2, 3>>, <<1, 2, 3, 4>> } \cup (IF Big THEN { <<9>>, Rep(7, 16), Rep(7, 17) } ELSE {})
ExtLeaves == { <<"ext", t, b>> : t \in ExtTags, b \in ExtBytes }

(* integers and doubles                                                      *)
UIntB == { <<>>, <<5, 220>>, <<1, 0, 0, 0, 0>>, <<128, 0, 0, 0, 0, 0, 0, 0>>, Rep(255, 8) }        \* 0 1500 2^32 2^63 2^64-1
         \cup (IF Big THEN { <<1>>, <<255, 255, 255, 255>>, <<127, 255, 255, 255, 255, 255, 255, 255>> } ELSE {})
NIntB == { <<>>, <<5, 219>>, <<127, 255, 255, 255, 255, 255, 255, 255>> }                           \* -1 -1500 -2^63
         \cup (IF Big THEN { <<3, 231>>, <<1, 0, 0, 0, 0>> } ELSE {})                               \* -1000 -(2^32+1)
NaN64 == <<127, 248, 0, 0, 0, 0, 0, 0>>
F64B == { <<63, 248, 0, 0, 0, 0, 0, 0>>, <<191, 248, 0, 0, 0, 0, 0, 0>>, NaN64 }                    \* 1.5 -1.5 NaN
F64Extra == { <<127, 240, 0, 0, 0, 0, 0, 0>>, <<255, 240, 0, 0, 0, 0, 0, 0>>, <<128, 0, 0, 0, 0, 0, 0, 0>>,          \* inf -inf -0.0
              <<65, 212, 82, 217, 236, 32, 0, 0>>, <<126, 55, 228, 60, 136, 0, 117, 156>> }                        \* 1363896240.5 1e300
NumLeaves ==
  { Tg(t, Ux(b)) : t \in EpochTags, b \in UIntB } \cup { Tg(t, Nx(b)) : t \in EpochTags, b \in NIntB } \cup { Tg(t, Dx(b)) : t \in EpochTags, b \in F64B }
  \cup { Dx(b) : b \in {NaN64} \cup F64Extra } \cup { Ux(Rep(255, 8)) }
  \cup { Tg("epoch_second", Dx(<<65, 212, 82, 217, 236, 32, 0, 0>>)), Tg("epoch_milli", Dx(<<255, 240, 0, 0, 0, 0, 0, 0>>)) }
  \cup { Tg("bigint", Ux(<<5>>)), Tg("datetime", Ux(<<5, 220>>)), Tg("bigdec", Nx(<<5, 219>>)), Tg("bigint", Dx(<<63, 248, 0, 0, 0, 0, 0, 0>>)),
         Tg("base64", Ux(<<5>>)), Tg("uri", Dx(<<63, 248, 0, 0, 0, 0, 0, 0>>)) }
  \cup (IF Big THEN { Tg(t, Ux(<<5, 220>>)) : t \in TagNames \ EpochTags } \cup { Tg(t, Dx(b)) : t \in EpochTags, b \in F64Extra } ELSE {})

(* half_value                                                                *)
HalfB == { <<60, 0>>, <<126, 0>>, <<124, 0>>, <<252, 0>>, <<0, 1>>, <<128, 0>>, <<53, 85>> }        \* 1.0 NaN inf -inf 2^-24 -0.0 0.333251953125
HalfLeaves == { Hx(b) : b \in HalfB } \cup { Tg("epoch_second", Hx(<<62, 0>>)) } \cup (IF Big THEN { Tg(t, Hx(<<62, 0>>)) : t \in {"epoch_milli", "bigint"} } ELSE {})

(* typed arrays: 11 element types, 0-3 elements                              *)
Pat(w) == [i \in 1..w |-> i]                              \* 01 02 03 ..: tells the byte orders apart
Ones(w) == Rep(255, w)                                    \* unsigned max / -1
SMin(w) == <<128>> \o Rep(0, w - 1)                        \* signed minimum
Elems(et) == CASE et = "half" -> << <<60, 0>>, <<126, 0>>, <<53, 85>> >>                            \* 1.0 NaN 0.333251953125
               [] et = "f32" -> << <<63, 192, 0, 0>>, <<127, 192, 0, 0>>, <<190, 128, 0, 0>> >>     \* 1.5 NaN -0.25
               [] et = "f64" -> << <<63, 248, 0, 0, 0, 0, 0, 0>>, NaN64, <<191, 248, 0, 0, 0, 0, 0, 0>> >>
               [] OTHER -> << Pat(Width(et)), Ones(Width(et)), SMin(Width(et)) >>
TAs == UNION { { <<"ta", et, SubSeq(Elems(et), 1, n)>> : n \in 0..3 }
               \cup (IF Big THEN { <<"ta", et, <<Elems(et)[2]>>>>, <<"ta", et, <<Elems(et)[3]>>>>, <<"ta", et, <<Elems(et)[3], Elems(et)[1]>>>> } ELSE {})
               : et \in ElemTypes }

Scalars == TextLeaves \cup ByteLeaves \cup ExtLeaves \cup NumLeaves \cup HalfLeaves \cup TAs

-----------------------------------------------------------------------------
(* Items: event sequences that stand for ONE value                           *)
U1 == Ux(<<1>>)
Val(x) == << <<"val", x>> >>
U8(n) == <<"ta", "u8", [i \in 1..n |-> <<i>>]>>
MD(order, shape, data) == << <<"bmd", order, shape>> >> \o data \o << <<"emd">> >>
MDs == { MD("row", <<1, 2>>, Val(U8(2))), MD("col", <<1, 2>>, Val(U8(2))), MD("row", <<>>, Val(U8(0))), MD("row", <<3>>, Val(U8(3))),
         MD("col", <<2>>, Val(<<"ta", "f32", <<<<63, 192, 0, 0>>, <<127, 192, 0, 0>>>>>>)),
         MD("row", <<1>>, << <<"ba", 1>>, <<"val", U1>>, <<"ea">> >>),                              \* classical array storage
         MD("col", <<1>>, << <<"ba", NoLen>>, <<"val", U1>>, <<"ea">> >>) }
       \cup (IF Big THEN { MD("row", <<2, 2>>, Val(U8(2))), MD("row", <<1>>, Val(U1)) } ELSE {})    \* shape / storage mismatch, scalar storage
Items == { Val(x) : x \in Scalars } \cup MDs

(* pairs that share one string / byte string (CBOR string references next   *)
(* to tags)                                                                 *)
B3 == <<1, 2, 3>>
Http == <<104,116,116,112,58,47,47,97>>
PairItems == { <<Val(<<"ext", <<7>>, B3>>), Val(<<"ext", <<9>>, B3>>)>>, <<Val(<<"ext", <<7>>, B3>>), Val(Bx(B3))>>, <<Val(Bx(B3)), Val(<<"ext", <<7>>, B3>>)>>,
               <<Val(Tg("base64", Bx(B3))), Val(Tg("base16", Bx(B3)))>>, <<Val(Tg("base64", Bx(B3))), Val(<<"ext", <<7>>, B3>>)>>,
               <<Val(Tg("uri", Tx(Http))), Val(Tx(Http))>>, <<Val(Tx(Http)), Val(Tg("uri", Tx(Http)))>>, <<Val(Tg("uri", Tx(Http))), Val(Tg("datetime", Tx(Http)))>>,
               <<Val(Tg("bigint", Tx(Dec(N!Pow2(64))))), Val(Bx(<<1, 0, 0, 0, 0, 0, 0, 0, 0>>))>>,        \* the bignum's byte string, then the same bytes untagged
               <<Val(Tx(Abc)), Val(Tg("bigint", Tx(Abc)))>>, <<Val(Tg("epoch_second", Tx(<<49, 53, 48, 48>>))), Val(Tx(<<49, 53, 48, 48>>))>> }

-----------------------------------------------------------------------------
(* Templates: where an item stands                                           *)
KA == <<"key", <<97>>>>
KB == <<"key", <<98>>>>
BA(n) == <<"ba", n>>
BO(n) == <<"bo", n>>
EA == <<"ea">>
EO == <<"eo">>
NTmpl == IF Big THEN 22 ELSE 17
Tmpl(k, X) ==
  CASE k = 1 -> X
    [] k \in 2..5 -> <<BA(<<NoLen, 1, 0, 2>>[k - 1])>> \o X \o <<EA>>                               \* undeclared / right / too small / too large
    [] k \in 6..9 -> <<BO(<<NoLen, 1, 0, 2>>[k - 5]), KA>> \o X \o <<EO>>
    [] k = 10 -> <<BA(NoLen)>> \o X \o Val(U1) \o <<EA>>                                            \* followed by another item: a wrong length / count corrupts the rest
    [] k = 11 -> <<BA(2)>> \o X \o Val(U1) \o <<EA>>
    [] k = 12 -> <<BA(NoLen)>> \o Val(U1) \o X \o <<EA>>
    [] k = 13 -> <<BA(2)>> \o Val(U1) \o X \o <<EA>>
    [] k = 14 -> <<BA(NoLen)>> \o X \o X \o <<EA>>                                                  \* twice (string references when packing)
    [] k = 15 -> <<BA(2)>> \o X \o X \o <<EA>>
    [] k = 16 -> <<BA(NoLen), BA(1)>> \o X \o <<EA, EA>>
    [] k = 17 -> <<BO(2), KA>> \o X \o <<KB>> \o X \o <<EO>>
    [] k = 18 -> <<BO(NoLen), KA, BA(NoLen)>> \o X \o <<EA, EO>>
    [] k = 19 -> <<BO(1), KA, BA(1)>> \o X \o <<EA, EO>>
    [] k = 20 -> <<BA(1), BO(1), KA>> \o X \o <<EO, EA>>
    [] k = 21 -> <<BA(3)>> \o X \o Val(U1) \o <<EA>>                                                \* declared 3, pushed 2
    [] k = 22 -> <<BO(1), KA>> \o X \o <<KB>> \o Val(U1) \o <<EO>>                                  \* declared 1, pushed 2
PairTmpl(k, P) ==
  CASE k = 1 -> <<BA(2)>> \o P[1] \o P[2] \o <<EA>>
    [] k = 2 -> <<BA(NoLen)>> \o P[1] \o P[2] \o <<EA>>
    [] k = 3 -> <<BO(2), KA>> \o P[1] \o <<KB>> \o P[2] \o <<EO>>

-----------------------------------------------------------------------------
(* The pushdown automaton of Events.tla, extended by the multi_dim frame     *)
(* <<"md", items, <<"nokey">>, <<order, shape>>>>: begin_multi_dim may stand *)
(* wherever an array may begin; inside it exactly one array-like item (an    *)
(* array or a typed array; Big also tries a scalar) and then end_multi_dim.  *)
Top(st) == st[Len(st)]
Pop(st) == SubSeq(st, 1, Len(st) - 1)
InMd(st) == st # <<>> /\ Top(st)[1] = "md"
Allowed2(st, done, e) ==
  IF done THEN FALSE
  ELSE IF InMd(st) THEN (IF Top(st)[2] = <<>> THEN e[1] \in {"ba", "val"} ELSE e[1] = "emd")
  ELSE IF e[1] = "emd" THEN FALSE
  ELSE IF e[1] = "bmd" THEN Allowed(st, done, <<"ba", NoLen>>)
  ELSE Allowed(st, done, e)
Deliver2(st, v) ==
  IF InMd(st) THEN <<[st EXCEPT ![Len(st)] = <<"md", Append(Top(st)[2], v), Top(st)[3], Top(st)[4]>>], FALSE, <<"none">>>>
  ELSE Deliver(st, v)
Step2(st, e) ==
  CASE e[1] = "bmd" -> <<Append(st, <<"md", <<>>, <<"nokey">>, <<e[2], e[3]>>>>), FALSE, <<"none">>>>
    [] e[1] = "emd" -> Deliver2(Pop(st), <<"md", Top(st)[4][1], Top(st)[4][2], Top(st)[2][1]>>)
    [] e[1] = "val" -> Deliver2(st, e[2])
    [] e[1] = "ea" -> Deliver2(Pop(st), <<"arr", Top(st)[2]>>)
    [] e[1] = "eo" -> Deliver2(Pop(st), <<"map", Top(st)[2]>>)
    [] OTHER -> Step(st, e)                                                                         \* ba, bo, key
RECURSIVE Run(_, _, _, _, _)
Run(evs, i, st, done, res) ==      \* <<grammatical and complete, value>>
  IF i > Len(evs) THEN <<done, res>>
  ELSE IF ~Allowed2(st, done, evs[i]) THEN <<FALSE, <<"none">>>>
  ELSE LET r == Step2(st, evs[i]) IN Run(evs, i + 1, r[1], r[2], r[3])
\* declared lengths: begin_multi_dim declares nothing the caller could get wrong
Plainify(evs) == [i \in 1..Len(evs) |-> IF evs[i][1] = "bmd" THEN <<"ba", NoLen>> ELSE IF evs[i][1] = "emd" THEN <<"ea">> ELSE evs[i]]

-----------------------------------------------------------------------------
(* KNOWN DEVIATIONS of the pinned jsoncons (one name per root cause; see     *)
(* notes/C08tags.md).  A case in a class carries its name in `dev`; the      *)
(* check still validates it and reports a refused line under that name.      *)
SubSecond(tag, base) ==
  LET e == EpochInt(base) IN
  e[1] = "ok" /\ (IF tag = "epoch_milli" THEN N!DivSmall(e[2][2], 1000)[2] # 0
                  ELSE tag = "epoch_nano" /\ (N!DivSmall(e[2][2], 1000)[2] # 0 \/ N!DivSmall(N!DivSmall(e[2][2], 1000)[1], 1000)[2] # 0
                                                \/ N!DivSmall(N!DivSmall(N!DivSmall(e[2][2], 1000)[1], 1000)[1], 1000)[2] # 0))
LeafDev(x) ==
  IF x[1] # "tagged" THEN {}
  ELSE LET tag == x[2]  base == x[3] IN
    (IF tag \in {"bigint", "bigdec"} /\ base[1] = "tstr" /\ ~U!JsonNumber(base[2]) THEN {"json-bignum-raw-unvalidated", "ubjson-hpn-unvalidated"} ELSE {})
    \cup (IF tag = "bigint" /\ base[1] = "tstr" /\ DecInt(base[2])[1] = "bad" THEN {"cbor-bigint-foreign-exception"} ELSE {})
    \cup (IF tag \in {"epoch_milli", "epoch_nano"} /\ EpochInt(base)[1] = "ok" /\ EpochInt(base)[2][1] /\ SubSecond(tag, base) THEN {"msgpack-timestamp-negative-subsecond"} ELSE {})
RECURSIVE DevOf(_), ExtsOf(_)
DevOf(v) == CASE v[1] = "arr" -> UNION { DevOf(v[2][k]) : k \in 1..Len(v[2]) }
              [] v[1] = "map" -> UNION { DevOf(v[2][k][2]) : k \in 1..Len(v[2]) }
              [] v[1] = "md" -> DevOf(v[4])
              [] OTHER -> LeafDev(v)
\* byte strings (3 bytes and more) in order, each with whether it was pushed with a raw (ext) tag
ExtsOf(v) == CASE v[1] = "arr" -> IF v[2] = <<>> THEN <<>> ELSE ExtsOf(v[2][1]) \o ExtsOf(<<"arr", Tail(v[2])>>)
               [] v[1] = "map" -> IF v[2] = <<>> THEN <<>> ELSE ExtsOf(v[2][1][2]) \o ExtsOf(<<"map", Tail(v[2])>>)
               [] v[1] = "ext" -> IF Len(v[3]) >= 3 THEN << <<TRUE, v[3]>> >> ELSE <<>>
               [] v[1] = "bstr" -> IF Len(v[2]) >= 3 THEN << <<FALSE, v[2]>> >> ELSE <<>>
               [] v[1] = "tagged" /\ v[3][1] = "bstr" -> IF Len(v[3][2]) >= 3 THEN << <<FALSE, v[3][2]>> >> ELSE <<>>
               [] OTHER -> <<>>
\* a raw-tagged byte string whose bytes occurred before: written as a bare string reference
ExtRepeated(v) == LET s == ExtsOf(v) IN \E i, j \in 1..Len(s) : i < j /\ s[j][1] /\ s[i][2] = s[j][2]
Dev(v) == DevOf(v) \cup (IF ExtRepeated(v) THEN {"cbor-packed-ext-tag-dropped"} ELSE {})

Case(evs) == LET r == Run(evs, 1, InitStack, FALSE, <<"none">>) IN
             [ok |-> r[1], ev |-> evs, v |-> r[2], right |-> LengthsRight(Plainify(evs), 1, <<>>), dev |-> IF r[1] THEN Dev(r[2]) ELSE {}]

Init == c = [ok |-> TRUE, ev |-> <<>>] /\ depth = 0
Next == /\ depth = 0 /\ depth' = 1
        /\ \/ \E X \in Items, k \in 1..NTmpl : c' = Case(Tmpl(k, X))
           \/ \E P \in PairItems, k \in 1..3 : c' = Case(PairTmpl(k, P))
Grammatical == c.ok
Emit == depth = 1 => PrintT(ToJson([ev |-> c.ev, v |-> c.v, right |-> c.right, dev |-> c.dev]))
=============================================================================
