INIT Init
NEXT Next
INVARIANTS TypeOK Propagates
CHECK_DEADLOCK FALSE
