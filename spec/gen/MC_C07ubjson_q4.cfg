INIT Init
NEXT Next
INVARIANT Emit
CHECK_DEADLOCK FALSE
CONSTANTS
  Format = "ubjson"
  MaxLen = 6
  ExhLen = 0
  Reps = {91, 123, 36, 35, 105, 1, 90, 93}
  OnlyAccepted = FALSE
  TokMode = "bytes"
