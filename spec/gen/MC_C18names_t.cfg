INIT Init
NEXT Next
INVARIANTS Emit Law Necessity
CHECK_DEADLOCK FALSE
CONSTANTS
  Family = "names"
  Delims = {44, 9}
  QEs = {"dd", "db", "ss"}
  Lds = {"lf", "crlf"}
  Big = TRUE
