CONSTANTS
 MaxExp = 120
INIT Init
NEXT Next
INVARIANT Emit
CHECK_DEADLOCK FALSE
