INIT Init
NEXT Next
VIEW View
INVARIANTS Emit Identities
CHECK_DEADLOCK FALSE
CONSTANTS
  Mode = "fn"
  MaxDepth = 2
  WrapSet = "core"
  SlRange = 2
  EmitAst = FALSE
  ExcludeFilterOnNonArray = TRUE
  ExcludeMergeNoOverride = TRUE
  ExcludeNotBeforePipe = TRUE
  ExcludePipeIntoLiteral = TRUE
