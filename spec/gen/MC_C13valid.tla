---------------------------- MODULE MC_C13valid ----------------------------
(* Validation of spec/Jmespath.tla against the official compliance suite    *)
(* (MC_C13corpus, generated).  For every corpus case the evaluator must     *)
(* return the expected value, or the expected error class; a don't-care     *)
(* outcome is reported (and counted by the driver) but is not a mismatch.   *)
(* Numbers with a fraction / exponent are exact decimals <<"dec", m, e>>    *)
(* (documents, literals and expected results; compared by value).           *)
(* Every disagreement is printed as one JSON line; the driver requires none.*)
EXTENDS Jmespath, MC_C13corpus, Json
VARIABLE i
Init == i = 0
Next == i < CorpusSize /\ i' = i + 1
Agree(c, r) == IF c.res[1] = "err" THEN r = c.res ELSE r = NormV(c.res)
Check == i >= 1 =>
  LET c == Corpus(i)
      r == SearchN(c.ast, c.doc)
      r2 == SearchDescN(c.ast, c.doc)
  IN IF r[1] = "dc" THEN PrintT(ToJson([k |-> "dc", tag |-> c.tag, why |-> r[2]]))
     ELSE IF Agree(c, r) \/ Agree(c, r2) THEN TRUE
     ELSE PrintT(ToJson([k |-> "mismatch", tag |-> c.tag, got |-> IF Abn(r) THEN r ELSE Wire(r)]))
=============================================================================
