---------------------------- MODULE C07RepUbjson ----------------------------
(* STUB - length-boundary inputs of Ubjson (see C07RepCbor.tla). *)
UbjsonRepInputs == { <<0>> }
=============================================================================
