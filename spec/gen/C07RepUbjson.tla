---------------------------- MODULE C07RepUbjson ----------------------------
(* Length-boundary inputs for UBJSON (Draft 12): every length-carrying head *)
(* form (string, high-precision number, '#' count of arrays and objects,    *)
(* '$'+'#' strongly typed containers) with its length in each of the five   *)
(* integer types at the boundary counts of that width, followed by exactly  *)
(* / one fewer / one more elements (symbolic repetition); plus uncounted    *)
(* containers of the same sizes.  Objects have DISTINCT two-character keys. *)
(* Every input stays below 2000 bytes.  Used by MC_C07 in TokMode "rep".    *)
EXTENDS Naturals, Sequences
LOCAL URep(x, n) == [i \in 1..(n * Len(x)) |-> x[((i - 1) % Len(x)) + 1]]
LOCAL UBE(n, w) == [i \in 1..w |-> (n \div (256 ^ (w - i))) % 256]
\* the count n (< 2^16) as an integer of type marker m: i U I l L
LOCAL ULen(n, m) == CASE m = 105 -> <<105, n>> [] m = 85 -> <<85, n>> [] m = 73 -> <<73>> \o UBE(n, 2)
                      [] m = 108 -> <<108, 0, 0>> \o UBE(n, 2) [] m = 76 -> <<76, 0, 0, 0, 0, 0, 0>> \o UBE(n, 2)
\* n members with distinct keys "@@", "@A", ... ; key = [i][2][c1][c2]; the value bytes are vb (possibly empty)
LOCAL UPairs(n, vb) == IF n = 0 THEN <<>>
                       ELSE LET w == 4 + Len(vb) IN
                            [i \in 1..(n * w) |-> LET p == (i - 1) \div w  q == (i - 1) % w IN
                               IF q = 0 THEN 105 ELSE IF q = 1 THEN 2 ELSE IF q = 2 THEN 64 + (p \div 60) ELSE IF q = 3 THEN 64 + (p % 60) ELSE vb[q - 3]]
\* <<count, integer type marker>>: every width, at the boundary counts of the width (int8 max 127, uint8 max 255)
LOCAL UCounts == { <<0, 105>>, <<1, 105>>, <<126, 105>>, <<127, 105>>,
                   <<0, 85>>, <<127, 85>>, <<128, 85>>, <<254, 85>>, <<255, 85>>,
                   <<1, 73>>, <<128, 73>>, <<255, 73>>, <<256, 73>>, <<257, 73>>,
                   <<1, 108>>, <<256, 108>>, <<1, 76>>, <<256, 76>> }
\* containers cost TLC ~2 ms per element and case (single worker), so they get fewer counts:
LOCAL UBig == { <<255, 85>>, <<256, 73>> }                                                   \* exactly / one fewer (objects: exactly)
LOCAL USmall == { <<0, 105>>, <<1, 105>>, <<2, 85>>, <<1, 73>>, <<2, 108>>, <<1, 76>> }      \* exactly / one fewer / one more
LOCAL UAdj(n) == {n} \cup (IF n > 0 THEN {n - 1} ELSE {}) \cup {n + 1}
LOCAL ULow(n) == {n} \cup (IF n > 0 THEN {n - 1} ELSE {})
\* container head h, element e: all small counts, the big counts
LOCAL UArr(h, e) == UNION { { h \o ULen(c[1], c[2]) \o URep(e, k) : k \in UAdj(c[1]) } : c \in USmall } \cup
                    UNION { { h \o ULen(c[1], c[2]) \o URep(e, k) : k \in ULow(c[1]) } : c \in UBig }
LOCAL UArrS(h, e) == UNION { { h \o ULen(c[1], c[2]) \o URep(e, k) : k \in UAdj(c[1]) } : c \in USmall }
LOCAL UObj(h, vb) == UNION { { h \o ULen(c[1], c[2]) \o UPairs(k, vb) : k \in UAdj(c[1]) } : c \in USmall } \cup
                     { h \o ULen(c[1], c[2]) \o UPairs(c[1], vb) : c \in UBig }
UbjsonRepInputs ==
  UNION { { <<83>> \o ULen(c[1], c[2]) \o URep(<<97>>, k) : k \in UAdj(c[1]) } : c \in UCounts } \cup     \* S  strings
  UNION { { <<72>> \o ULen(c[1], c[2]) \o URep(<<49>>, k) : k \in UAdj(c[1]) } : c \in UCounts } \cup     \* H  digit runs
  UArr(<<91, 35>>, <<105, 5>>) \cup                                      \* [# n  of int8 items
  UNION { { <<91, 35>> \o ULen(c[1], c[2]) \o URep(<<90>>, k) : k \in ULow(c[1]) } : c \in {<<127, 105>>, <<128, 85>>} } \cup   \* [# 127 / 128 nulls
  UArr(<<91, 36, 105, 35>>, <<251>>) \cup                                \* [$i# n  (-5 each)
  UArrS(<<91, 36, 85, 35>>, <<200>>) \cup                                \* [$U# n
  UArrS(<<91, 36, 73, 35>>, <<255, 0>>) \cup                             \* [$I# n  (-256 each)
  UArrS(<<91, 36, 83, 35>>, <<105, 1, 97>>) \cup                         \* [$S# n
  UArrS(<<91, 36, 67, 35>>, <<97>>) \cup                                 \* [$C# n
  UArrS(<<91, 36, 100, 35>>, <<63, 128, 0, 0>>) \cup                     \* [$d# n
  UArrS(<<91, 36, 68, 35>>, <<63, 240, 0, 0, 0, 0, 0, 0>>) \cup          \* [$D# n
  UArrS(<<91, 36, 91, 35>>, <<93>>) \cup                                 \* [$[# n  of empty arrays
  { <<91, 36, t, 35>> \o ULen(c[1], c[2]) : t \in {90, 84, 70}, c \in UCounts \cup {<<300, 73>>, <<301, 73>>, <<1000, 108>>} } \cup   \* [$Z# n, [$T# n, [$F# n
  UObj(<<123, 35>>, <<84>>) \cup                                         \* {# n  distinct keys : true
  UObj(<<123, 36, 105, 35>>, <<7>>) \cup                                 \* {$i# n
  UArrS(<<123, 36, 90, 35>>, <<105, 1, 97>>) \cup                        \* {$Z# n  keys only (equal keys)
  { <<123, 36, 90, 35>> \o ULen(c[1], c[2]) \o UPairs(c[1], <<>>) : c \in USmall \cup {<<64, 105>>} } \cup   \* {$Z# n  distinct keys
  { <<91, 36, 90, 35, 108, 0, 1, 0, 0>>, <<91, 36, 84, 35, 108, 0, 0, 128, 0>>, <<91, 36, 78, 35, 108, 0, 1, 0, 0>> } \cup      \* [$Z#l 65536, [$T#l 32768, [$N#l 65536
  { <<91>> \o URep(<<105, 5>>, k) \o <<93>> : k \in {0, 1, 2, 255, 256} } \cup       \* [ ... ]
  { <<91>> \o URep(<<105, 5>>, k) : k \in {0, 1, 128} } \cup                         \* [ ... without end marker
  { <<91>> \o URep(<<78, 90>>, k) \o <<93>> : k \in {1, 128} } \cup                  \* [ N Z N Z ... ]
  { <<123>> \o UPairs(k, <<84>>) \o <<125>> : k \in {0, 1, 2, 256} } \cup        \* { ... }
  { <<123>> \o UPairs(k, <<84>>) : k \in {0, 1, 128} }
=============================================================================
