---------------------------- MODULE MC_C19model ----------------------------
(* Model-internal check of AllocLedger: with the actions as the only way to   *)
(* change the ledger, a run that ends in Destroyed has returned every block   *)
(* (no leak), and a failed operation is always reported as bad_alloc.         *)
EXTENDS AllocLedger, TLC
Ids == 1..3
Init == live = Empty /\ inop = FALSE /\ failed = FALSE /\ ended = "none"
Next == \/ \E i \in Ids, s \in {8, 16}, a \in {1, 2} : Alloc(i, s, a) \/ Free(i, s, a)
        \/ OpBegin \/ InjectFailure \/ \E o \in {"ok", "bad_alloc"} : OpEnd(o)
        \/ \E u \in BOOLEAN, sm \in BOOLEAN, st \in BOOLEAN : Probe(u, sm, st)
        \/ Destroyed
TypeOK == /\ \A i \in DOMAIN live : live[i][1] \in {8, 16} /\ live[i][2] \in {1, 2}
          /\ (ended = "ok" => ~failed \/ inop)
Propagates == (ended = "bad_alloc" /\ ~inop) => failed
=============================================================================
