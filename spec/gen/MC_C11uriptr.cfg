CONSTANTS
 MaxSegs = 0
 PtrMode = TRUE
 Nested = FALSE
INIT Init
NEXT Next
INVARIANT Emit
CHECK_DEADLOCK FALSE
