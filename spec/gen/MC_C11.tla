------------------------------ MODULE MC_C11 ------------------------------
(* C11 generators (bounded-exhaustive, BFS).                                *)
(*                                                                          *)
(* A state is (dialect, schema document, pc).  The schema is grown by the   *)
(* grammar actions of a PLAN (constant Plan, a sequence of step names):     *)
(*    "add:<alphabet>"   AddKeyword - add one keyword (with its value) from *)
(*                       the named alphabet to the root schema object       *)
(*    "nest:<alphabet>"  Nest - make the current schema a subschema of a    *)
(*                       new root through an applicator of the alphabet     *)
(*                       (siblings / partner subschemas from a small filler *)
(*                       set); "$defs"/"definitions" of the old root are    *)
(*                       hoisted so that references keep resolving.  The    *)
(*                       "ref" wrappers are AddDef+Ref: the schema moves    *)
(*                       into $defs/definitions (or gets an anchor) and is  *)
(*                       used through "$ref", once or twice (sharing).      *)
(* Every state reached after >= 1 step whose references all resolve is      *)
(* emitted as one case: the schema, and the verdict JsonSchema!Valid        *)
(* predicts for every instance of the fixed base universe (BaseSeq) and for *)
(* the instances steered from the constants of the schema itself (Steer:    *)
(* c-1, c, c+1 for every size bound c; for every numeric bound c - integer  *)
(* or decimal - floor(c), ceil(c) and their neighbours, floor / ceil as     *)
(* integer-valued decimals, c, c -+ 0.5 (NumAround); multiples and          *)
(* non-multiples of every divisor (MultAround); the enum / const values in  *)
(* both spellings of their numbers (1 / 1.0, Respell); arrays that mix the  *)
(* spellings for uniqueItems; objects with and without each required        *)
(* member; and the same one level down through every applicator).           *)
(* Verdict codes: 1 valid, 0 invalid, 2 not run (reference loop), 3 run but  *)
(* not compared (multipleOf on numbers binary floating point cannot          *)
(* represent exactly, FpDontCare).                                           *)
(*                                                                          *)
(* Mode "base" emits the base instance table only.                          *)
(*                                                                          *)
(* Model-internal obligations (invariant Identities, same runs): for the    *)
(* generated schema s and every instance v                                  *)
(*    not not s == s,  allOf[s] == anyOf[s] == oneOf[s] == s,               *)
(*    allOf[s, true] == s,  anyOf[s, false] == s,  oneOf[s, s] fails,       *)
(*    if s then true else false == s,   (dialects that have the keywords)   *)
(*    a reference to s through $defs / definitions == s.                    *)
(* (checked on a sample of the base universe, in the "atoms" and "ident"    *)
(* configurations)                                                          *)
(*                                                                          *)
(* Field "dev" of a case lists the known-deviation classes (KnownDeviations,*)
(* notes/C11.md) whose trigger predicate the schema satisfies;              *)
(* classification only - it never changes a prediction.                     *)
EXTENDS JsonSchema, Json
CONSTANTS PlanName, Ds, KnownDeviations
VARIABLES d, s, pc, sh

A == <<97>>  B == <<98>>  C == <<99>>  D == <<100>>  X == <<120>>
I(n) == JInt(n)
Neg(n) == 0 - n
Tn(m) == JDec(m, 0 - 1)         \* m tenths:     Tn(25) is 2.5, Tn(10) is 1.0 (the number 1 written with a fraction part)
Hd(m) == JDec(m, 0 - 2)         \* m hundredths: Hd(125) is 1.25, Hd(150) is 1.50
Str(name) == JStr(S(name))
Ar(q) == JArr(q)
O1(k, v) == JObj(k :> v)
O2(k1, v1, k2, v2) == JObj((k1 :> v1) @@ (k2 :> v2))
O3(k1, v1, k2, v2, k3, v3) == JObj((k1 :> v1) @@ (k2 :> v2) @@ (k3 :> v3))
K1(k, v) == O1(S(k), v)
K2(k1, v1, k2, v2) == O2(S(k1), v1, S(k2), v2)
K3(k1, v1, k2, v2, k3, v3) == O3(S(k1), v1, S(k2), v2, S(k3), v3)
T == JBool(TRUE)
F == JBool(FALSE)
Astral == <<65536>>             \* one character; 2 UTF-16 units; 4 UTF-8 bytes
EAcute == <<233>>

-----------------------------------------------------------------------------
(* Base instance universe (every JSON type; numbers -1..3; strings of 0..3  *)
(* characters incl. non-ASCII and astral ones; arrays of 0..3 elements with *)
(* and without duplicates; objects over the member names a, b, c with 0..3  *)
(* members; one level of nesting; at the end the decimals 1.0 and 1.5, the  *)
(* array [1, 1.0] and the object {"a": 1.0}: every schema meets an          *)
(* integer-valued decimal beside the integer of the same value).            *)
BaseSeq == <<
  JNull, T, F, I(Neg(1)), I(0), I(1), I(2), I(3), I(4),
  JStr(<<>>), JStr(A), JStr(B), JStr(<<97, 98>>), JStr(<<97, 98, 99>>), JStr(Astral), JStr(<<233, 65536>>),
  EmptyArr, Ar(<<I(0)>>), Ar(<<I(1)>>), Ar(<<I(2)>>), Ar(<<JStr(A)>>), Ar(<<JNull>>),
  Ar(<<I(0), I(0)>>), Ar(<<I(0), I(1)>>), Ar(<<I(1), I(1)>>), Ar(<<I(1), JStr(A)>>), Ar(<<JStr(A), I(1)>>), Ar(<<I(2), I(1)>>),
  Ar(<<I(0), I(1), I(2)>>), Ar(<<I(1), I(2), I(1)>>), Ar(<<I(1), I(1), JStr(A)>>),
  Ar(<<I(0), F>>), Ar(<<T, I(1)>>),
  Ar(<<EmptyArr>>), Ar(<<Ar(<<I(0)>>)>>), Ar(<<EmptyObj>>), Ar(<<O1(A, I(1))>>), Ar(<<O2(A, I(1), B, I(1)), O2(A, I(1), B, I(1))>>),
  EmptyObj, O1(A, I(0)), O1(A, I(1)), O1(A, I(2)), O1(A, JStr(A)), O1(A, JNull), O1(B, I(1)), O1(B, JStr(A)), O1(C, I(1)),
  O2(A, I(1), B, I(1)), O2(A, I(1), B, JStr(A)), O2(A, JStr(A), B, I(1)), O2(A, I(1), C, I(1)), O2(B, I(1), C, I(1)), O2(A, I(0), B, I(2)),
  O3(A, I(1), B, I(1), C, I(1)), O3(A, I(1), B, I(1), C, JStr(A)),
  O1(A, EmptyObj), O1(A, O1(A, I(1))), O1(A, EmptyArr), O1(A, Ar(<<I(1)>>)), O1(A, Ar(<<I(0), I(0)>>)), O1(A, O1(B, I(1))),
  Tn(10), Tn(15), Ar(<<I(1), Tn(10)>>), O1(A, Tn(10))
>>
BaseSet == { BaseSeq[j] : j \in 1..Len(BaseSeq) }

-----------------------------------------------------------------------------
(* Filler subschemas (partners and slot values of keyword alphabets).       *)
True(dd) == IF Rank(dd) >= 6 THEN T ELSE EmptyObj
False(dd) == IF Rank(dd) >= 6 THEN F ELSE K1("not", EmptyObj)
TInt == K1("type", Str("integer"))
TStr == K1("type", Str("string"))
Min1 == K1("minimum", I(1))
Fill(dd, lvl) ==
  CASE lvl = "core" -> {TInt, False(dd)}
    [] lvl = "mid" -> {TInt, False(dd), True(dd), Min1}
    [] lvl = "full" -> {TInt, False(dd), True(dd), Min1, TStr, EmptyObj, K1("required", Ar(<<JStr(A)>>)), K1("maxLength", I(1)),
                        K1("enum", Ar(<<I(1), JStr(A)>>))}

-----------------------------------------------------------------------------
(* Keyword alphabets: sets of <<keyword, value>>.                           *)
TypeNames == {"null", "boolean", "integer", "number", "string", "array", "object"}
Asrt(dd, lvl) ==
  LET r == Rank(dd)
      full == lvl = "full"
      mid == lvl \in {"full", "mid"}
  IN
  \* type
  { <<"type", Str(t)>> : t \in (IF mid THEN TypeNames ELSE {"integer", "object"}) }
  \cup (IF full THEN { <<"type", Ar(<<Str("integer"), Str("string")>>)>>, <<"type", Ar(<<Str("null"), Str("array")>>)>>,
                       <<"type", Ar(<<Str("object"), Str("boolean"), Str("number")>>)>>, <<"type", Ar(<<Str("string")>>)>> } ELSE {})
  \* enum / const: scalars, containers, objects with two members (order-insensitive equality)
  \cup { <<"enum", Ar(<<I(1), JStr(A)>>)>> }
  \cup (IF mid THEN { <<"enum", Ar(<<I(0)>>)>>, <<"enum", Ar(<<JNull, T>>)>>, <<"enum", Ar(<<Ar(<<I(0)>>), O1(A, I(0))>>)>>,
                      <<"enum", Ar(<<O2(A, I(1), B, I(1)), EmptyArr>>)>> } ELSE {})
  \cup (IF full THEN { <<"enum", Ar(<<F, I(0), JStr(<<>>), EmptyObj>>)>>, <<"enum", Ar(<<Ar(<<I(0), I(1)>>), Ar(<<O1(A, I(1))>>)>>)>> } ELSE {})
  \cup (IF r >= 6 THEN { <<"const", I(1)>> }
                       \cup (IF mid THEN { <<"const", JStr(A)>>, <<"const", JNull>>, <<"const", O2(A, I(1), B, I(1))>>, <<"const", Ar(<<I(0), I(1)>>)>> } ELSE {})
                       \cup (IF full THEN { <<"const", F>>, <<"const", I(0)>>, <<"const", EmptyArr>>, <<"const", EmptyObj>>, <<"const", O1(A, Ar(<<I(1)>>))>>,
                                            <<"const", JStr(Astral)>> } ELSE {})
        ELSE {})
  \* numeric
  \cup { <<"minimum", I(1)>>, <<"maximum", I(1)>> }
  \cup (IF mid THEN { <<"multipleOf", I(2)>>, <<"minimum", I(0)>>, <<"maximum", I(2)>> } ELSE {})
  \cup (IF full THEN { <<"multipleOf", I(1)>>, <<"multipleOf", I(3)>>, <<"minimum", I(2)>>, <<"maximum", I(0)>>, <<"minimum", I(Neg(1))>> } ELSE {})
  \cup (IF r >= 6 THEN (IF mid THEN { <<"exclusiveMinimum", I(1)>>, <<"exclusiveMaximum", I(1)>> } ELSE {})
                       \cup (IF full THEN { <<"exclusiveMinimum", I(0)>>, <<"exclusiveMaximum", I(2)>>, <<"exclusiveMaximum", I(0)>> } ELSE {})
        ELSE (IF mid THEN { <<"exclusiveMinimum", T>>, <<"exclusiveMaximum", T>> } ELSE {})
             \cup (IF full THEN { <<"exclusiveMinimum", F>>, <<"exclusiveMaximum", F>> } ELSE {}))
  \* strings
  \cup (IF mid THEN { <<"maxLength", I(1)>>, <<"minLength", I(2)>> } ELSE {})
  \cup (IF full THEN { <<"maxLength", I(0)>>, <<"maxLength", I(2)>>, <<"minLength", I(0)>>, <<"minLength", I(1)>>, <<"minLength", I(3)>> } ELSE {})
  \* arrays
  \cup { <<"uniqueItems", T>> }
  \cup (IF mid THEN { <<"maxItems", I(1)>>, <<"minItems", I(2)>> } ELSE {})
  \cup (IF full THEN { <<"maxItems", I(0)>>, <<"maxItems", I(2)>>, <<"minItems", I(0)>>, <<"minItems", I(1)>>, <<"minItems", I(3)>>, <<"uniqueItems", F>> } ELSE {})
  \* objects
  \cup { <<"required", Ar(<<JStr(A)>>)>> }
  \cup (IF mid THEN { <<"maxProperties", I(1)>>, <<"minProperties", I(2)>>, <<"required", Ar(<<JStr(A), JStr(B)>>)>> } ELSE {})
  \cup (IF full THEN { <<"maxProperties", I(0)>>, <<"maxProperties", I(2)>>, <<"minProperties", I(0)>>, <<"minProperties", I(1)>>, <<"minProperties", I(3)>>,
                       <<"required", Ar(<<JStr(C)>>)>>, <<"required", Ar(<<JStr(B), JStr(A), JStr(C)>>)>> }
                     \cup (IF r >= 6 THEN { <<"required", EmptyArr>> } ELSE {}) ELSE {})
  \cup (IF r >= 8 THEN (IF mid THEN { <<"dependentRequired", O1(A, Ar(<<JStr(B)>>))>>,
                                        <<"dependentRequired", O2(A, Ar(<<JStr(B)>>), C, Ar(<<JStr(D)>>))>>,      \* several triggers: every present one counts
                                        <<"dependentRequired", O2(B, Ar(<<JStr(A)>>), C, Ar(<<JStr(A), JStr(D)>>))>> } ELSE {})
                       \cup (IF full THEN { <<"dependentRequired", O3(A, Ar(<<JStr(B)>>), B, Ar(<<JStr(C)>>), C, Ar(<<JStr(D)>>))>> } ELSE {})
                       \cup (IF full THEN { <<"dependentRequired", O1(A, EmptyArr)>>, <<"dependentRequired", O2(A, Ar(<<JStr(B), JStr(C)>>), B, Ar(<<JStr(A)>>))>> } ELSE {})
        ELSE (IF mid THEN { <<"dependencies", O1(A, Ar(<<JStr(B)>>))>>,
                            <<"dependencies", O2(A, Ar(<<JStr(B)>>), C, Ar(<<JStr(D)>>))>>,
                            <<"dependencies", O2(B, Ar(<<JStr(A)>>), C, Ar(<<JStr(A), JStr(D)>>))>> } ELSE {})
             \cup (IF full THEN { <<"dependencies", O3(A, Ar(<<JStr(B)>>), B, Ar(<<JStr(C)>>), C, Ar(<<JStr(D)>>))>>,
                                  <<"dependencies", O3(A, Ar(<<JStr(B)>>), B, K1("required", Ar(<<JStr(C)>>)), C, K1("required", Ar(<<JStr(D)>>)))>> } ELSE {})
             \cup (IF full THEN { <<"dependencies", O2(A, Ar(<<JStr(B), JStr(C)>>), B, Ar(<<JStr(A)>>))>> }
                                \cup (IF r >= 6 THEN { <<"dependencies", O1(A, EmptyArr)>> } ELSE {}) ELSE {}))

(* Numeric keywords with non-integral constants (x.5, x.25, x.75: exactly     *)
(* representable in binary floating point; 1.1, 0.33, 0.1, 0.01: not), the    *)
(* integer-valued decimals 1.0 / 2.0 as constants, and enum / const values     *)
(* that mix the integer and the decimal spelling of a number.                  *)
FracA(dd, lvl) ==
  LET r == Rank(dd)
      full == lvl = "full"
      mid == lvl \in {"full", "mid"}
  IN
  { <<"minimum", Tn(25)>>, <<"maximum", Tn(25)>>, <<"multipleOf", Tn(5)>>, <<"enum", Ar(<<Tn(10), JStr(A)>>)>> }
  \cup (IF r >= 6 THEN { <<"exclusiveMinimum", Tn(15)>>, <<"exclusiveMaximum", Tn(15)>>, <<"const", Tn(10)>> } ELSE {})
  \cup (IF mid THEN { <<"minimum", Tn(5)>>, <<"maximum", Hd(175)>>, <<"multipleOf", Hd(25)>>, <<"multipleOf", Tn(15)>>, <<"enum", Ar(<<I(1), Tn(25)>>)>>,
                      <<"minimum", Tn(20)>>, <<"maximum", Tn(10)>> }
                    \cup (IF r >= 6 THEN { <<"const", Tn(25)>>, <<"exclusiveMinimum", Hd(25)>>, <<"exclusiveMaximum", Tn(20)>> } ELSE {})
        ELSE {})
  \cup (IF full THEN { <<"minimum", Hd(125)>>, <<"minimum", Tn(Neg(5))>>, <<"minimum", Tn(11)>>,
                       <<"maximum", Tn(5)>>, <<"maximum", Tn(Neg(15))>>, <<"maximum", Hd(33)>>,
                       <<"multipleOf", Tn(25)>>, <<"multipleOf", Tn(20)>>, <<"multipleOf", Hd(75)>>, <<"multipleOf", Tn(1)>>, <<"multipleOf", Hd(1)>>,
                       <<"enum", Ar(<<Tn(5)>>)>>, <<"enum", Ar(<<Ar(<<Tn(10)>>), O1(A, Tn(10))>>)>>, <<"enum", Ar(<<Hd(150), Tn(0)>>)>> }
                     \cup (IF r >= 6 THEN { <<"exclusiveMinimum", Tn(10)>>, <<"exclusiveMinimum", Tn(Neg(5))>>, <<"exclusiveMaximum", Hd(275)>>, <<"exclusiveMaximum", Tn(5)>>,
                                            <<"const", Tn(0)>>, <<"const", Hd(250)>>, <<"const", Ar(<<I(1), Tn(10)>>)>>, <<"const", O1(A, Tn(10))>>, <<"const", I(2)>> } ELSE {})
        ELSE {})
(* Siblings of a fractional numeric keyword: the type keywords that tell 1   *)
(* from 1.0, the Draft 4 boolean modifiers, a second bound (integer and      *)
(* fractional), a second divisor.                                            *)
FracSib(dd) ==
  { <<"type", Str("integer")>>, <<"type", Str("number")>>, <<"type", Ar(<<Str("integer"), Str("string")>>)>>,
    <<"minimum", I(1)>>, <<"maximum", I(2)>>, <<"minimum", Tn(15)>>, <<"maximum", Tn(35)>>, <<"multipleOf", I(1)>>, <<"multipleOf", Tn(5)>>,
    <<"enum", Ar(<<I(1), I(2), Tn(25), Tn(30)>>)>>, <<"not", K1("type", Str("integer"))>> }
  \cup (IF Rank(dd) >= 6 THEN { <<"exclusiveMinimum", I(1)>>, <<"exclusiveMaximum", I(3)>>, <<"exclusiveMinimum", Tn(5)>>, <<"exclusiveMaximum", Tn(25)>>, <<"const", I(2)>> }
        ELSE { <<"exclusiveMinimum", T>>, <<"exclusiveMaximum", T>>, <<"exclusiveMinimum", F>>, <<"exclusiveMaximum", F>> })

(* "patternProperties" over the literal pattern vocabulary of JsonSchema     *)
(* (section "Patterns"): "^a" prefix, "b$" suffix, "^a$" equality, "a"       *)
(* occurrence, "" every name, two-letter literals; subschemas that assert    *)
(* something about the member value (type / false / minimum) and subschemas  *)
(* that produce annotations INSIDE the value (properties /                   *)
(* additionalProperties / nested patternProperties / unevaluatedProperties): *)
(* those belong to the child location and must not reach the enclosing       *)
(* object.                                                                   *)
PP(v) == <<"patternProperties", v>>
Pa == <<94, 97>>              \* "^a"
Pb == <<94, 98>>              \* "^b"
Pbe == <<98, 36>>             \* "b$"
Pae == <<94, 97, 36>>         \* "^a$"
Pab == <<94, 97, 98>>         \* "^ab"
Pbce == <<98, 99, 36>>        \* "bc$"
AB == <<97, 98>>
PatCore(dd) ==
  { PP(O1(Pa, TInt)), PP(O1(Pbe, TStr)), PP(O2(Pa, TInt, A, Min1)), PP(O1(<<>>, TInt)), PP(O1(Pa, K1("properties", O1(B, True(dd))))) }
PatMid(dd) ==
  PatCore(dd) \cup
  { PP(O1(Pae, False(dd))), PP(O2(Pa, TInt, Pbe, TStr)), PP(O1(Pa, K1("additionalProperties", TInt))),
    PP(O1(<<>>, K1("properties", O1(B, True(dd))))), PP(O2(Pa, K1("properties", O1(B, True(dd))), Pb, TInt)) }
PatA(dd) ==
  PatMid(dd) \cup
  { PP(O1(A, TInt)), PP(O1(C, False(dd))), PP(EmptyObj), PP(O1(Pab, TInt)), PP(O1(Pbce, TStr)), PP(O2(Pae, TInt, Pab, TStr)),
    PP(O1(Pa, K1("patternProperties", O1(Pb, True(dd))))), PP(O1(Pbe, K1("properties", O1(A, TInt)))),
    PP(O1(Pa, K2("properties", O1(B, True(dd)), "required", Ar(<<JStr(B)>>)))),
    PP(O1(Pa, K1("allOf", Ar(<<K1("properties", O1(B, True(dd)))>>)))) }
  \cup (IF Rank(dd) >= 8 THEN { PP(O1(Pa, K2("properties", O1(B, T), "unevaluatedProperties", F))), PP(O1(Pa, K1("unevaluatedProperties", TInt))) } ELSE {})
(* Siblings of "patternProperties": "properties" (names matched by both, by   *)
(* one, by none), "additionalProperties" (applies to what neither matched),   *)
(* "unevaluatedProperties" (sees the matched names as evaluated).             *)
PatSib(dd) ==
  { <<"properties", O1(A, TInt)>>, <<"properties", O1(B, True(dd))>>, <<"properties", O2(A, True(dd), AB, TStr)>>,
    <<"additionalProperties", F>>, <<"additionalProperties", TInt>>, <<"additionalProperties", TStr>>,
    <<"required", Ar(<<JStr(A)>>)>>, <<"type", Str("object")>>, <<"maxProperties", I(1)>> }
  \cup (IF Rank(dd) >= 6 THEN { <<"propertyNames", K1("maxLength", I(1))>> } ELSE {})
  \cup (IF Rank(dd) >= 8 THEN { <<"unevaluatedProperties", F>>, <<"unevaluatedProperties", TInt>>, <<"unevaluatedProperties", TStr>> } ELSE {})

(* Applicator keywords with filler subschemas.                              *)
Appl(dd, lvl) ==
  LET r == Rank(dd)
      full == lvl = "full"
      mid == lvl \in {"full", "mid"}
      fs == Fill(dd, lvl)
      f2 == Fill(dd, IF full THEN "mid" ELSE "core")
  IN
  { <<"properties", O1(A, x)>> : x \in fs }
  \cup { <<"additionalProperties", x>> : x \in fs \cup {F} }       \* boolean form allowed in every dialect
  \cup (IF mid THEN { <<"properties", O2(A, x, B, y)>> : x \in f2, y \in f2 } ELSE {})
  \cup (IF full THEN { <<"additionalProperties", T>>, <<"properties", EmptyObj>>, <<"properties", O1(B, TInt)>> } ELSE {})
  \cup (IF full THEN PatCore(dd) ELSE {})
  \* arrays
  \cup { <<"items", x>> : x \in fs }
  \cup (IF r <= 8 THEN { <<"items", Ar(<<x>>)>> : x \in f2 } \cup { <<"additionalItems", x>> : x \in f2 \cup {F} }
                       \cup (IF mid THEN { <<"items", Ar(<<x, y>>)>> : x \in f2, y \in f2 } ELSE {})
                       \cup (IF full THEN { <<"additionalItems", T>> } ELSE {})
        ELSE { <<"prefixItems", Ar(<<x>>)>> : x \in f2 }
             \cup (IF mid THEN { <<"prefixItems", Ar(<<x, y>>)>> : x \in f2, y \in f2 } ELSE {}))
  \cup (IF r >= 6 THEN { <<"contains", x>> : x \in fs } \cup (IF mid THEN { <<"propertyNames", x>> : x \in fs \cup {K1("maxLength", I(1)), K1("const", JStr(A))} } ELSE {}) ELSE {})
  \* (in Draft 6 / 7 minContains / maxContains are not keywords: V d6 6.14 / d7 6.4.6 "valid if at least one element is valid" holds unconditionally)
  \cup (IF r >= 6 THEN (IF mid THEN { <<"minContains", I(0)>>, <<"minContains", I(2)>>, <<"maxContains", I(1)>> } ELSE {})
                       \cup (IF full THEN { <<"minContains", I(1)>>, <<"maxContains", I(0)>>, <<"maxContains", I(2)>> } ELSE {}) ELSE {})
  \* dependencies with schemas
  \cup (IF r <= 7 THEN { <<"dependencies", O1(A, x)>> : x \in f2 } \cup (IF full THEN { <<"dependencies", O2(A, TInt, B, Ar(<<JStr(A)>>))>> } ELSE {})
        ELSE { <<"dependentSchemas", O1(A, x)>> : x \in f2 }
             \cup (IF mid THEN { <<"dependentSchemas", O2(A, K1("required", Ar(<<JStr(B)>>)), C, K1("required", Ar(<<JStr(D)>>)))>> } ELSE {})
             \cup (IF full THEN { <<"dependentSchemas", O3(A, K1("required", Ar(<<JStr(B)>>)), B, K1("properties", O1(C, TInt)), C, K1("required", Ar(<<JStr(D)>>)))>>, <<"dependentSchemas", O2(A, K1("required", Ar(<<JStr(B)>>)), B, K1("required", Ar(<<JStr(C)>>)))>> } ELSE {}))
  \* in-place
  \cup { <<"not", x>> : x \in fs }
  \cup { <<"allOf", Ar(<<x>>)>> : x \in f2 } \cup { <<"anyOf", Ar(<<x, y>>)>> : x \in f2, y \in f2 } \cup { <<"oneOf", Ar(<<x, y>>)>> : x \in f2, y \in f2 }
  \cup (IF mid THEN { <<"allOf", Ar(<<x, y>>)>> : x \in f2, y \in f2 } \cup { <<"anyOf", Ar(<<x>>)>> : x \in f2 } \cup { <<"oneOf", Ar(<<x>>)>> : x \in f2 } ELSE {})
  \cup (IF full THEN { <<"oneOf", Ar(<<TInt, Min1, K1("maximum", I(1))>>)>>, <<"anyOf", Ar(<<TStr, Min1, False(dd)>>)>> } ELSE {})
  \cup (IF r >= 7 THEN { <<"if", x>> : x \in fs } \cup { <<"then", x>> : x \in f2 } \cup { <<"else", x>> : x \in f2 } ELSE {})
  \* unevaluated
  \cup (IF r >= 8 THEN { <<"unevaluatedProperties", x>> : x \in f2 } \cup { <<"unevaluatedItems", x>> : x \in f2 } ELSE {})

(* Annotation-producing keywords for the unevaluated* plans (object and     *)
(* array side), and the unevaluated keywords themselves.                    *)
Annot(dd) ==
  LET r == Rank(dd) IN
  { <<"properties", O1(A, TInt)>>, <<"properties", O1(B, True(dd))>>, <<"properties", O2(A, TInt, B, TStr)>>, <<"additionalProperties", TStr>>,
    PP(O1(Pa, TInt)),
    <<"required", Ar(<<JStr(A)>>)>>, <<"dependentSchemas", O1(A, K1("properties", O1(B, T)))>>, <<"propertyNames", K1("maxLength", I(1))>>,
    <<"items", TInt>>, <<"contains", Min1>>, <<"minItems", I(1)>>, <<"type", Str("object")>>, <<"type", Str("array")>>,
    <<"unevaluatedProperties", TStr>>, <<"unevaluatedItems", TStr>>, <<"unevaluatedProperties", T>>, <<"unevaluatedItems", T>> }
  \cup (IF r = 8 THEN { <<"items", Ar(<<TInt>>)>>, <<"items", Ar(<<TInt, True(dd)>>)>>, <<"additionalItems", TStr>>, <<"additionalItems", F>> }
        ELSE { <<"prefixItems", Ar(<<TInt>>)>>, <<"prefixItems", Ar(<<TInt, T>>)>>, <<"minContains", I(0)>>, <<"maxContains", I(1)>> })
(* Annotation scoping across instance locations (plan "scope"): a closed    *)
(* schema (annotation keyword + unevaluated-keyword) applied to a CHILD     *)
(* location below another closed schema.  Annotations belong to the instance*)
(* location they were produced for (C 2019-09 7.7.1 / 2020-12 7.7.1); the   *)
(* names / positions evaluated inside the child say nothing about the       *)
(* members of the parent, even when they coincide.                          *)
ScopeIn(dd) ==
  { <<"properties", O1(B, True(dd))>>, <<"properties", O1(A, True(dd))>>, <<"properties", O2(A, True(dd), B, True(dd))>>, <<"additionalProperties", TInt>>,
    PP(O1(Pb, True(dd))),
    <<"items", TInt>>, <<"contains", Min1>> }
  \cup (IF Rank(dd) = 8 THEN { <<"items", Ar(<<T>>)>>, <<"items", Ar(<<T, T>>)>> } ELSE { <<"prefixItems", Ar(<<T>>)>>, <<"prefixItems", Ar(<<T, T>>)>> })
ScopeU(dd) == { <<"unevaluatedProperties", F>>, <<"unevaluatedItems", F>>, <<"unevaluatedProperties", TInt>>, <<"unevaluatedItems", TInt>> }
Uneval(dd) == { <<"unevaluatedProperties", F>>, <<"unevaluatedItems", F>>, <<"unevaluatedProperties", TInt>>, <<"unevaluatedItems", TInt>> }

(* Keywords added beside an applicator after a Nest step.                    *)
Sibs(dd) ==
  { <<"required", Ar(<<JStr(A)>>)>>, <<"additionalProperties", F>>, <<"type", Str("object")>>, <<"type", Str("array")>>, <<"minProperties", I(2)>>,
    <<"maxItems", I(1)>>, <<"properties", O1(A, TInt)>>, <<"items", TInt>>, <<"not", TInt>> }
  \cup (IF Rank(dd) >= 8 THEN { <<"unevaluatedProperties", F>>, <<"unevaluatedItems", F>> } ELSE { <<"additionalItems", F>> })
  \cup (IF Rank(dd) >= 6 THEN { <<"const", O1(A, I(1))>> } ELSE { <<"enum", Ar(<<O1(A, I(1))>>)>> })

(* Reference keywords: definitions containers, references, anchors.         *)
DefsKw(dd) == IF Rank(dd) >= 8 THEN "$defs" ELSE "definitions"
DefsPtr(dd, k) == IF Rank(dd) >= 8 THEN <<35, 47, 36, 100, 101, 102, 115, 47>> \o k          \* "#/$defs/" k
                  ELSE <<35, 47, 100, 101, 102, 105, 110, 105, 116, 105, 111, 110, 115, 47>> \o k   \* "#/definitions/" k
AnchorKv(dd, name) == IF Rank(dd) >= 8 THEN <<"$anchor", JStr(name)>>
                      ELSE <<(IF dd = "d4" THEN "id" ELSE "$id"), JStr(<<35>> \o name)>>
WithKv(o, kv) == JObj(Put(o[2], S(kv[1]), kv[2]))
Refs(dd) ==
  { <<DefsKw(dd), O1(A, x)>> : x \in {TInt, Min1, False(dd), K1("properties", O1(A, TInt)), WithKv(TInt, AnchorKv(dd, X)),
                                       K1("$ref", JStr(DefsPtr(dd, A)))} }                         \* the last one loops when used
  \cup { <<DefsKw(dd), O2(A, x, B, y)>> : x \in {K1("$ref", JStr(DefsPtr(dd, B)))}, y \in {TInt, K1("$ref", JStr(DefsPtr(dd, A)))} }
  \cup { <<"$ref", JStr(p)>> : p \in { <<35>>, DefsPtr(dd, A), DefsPtr(dd, B), <<35>> \o X,
                                        <<35, 47>> \o S("properties") \o <<47>> \o A, <<35, 47>> \o S("items"), <<35, 47>> \o S("items") \o <<47, 48>>,
                                        <<35, 47>> \o S("allOf") \o <<47, 48>>, <<35, 47>> \o S("not"), <<35, 47>> \o S("additionalProperties"),
                                        <<35, 47>> \o S("prefixItems") \o <<47, 48>> } }

Alpha(dd, name) ==
  CASE name = "full" -> Asrt(dd, "full") \cup Appl(dd, "full")
    [] name = "mid" -> Asrt(dd, "mid") \cup Appl(dd, "mid")
    [] name = "core" -> Asrt(dd, "core") \cup Appl(dd, "core")
    [] name = "asrt" -> Asrt(dd, "full")
    [] name = "appl" -> Appl(dd, "full")
    [] name = "annot" -> Annot(dd)
    [] name = "uneval" -> Uneval(dd)
    [] name = "scopein" -> ScopeIn(dd)
    [] name = "scopeinu" -> ScopeU(dd)
    [] name = "scopeout" -> ScopeU(dd) \cup { <<"required", Ar(<<JStr(A)>>)>> }
    [] name = "sibs" -> Sibs(dd)
    [] name = "refs" -> Refs(dd)
    [] name = "refsmid" -> Refs(dd) \cup Asrt(dd, "core") \cup Appl(dd, "core")
    [] name = "frac" -> FracA(dd, "full")
    [] name = "fracmid" -> FracA(dd, "mid")
    [] name = "fraccore" -> FracA(dd, "core")
    [] name = "fracsib" -> FracSib(dd)
    [] name = "pat" -> PatA(dd)
    [] name = "patmid" -> PatMid(dd)
    [] name = "patsib" -> PatSib(dd)

-----------------------------------------------------------------------------
(* Meta-schema side conditions between sibling keywords (d4: "dependencies" *)
(* of the meta-schema: exclusiveMaximum requires maximum, exclusiveMinimum  *)
(* requires minimum).                                                       *)
Coherent(dd, root) ==
  dd = "d4" => \A o \in Subs(dd, root) : o[1] = "obj" =>
               /\ S("exclusiveMaximum") \in DOMAIN o[2] => S("maximum") \in DOMAIN o[2]
               /\ S("exclusiveMinimum") \in DOMAIN o[2] => S("minimum") \in DOMAIN o[2]

(* Nest: the wrappers.  h = hoisted definitions of the old root, x = the    *)
(* old root without them.                                                   *)
UsesKw(dd, root, k) == \E y \in Subs(dd, root) : y[1] = "obj" /\ S(k) \in DOMAIN y[2]
DefKeys == {S("$defs"), S("definitions")}
Strip(o) == IF o[1] = "obj" THEN JObj([k \in (DOMAIN o[2]) \ DefKeys |-> o[2][k]]) ELSE o
Hoist(o, w) == IF o[1] = "obj" THEN JObj([k \in (DOMAIN w[2]) \cup ((DOMAIN o[2]) \cap DefKeys) |-> IF k \in DOMAIN w[2] THEN w[2][k] ELSE o[2][k]])
               ELSE w
Wraps(dd, x, name) ==
  LET r == Rank(dd)
      fs == Fill(dd, "core")
      tr == True(dd)
      inplace ==
        { K1("allOf", Ar(<<x>>)), K1("anyOf", Ar(<<x, False(dd)>>)), K1("oneOf", Ar(<<x, False(dd)>>)), K1("not", x) }
        \cup { K1("allOf", Ar(<<y, x>>)) : y \in {TInt, K1("properties", O1(B, tr)), K1("items", tr)} }
        \cup { K1("anyOf", Ar(<<y, x>>)) : y \in {TInt, K1("properties", O1(B, tr))} }
        \cup { K1("oneOf", Ar(<<x, y>>)) : y \in {TInt, K1("required", Ar(<<JStr(B)>>))} }
        \cup (IF r >= 7 THEN { K1("if", x), K2("if", x, "then", False(dd)), K2("if", x, "else", False(dd)), K2("if", tr, "then", x), K2("if", False(dd), "else", x),
                               K3("if", K1("required", Ar(<<JStr(B)>>)), "then", x, "else", TInt), K2("if", K1("type", Str("object")), "then", x),
                               K1("then", x), K1("else", x) } ELSE {})
        \cup (IF r >= 8 THEN { K1("dependentSchemas", O1(A, x)), K1("dependentSchemas", O1(B, x)) } ELSE { K1("dependencies", O1(A, x)), K1("dependencies", O1(B, x)) })
      child ==
        { K1("properties", O1(A, x)), K1("properties", O2(A, x, B, TInt)), K1("properties", O1(B, x)), K1("additionalProperties", x), K1("items", x) }
        \cup { K2("properties", O1(A, TInt), "additionalProperties", x), K1("patternProperties", O1(Pa, x)) }
        \cup (IF r <= 8 THEN { K1("items", Ar(<<x>>)), K1("items", Ar(<<TInt, x>>)), K2("items", Ar(<<TInt>>), "additionalItems", x), K1("additionalItems", x) }
              ELSE { K1("prefixItems", Ar(<<x>>)), K1("prefixItems", Ar(<<TInt, x>>)), K2("prefixItems", Ar(<<TInt>>), "items", x) })
        \cup (IF r >= 6 THEN { K1("contains", x), K1("propertyNames", x) } ELSE {})
        \cup (IF r \in {6, 7} THEN { K2("contains", x, "minContains", I(0)), K2("contains", x, "maxContains", I(1)), K2("contains", x, "minContains", I(2)) } ELSE {})
        \cup (IF r >= 8 THEN { K2("contains", x, "minContains", I(2)), K2("contains", x, "maxContains", I(1)), K2("contains", x, "minContains", I(0)),
                               K1("unevaluatedProperties", x), K1("unevaluatedItems", x),
                               K2("properties", O1(A, TInt), "unevaluatedProperties", x),
                               K2((IF r = 8 THEN "items" ELSE "prefixItems"), Ar(<<TInt>>), "unevaluatedItems", x) } ELSE {})
      dk == DefsKw(dd)
      rf(k) == K1("$ref", JStr(DefsPtr(dd, k)))
      ref ==
        { K2(dk, O1(A, x), "$ref", JStr(DefsPtr(dd, A))),                                          \* AddDef + Ref
          K2(dk, O1(A, x), "properties", O2(A, rf(A), B, rf(A))),                                  \* sharing: used twice
          K2(dk, O1(A, x), "allOf", Ar(<<rf(A), TInt>>)),
          K2(dk, O1(A, x), "items", rf(A)),
          K2(dk, O2(A, x, B, rf(A)), "$ref", JStr(DefsPtr(dd, B))),                                \* chain of references
          K3(dk, O1(A, x), "$ref", JStr(DefsPtr(dd, A)), "type", Str("object")),                   \* siblings of $ref: ignored up to d7, applied from 2019-09
          K2("properties", O1(A, x), "additionalProperties", K1("$ref", JStr(<<35, 47>> \o S("properties") \o <<47>> \o A))),
          K2("not", x, "properties", O1(A, K1("$ref", JStr(<<35, 47>> \o S("not"))))),
          K2("properties", O1(A, K1("$ref", JStr(<<35>>))), "allOf", Ar(<<x>>)),                   \* recursion through the root
          \* RFC 6901 escapes in the fragment: member names "a/b" (~1), "m~n" (~0) and ""
          K2("properties", O1(<<97, 47, 98>>, x), "additionalProperties", K1("$ref", JStr(<<35, 47>> \o S("properties") \o <<47, 97, 126, 49, 98>>))),
          K2("properties", O1(<<109, 126, 110>>, x), "additionalProperties", K1("$ref", JStr(<<35, 47>> \o S("properties") \o <<47, 109, 126, 48, 110>>))),
          K2("properties", O1(<<>>, x), "additionalProperties", K1("$ref", JStr(<<35, 47>> \o S("properties") \o <<47>>))) }
        \* (array-valued "dependencies" below an "$id"/"id" anchor crash the reference validator's resource crawler: left out)
        \cup (IF x[1] = "obj" /\ AnchorName(dd, x) = <<>> /\ S("$ref") \notin DOMAIN x[2] /\ ~UsesKw(dd, x, "dependencies") /\ S("$id") \notin DOMAIN x[2] /\ S("id") \notin DOMAIN x[2]
              THEN { K2(dk, O1(A, WithKv(x, AnchorKv(dd, X))), "$ref", JStr(<<35>> \o X)),
                     K2("properties", O1(A, WithKv(x, AnchorKv(dd, X))), "additionalProperties", K1("$ref", JStr(<<35>> \o X))) }
              ELSE {})
  IN CASE name = "all" -> inplace \cup child \cup ref
       [] name = "inplace" -> inplace
       [] name = "child" -> child
       [] name = "ref" -> ref
       [] name = "struct" -> inplace \cup child
       \* x itself, and x behind a few in-place applicators (plan "pat": the siblings are added outside)
       [] name = "patwrap" ->
            { x, K1("allOf", Ar(<<x>>)), K1("anyOf", Ar(<<K1("properties", O1(B, tr)), x>>)), K1("not", x), K2(dk, O1(A, x), "$ref", JStr(DefsPtr(dd, A))) }
            \cup (IF r >= 7 THEN { K1("if", x) } ELSE {})
       \* x as the subschema of a pattern (a child application)
       [] name = "patchild" ->
            { K1("patternProperties", O1(Pa, x)), K1("patternProperties", O1(<<>>, x)), K1("patternProperties", O2(Pa, x, Pbe, TInt)),
              K1("patternProperties", O2(Pa, x, A, x)),
              K2("properties", O1(A, TInt), "patternProperties", O1(Pa, x)), K2("patternProperties", O1(Pa, x), "additionalProperties", False(dd)),
              K2("patternProperties", O1(Pa, tr), "additionalProperties", x) }
            \cup (IF r >= 8 THEN { K2("patternProperties", O1(Pa, x), "unevaluatedProperties", F), K2("patternProperties", O1(Pb, tr), "unevaluatedProperties", x) } ELSE {})
       [] name = "scopechild" ->
            { K1("properties", O1(A, x)), K1("properties", O1(B, x)), K1("properties", O2(A, x, B, tr)), K1("additionalProperties", x), K1("items", x), K1("contains", x),
              K1("patternProperties", O1(Pa, x)) }
            \cup (IF r = 8 THEN { K1("items", Ar(<<x>>)), K1("items", Ar(<<tr, x>>)), K2("items", Ar(<<tr>>), "additionalItems", x) }
                  ELSE { K1("prefixItems", Ar(<<x>>)), K1("prefixItems", Ar(<<tr, x>>)), K2("prefixItems", Ar(<<tr>>), "items", x) })

-----------------------------------------------------------------------------
(* Plans (TLC configuration files cannot express tuples, so plans are named). *)
Ad(a) == <<"add", a>>
Ne(a) == <<"nest", a>>
Plan ==
  CASE PlanName = "base" -> <<>>
    [] PlanName = "atoms" -> <<Ad("full")>>
    [] PlanName = "ident" -> <<Ad("core"), Ne("all")>>
    [] PlanName = "pairs_q" -> <<Ad("mid"), Ad("mid")>>
    [] PlanName = "pairs_t" -> <<Ad("full"), Ad("mid")>>
    [] PlanName = "nest1" -> <<Ad("full"), Ne("all")>>
    [] PlanName = "nest2" -> <<Ad("core"), Ne("struct"), Ne("struct")>>
    [] PlanName = "sib" -> <<Ad("core"), Ne("struct"), Ad("sibs")>>
    [] PlanName = "triples" -> <<Ad("core"), Ad("core"), Ad("core")>>
    [] PlanName = "uneval" -> <<Ad("annot"), Ne("inplace"), Ad("uneval")>>
    [] PlanName = "scope" -> <<Ad("scopein"), Ad("scopeinu"), Ne("scopechild"), Ad("scopeout")>>
    [] PlanName = "uneval2" -> <<Ad("annot"), Ad("annot"), Ne("inplace"), Ad("uneval")>>
    [] PlanName = "uneval3" -> <<Ad("annot"), Ne("inplace"), Ne("inplace"), Ad("uneval")>>
    [] PlanName = "refs" -> <<Ad("refsmid"), Ad("refs"), Ad("refs")>>
    [] PlanName = "refs2" -> <<Ad("core"), Ne("ref"), Ne("struct")>>
    [] PlanName = "frac" -> <<Ad("frac"), Ad("fracsib")>>
    [] PlanName = "fracnest" -> <<Ad("frac"), Ne("all")>>
    [] PlanName = "fracsib3" -> <<Ad("fracmid"), Ad("fracsib"), Ad("fracsib")>>
    [] PlanName = "fracfull" -> <<Ad("frac"), Ad("full")>>
    [] PlanName = "fracnest2" -> <<Ad("fraccore"), Ne("struct"), Ne("struct")>>
    [] PlanName = "pat" -> <<Ad("pat"), Ne("patwrap"), Ad("patsib")>>
    [] PlanName = "patnest" -> <<Ad("core"), Ne("patchild")>>
    [] PlanName = "patnestfull" -> <<Ad("full"), Ne("patchild")>>
    [] PlanName = "pat2" -> <<Ad("patmid"), Ad("patsib"), Ne("inplace"), Ad("uneval")>>

(* sh spreads the first step over NSpread seeds per dialect so that all TLC  *)
(* workers are busy from the start (cases are evaluated by the worker that   *)
(* generates them); it is 0 afterwards.                                      *)
NSpread == 4
Init == d = "" /\ s = <<"hdr">> /\ pc = 0 /\ sh = 0
Next ==
  IF pc = 0 THEN /\ PlanName # "base" /\ d' \in Ds /\ s' = EmptyObj /\ pc' = 1 /\ sh' \in 1..NSpread
  ELSE /\ pc <= Len(Plan) /\ pc' = pc + 1 /\ d' = d /\ sh' = 0
       /\ LET st == Plan[pc] IN
          IF st[1] = "add"
          THEN /\ s[1] = "obj"
               /\ LET al == SetToSeq(Alpha(d, st[2])) IN
                  \E j \in 1..Len(al) :
                    /\ sh # 0 => (j % NSpread) = sh - 1
                    /\ S(al[j][1]) \notin DOMAIN s[2]
                    /\ s' = JObj(Put(s[2], S(al[j][1]), al[j][2]))
          ELSE LET ws == SetToSeq(Wraps(d, Strip(s), st[2])) IN
               \E j \in 1..Len(ws) : (sh # 0 => (j % NSpread) = sh - 1) /\ s' = Hoist(s, ws[j])
(* Emitted: schemas valid under the meta-schema whose references resolve.    *)
WF == Coherent(d, s) /\ RefsResolve(d, s) /\ PatternsInVocabulary(d, s)

-----------------------------------------------------------------------------
(* Steered instances.                                                       *)
RECURSIVE Rep(_, _)
Rep(c, n) == IF n <= 0 THEN <<>> ELSE <<c>> \o Rep(c, n - 1)
RECURSIVE Iota(_)
Iota(n) == IF n <= 0 THEN <<>> ELSE Append(Iota(n - 1), I(n - 1))
KeySeq == <<A, B, C, D>>
ObjOfSize(n) == IF n < 0 \/ n > 4 THEN {} ELSE { JObj([k \in { KeySeq[j] : j \in 1..n } |-> I(1)]) }
Around(n) == { n - 1, n, n + 1 }
(* Numbers around a numeric bound c (integer or decimal): floor(c), ceil(c)   *)
(* and their neighbours as integers, floor(c) and ceil(c) as integer-valued   *)
(* decimals (2.0 beside 2), c itself (for a decimal also in its other         *)
(* spelling, 2.5 / 2.50), c - 0.5, c + 0.5, and c -+ 0.25 for a decimal c.    *)
NumAround(c) ==
  LET h == Hun(c)
      fl == h \div 100
      ce == 0 - ((0 - h) \div 100)
  IN { I(fl - 1), I(fl), I(ce), I(ce + 1), Tn(10 * fl), Tn(10 * ce), c, FromHun(h - 50), FromHun(h + 50) }
     \cup (IF c[1] = "dec" THEN { FromHun(h - 25), FromHun(h + 25), FromHun(h), (IF c[3] = 0 - 1 THEN Hd(10 * c[2]) ELSE c) } ELSE {})
(* Numbers around a divisor b: b, 2b, 3b, -b, b/2 and 3b/2 (when they have    *)
(* two fraction digits), b + 0.5, b + 1, 0 and 0.0, the integers next to b,   *)
(* and for an integral b the decimal spellings b.0, 2b.0.                     *)
MultAround(b) ==
  LET h == Hun(b)
      fl == h \div 100
  IN { FromHun(h), FromHun(2 * h), FromHun(3 * h), FromHun(0 - h), FromHun(h + 50), FromHun(h + 100), I(0), Tn(0), I(fl), I(fl + 1) }
     \cup (IF (h % 2) = 0 THEN { FromHun(h \div 2), FromHun(3 * (h \div 2)) } ELSE {})
     \cup (IF (h % 100) = 0 THEN { Tn(h \div 10), Tn(2 * (h \div 10)) } ELSE {})
(* The same value with every number in its other spelling (1 <-> 1.0,         *)
(* 2.5 <-> 2.50): equal to the original by JSON value equality.               *)
RECURSIVE Respell(_)
RECURSIVE RespellSeq(_)
RespellSeq(q) == IF q = <<>> THEN <<>> ELSE <<Respell(Head(q))>> \o RespellSeq(Tail(q))
Respell(v) ==
  CASE v[1] = "int" -> Tn(10 * v[2])
    [] v[1] = "dec" -> IF v[3] = 0 - 1 THEN (IF (v[2] % 10) = 0 THEN I(v[2] \div 10) ELSE Hd(10 * v[2])) ELSE FromHun(v[2])
    [] v[1] = "arr" -> Ar(RespellSeq(v[2]))
    [] v[1] = "obj" -> JObj([k \in DOMAIN v[2] |-> Respell(v[2][k])])
    [] OTHER -> v
(* Arrays for uniqueItems whose elements differ in spelling only (not unique) *)
(* or in value (unique).                                                       *)
UniqInst == { Ar(<<Tn(10), I(1)>>), Ar(<<Tn(15), Hd(150)>>), Ar(<<I(1), Tn(15)>>), Ar(<<Ar(<<I(1)>>), Ar(<<Tn(10)>>)>>),
              Ar(<<O1(A, I(1)), O1(A, Tn(10))>>), Ar(<<I(0), F, Tn(0)>>) }
MentionsNumeric(t) == IF t[1] = "str" THEN t[2] \in {S("integer"), S("number")}
                      ELSE \E j \in 1..Len(t[2]) : t[2][j][2] \in {S("integer"), S("number")}

PatNames(p) == LET lit == PatLit(p) IN { lit, lit \o <<122>>, <<122>> \o lit, <<122>> \o lit \o <<122>> }
RECURSIVE Steer(_, _, _, _)
Steer(dd, root, x, fuel) ==
  IF fuel = 0 \/ x[1] # "obj" THEN {}
  ELSE
  LET f == x[2]
      has(k) == S(k) \in DOMAIN f
      at(k) == f[S(k)]
      sub(y) == Steer(dd, root, y, fuel - 1)
      subs(q) == UNION { sub(q[j]) : j \in 1..Len(q) }
      submap(o) == UNION { IF IsSchemaVal(dd, o[2][k]) THEN sub(o[2][k]) ELSE {} : k \in DOMAIN o[2] }
      nums == UNION { IF has(k) /\ IsNum(at(k)) THEN NumAround(at(k)) ELSE {}
                      : k \in {"maximum", "minimum", "exclusiveMaximum", "exclusiveMinimum"} }
              \cup (IF has("multipleOf") THEN MultAround(at("multipleOf")) ELSE {})
              \cup (IF has("type") /\ MentionsNumeric(at("type")) THEN { Tn(0), Tn(Neg(10)), Tn(20) } ELSE {})
              \cup (IF has("uniqueItems") /\ at("uniqueItems") = T THEN UniqInst ELSE {})
      strs == UNION { IF has(k) THEN { JStr(Rep(97, n)) : n \in { m \in Around(at(k)[2]) : m >= 0 } } \cup { JStr(Rep(65536, n)) : n \in { m \in Around(at(k)[2]) : m >= 1 } } ELSE {}
                      : k \in {"maxLength", "minLength"} }
      arrs == UNION { IF has(k) THEN { Ar(Iota(n)) : n \in { m \in Around(at(k)[2]) : m >= 0 } } ELSE {} : k \in {"maxItems", "minItems"} }
      objs == UNION { IF has(k) THEN UNION { ObjOfSize(n) : n \in Around(at(k)[2]) } ELSE {} : k \in {"maxProperties", "minProperties"} }
      vals0 == (IF has("enum") THEN SeqElems(at("enum")[2]) ELSE {}) \cup (IF has("const") THEN {at("const")} ELSE {})
      vals == vals0 \cup { Respell(y) : y \in vals0 }
      reqn == IF has("required") THEN { y[2] : y \in SeqElems(at("required")[2]) } ELSE {}
      reqs == IF has("required") THEN { JObj([k \in reqn |-> I(1)]) } \cup { JObj([k \in reqn \ {z} |-> I(1)]) : z \in reqn } ELSE {}
      \* dependency maps: each trigger with its required members; every pair of triggers with the first satisfied and the second
      \* violated (unless the sets overlap), both satisfied, both violated
      depo(o) == LET ks == { k \in DOMAIN o[2] : o[2][k][1] = "arr" }
                     full(k) == {k} \cup { y[2] : y \in SeqElems(o[2][k][2]) }
                     ob(K) == JObj([z \in K |-> I(1)])
                     prs == { q \in ks \X ks : q[1] # q[2] }
                 IN { ob(full(k)) : k \in ks }
                    \cup { ob(full(q[1]) \cup {q[2]}) : q \in prs }
                    \cup { ob(full(q[1]) \cup full(q[2])) : q \in prs }
                    \cup { ob({q[1], q[2]}) : q \in prs }
      \* schema-valued dependency maps: the triggers alone and in pairs, with and without the steered members of the dependent schemas
      trig(o) == LET ks == DOMAIN o[2] IN { JObj([z \in K |-> I(1)]) : K \in { {k1, k2} : k1 \in ks, k2 \in ks } }
                 \cup { JObj([z \in (DOMAIN y[2]) \cup K |-> IF z \in DOMAIN y[2] THEN y[2][z] ELSE I(1)])
                        : y \in { w \in submap(o) : w[1] = "obj" }, K \in { {k1, k2} : k1 \in ks, k2 \in ks } }
      deps == (IF has("dependentRequired") THEN depo(at("dependentRequired")) ELSE {}) \cup (IF has("dependencies") THEN depo(at("dependencies")) \cup trig(at("dependencies")) ELSE {})
              \cup (IF has("dependentSchemas") /\ at("dependentSchemas")[1] = "obj" THEN trig(at("dependentSchemas")) ELSE {})
      props == IF has("properties") THEN UNION { { O1(k, y) : y \in sub(at("properties")[2][k]) } : k \in DOMAIN at("properties")[2] } ELSE {}
      \* patternProperties: names built from each pattern's literal (the literal, the literal with a letter before / after / on both
      \* sides: equality, prefix, suffix and occurrence tell them apart) with the steered values of its subschema and two plain values
      patp == IF has("patternProperties") /\ at("patternProperties")[1] = "obj"
              THEN UNION { { O1(nm, y) : nm \in PatNames(p), y \in sub(at("patternProperties")[2][p]) \cup {I(1), JStr(A)} } : p \in DOMAIN at("patternProperties")[2] }
              ELSE {}
      addl == UNION { IF has(k) /\ IsSchemaVal(dd, at(k)) THEN { O1(C, y) : y \in sub(at(k)) } \cup { O2(A, I(1), C, y) : y \in sub(at(k)) } ELSE {} : k \in {"additionalProperties", "unevaluatedProperties"} }
      pnam == IF has("propertyNames") THEN { O1(y[2], I(1)) : y \in { z \in sub(at("propertyNames")) : z[1] = "str" } } ELSE {}
      elem == UNION { IF has(k) /\ IsSchemaVal(dd, at(k)) THEN { Ar(<<y>>) : y \in sub(at(k)) } \cup { Ar(<<I(1), y>>) : y \in sub(at(k)) } ELSE {}
                      : k \in {"items", "additionalItems", "contains", "unevaluatedItems"} }
      posn == UNION { IF has(k) /\ at(k)[1] = "arr" THEN UNION { { Ar(Append(Rep(I(1), j - 1), y)) : y \in sub(at(k)[2][j]) } : j \in 1..Len(at(k)[2]) } ELSE {}
                      : k \in {"items", "prefixItems"} }
      inpl == UNION { IF has(k) /\ at(k)[1] = "arr" THEN subs(at(k)[2]) ELSE {} : k \in {"allOf", "anyOf", "oneOf"} }
              \cup UNION { IF has(k) THEN sub(at(k)) ELSE {} : k \in {"not", "if", "then", "else"} }
              \cup UNION { IF has(k) /\ at(k)[1] = "obj" THEN submap(at(k)) ELSE {} : k \in {"dependentSchemas", "dependencies"} }
              \cup (IF has("$ref") /\ at("$ref")[1] = "str" /\ IsOk(ResolveRef(dd, root, at("$ref")[2])) THEN sub(ResolveRef(dd, root, at("$ref")[2])[2]) ELSE {})
  IN nums \cup strs \cup arrs \cup objs \cup vals \cup reqs \cup deps \cup props \cup patp \cup addl \cup pnam \cup elem \cup posn \cup inpl

(* Instances for the "scope" plan: a nested value whose evaluated member     *)
(* names / positions coincide (or not) with unevaluated ones of the parent. *)
ScopeInst ==
  { O2(A, O1(B, I(1)), B, I(2)), O1(A, O1(B, I(1))), O2(A, O1(B, I(1)), C, I(2)), O1(A, O2(B, I(1), C, I(1))), O2(A, O1(A, I(1)), B, I(2)),
    O2(B, O1(A, I(1)), A, I(2)), O2(B, O1(B, I(1)), A, I(2)), O1(B, O1(B, I(1))), O2(A, O2(A, I(1), B, I(1)), B, JStr(A)), O2(A, O1(B, JStr(A)), B, I(2)),
    O3(A, O1(B, I(1)), B, I(2), C, I(3)), O2(A, Ar(<<I(1)>>), B, I(2)), O1(A, Ar(<<I(1), I(2)>>)),
    Ar(<<Ar(<<I(1)>>), I(2)>>), Ar(<<Ar(<<I(1)>>)>>), Ar(<<Ar(<<I(1), I(2)>>)>>), Ar(<<Ar(<<I(1), I(2)>>), I(3)>>), Ar(<<Ar(<<I(1), I(2)>>), I(3), I(4)>>),
    Ar(<<Ar(<<I(1)>>), Ar(<<I(1)>>)>>), Ar(<<I(2), Ar(<<I(1)>>)>>), Ar(<<I(2), Ar(<<I(1), I(2)>>), I(3)>>), Ar(<<Ar(<<I(1)>>), JStr(A)>>), Ar(<<Ar(<<JStr(A), I(1)>>), I(2)>>),
    Ar(<<O1(B, I(1)), I(2)>>), Ar(<<O1(B, I(1))>>), O1(A, Ar(<<Ar(<<I(1)>>), I(2)>>)) }
(* Instances for the pattern plans: member names matched by 0 / 1 / 2        *)
(* patterns ("ab": "^a" and "b$"), names that tell prefix / suffix /          *)
(* occurrence / equality apart, nested objects that repeat a member name of   *)
(* the enclosing object (what the value's subschema evaluates inside the      *)
(* value must not count for the enclosing object).                            *)
BA == <<98, 97>>
PatInst ==
  { O1(AB, I(1)), O1(AB, JStr(A)), O1(BA, I(1)), O1(BA, JStr(A)), O2(A, I(1), AB, JStr(A)), O2(AB, I(1), B, JStr(A)), O1(<<97, 98, 99>>, I(1)), O1(<<97, 98, 99>>, JStr(A)),
    O1(<<99, 97, 98>>, I(1)), O1(<<>>, I(1)), O1(<<>>, JStr(A)), O3(AB, I(1), BA, I(1), C, JStr(A)), O2(A, I(1), BA, JStr(A)), O1(<<97, 97>>, I(0)),
    O2(AB, O1(B, I(1)), B, I(2)), O2(A, O1(B, I(1)), B, JStr(A)), O2(A, O1(A, I(1)), B, O1(B, I(1))), O2(A, O2(B, I(1), C, I(1)), C, I(1)),
    O2(AB, O1(A, I(1)), A, JStr(A)), O1(A, O1(AB, I(1))), O3(A, O1(B, O1(C, I(1))), B, I(1), C, I(1)), O2(B, O1(A, I(1)), A, I(1)), O2(B, O1(A, JStr(A)), A, I(1)),
    O2(A, O1(B, I(1)), AB, O1(C, I(1))), O3(A, O1(B, I(1)), AB, O1(C, I(1)), C, I(1)), O2(A, O1(B, JStr(A)), C, O1(B, I(1))), O1(A, O2(B, I(1), AB, I(1))),
    O2(A, Ar(<<I(1)>>), B, I(1)), Ar(<<O2(A, O1(B, I(1)), B, I(2))>>) }
ExtraInst == IF PlanName = "scope" THEN ScopeInst
             ELSE IF PlanName \in {"pat", "pat2", "patnest", "patnestfull"} THEN ScopeInst \cup PatInst ELSE {}
Steered == SetToSeq((Steer(d, s, s, 4) \cup ExtraInst) \ BaseSet)

-----------------------------------------------------------------------------
(* Declared don't-care classes (field "dc" of a case; the verdict of such a  *)
(* case is not compared with the prediction - notes/C11.md):                 *)
(*  d2019-contains-unevaluatedItems  C 2019-09 9.3.1.3 lets unevaluatedItems *)
(*     depend on items / additionalItems / unevaluatedItems annotations only *)
(*     ("contains" produces none before 2020-12), the reference validator    *)
(*     counts the elements matched by "contains" as evaluated in 2019-09     *)
(*     too, and the test suite has no case: the two references disagree.     *)
(*  d67-minmaxContains  minContains / maxContains in a Draft 6 / 7 schema:    *)
(*     not keywords of those drafts; C d6/d7 "unknown keywords SHOULD be       *)
(*     ignored" is not a MUST and the implementation applies them as an        *)
(*     extension (the reference validator ignores them).                       *)
DontCare(dd, root) ==
  (IF dd = "d2019" /\ UsesKw(dd, root, "contains") /\ UsesKw(dd, root, "unevaluatedItems") THEN {"d2019-contains-unevaluatedItems"} ELSE {})
  \cup (IF Rank(dd) \in {6, 7} /\ (UsesKw(dd, root, "minContains") \/ UsesKw(dd, root, "maxContains")) THEN {"d67-minmaxContains"} ELSE {})

(* Known deviations of the implementation (classification only; the        *)
(* predicate says which schemas CAN trigger the deviation - notes/C11.md).  *)
(*  ojson-member-order      equality of objects in enum / const /            *)
(*     uniqueItems is member-order sensitive when the schema is compiled     *)
(*     for ojson (V 6.1.2 / 6.1.3 / 6.4.3 use JSON value equality)           *)
(*  not-keeps-annotations   "not" keeps the evaluated-member / evaluated-    *)
(*     item annotations its subschema produced before it failed, so an       *)
(*     outer unevaluatedProperties / unevaluatedItems skips them             *)
(*     (C 2019-09 7.7.1.2 / 9.2.1.4: a failing subschema contributes no      *)
(*     annotations)                                                          *)
(*  contains-leaks-child-items  (2020-12) the array positions evaluated     *)
(*     INSIDE an element while it is tested against the "contains" subschema  *)
(*     (a child location) are added to the evaluated positions of the array   *)
(*     itself when that element fails the subschema (C 2020-12 10.3.1.3: the  *)
(*     annotation of "contains" is the positions of the MATCHING elements;    *)
(*     7.7.1: annotations are attached to the location they were produced at) *)
(* Per-instance don't-care (verdict code 3: the instance is run, its verdict  *)
(* is not compared): the schema contains a "multipleOf" whose result for a     *)
(* number occurring in the instance depends on binary floating-point rounding  *)
(* (JsonSchema!MultipleOfExact).  Over-approximated on purpose: any divisor    *)
(* anywhere in the schema document against any number anywhere in the          *)
(* instance.                                                                   *)
MultConsts(dd, root) == { y[2][S("multipleOf")] : y \in { z \in Subs(dd, root) : z[1] = "obj" /\ S("multipleOf") \in DOMAIN z[2] } }
RECURSIVE NumsIn(_)
NumsIn(v) == CASE IsNum(v) -> {v}
               [] v[1] = "arr" -> UNION { NumsIn(v[2][j]) : j \in 1..Len(v[2]) }
               [] v[1] = "obj" -> UNION { NumsIn(v[2][k]) : k \in DOMAIN v[2] }
               [] OTHER -> {}
FpDontCare(mc, v) == mc # {} /\ \E a \in NumsIn(v) : \E b \in mc : ~MultipleOfExact(a, b)

(*  d4-integer-zero-fraction  (Draft 4) "type": "integer" accepts a number     *)
(*     with a zero fractional part that is stored as a double (C d4 3.5:       *)
(*     "integer: JSON number without a fraction or exponent part"); tagged     *)
(*     exactly, from the emitted instances (ZeroFracManifest below)            *)
(*  unevaluatedProperties-leaks-child-properties  (2019-09, 2020-12) while a   *)
(*     member VALUE is validated against the subschema of                      *)
(*     "unevaluatedProperties", the member names that subschema evaluates      *)
(*     inside the value (a child location) are added to the evaluated names    *)
(*     of the PARENT object, so a later member of the parent with the same     *)
(*     name is not checked at all (C 2019-09 / 2020-12 7.7.1: annotations are  *)
(*     attached to the instance location they were produced at).               *)
RECURSIVE HasWideObj(_)
HasWideObj(v) == CASE v[1] = "obj" -> Cardinality(DOMAIN v[2]) >= 2 \/ \E k \in DOMAIN v[2] : HasWideObj(v[2][k])
                   [] v[1] = "arr" -> \E j \in 1..Len(v[2]) : HasWideObj(v[2][j])
                   [] OTHER -> FALSE
AnnotKws == {"properties", "patternProperties", "additionalProperties", "items", "prefixItems", "additionalItems", "contains", "unevaluatedProperties",
             "unevaluatedItems", "$ref"}
Trigger(name, dd, root) ==
  CASE name = "ojson-member-order" ->
         \E y \in Subs(dd, root) : y[1] = "obj" /\
            \/ (S("uniqueItems") \in DOMAIN y[2] /\ y[2][S("uniqueItems")] = T)
            \/ (S("enum") \in DOMAIN y[2] /\ HasWideObj(y[2][S("enum")]))
            \/ (S("const") \in DOMAIN y[2] /\ HasWideObj(y[2][S("const")]))
    [] name = "not-keeps-annotations" ->
         /\ Rank(dd) >= 8
         /\ UsesKw(dd, root, "unevaluatedProperties") \/ UsesKw(dd, root, "unevaluatedItems")
         /\ \E y \in Subs(dd, root) : y[1] = "obj" /\ S("not") \in DOMAIN y[2] /\
               \E z \in Subs(dd, y[2][S("not")]) : z[1] = "obj" /\ \E k \in AnnotKws : S(k) \in DOMAIN z[2]
    [] name = "contains-leaks-child-items" ->
         /\ dd = "d2020" /\ UsesKw(dd, root, "unevaluatedItems")
         /\ \E y \in Subs(dd, root) : y[1] = "obj" /\ S("contains") \in DOMAIN y[2] /\
               \E z \in Subs(dd, y[2][S("contains")]) : z[1] = "obj" /\
                  \E k \in {"items", "prefixItems", "contains", "unevaluatedItems", "$ref"} : S(k) \in DOMAIN z[2]
    [] name = "unevaluatedProperties-leaks-child-properties" ->
         /\ Rank(dd) >= 8
         /\ \E y \in Subs(dd, root) : y[1] = "obj" /\ S("unevaluatedProperties") \in DOMAIN y[2] /\
               \E z \in Subs(dd, y[2][S("unevaluatedProperties")]) : z[1] = "obj" /\
                  \E k \in {"properties", "patternProperties", "additionalProperties", "unevaluatedProperties", "$ref"} : S(k) \in DOMAIN z[2]
    [] OTHER -> FALSE
DevOf(dd, root) == { name \in KnownDeviations : Trigger(name, dd, root) }

-----------------------------------------------------------------------------
Code(st) == CASE st = "ok" -> 1 [] st = "bad" -> 0 [] st = "loop" -> 2
BaseCase == [k |-> "base", v |-> [j \in 1..Len(BaseSeq) |-> Wire(BaseSeq[j])]]
\* verdict codes: 1 valid, 0 invalid, 2 never run (reference loop), 3 run but not compared (FpDontCare)
VCode(mc, v) == LET c == Code(Valid(d, s, v)) IN IF c # 2 /\ FpDontCare(mc, v) THEN 3 ELSE c
(* Known deviation d4-integer-zero-fraction, tagged exactly: a Draft 4 case    *)
(* in which the verdict of some emitted instance changes when its              *)
(* integer-valued decimals are respelled as integers (Canon), i.e. the verdict *)
(* hinges on C d4 3.5 "integer: JSON number without a fraction or exponent     *)
(* part".                                                                      *)
ZeroFracManifest(vs) == d = "d4" /\ \E j \in 1..Len(vs) : LET c == Canon(vs[j]) IN c # vs[j] /\ Valid(d, s, vs[j]) # Valid(d, s, c)
Case == LET xs == Steered
            mc == MultConsts(d, s)
            zf == IF "d4-integer-zero-fraction" \in KnownDeviations /\ ZeroFracManifest(BaseSeq \o xs) THEN {"d4-integer-zero-fraction"} ELSE {}
        IN
  [k |-> "c", d |-> d, s |-> Wire(s), dev |-> SetToSeq(DevOf(d, s) \cup zf), dc |-> SetToSeq(DontCare(d, s)),
   r |-> [j \in 1..Len(BaseSeq) |-> VCode(mc, BaseSeq[j])],
   x |-> [j \in 1..Len(xs) |-> <<Wire(xs[j]), VCode(mc, xs[j])>>]]
Emit == IF pc = 0 THEN (PlanName = "base" => PrintT(ToJson(BaseCase)))
        ELSE IF pc = 1 THEN TRUE
        ELSE (WF => PrintT(ToJson(Case)))

(* Model-internal obligations.                                              *)
Same(x, y) == x = y \/ x = "loop" \/ y = "loop"
Vd(x, v) == Ev(d, s, x, v, {}).st
RefFree(x) == \A y \in Subs(d, x) : y[1] = "obj" => S("$ref") \notin DOMAIN y[2]
IdSample == { j \in 1..Len(BaseSeq) : (j % 3) = 1 } \cup {38, 48, 54, 62, 63, 64, 65}
Identities ==
  (pc >= 2 /\ WF) =>
    \A j \in IdSample :
      LET v == BaseSeq[j]
          b == Vd(s, v)
      IN /\ Same(Vd(K1("not", K1("not", s)), v), b)
         /\ Same(Vd(K1("allOf", Ar(<<s>>)), v), b)
         /\ Same(Vd(K1("anyOf", Ar(<<s>>)), v), b)
         /\ Same(Vd(K1("oneOf", Ar(<<s>>)), v), b)
         /\ Same(Vd(K1("allOf", Ar(<<s, EmptyObj>>)), v), b)
         /\ Same(Vd(K1("anyOf", Ar(<<s, K1("not", EmptyObj)>>)), v), b)
         /\ Vd(K1("oneOf", Ar(<<s, s>>)), v) \in {"bad", "loop"}
         /\ Rank(d) >= 7 => Same(Vd(K3("if", s, "then", EmptyObj, "else", K1("not", EmptyObj)), v), b)
         /\ Same(Ev(d, K2(DefsKw(d), O1(X, s), "$ref", JStr(DefsPtr(d, X))), K1("$ref", JStr(DefsPtr(d, X))), v, {}).st,
                 IF RefFree(s) THEN b ELSE "loop")
=============================================================================
