----------------------------- MODULE MC_C08xc -----------------------------
(* C08, transcoding of tagged CBOR numbers: every decimal fraction (tag 4)  *)
(* and bigfloat (tag 5) [exponent, mantissa] over a range of exponents on   *)
(* both sides of zero and mantissas 0, +-1, +-5, 10, 100, 123, 2^32, and a  *)
(* bignum mantissa (tags 2 / 3, also empty = 0), alone and inside an array. *)
(* RFC 8949 3.4.4 accepts all of them; whatever value the decoder builds    *)
(* for them, writing it as JSON must give RFC 8259 text (Trace_C08).        *)
EXTENDS Naturals, Integers, Sequences, Json, TLC
CONSTANTS MaxExp
VARIABLES c, phase

Hd(major, n) == IF n < 24 THEN <<major * 32 + n>> ELSE IF n < 256 THEN <<major * 32 + 24, n>> ELSE <<major * 32 + 25, n \div 256, n % 256>>
IntBytes(i) == IF i >= 0 THEN Hd(0, i) ELSE Hd(1, (0 - i) - 1)
Mantissas == { IntBytes(m) : m \in {0, 1, 0 - 1, 5, 0 - 5, 10, 100, 123, 0 - 1000} }
             \cup { <<26, 255, 255, 255, 255>>, <<27, 0, 0, 0, 1, 0, 0, 0, 0>>, <<59, 0, 0, 0, 1, 0, 0, 0, 0>> }
             \cup { <<194, 64>>, <<194, 65, 0>>, <<194, 65, 5>>, <<195, 64>>, <<195, 65, 4>>, <<194, 73, 1, 0, 0, 0, 0, 0, 0, 0, 0>>, <<195, 73, 1, 0, 0, 0, 0, 0, 0, 0, 0>> }
Exps == (0 - MaxExp)..MaxExp
Items == { <<tag, 130>> \o IntBytes(e) \o m : tag \in {196, 197}, e \in Exps, m \in Mantissas }
Init == c = <<>> /\ phase = 0
Next == phase = 0 /\ phase' = 1 /\ c' \in Items \cup { <<130>> \o i \o <<1>> : i \in Items }
Emit == phase = 1 => PrintT(ToJson([f |-> "cbor", b |-> c, ok |-> TRUE]))
=============================================================================
