INIT Init
NEXT Next
INVARIANT Emit
CHECK_DEADLOCK FALSE
CONSTANTS
  Format = "cbor"
  MaxLen = 4
  ExhLen = 1
  Reps = {0, 1, 24, 31, 65, 97, 129, 130, 159, 161, 191, 255}
  OnlyAccepted = FALSE
  TokMode = "bytes"
