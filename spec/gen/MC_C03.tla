------------------------------ MODULE MC_C03 ------------------------------
(* C03 generator: texts (valid, invalid, every strict prefix) with the      *)
(* predicted verdict, value AND parse-event sequence; the harness delivers  *)
(* each text in every composition into chunks / through every source kind   *)
(* and observer.  Tok = TRUE uses whole tokens, else single characters.     *)
EXTENDS JsonText, Json, C02Tokens
CONSTANTS MaxLen, Alphabet, Mode
VARIABLES txt, st, n

C03Tokens == {t \in Tokens : Len(t) <= 16}
\* "atoms" mode: string bodies built from atoms (every escape kind, a surrogate pair, 1-4 byte UTF-8), so that
\* every position inside an escape / multi-byte sequence becomes a chunk boundary in the harness
Atoms == { <<97>>, <<92,110>>, <<92,92>>, <<92,34>>, <<92,47>>, <<92,117,48,48,52,49>>, <<92,117,48,48,101,57>>,
           <<92,117,68,56,51,68,92,117,68,69,48,48>>, <<195,169>>, <<226,130,172>>, <<240,159,152,128>>, <<92,117,100,56,51,100>> }
Wrap(body, w) == CASE w = 1 -> <<34>> \o body \o <<34>>
                 [] w = 2 -> <<91,34>> \o body \o <<34,93>>
                 [] w = 3 -> <<123,34>> \o body \o <<34,58,49,125>>
Init == txt = <<>> /\ st = Init0 /\ n = 0
Next == /\ st.m # "dead" /\ n < MaxLen
        /\ n' = n + 1
        /\ IF Mode = "tok" THEN \E t \in C03Tokens : txt' = txt \o t /\ st' = Run(st, t, 1)
           ELSE IF Mode = "char" THEN \E c \in Alphabet : txt' = Append(txt, c) /\ st' = Step(st, c)
           ELSE \E t \in Atoms : txt' = txt \o t /\ st' = st

CaseOf(tx, s) == [t |-> tx, acc |-> AcceptAtEof(s), uc |-> s.uc, ut |-> s.ut, tc |-> s.tc, dc |-> s.dc,
         dep |-> s.dep, m |-> s.m,
         v |-> IF AcceptAtEof(s) THEN ValueOf(ResultAtEof(s)) ELSE <<"none">>,
         ev |-> IF AcceptAtEof(s) THEN EventsOf(ResultAtEof(s)) ELSE <<>>]
Case == [t |-> txt, acc |-> AcceptAtEof(st), uc |-> st.uc, ut |-> st.ut, tc |-> st.tc, dc |-> st.dc,
         dep |-> st.dep, m |-> st.m,
         v |-> IF AcceptAtEof(st) THEN ValueOf(ResultAtEof(st)) ELSE <<"none">>,
         ev |-> IF AcceptAtEof(st) THEN EventsOf(ResultAtEof(st)) ELSE <<>>]
Emit == IF Mode = "atoms"
        THEN \A w \in 1..3 : LET tx == Wrap(txt, w) IN PrintT(ToJson(CaseOf(tx, RunText(tx))))
        ELSE PrintT(ToJson(Case))
=============================================================================
