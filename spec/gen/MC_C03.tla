------------------------------ MODULE MC_C03 ------------------------------
(* C03 generator: texts (valid, invalid, every strict prefix) with the      *)
(* predicted verdict, value AND parse-event sequence; the harness delivers  *)
(* each text in every composition into chunks / through every source kind   *)
(* and observer.  Tok = TRUE uses whole tokens, else single characters.     *)
EXTENDS JsonText, Json, C02Tokens
CONSTANTS MaxLen, Alphabet, UseTok
VARIABLES txt, st, n

C03Tokens == {t \in Tokens : Len(t) <= 12} 
Init == txt = <<>> /\ st = Init0 /\ n = 0
Next == /\ st.m # "dead" /\ n < MaxLen
        /\ n' = n + 1
        /\ IF UseTok THEN \E t \in C03Tokens : txt' = txt \o t /\ st' = Run(st, t, 1)
           ELSE \E c \in Alphabet : txt' = Append(txt, c) /\ st' = Step(st, c)

Case == [t |-> txt, acc |-> AcceptAtEof(st), uc |-> st.uc, ut |-> st.ut, tc |-> st.tc, dc |-> st.dc,
         dep |-> st.dep, m |-> st.m,
         v |-> IF AcceptAtEof(st) THEN ValueOf(ResultAtEof(st)) ELSE <<"none">>,
         ev |-> IF AcceptAtEof(st) THEN EventsOf(ResultAtEof(st)) ELSE <<>>]
Emit == PrintT(ToJson(Case))
=============================================================================
