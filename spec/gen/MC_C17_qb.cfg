INIT Init
NEXT Next
INVARIANTS Emit RoundTrip Normal OkFits RootKind
CHECK_DEADLOCK FALSE
CONSTANTS
  Budget = 1
  Big = FALSE
  Types = {"VSPB", "MSVI", "VVI", "VI", "VS", "VU8", "LS", "DQB", "AI2", "MSI", "MIB", "UMSB", "OI", "OVI", "VOI", "PS", "SPI", "TISB", "PIB", "VTIB", "XIS", "XBVCS"}
