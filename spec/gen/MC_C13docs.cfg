INIT Init
NEXT Next
VIEW View
INVARIANTS Emit
CHECK_DEADLOCK FALSE
CONSTANTS
  Mode = "docs"
  MaxDepth = 1
  WrapSet = "core"
  SlRange = 2
  EmitAst = FALSE
  ExcludeFilterOnNonArray = TRUE
  ExcludeMergeNoOverride = TRUE
  ExcludeNotBeforePipe = TRUE
  ExcludePipeIntoLiteral = TRUE
