------------------------------ MODULE MC_C17 ------------------------------
(* C17 generator.  The fixed type family (mirrored one-to-one by the C++   *)
(* declarations of harness/c17.cpp, same names) and, per type:             *)
(*   phase 1  "val" cases: every value over the value universe UV, with    *)
(*            its predicted JSON image ToJ(T, v);                          *)
(*   phase 2  "inp" cases: every JSON document obtained from the image of  *)
(*            a seed value (universe US) by at most Budget faults -        *)
(*            a node replaced by any document of Pool (wrong scalar type,  *)
(*            wrong container kind, null, ...), last element dropped /     *)
(*            an element appended (short / long tuple, array, sequence),   *)
(*            a member dropped (missing mandatory / optional member),      *)
(*            an undeclared member added, an omitted optional member       *)
(*            supplied - with the predicted reading FromJ(T, doc).         *)
(* Documents reached from several seeds are one TLC state, hence one case. *)
(* Model-internal obligations are checked in the same run (RoundTrip,      *)
(* Normal, OkFits).                                                        *)
EXTENDS Reflect, Json, TLC
CONSTANTS Budget, Big, Types
VARIABLES ph, ty, val, doc

(* ---- names (code points) ---- *)
cA == <<97>>  cB == <<98>>  cC == <<99>>  cD == <<100>>  cE == <<101>>  cP == <<112>>  cQ == <<113>>  cR == <<114>>
cT == <<116>>  cX == <<120>>  cY == <<121>>  cZ == <<122>>
cUA == <<65>>  cUB == <<66>>
cIn == <<105,110>>  cList == <<108,105,115,116>>  cMaybe == <<109,97,121,98,101>>  cItem == <<105,116,101,109>>
cAlpha == <<97,108,112,104,97>>  cBeta == <<98,101,116,97>>  cEx == <<101,120>>  cWhy == <<119,104,121>>
cId == <<105,100>>  cN == <<110>>  cV == <<118>>  cW == <<119>>
cUId == <<73,100>>  cUTag == <<84,97,103>>  cUCount == <<67,111,117,110,116>>  cUSizes == <<83,105,122,101,115>>
cUPrice == <<80,114,105,99,101>>  cUBig == <<66,105,103>>
cRed == <<114,101,100>>  cGreen == <<103,114,101,101,110>>  cBlue == <<98,108,117,101>>

I32 == TInt("i32")
U8 == TInt("u8")
I8 == TInt("i8")  I16 == TInt("i16")  U16 == TInt("u16")  U32 == TInt("u32")  I64 == TInt("i64")  U64 == TInt("u64")
F32 == TFlt("f32")  F64 == TFlt("f64")
None == <<"none">>
NoSeq == <<"seq", <<>>>>
IV(n) == <<"i", n>>
FZ == <<"f", 0, 0>>
(* ---- the classes (harness/c17_types.hpp declares the same members, mandatory counts and defaults) ---- *)
Color == TEnum(<<cRed, cGreen, cBlue>>)                       \* JSONCONS_ENUM_TRAITS(Color, red, green, blue)
Suit == TEnum(<<<<72>>, <<83>>>>)                             \* JSONCONS_ENUM_NAME_TRAITS(Suit, (hearts,"H"), (spades,"S"))
SA == TStruct("member", <<Mem(cX, I32, TRUE, <<"i", 0>>), Mem(cY, TBool, TRUE, <<"b", FALSE>>)>>)                 \* ALL_MEMBER(SA, x, y)
SN == TStruct("member", <<Mem(cA, I32, TRUE, <<"i", 7>>), Mem(cB, TBool, TRUE, <<"b", FALSE>>),                    \* N_MEMBER(SN, 2, a, b, c, d, e)
                Mem(cC, TOpt(I32), FALSE, None), Mem(cD, TVec(I32), FALSE, <<"seq", <<>>>>), Mem(cE, I32, FALSE, <<"i", 7>>)>>)
CG == TStruct("ctor", <<Mem(cA, I32, TRUE, <<"i", 0>>), Mem(cB, TStr, TRUE, <<"s", <<>>>>),                      \* N_CTOR_GETTER(CG, 2, a, b, c, e)
                Mem(cC, TOpt(I32), FALSE, None), Mem(cE, I32, FALSE, <<"i", 0>>)>>)
GS == TStruct("getset", <<Mem(cUA, I32, TRUE, <<"i", 5>>), Mem(cUB, TBool, FALSE, <<"b", TRUE>>)>>)                \* N_GETTER_SETTER(GS, get, set, 1, A, B)
SNM == TStruct("member", <<Mem(cAlpha, I32, TRUE, <<"i", 1>>), Mem(cBeta, TOpt(TStr), FALSE, None)>>)              \* N_MEMBER_NAME(SNM, 1, (a,"alpha"), (b,"beta"))
CGN == TStruct("ctor", <<Mem(cEx, I32, TRUE, <<"i", 0>>), Mem(cWhy, TVec(TStr), TRUE, <<"seq", <<>>>>)>>)        \* ALL_CTOR_GETTER_NAME(CGN, (x,"ex"), (y,"why"))
GSN == TStruct("getset", <<Mem(cP, TBool, TRUE, <<"b", FALSE>>), Mem(cQ, TOpt(I32), TRUE, None)>>)                 \* ALL_GETTER_SETTER_NAME(GSN, (getP,setP,"p"), (getQ,setQ,"q"))
BoxI == TStruct("member", <<Mem(cItem, I32, TRUE, <<"i", 0>>)>>)                                                    \* TPL_ALL_MEMBER(1, Box, item)  Box<int>
Outer == TStruct("member", <<Mem(cIn, SA, TRUE, <<"rec", <<<<"i", 0>>, <<"b", FALSE>>>>>>),                         \* N_MEMBER(Outer, 1, in, list, maybe)
                   Mem(cList, TVec(SA), FALSE, <<"seq", <<>>>>), Mem(cMaybe, TOpt(SA), FALSE, None)>>)
D1 == TStruct("member", <<Mem(cP, I32, TRUE, <<"i", 0>>), Mem(cQ, I32, TRUE, <<"i", 0>>), Mem(cT, I32, FALSE, <<"i", 3>>)>>)   \* N_MEMBER(D1, 2, p, q, t)
D2 == TStruct("member", <<Mem(cR, TBool, TRUE, <<"b", FALSE>>)>>)                                                   \* ALL_MEMBER(D2, r)
Base == TPoly(<<D1, D2>>)                                                                                  \* POLYMORPHIC(Base, D1, D2)
(* ---- classes with 16 / 64 bit and floating point members; one class with mandatory AND optional members (an integer with a
        default, a container, an optional<double>, none of them last only) per macro flavour that has an N_ form ---- *)
NUM == TStruct("member", <<Mem(cA, I64, TRUE, IV(0)), Mem(cB, U64, TRUE, IV(0)), Mem(cC, I16, TRUE, IV(0)), Mem(cD, U16, TRUE, IV(0)),   \* ALL_MEMBER(NUM, a, b, c, d, e, f)
                 Mem(cE, F32, TRUE, FZ), Mem(<<102>>, F64, TRUE, FZ)>>)
CGU == TStruct("ctor", <<Mem(cA, U64, TRUE, IV(0)), Mem(cB, I64, TRUE, IV(0)), Mem(cC, F64, TRUE, FZ)>>)                               \* ALL_CTOR_GETTER(CGU, a, b, c)
GSA == TStruct("getset", <<Mem(cUA, U64, TRUE, IV(0)), Mem(cUB, F64, TRUE, FZ)>>)                                                     \* ALL_GETTER_SETTER(GSA, get, set, A, B)
SAN == TStruct("member", <<Mem(cAlpha, I64, TRUE, IV(0)), Mem(cBeta, F32, TRUE, FZ)>>)                                                \* ALL_MEMBER_NAME(SAN, (a,"alpha"), (b,"beta"))
MX == TStruct("member", <<Mem(cA, U16, TRUE, IV(0)), Mem(cB, F64, TRUE, FZ),                                                          \* N_MEMBER(MX, 2, a, b, c, d, e)
                Mem(cC, U64, FALSE, IV(9)), Mem(cD, TVec(U16), FALSE, NoSeq), Mem(cE, TOpt(F64), FALSE, None)>>)
CX == TStruct("ctor", <<Mem(cA, U64, TRUE, IV(0)), Mem(cB, TBool, TRUE, <<"b", FALSE>>),                                              \* N_CTOR_GETTER(CX, 2, a, b, c, d, e)
                Mem(cC, I16, FALSE, IV(0)), Mem(cD, TVec(U16), FALSE, NoSeq), Mem(cE, TOpt(F64), FALSE, None)>>)
GSX == TStruct("getset", <<Mem(cUId, I64, TRUE, IV(0)), Mem(cUTag, U16, TRUE, IV(0)),                                                 \* N_GETTER_SETTER(GSX, get, set, 2, Id, Tag, Count, Sizes, Price, Big)
                 Mem(cUCount, I32, FALSE, IV(7)), Mem(cUSizes, TVec(U16), FALSE, NoSeq), Mem(cUPrice, TOpt(F64), FALSE, None), Mem(cUBig, U64, FALSE, IV(9))>>)
SNX == TStruct("member", <<Mem(cId, U64, TRUE, IV(0)), Mem(cW, F64, TRUE, FZ),                                                        \* N_MEMBER_NAME(SNX, 2, (id,"id"), (w,"w"), (n,"n"), (v,"v"), (p,"p"))
                 Mem(cN, I16, FALSE, IV(7)), Mem(cV, TVec(U16), FALSE, NoSeq), Mem(cP, TOpt(F64), FALSE, None)>>)
CGX == TStruct("ctor", <<Mem(cA, I16, TRUE, IV(0)), Mem(cB, F32, TRUE, FZ),                                                           \* N_CTOR_GETTER_NAME(CGX, 2, (a,"a"), (b,"b"), (c,"c"), (d,"d"), (e,"e"))
                 Mem(cC, I32, FALSE, IV(0)), Mem(cD, TVec(U16), FALSE, NoSeq), Mem(cE, TOpt(F64), FALSE, None)>>)
GSNX == TStruct("getsetn", <<Mem(cA, I64, TRUE, IV(0)), Mem(cB, TStr, TRUE, <<"s", <<>>>>),                                            \* N_GETTER_SETTER_NAME(GSNX, 2, (getA,setA,"a"), .. (getE,setE,"e"))
                  Mem(cC, I32, FALSE, IV(7)), Mem(cD, TVec(U16), FALSE, NoSeq), Mem(cE, TOpt(F64), FALSE, None)>>)
\* class templates (TPL_N_ forms), instantiated with one argument each
TplMs(T, dfltA, dfltC) == <<Mem(cA, T, TRUE, dfltA), Mem(cB, U16, TRUE, IV(0)), Mem(cC, I16, FALSE, dfltC), Mem(cD, TOpt(F64), FALSE, None)>>
TM == TStruct("member", TplMs(U64, IV(0), IV(7)))                     \* TPL_N_MEMBER(1, TM, 2, a, b, c, d)                          TM<uint64_t>
TMN == TStruct("member", TplMs(I64, IV(0), IV(7)))                    \* TPL_N_MEMBER_NAME(1, TMN, 2, (a,"a"), ..)                   TMN<int64_t>
TCN == TStruct("ctor", TplMs(F64, FZ, IV(0)))                       \* TPL_N_CTOR_GETTER_NAME(1, TCN, 2, (a,"a"), ..)              TCN<double>
TGS == TStruct("getset", <<Mem(cUA, U64, TRUE, IV(0)), Mem(cUB, U16, TRUE, IV(0)), Mem(<<67>>, I16, FALSE, IV(7)), Mem(<<68>>, TOpt(F64), FALSE, None)>>)   \* TPL_N_GETTER_SETTER(1, TGS, get, set, 2, A, B, C, D)  TGS<uint64_t>
TGN == TStruct("getsetn", TplMs(I16, IV(0), IV(7)))                    \* TPL_N_GETTER_SETTER_NAME(1, TGN, 2, (getA,setA,"a"), ..)    TGN<int16_t>

Family == [
  I32 |-> I32, U8 |-> U8, BOOL |-> TBool, STR |-> TStr,
  VI |-> TVec(I32), VS |-> TVec(TStr), VU8 |-> TVec(U8), VVI |-> TVec(TVec(I32)), LS |-> TVec(TStr), DQB |-> TVec(TBool), AI2 |-> TArr(I32, 2),
  MSI |-> TMap(I32), MSVI |-> TMap(TVec(I32)), MIB |-> TIMap(TBool), UMSB |-> TMap(TBool), MSSA |-> TMap(SA),
  OI |-> TOpt(I32), OVI |-> TOpt(TVec(I32)), VOI |-> TVec(TOpt(I32)), PS |-> TPtr(TStr), SPI |-> TPtr(I32),
  TISB |-> TTup(<<I32, TStr, TBool>>), PIB |-> TPair(I32, TBool), VTIB |-> TVec(TTup(<<I32, TBool>>)),
  XIS |-> TVar(<<I32, TStr>>), XBVCS |-> TVar(<<TBool, TVec(I32), Color, TStr>>), XSD |-> TVar(<<SA, D2>>),
  COL |-> Color, SUIT |-> Suit,
  SA |-> SA, SN |-> SN, CG |-> CG, GS |-> GS, SNM |-> SNM, CGN |-> CGN, GSN |-> GSN, BOXI |-> BoxI, OUTER |-> Outer,
  PB |-> Base, VSPB |-> TVec(Base),
  BS8 |-> TBits(8), BS12 |-> TBits(12), SEC |-> TSecs,
  \* 8 / 16 / 32 / 64 bit integers and floating point: top level, in containers that are not read / written as typed arrays
  \* (map values, pair, tuple, optional, vector of optional / pair, std::array, shared_ptr, variant) and in those that are (vector)
  I8 |-> I8, I16 |-> I16, U16 |-> U16, U32 |-> U32, I64 |-> I64, U64 |-> U64, F32 |-> F32, F64 |-> F64,
  VI64 |-> TVec(I64), VU64 |-> TVec(U64), VF64 |-> TVec(F64), MSU64 |-> TMap(U64), UMSI64 |-> TMap(I64),
  PUI |-> TPair(U64, I64), TNUM |-> TTup(<<U64, I16, F64>>), OU64 |-> TOpt(U64), VOU64 |-> TVec(TOpt(U64)), VPSU |-> TVec(TPair(TStr, U64)),
  AU2 |-> TArr(U64, 2), SPU64 |-> TPtr(U64), XUS |-> TVar(<<U64, TStr>>), XIF |-> TVar(<<I64, F64>>),
  NUM |-> NUM, CGU |-> CGU, GSA |-> GSA, SAN |-> SAN, MX |-> MX, CX |-> CX, GSX |-> GSX, SNX |-> SNX, CGX |-> CGX, GSNX |-> GSNX,
  TM |-> TM, TMN |-> TMN, TCN |-> TCN, TGS |-> TGS, TGN |-> TGN ]
TypeNames == IF Types = {} THEN DOMAIN Family ELSE Types

(* ---- universes ---- *)
Bits8 == { <<0,0,0,0,0,0,0,0>>, <<1,1,1,1,1,1,1,1>>, <<0,1,0,1,0,1,0,0>>, <<1,0,0,0,0,0,0,0>>, <<0,0,0,0,0,0,0,1>> }
Bits12 == { <<0,0,0,0,0,0,0,0,0,0,0,0>>, <<1,1,1,1,1,1,1,1,1,1,1,1>>, <<1,0,0,0,0,0,0,0,0,0,0,1>>, <<0,0,0,0,0,0,0,1,1,0,0,0>> }
UV == [ ints |-> IF Big THEN {-129, 0, 1, 255, 65536} ELSE {-1, 0, 1, 200}, bools |-> BOOLEAN,
        strs |-> IF Big THEN {<<>>, cA, <<233, 98>>, <<34, 92>>, <<1>>, <<65536>>} ELSE {<<>>, cA, <<233, 98>>},
        maxlen |-> 2, keys |-> {cA, cB}, ikeys |-> {-1, 0, 10}, bits |-> Bits8 \cup Bits12,
        edge |-> "all", flts |-> {<<5, -1>>, <<-225, -2>>, <<1, -1>>} \cup (IF Big THEN {<<0, 0>>, <<3, 0>>, <<1, 10>>} ELSE {}) ]      \* 0.5, -2.25, 0.1 (double only), 0.0, 3.0, 1e10
US == [ ints |-> {1}, bools |-> {FALSE}, strs |-> {cA}, maxlen |-> IF Big THEN 2 ELSE 1, keys |-> {cA}, ikeys |-> {10}, bits |-> {<<0,1,0,1,0,1,0,0>>, <<1,0,0,0,0,0,0,0,0,0,0,1>>},
        edge |-> "one", flts |-> {<<5, -1>>} ]

O1(k, v) == JObj([q \in {k} |-> v])
Nest == O1(cA, JArr(<<JInt(1), O1(cB, JInt(2))>>))
Pool == { JNull, JBool(TRUE), JInt(1), JStr(<<>>), JStr(<<115>>), JStr(<<49>>), EmptyArr, JArr(<<JInt(1)>>), EmptyObj, O1(cA, JInt(1)) }
        \cup (IF Big THEN { JInt(300), JInt(-1), JStr(cRed), JArr(<<JStr(<<115>>)>>), Nest, JDec(5, -1), KMax("u64") } ELSE {})
ExtraElems == { JInt(1), JNull }
ExtraKeys == { <<33>>, cZ } \cup (IF Big THEN { <<98, 98>> } ELSE {})
ExtraVals == { JInt(1), JNull, Nest, JArr(<<JInt(1)>>) } \cup (IF Big THEN { JStr(cA), O1(cB, JBool(TRUE)) } ELSE {})

\* faults of a number: the range side - the extreme values of the integer kind (readable) and the nearest integers outside its
\* range (256 / -1 for uint8_t, 2^63 for int64_t, 2^64 / -1 for uint64_t ...), a fraction; for float / double another fraction and integers
NumFaults(T) == IF T[1] = "int" THEN {KBelow(T[2]), KAbove(T[2]), JDec(5, -1)} \cup (IF T[2] \in {"i32", "u8"} /\ ~Big THEN {} ELSE {KMin(T[2]), KMax(T[2])})
                ELSE {JDec(-225, -2), JDec(1, -1), KMax("u64")}
ASSUME \A k \in IntKinds : InRange(k, KMin(k)) /\ InRange(k, KMax(k)) /\ ~InRange(k, KBelow(k)) /\ ~InRange(k, KAbove(k))

ObjOf(ks, vs) == JObj([k \in {ks[i] : i \in 1..Len(ks)} |-> vs[CHOOSE i \in 1..Len(ks) : ks[i] = k]])

RECURSIVE Mut(_, _, _), MutSeq(_, _, _)
MutSeq(Ts, vs, b) ==
  IF Len(vs) = 0 THEN {<<>>}
  ELSE UNION { { <<h>> \o t : h \in Mut(Ts[1], vs[1], k), t \in MutSeq(Tail(Ts), Tail(vs), b - k) } : k \in 0..b }
MutArr(Ts, vs, b) ==
  { JArr(s) : s \in MutSeq(Ts, vs, b) }
  \cup { JArr(SubSeq(s, 1, Len(s) - 1)) : s \in {x \in MutSeq(Ts, vs, b - 1) : Len(x) > 0} }       \* too few elements
  \cup { JArr(Append(s, e)) : s \in MutSeq(Ts, vs, b - 1), e \in ExtraElems }                        \* one too many
Mut(T, v, b) ==
  IF b = 0 THEN {ToJ(T, v)}
  ELSE Pool \cup
    CASE T[1] \in {"vec", "arr"} -> MutArr([i \in 1..Len(v[2]) |-> T[2]], v[2], b)
      [] T[1] \in {"tup", "pair"} -> MutArr(T[2], v[2], b)
      [] T[1] = "map" -> LET ks == SetToSeq(DOMAIN v[2])  Ts == [i \in 1..Len(ks) |-> T[2]]  vs == [i \in 1..Len(ks) |-> v[2][ks[i]]]
                         IN { ObjOf(ks, s) : s \in MutSeq(Ts, vs, b) }
                            \cup { ObjOf(Append(ks, cZ), Append(s, e)) : s \in MutSeq(Ts, vs, b - 1), e \in {JInt(1), JNull, JBool(TRUE)} }
      [] T[1] = "imap" -> LET ns == SetToSeq(DOMAIN v[2])  ks == [i \in 1..Len(ns) |-> IntStr(ns[i])]
                              Ts == [i \in 1..Len(ns) |-> T[2]]  vs == [i \in 1..Len(ns) |-> v[2][ns[i]]]
                          IN { ObjOf(ks, s) : s \in MutSeq(Ts, vs, b) }
                             \cup { ObjOf(Append(ks, k), Append(s, JBool(TRUE))) : s \in MutSeq(Ts, vs, b - 1), k \in {cA, <<48, 49>>, <<45, 53>>} }
      [] T[1] \in {"opt", "ptr"} -> IF v = None THEN {JNull} ELSE Mut(T[2], v[2], b)
      [] T[1] \in {"var", "poly"} -> Mut(T[2][v[2]], v[3], b)
      [] T[1] = "struct" ->
           LET ms == T[2]
               wr == SelectSeq([i \in 1..Len(ms) |-> i], LAMBDA i : Written(ms[i], v[2][i]))
               nw == {i \in 1..Len(ms) : ~Written(ms[i], v[2][i])}
               ks == [i \in 1..Len(wr) |-> ms[wr[i]].n]
               Ts == [i \in 1..Len(wr) |-> ms[wr[i]].t]
               vs == [i \in 1..Len(wr) |-> v[2][wr[i]]]
               S1 == MutSeq(Ts, vs, b - 1)
           IN { ObjOf(ks, s) : s \in MutSeq(Ts, vs, b) }
              \cup { ObjOf(RemoveAt0(ks, d - 1), RemoveAt0(s, d - 1)) : s \in S1, d \in 1..Len(ks) }              \* a member missing
              \cup { ObjOf(Append(ks, k), Append(s, e)) : s \in S1, k \in ExtraKeys, e \in ExtraVals }             \* an undeclared member
              \cup { ObjOf(Append(ks, ms[i].n), Append(s, e)) : s \in S1, i \in nw, e \in Pool }                   \* an omitted optional member supplied
      [] T[1] \in {"int", "flt"} -> NumFaults(T) \cup {ToJ(T, v)}
      [] T[1] = "bits" -> LET j == ToJ(T, v) IN     \* the base16 text one byte short, and empty
                          {j, JStr(<<>>)} \cup (IF j[1] = "str" /\ Len(j[2]) >= 2 THEN {JStr(SubSeq(j[2], 1, Len(j[2]) - 2))} ELSE {})
      [] OTHER -> {ToJ(T, v)}

(* ---- known deviations of the pinned implementation (trigger predicates; see notes/C17.md) ---- *)
\* a variant with a uint64_t alternative reading an integer above INT64_MAX
VarBigU(T, j) == T[1] = "var" /\ (\E k \in 1..Len(T[2]) : T[2][k] = U64) /\ j[1] = "wide" /\ InRange("u64", j) /\ ~InRange("i64", j)
\* a class declared with N_GETTER_SETTER_NAME holding an empty optional in a non-mandatory member
NullOpt(T, v) == T[1] = "struct" /\ T[3] = "getsetn" /\ \E i \in 1..Len(T[2]) : ~Written(T[2][i], v[2][i])
RECURSIVE Devs(_, _)
Devs(T, j) ==
  CASE T[1] \in {"vec", "arr"} ->
         (IF T[1] = "arr" /\ IsArr(j) /\ Len(j[2]) # T[3] THEN {"stdarray-size"} ELSE {})
         \cup (IF IsArr(j) THEN UNION { Devs(T[2], j[2][i]) : i \in 1..Len(j[2]) } ELSE {})
    [] T[1] \in {"map", "imap"} -> IF IsObj(j) THEN UNION { Devs(T[2], j[2][k]) : k \in DOMAIN j[2] } ELSE {}
    [] T[1] \in {"opt", "ptr"} -> IF IsNull(j) THEN {} ELSE Devs(T[2], j)
    [] T[1] = "tup" ->
         IF ~IsArr(j) \/ Len(j[2]) < Len(T[2]) THEN {"tuple-shape"}
         ELSE UNION { Devs(T[2][i], j[2][i]) : i \in 1..Len(T[2]) }
    [] T[1] = "pair" -> IF IsArr(j) /\ Len(j[2]) >= 2 THEN UNION { Devs(T[2][i], j[2][i]) : i \in 1..2 } ELSE {}
    [] T[1] \in {"var", "poly"} -> UNION { Devs(T[2][k], j) : k \in 1..Len(T[2]) }
                                   \cup (IF VarBigU(T, j) THEN {"ubjson-variant-uint64"} ELSE {})
    [] T[1] = "enum" -> IF j = JStr(<<>>) THEN {"enum-empty-string"} ELSE {}
    [] T[1] = "struct" ->
         IF ~IsObj(j) THEN {}
         ELSE (IF T[3] = "member" /\ DOMAIN j[2] \ {T[2][i].n : i \in 1..Len(T[2])} # {}
               THEN {"unknown-member-streaming"} ELSE {})
              \cup UNION { IF T[2][i].n \in DOMAIN j[2] THEN Devs(T[2][i].t, j[2][T[2][i].n]) ELSE {} : i \in 1..Len(T[2]) }
    [] OTHER -> {}

(* BSON documents are rooted in an object, and the format cannot tell an array from an object at the root
   (an array is a document with index keys): BSON takes part only where the type is read from / written to
   an object at the root (DESIGN 5/C17: "BSON where rooted in an object") *)
RECURSIVE RootObj(_)
RootObj(X) == CASE X[1] \in {"map", "imap", "struct"} -> TRUE
                [] X[1] \in {"opt", "ptr"} -> RootObj(X[2])
                [] X[1] \in {"var", "poly"} -> \A k \in 1..Len(X[2]) : RootObj(X[2][k])
                [] OTHER -> FALSE

(* ---- state machine ---- *)
Init == ph = 0 /\ ty = "" /\ val = None /\ doc = JNull
Next == \/ /\ ph = 0 /\ ph' = 1 /\ doc' = JNull
           /\ \E n \in TypeNames : ty' = n /\ val' \in Vals(Family[n], UV) \cup Vals(Family[n], US)
        \/ /\ ph = 1 /\ val \in Vals(Family[ty], US)
           /\ ph' = 2 /\ ty' = ty /\ val' = None
           /\ doc' \in Mut(Family[ty], val, Budget)

CurT == Family[ty]
ValCase == [k |-> "val", ty |-> ty, v |-> VWire(val), img |-> Wire(ToJ(CurT, val)),
            ij |-> Mentions(CurT, {"bits", "secs"}), bson |-> IsObj(ToJ(CurT, val)) /\ RootObj(CurT) /\ AllInt64(ToJ(CurT, val)),
            dev |-> (IF Mentions(CurT, {"bits"}) THEN {"ubjson-bitset"} ELSE {})
                    \cup (IF VarBigU(CurT, ToJ(CurT, val)) THEN {"ubjson-variant-uint64"} ELSE {})
                    \cup (IF NullOpt(CurT, val) THEN {"getset-name-null-optional"} ELSE {})]
InpCase == LET r == FromJ(CurT, doc) IN
           [k |-> "inp", ty |-> ty, d |-> Wire(doc), r |-> r[1], v |-> IF r[1] = "ok" THEN VWire(r[2]) ELSE <<"none">>,
            bson |-> IsObj(doc) /\ RootObj(CurT) /\ AllInt64(doc), dev |-> Devs(CurT, doc)]
Emit == CASE ph = 1 -> PrintT(ToJson(ValCase)) [] ph = 2 -> PrintT(ToJson(InpCase)) [] OTHER -> TRUE

(* ---- model-internal obligations ---- *)
\* reading the image of a value gives the value back (DESIGN 3, Reflect: FromJson(CurT, ToJson(CurT,v)) = v)
RoundTrip == ph = 1 => FromJ(CurT, ToJ(CurT, val)) = Ok(val)
\* a successful reading is stable: writing and reading it again gives the same value
Normal == ph = 2 => LET r == FromJ(CurT, doc) IN r[1] = "ok" => FromJ(CurT, ToJ(CurT, r[2])) = r
\* whatever is read successfully satisfies the type's is() requirements (FromJ and Is are separate definitions),
\* except for the lenient string conversion of json/as.md, which never yields "ok" here
OkFits == ph = 2 => (FromJ(CurT, doc)[1] = "ok" => Is(CurT, doc))
\* every fault class the property names is an error: checked on the faults the generator knows it made
\* (missing mandatory member, short tuple/pair/array, wrong container kind at the root)
RootKind == ph = 2 =>
  LET r == FromJ(CurT, doc) IN
    /\ (CurT[1] \in {"vec", "arr", "tup", "pair"} /\ ~IsArr(doc) => r = Err)
    /\ (CurT[1] \in {"map", "imap", "struct"} /\ ~IsObj(doc) => r = Err)
    /\ (CurT[1] \in {"tup", "pair", "arr"} /\ IsArr(doc) /\ Len(doc[2]) < (IF CurT[1] = "arr" THEN CurT[3] ELSE Len(CurT[2])) => r = Err)
    /\ (CurT[1] = "struct" /\ IsObj(doc) /\ (\E i \in 1..Len(CurT[2]) : CurT[2][i].m /\ CurT[2][i].n \notin DOMAIN doc[2]) => r = Err)
=============================================================================
