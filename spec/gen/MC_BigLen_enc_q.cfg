INIT Init
NEXT Next
INVARIANT Emit
CHECK_DEADLOCK FALSE
CONSTANTS
  Mode = "enc"
  Big = FALSE
