INIT Init
NEXT Next
INVARIANTS Emit Law Necessity
CHECK_DEADLOCK FALSE
CONSTANTS
  Family = "field"
  Delims = {44, 9}
  QEs = {"dd", "db", "sd"}
  Lds = {"lf", "crlf"}
  Big = FALSE
