INIT Init
NEXT Next
INVARIANTS Emit PathsResolve NormRoundTrip OptionLaws SliceClosedForm ReplaceLaws
CHECK_DEADLOCK FALSE
CONSTANTS
  Mode = "slice"
  MaxSegs = 1
  Big = TRUE
  MaxArr = 6
  InclStepOverflow = FALSE
  InclEmptyArrLenP = FALSE
