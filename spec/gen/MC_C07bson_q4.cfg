INIT Init
NEXT Next
INVARIANT Emit
CHECK_DEADLOCK FALSE
CONSTANTS
  Format = "bson"
  MaxLen = 5
  ExhLen = 1
  Reps = {0, 1, 5, 10, 255}
  OnlyAccepted = FALSE
  TokMode = "bytes"
