INIT Init
NEXT Next
VIEW View
INVARIANTS Emit Identities
CHECK_DEADLOCK FALSE
CONSTANTS
  Mode = "slice"
  MaxDepth = 1
  WrapSet = "core"
  SlRange = 3
  EmitAst = FALSE
  ExcludeFilterOnNonArray = TRUE
  ExcludeMergeNoOverride = TRUE
  ExcludeNotBeforePipe = TRUE
  ExcludePipeIntoLiteral = TRUE
