CONSTANTS
 MaxItems = 5
INIT Init
NEXT Next
INVARIANT Emit
CHECK_DEADLOCK FALSE
