---------------------------- MODULE MC_C02nest ----------------------------
(* C02 generator (iv): whole texts in which a token that goes through the   *)
(* parser's scratch buffer is followed by a nested container whose first     *)
(* element is a number of either sign / class, a literal or a string        *)
(* (C02Tokens!NestTexts, written by tools/gen_c02_tokens.py).  The machine, *)
(* the predicted verdict and the predicted value are those of JsonText.     *)
EXTENDS JsonText, Json, C02Tokens
VARIABLES txt, st
Init == txt = <<>> /\ st = Init0
Next == txt = <<>> /\ \E t \in NestTexts : txt' = t /\ st' = Run(Init0, t, 1)
Case == [t |-> txt, acc |-> AcceptAtEof(st), uc |-> st.uc, ut |-> st.ut, tc |-> st.tc, dc |-> st.dc,
         dep |-> st.dep, v |-> IF AcceptAtEof(st) THEN ValueOf(ResultAtEof(st)) ELSE <<"none">>]
Emit == txt # <<>> => PrintT(ToJson(Case))
=============================================================================
