---------------------------- MODULE MC_C02tok ----------------------------
(* C02 generator (ii): sequences of whole tokens (punctuation, comments,   *)
(* literal names, number literals at every grammar path and native-range   *)
(* boundary, string literals with every escape and UTF-8 class, valid and  *)
(* invalid).  Same machine as the character-level generator.               *)
EXTENDS JsonText, Json, C02Tokens
CONSTANTS MaxTok, Small
VARIABLES txt, st, ntok

Init == txt = <<>> /\ st = Init0 /\ ntok = 0
Next == /\ st.m # "dead" /\ ntok < MaxTok
        /\ \E t \in (IF Small THEN SmallTokens ELSE Tokens) : txt' = txt \o t /\ st' = Run(st, t, 1) /\ ntok' = ntok + 1

Case == [t |-> txt, acc |-> AcceptAtEof(st), uc |-> st.uc, ut |-> st.ut, tc |-> st.tc, dc |-> st.dc,
         dep |-> st.dep, v |-> IF AcceptAtEof(st) THEN ValueOf(ResultAtEof(st)) ELSE <<"none">>]
Emit == PrintT(ToJson(Case))
=============================================================================
