---------------------------- MODULE MC_C02tok ----------------------------
(* C02 generator (ii): sequences of whole tokens (punctuation, comments,   *)
(* literal names, number literals at every grammar path and native-range   *)
(* boundary, string literals with every escape and UTF-8 class, valid and  *)
(* invalid).  Same machine as the character-level generator.               *)
EXTENDS JsonText, Json, C02Tokens
CONSTANTS MaxTok, Small, Members
VARIABLES txt, st, ntok

\* "members" mode: object bodies as sequences of whole members (duplicate names with every kind of value, in every
\* position); the case text is the body wrapped as an object, and as an object inside an array
MemberAtoms == { k \o <<58>> \o v : k \in { <<34,97,34>>, <<34,98,34>> },
                                    v \in { <<49>>, <<91,50,93>>, <<123,34,99,34,58,51,125>>, <<34,115,34>>, <<110,117,108,108>>, <<123,125>>, <<91,93>>, <<49,46,53>> } }
Init == txt = <<>> /\ st = Init0 /\ ntok = 0
Next == /\ st.m # "dead" /\ ntok < MaxTok
        /\ IF Members
           THEN \E t \in MemberAtoms : txt' = (IF txt = <<>> THEN t ELSE txt \o <<44>> \o t) /\ st' = st /\ ntok' = ntok + 1
           ELSE \E t \in (IF Small THEN SmallTokens ELSE Tokens) : txt' = txt \o t /\ st' = Run(st, t, 1) /\ ntok' = ntok + 1

Case == [t |-> txt, acc |-> AcceptAtEof(st), uc |-> st.uc, ut |-> st.ut, tc |-> st.tc, dc |-> st.dc,
         dep |-> st.dep, v |-> IF AcceptAtEof(st) THEN ValueOf(ResultAtEof(st)) ELSE <<"none">>]
CaseOf(tx, s) == [t |-> tx, acc |-> AcceptAtEof(s), uc |-> s.uc, ut |-> s.ut, tc |-> s.tc, dc |-> s.dc,
                  dep |-> s.dep, v |-> IF AcceptAtEof(s) THEN ValueOf(ResultAtEof(s)) ELSE <<"none">>]
Emit == IF Members
        THEN LET o == <<123>> \o txt \o <<125>>  a == <<91>> \o o \o <<44, 48, 93>> IN
             PrintT(ToJson(CaseOf(o, RunText(o)))) /\ PrintT(ToJson(CaseOf(a, RunText(a))))
        ELSE PrintT(ToJson(Case))
=============================================================================
