---------------------------- MODULE MC_C02tok ----------------------------
(* C02 generator (ii): sequences of whole tokens (punctuation, comments,   *)
(* literal names, number literals at every grammar path and native-range   *)
(* boundary, string literals with every escape and UTF-8 class, valid and  *)
(* invalid).  Same machine as the character-level generator.               *)
EXTENDS JsonText, Json, C02Tokens
CONSTANTS MaxTok, Small
VARIABLES txt, st, ntok

Init == txt = <<>> /\ st = Init0 /\ ntok = 0
Next == /\ st.m # "dead" /\ ntok < MaxTok
        /\ \E t \in (IF Small THEN SmallTokens ELSE Tokens) : txt' = txt \o t /\ st' = Run(st, t, 1) /\ ntok' = ntok + 1

RECURSIVE J(_)
J(v) == CASE v[1] = "num" -> <<"num", NumClass(v[2]), v[2]>>
        [] v[1] = "arr" -> <<"arr", [i \in 1..Len(v[2]) |-> J(v[2][i])]>>
        [] v[1] = "obj" -> <<"obj", [i \in 1..Len(v[2]) |-> <<v[2][i][1], J(v[2][i][2])>>]>>
        [] OTHER -> v

Case == [t |-> txt, acc |-> AcceptAtEof(st), uc |-> st.uc, ut |-> st.ut, tc |-> st.tc, dc |-> st.dc,
         dep |-> st.dep, v |-> IF AcceptAtEof(st) THEN J(ResultAtEof(st)) ELSE <<"none">>]
Emit == PrintT(ToJson(Case))
=============================================================================
