INIT Init
NEXT Next
INVARIANTS Emit PathsResolve NumbersNormal FilterSelectsKids
CHECK_DEADLOCK FALSE
CONSTANTS
  Big = FALSE
  Fams = {"un", "bin", "ar", "mix", "top"}
