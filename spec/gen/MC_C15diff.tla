---------------------------- MODULE MC_C15diff ----------------------------
(* C15 diff-law generator: all ordered pairs (a, b) of a bounded document   *)
(* universe.  The harness computes from_diff(a, b) with the real library;    *)
(* Trace_C15 then applies the recorded patch with the spec's own Apply.      *)
EXTENDS JsonValue, Json, TLC
CONSTANTS Big
VARIABLES a, b, phase
K == {<<97>>, <<126, 47>>}            \* "a" and "~/" (needs escaping in a pointer)
S0 == {JNull, JInt(1), JInt(2)}
L1 == S0 \cup ObjsOver(K, S0) \cup ArrsOver(S0, IF Big THEN 3 ELSE 2)
L1s == {JInt(1), EmptyObj, EmptyArr, JArr(<<JInt(1), JInt(2)>>), JObj([k \in {<<97>>} |-> JInt(1)]), JArr(<<JInt(2)>>)}
Docs == L1 \cup ObjsOver({<<97>>, <<98>>}, L1s) \cup ArrsOver(L1s, 2)
Init == a \in Docs /\ b = JNull /\ phase = 0
Next == phase = 0 /\ phase' = 1 /\ b' \in Docs /\ a' = a
Emit == phase = 1 => PrintT(ToJson([a |-> Wire(a), b |-> Wire(b)]))
=============================================================================
