INIT Init
NEXT Next
INVARIANTS Emit RoundTrip Normal OkFits RootKind
CHECK_DEADLOCK FALSE
CONSTANTS
  Budget = 1
  Big = FALSE
  Types = {"OUTER", "PB", "MSSA", "XSD", "SA", "BOXI"}
