------------------------------ MODULE MC_C16 ------------------------------
(* C16 generator: all (target, patch) pairs over a bounded document        *)
(* universe with the RFC 7386 result predicted by MergePatch!Merge, and    *)
(* the side condition of the diff law evaluated by the spec.               *)
EXTENDS MergePatch, Json, TLC
CONSTANTS Depth2, NonAscii
VARIABLES t, p, phase

\* member names: a, b - or z and e-acute (U+00E9): in UTF-8 its bytes are >= 0x80, so an ASCII / non-ASCII pair orders differently under signed and unsigned byte comparison
K == IF NonAscii THEN {<<122>>, <<233>>} ELSE {<<97>>, <<98>>}
K1 == IF NonAscii THEN {<<122>>} ELSE {<<97>>}
\* (1 and 1.5: an integer and a fraction with the same integer part must be told apart by from_diff)
S0 == {JNull, JBool(TRUE), JInt(1), JStr(<<115>>)} \cup (IF Depth2 THEN {} ELSE {<<"dec", 15, 0 - 1>>})      \* (the deeper universe keeps four scalars: its square is the case count)
L1 == S0 \cup ObjsOver(K, S0) \cup ArrsOver(S0, 1)
L1s == S0 \cup ObjsOver(K1, S0) \cup {EmptyArr}
L2 == L1 \cup ObjsOver(K, IF Depth2 THEN L1 ELSE L1s) \cup ArrsOver(L1, 1)
Docs == L2

RECURSIVE NoNullAnywhere(_)
NoNullAnywhere(v) ==
  CASE IsObj(v) -> \A k \in DOMAIN v[2] : ~IsNull(v[2][k]) /\ NoNullAnywhere(v[2][k])
  [] IsArr(v) -> \A i \in 1..Len(v[2]) : NoNullAnywhere(v[2][i])
  [] OTHER -> TRUE

Init == t \in Docs /\ p = JNull /\ phase = 0
Next == phase = 0 /\ phase' = 1 /\ p' \in Docs /\ t' = t
Emit == phase = 1 => PrintT(ToJson([t |-> Wire(t), p |-> Wire(p), r |-> Wire(Merge(t, p)), nn |-> NoNullAnywhere(p)]))
=============================================================================
