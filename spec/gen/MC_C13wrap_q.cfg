INIT Init
NEXT Next
VIEW View
INVARIANTS Emit Identities
CHECK_DEADLOCK FALSE
CONSTANTS
  Mode = "wrap"
  MaxDepth = 2
  WrapSet = "full"
  SlRange = 2
  EmitAst = FALSE
