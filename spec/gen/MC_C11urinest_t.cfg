CONSTANTS
 MaxSegs = 3
 Nested = TRUE
INIT Init
NEXT Next
INVARIANT Emit
CHECK_DEADLOCK FALSE
