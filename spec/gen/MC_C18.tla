------------------------------ MODULE MC_C18 ------------------------------
(* C18 generator, CSV part.  BFS: every initial state is one option record, *)
(* every successor one table that is in the property's scope under these    *)
(* options (Csv!InScope).  Each successor is emitted as one case            *)
(*   [o, names, rows, doc (the JSON value of the table under o.mapping),    *)
(*    dev (known-deviation classes the case falls into)]                    *)
(* and TLC checks the model-level round-trip law Csv!RoundTripLaw on it.    *)
(* The conformance harness encodes doc with the real encoder, decodes the   *)
(* text with the real decoder under the same options; Trace_C18 re-reads    *)
(* the recorded text with the SPEC's reader.                                *)
(*                                                                          *)
(* Field contents are built from an alphabet that is RELATIVE to the        *)
(* options in force: the delimiter, the quote, the escape character (or a   *)
(* backslash when the quote is doubled), a delimiter-like and a quote-like  *)
(* character that are NOT in force, CR, LF, space, a digit, a letter and a  *)
(* non-ASCII letter.                                                        *)
EXTENDS Csv, Json, TLC
CONSTANTS Family,     \* "field" | "pair" | "grid" | "names"
          Delims,     \* set of field_delimiter code points
          QEs,        \* subset of {"dd","db","ss","sb","sd"}: (quote_char, quote_escape_char)
          Lds,        \* subset of {"lf","crlf","cr"}
          Big         \* larger cell sets / table shapes
VARIABLES o, t

A == 97  B == 98  X == 120  ONE == 49  EACUTE == 233
QuoteOf(qe) == IF qe \in {"dd", "db"} THEN DQUOTE ELSE SQUOTE
EscOf(qe) == CASE qe = "dd" -> DQUOTE [] qe = "db" -> BSLASH [] qe = "ss" -> SQUOTE [] qe = "sb" -> BSLASH
               [] qe = "sd" -> DQUOTE      \* quote_char(') set, quote_escape_char left at its default value '"'
LdOf(n) == CASE n = "lf" -> <<LF>> [] n = "crlf" -> <<CR, LF>> [] n = "cr" -> <<CR>>
\* (quote_style, infer_types) combinations admitted by the property's proviso
StyleInfer == { <<"all", TRUE>>, <<"nonnumeric", TRUE>>, <<"all", FALSE>>, <<"nonnumeric", FALSE>>,
                <<"minimal", FALSE>>, <<"none", FALSE>> }
\* (mapping, header handling)
MapHdr == IF Family = "names" THEN { <<"n_objects", "assume">>, <<"m_columns", "assume">> }
          ELSE { <<"n_rows", "none">>, <<"n_rows", "names">>, <<"n_objects", "assume">>, <<"n_objects", "names">>,
                 <<"m_columns", "assume">> }
Opts == { [fd |-> d, qc |-> QuoteOf(qe), ec |-> EscOf(qe), style |-> si[1], infer |-> si[2], ld |-> LdOf(ld),
           mapping |-> mh[1], header |-> mh[2], iel |-> TRUE] :
          d \in Delims, qe \in QEs, ld \in Lds, si \in StyleInfer, mh \in MapHdr }

\* ---- option-relative alphabet
Esc(p) == IF p.ec # p.qc THEN p.ec ELSE BSLASH
OtherDelim(p) == IF p.fd = COMMA THEN SEMI ELSE COMMA
OtherQuote(p) == IF p.qc = DQUOTE THEN SQUOTE ELSE DQUOTE
Alphabet(p) == {A, p.fd, p.qc, Esc(p), OtherDelim(p), OtherQuote(p), CR, LF, SPACE, ONE, EACUTE}
S(cps) == <<"str", cps>>
TRUEW == <<116, 114, 117, 101>>   NULLW == <<110, 117, 108, 108>>
Scalars == { <<"int", 0>>, <<"int", 1>>, <<"int", 0 - 1>>, <<"int", 12>>, <<"bool", TRUE>>, <<"bool", FALSE>>, <<"null">> }
ScalarsS == { <<"int", 1>>, <<"int", 0 - 1>>, <<"bool", TRUE>>, <<"null">> }
Tokens(p) == { TRUEW, NULLW, <<49, 50>>, <<45, 49>>, <<49, 46, 53>>, <<84, 82, 85, 69>>, <<A, p.qc, A>>, <<p.qc, A, p.qc>>,
               <<SPACE, A, SPACE>>, <<A, CR, LF>>, <<p.qc, p.qc, p.qc>>, <<A, p.fd, A>>, <<Esc(p), p.qc, Esc(p)>>,
               <<Esc(p), Esc(p), p.qc>>, <<128512>>, <<A, LF, p.fd>>, <<TAB>> }
\* family "field": every string of up to two characters over the alphabet, plus tokens
Cells1(p) == { S(<<>>) } \cup { S(<<c>>) : c \in Alphabet(p) } \cup { S(<<c, d>>) : c, d \in Alphabet(p) }
             \cup { S(w) : w \in Tokens(p) } \cup (IF p.infer THEN Scalars ELSE {})
\* family "pair"
Cells2(p) ==
  IF Big THEN { S(<<>>), S(<<A>>), S(<<p.fd>>), S(<<p.qc>>), S(<<Esc(p)>>), S(<<LF>>), S(<<CR>>), S(<<CR, LF>>), S(<<SPACE, A>>),
                S(<<A, SPACE>>), S(<<ONE>>), S(TRUEW), S(<<p.qc, p.qc>>), S(<<EACUTE>>) } \cup (IF p.infer THEN ScalarsS ELSE {})
  ELSE { S(<<>>), S(<<A>>), S(<<p.fd>>), S(<<p.qc>>), S(<<Esc(p)>>), S(<<LF>>), S(<<SPACE, A>>), S(<<ONE>>) }
       \cup (IF p.infer THEN { <<"int", 1>>, <<"int", 0 - 1>>, <<"bool", TRUE>>, <<"null">> } ELSE {})      \* (every scalar event kind of the reader: uint64, int64, bool, null)
\* family "grid"
Cells3(p) == (IF Big THEN { S(<<>>), S(<<A>>), S(<<A, p.fd>>), S(<<p.qc>>), S(<<LF>>) } ELSE { S(<<>>), S(<<A, p.fd>>), S(<<LF>>) })
             \cup (IF p.infer THEN { <<"int", 1>>, <<"int", 0 - 7>> } ELSE {})
Cells4(p) == { S(<<>>), S(<<p.fd, p.qc>>) } \cup (IF p.infer THEN { <<"null">> } ELSE {})

Rows(n, m, C) == [1..n -> [1..m -> C]]           \* all n x m grids over C
DefaultNames(m, p) == IF p.header = "none" THEN <<>> ELSE SubSeq(<<<<A>>, <<B>>, <<99>>>>, 1, m)
T(names, rows) == [names |-> names, rows |-> rows]
Grid(n, m, C, p) == { T(DefaultNames(m, p), r) : r \in Rows(n, m, C) }

\* family "names": column names with content that needs care, small cells
Names1(p) == { <<<<A>>>>, <<<<>>>>, <<<<p.fd>>>>, <<<<p.qc>>>>, <<<<ONE>>>>, <<<<SPACE, A>>>>, <<<<LF>>>>, <<<<EACUTE>>>>, <<<<Esc(p)>>>> }
Names2(p) == { <<<<A>>, <<B>>>>, <<<<B>>, <<A>>>>, <<<<>>, <<A>>>>, <<<<A, p.fd>>, <<B>>>>, <<<<ONE>>, TRUEW>>, <<<<EACUTE>>, <<A, SPACE, B>>>>,
               <<<<p.qc, A>>, <<B>>>>, <<<<A>>, <<LF>>>>, <<<<A, SPACE>>, <<A>>>> }
Names3(p) == { <<<<A>>, <<B>>, <<99>>>>, <<<<99>>, <<A>>, <<B>>>> }
CellsN(p) == { S(<<X>>), S(<<>>) }
NameTables(p) ==
  { T(n, r) : n \in Names1(p), r \in Rows(1, 1, CellsN(p)) \cup Rows(2, 1, CellsN(p)) } \cup
  { T(n, r) : n \in Names2(p), r \in Rows(1, 2, CellsN(p)) \cup Rows(2, 2, CellsN(p)) } \cup
  { T(n, r) : n \in Names3(p), r \in Rows(1, 3, CellsN(p)) }

RawTables(p) ==
  CASE Family = "field" -> Grid(1, 1, Cells1(p), p)
    [] Family = "pair" -> Grid(1, 2, Cells2(p), p) \cup Grid(2, 1, Cells2(p), p)
    [] Family = "grid" -> Grid(2, 2, Cells3(p), p) \cup
                          (IF Big THEN Grid(3, 3, Cells4(p) \ {<<"null">>}, p) \cup Grid(2, 3, Cells4(p), p) \cup Grid(3, 2, Cells4(p), p)
                           ELSE Grid(3, 1, Cells4(p), p) \cup Grid(1, 3, Cells4(p), p))
    [] Family = "names" -> NameTables(p)
\* function-valued rows -> tuples (so that equal tables are equal states and ToJson prints arrays)
Norm(x) == T(x.names, [i \in 1..Len(x.rows) |-> [j \in 1..Len(x.rows[i]) |-> x.rows[i][j]]])

Blank == T(<<>>, <<>>)
Init == o \in Opts /\ t = Blank
Next == /\ t = Blank
        /\ \E x \in RawTables(o) : InScope(x, o) /\ t' = x
        /\ o' = o

(* ---- known deviations of the pinned jsoncons tree (notes/C18.md, SUSPECTED DEFECTS).  The  *)
(* cases stay generated and are predicted strictly; the spec only names the class(es) whose   *)
(* trigger predicate a case satisfies, so that the driver can match a mismatch on it against  *)
(* known_findings.jsonl.                                                                      *)
StringsOf == { t.rows[i][j][2] : <<i, j>> \in { ij \in (1..Len(t.rows)) \X (1..NCols(t)) : IsStr(t.rows[ij[1]][ij[2]]) } }
\* minimal style: a field with a line break but no delimiter / quote is written without quotes
DevLinebreak == o.style = "minimal" /\ \E s \in StringsOf : (Has(s, CR) \/ Has(s, LF)) /\ ~Has(s, o.fd) /\ ~Has(s, o.qc)
\* the escape character itself is never escaped inside a quoted field
DevEscape == o.ec # o.qc /\ \E s \in StringsOf : Has(s, o.ec) /\ (o.style \in {"all", "nonnumeric"} \/ (o.style = "minimal" /\ MustQuote(s, o)))
\* column names are written to the header line raw (never quoted / escaped)
DevHeader == o.header = "assume" /\ \E j \in 1..Len(t.names) : MustQuote(t.names[j], o) \/ SoleEmpty(t.names[j], NCols(t), o)
\* a record whose only field is the empty string is written as an empty line
DevSoleEmpty == o.style = "minimal" /\ NCols(t) = 1 /\ \E i \in 1..Len(t.rows) : t.rows[i][1] = S(<<>>)
\* reader: a TAB (or space) at the start of a line is taken as data before it is compared with the field
\* delimiter, so with field_delimiter TAB a record whose first field is empty and unquoted is misread
\* (the json flavour writes the columns of objects in ascending order of the names, ojson in the order given:
\* the first field of a line is column 1 or the column with the least name)
RECURSIVE KeyLess(_, _)
KeyLess(a, b) == IF a = <<>> THEN b # <<>> ELSE IF b = <<>> THEN FALSE
                 ELSE IF a[1] # b[1] THEN a[1] < b[1] ELSE KeyLess(Tail(a), Tail(b))
FirstCols == {1} \cup (IF o.header = "none" THEN {} ELSE { j \in 1..NCols(t) : \A k \in 1..NCols(t) : ~KeyLess(t.names[k], t.names[j]) })
DevTabStart == /\ o.fd = TAB /\ NCols(t) >= 2
               /\ \/ o.header = "assume" /\ \E j \in 1..NCols(t) : t.names[j] = <<>>
                  \/ o.style \in {"minimal", "none"} /\ \E i \in 1..Len(t.rows) : \E j \in FirstCols : t.rows[i][j] = S(<<>>)
DevIs(n) == CASE n = "escape-char-unescaped" -> DevEscape [] n = "header-unquoted" -> DevHeader
              [] n = "linebreak-unquoted" -> DevLinebreak [] n = "sole-empty-unquoted" -> DevSoleEmpty
              [] n = "tab-delimiter-at-line-start" -> DevTabStart
Dev == SelectSeq(<<"escape-char-unescaped", "header-unquoted", "linebreak-unquoted", "sole-empty-unquoted",
                   "tab-delimiter-at-line-start">>, DevIs)

\* ---- emission
Doc == CASE o.mapping = "n_rows" -> <<"arr", [i \in 1..Len(t.rows) |-> <<"arr", t.rows[i]>>]>>
         [] o.mapping = "n_objects" -> <<"arr", [i \in 1..Len(t.rows) |-> <<"obj", [j \in 1..NCols(t) |-> <<t.names[j], t.rows[i][j]>>]>>]>>
         [] o.mapping = "m_columns" -> <<"obj", [j \in 1..NCols(t) |-> <<t.names[j], <<"arr", [i \in 1..Len(t.rows) |-> t.rows[i][j]]>>>>]>>
Emit == IF t = Blank THEN TRUE
        ELSE PrintT(ToJson([k |-> "csv", o |-> o, names |-> t.names, rows |-> t.rows, doc |-> Doc, dev |-> Dev]))
\* model-internal obligations
Law == t = Blank \/ RoundTripLaw(t, o)
\* the quoting rule is also necessary: written without quotes as the only field of a file, a string that
\* MustQuote is not read back (with inference off, so that every cell is decided by the spec)
Necessity == t = Blank \/ \A s \in StringsOf :
               MustQuote(s, o) => LET r == ReadTable(s \o o.ld, [o EXCEPT !.header = "none", !.infer = FALSE])
                                  IN ~(r[1] = "ok" /\ TableAgrees(r[2], T(<<>>, << <<S(s)>> >>)))
=============================================================================
