INIT Init
NEXT Next
INVARIANTS RefAgrees Decided
CHECK_DEADLOCK FALSE
