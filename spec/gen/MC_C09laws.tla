---------------------------- MODULE MC_C09laws ----------------------------
(* C09 generator (b): all ordered pairs of value descriptors (one per        *)
(* storage kind x boundary value) and all (descriptor, integer type) pairs.  *)
(* The harness builds the named values and records what the real operators  *)
(* return; Trace_C09 validates the laws.                                     *)
EXTENDS Naturals, Sequences, Json, TLC
VARIABLES a, b, phase
Names == { "null", "true", "false",
           "i64_m1", "i64_0", "i64_1", "i64_max", "i64_min", "i64_127", "i64_128", "i64_m129", "i64_65536",
           "u64_0", "u64_1", "u64_2p63", "u64_max", "u64_255", "u64_256", "u64_i64max",
           "d_0", "d_m0", "d_1", "d_1_5", "d_2p63", "d_m1", "d_nan", "d_inf", "d_2p53",
           "h_0", "h_1", "h_1_5",
           "s_short", "s_long", "s_empty", "s_bigint", "s_bigint_small", "s_bigdec", "s_1", "s_bigint_near", "s_bigint_neg", "s_bigint_neg_near", "s_bigdec_near",
           "bytes_empty", "bytes_12", "bytes_12_b64",
           "obj_default", "obj_empty", "obj_a1", "obj_ab", "obj_ba", "obj_a2", "obj_b1", "obj_a1c1", "obj_a2b1", "obj_b1c3", "obj_a1b1",
           "arr_empty", "arr_1", "arr_1_2", "arr_1d",
           "cref_i64_1", "cref_null", "cref_obj_a1", "ref_arr_1" }
Types == { "int8", "uint8", "int16", "uint16", "int32", "uint32", "int64", "uint64" }
Init == a \in Names /\ b = "" /\ phase = 0
Next == phase = 0 /\ phase' = 1 /\ a' = a /\ b' \in Names \cup Types
Emit == phase = 1 => PrintT(ToJson([x |-> a, y |-> b, conv |-> (b \in Types)]))
=============================================================================
