------------------------------ MODULE MC_C13 ------------------------------
(* C13 generators (bounded-exhaustive, BFS).  One case per distinct         *)
(* expression tree: the expression string (Jmespath!Show) and the result    *)
(* predicted by Jmespath!Ev for every document of the mode's document set.  *)
(*                                                                          *)
(*  Mode "docs"  the document table (one record per document).              *)
(*  Mode "wrap"  expression trees grown from {@, a, b} by MaxDepth layers   *)
(*               of wrapping with every node kind: postfixes (appended the  *)
(*               way text is appended, so they land in the right-hand side  *)
(*               of an open projection), parentheses, pipes, || && !,       *)
(*               comparators, multi-selects, function calls (the tree as    *)
(*               argument or as expression-type), and placement as the      *)
(*               right-hand side / condition of a projection.  W1..W3       *)
(*               (core < mid < full, per layer) selects how many siblings   *)
(*               per kind.                                                  *)
(*  Mode "fn"    every built-in (and an unknown name) applied to every      *)
(*               argument tuple over a typed argument alphabet: 0..2        *)
(*               arguments (3 for a smaller alphabet) - well-typed,         *)
(*               ill-typed, wrong arity, unknown function; then one layer   *)
(*               of core wrapping when MaxDepth = 2.                        *)
(*  Mode "slice" every slice [a:b:c], a,b,c in {absent, -SlRange..SlRange}.     *)
(*  Mode "cmp"   comparators, && || ! over all pairs of a value alphabet.   *)
(*  Mode "stable" sort_by / sort / max_by / min_by / reverse over arrays of  *)
(*               17..40 elements with 2-3 distinct sort keys and a unique   *)
(*               id (sort_by must be stable: elements with equal keys keep  *)
(*               their order; library sorts only lose stability above 16    *)
(*               elements), and sort over long arrays with duplicates.      *)
(*  Mode "ident" identifiers / hash keys / literals / raw strings over keys *)
(*               that need quoting, escaping, or are non-ASCII.             *)
(*  Modes "frac", "fracarr", "fracdoc": numbers with a fraction (exact      *)
(*               decimals, Jmespath.tla NUMBERS).  "frac": every built-in   *)
(*               x argument tuples over a number alphabet (integers,        *)
(*               negative / positive fractions, doubles with a zero         *)
(*               fraction, exponent form), all comparators over all pairs,  *)
(*               to_number over number-like strings, literals; "fracarr":   *)
(*               every array of 0..3 (4) such numbers under sum avg max min *)
(*               sort reverse sort_by max_by min_by map contains ...;       *)
(*               "fracdoc": the same functions, filters with comparators,   *)
(*               projections and indexes over documents that hold           *)
(*               fractional numbers.  W1 = "core" | "full" selects the      *)
(*               alphabet size, MaxDepth = 2 adds one layer of numeric      *)
(*               outer wraps (frac, fracdoc); fracarr always runs with      *)
(*               MaxDepth = 2 (layer 1 = the array literals, layer 2 = the  *)
(*               calls on them).                                            *)
(*                                                                          *)
(* The same runs check the specification's algebraic identities as          *)
(* invariants (Identities).                                                 *)
(*                                                                          *)
(* Every prediction is the specification's (Ev with xf = {}).  Field "dev"  *)
(* of a case lists, per document, the known-deviation classes of the        *)
(* implementation (KnownDeviations; notes/C13.md) that the (expression,     *)
(* document) falls into - classification only, used by the driver to match  *)
(* a mismatch against /verif/known_findings.jsonl.                          *)
EXTENDS Jmespath, Json
CONSTANTS Mode, MaxDepth, W1, W2, W3, SlRange, EmitAst,
          KnownDeviations    \* names of the suspected defects of the implementation (notes/C13.md) that cases are
                             \* classified by (field "dev" of a case); classification never changes a prediction
VARIABLES e, depth

A == <<97>>  B == <<98>>
Fa == <<"fld", A>>  Fb == <<"fld", B>>
L(v) == <<"lit", v>>
I(n) == L(JInt(n))
Raw(s) == <<"raw", s>>
Fn(n, args) == <<"fn", n, args>>
Ref(x) == <<"ref", x>>
Cmp(op, l, r) == <<"cmp", op, l, r>>
Not(x) == <<"not", x>>
Par(x) == <<"par", x>>
O1(k, v) == JObj(k :> v)
O2(k1, v1, k2, v2) == JObj((k1 :> v1) @@ (k2 :> v2))
S(cs) == JStr(cs)
Ar(s) == JArr(s)
Neg(n) == 0 - n
Ab == <<>>
N(n) == <<n>>

-----------------------------------------------------------------------------
(* Documents: empty containers, nulls, mixed-type arrays, nested arrays for *)
(* flatten, objects for the hash wildcard, sortable arrays with ties,       *)
(* non-ASCII and quoted keys.                                                *)
Sx == <<120>>  Sy == <<121>>  Sz == <<122>>
D1 == O2(A, Ar(<<O2(A, JInt(1), B, Ar(<<JInt(1), JInt(2)>>)), O2(A, JInt(2), B, EmptyArr), O1(B, Ar(<<JInt(3)>>)),
                 JNull, JInt(0), Ar(<<JInt(4), Ar(<<JInt(5)>>)>>)>>),
         B, O2(A, S(Sx), B, Ar(<<JInt(0), JInt(1)>>)))
D2 == Ar(<<Ar(<<JInt(1), Ar(<<JInt(2)>>)>>), EmptyArr, JNull, O1(A, Ar(<<JInt(3)>>)), S(<<115>>), Ar(<<Ar(<<JInt(4)>>)>>)>>)
D3 == O2(A, O2(A, O2(A, JInt(1), B, JInt(2)), B, Ar(<<JBool(TRUE), JBool(FALSE), JNull>>)), B, S(<<97, 98>>))
D4 == O2(A, Ar(<<JInt(2), JInt(0), JInt(Neg(1))>>), B, Ar(<<S(B), S(<<>>), S(A)>>))
D5 == O2(A, Ar(<<O2(A, JInt(1), B, S(Sx)), O2(A, JInt(0), B, S(Sy)), O2(A, JInt(1), B, S(Sz))>>),
         B, Ar(<<O1(A, S(<<107>>)), O1(A, S(<<106>>)), O1(B, JInt(1))>>))
D6 == O2(A, JNull, B, EmptyObj)
D7 == EmptyArr
D8 == S(<<97, 233>>)
\* slice documents: arrays of length 0..4 (and one below an identifier)
D9 == Ar(<<JInt(0)>>)
D10 == Ar(<<JInt(0), JInt(1)>>)
D11 == Ar(<<JInt(0), JInt(1), JInt(2)>>)
D12 == Ar(<<JInt(0), JInt(1), JInt(2), JInt(3)>>)
D13 == O1(A, Ar(<<O1(A, JInt(0)), JNull, O1(A, JInt(2)), O1(B, JInt(3)), O1(A, JInt(4))>>))
\* identifier document: keys that need quoting / escaping / are non-ASCII
KSpace == <<97, 32, 98>>  KAcute == <<233>>  KQuote == <<34>>  KDot == <<97, 46, 98>>  KDigit == <<49>>  KUnder == <<95, 120>>
KBack == <<92>>  KCheck == <<10003>>  KAstral == <<128512>>  KNl == <<10>>  KUp == <<65, 49>>
IdentKeys == {A, KSpace, KAcute, KQuote, KDot, KDigit, KUnder, KBack, KCheck, KAstral, KNl, KUp}
D14 == JObj([k \in IdentKeys \cup {<<>>} |-> IF k = A THEN JObj([q \in IdentKeys |-> S(q)]) ELSE S(k)])
\* comparator document: one element per value class
CmpVals == <<JNull, JBool(TRUE), JBool(FALSE), JInt(0), JInt(1), JInt(Neg(1)), S(<<>>), S(A), S(B), EmptyArr, Ar(<<JInt(1)>>),
             EmptyObj, O1(A, JInt(1)), Ar(<<JNull>>)>>
D15 == Ar(CmpVals)
\* stability documents: n objects {k: one of 2-3 keys in a non-monotone pattern, id: position}; exactly one element has the
\* unique largest and one the unique smallest key (so max_by / min_by are determined)
KK == <<107>>  KID == <<105, 100>>
Obj2(kv, i) == JObj((KK :> kv) @@ (KID :> JInt(i)))
NumKey(i, n) == IF i = n - 5 THEN 9 ELSE IF i = 4 THEN 0 ELSE 1 + ((i * 7) % 3)
StrKey(i, n) == IF i = 3 THEN <<122>> ELSE IF i = n - 2 THEN <<>> ELSE <<98 + ((i * 5) % 2)>>
D16 == Ar([i \in 1..17 |-> Obj2(JInt(NumKey(i, 17)), i)])
D17 == O1(A, Ar([i \in 1..24 |-> Obj2(S(StrKey(i, 24)), i)]))
D18 == Ar([i \in 1..40 |-> Obj2(JInt(NumKey(i, 40)), i)])
D19 == O1(A, Ar([i \in 1..33 |-> Obj2(JInt(1 + ((i * 3) % 2)), i)]))       \* two keys only, ties at both extremes
\* long arrays of numbers / strings with duplicates
D20 == Ar([i \in 1..17 |-> JInt((i * 7) % 5)])
D21 == O1(A, Ar([i \in 1..40 |-> S(<<97 + ((i * 11) % 4)>>)]))
D22 == Ar([i \in 1..29 |-> JInt(3 - ((i * i) % 7))])
\* documents with fractional numbers (written in the text form the implementation is handed: Dc(10, -1) is the double 1.0,
\* Dc(1, 2) the double 1e2; the evaluator sees their canonical form, DocsN)
Dc(m, x) == <<"dec", m, x>>
ObjArr(s) == Ar([i \in 1..Len(s) |-> Obj2(s[i], i)])
FNums1 == <<Dc(15, Neg(1)), Dc(Neg(25), Neg(2)), JInt(2), Dc(20, Neg(1)), Dc(1, 2), Dc(5, Neg(1)), Dc(Neg(15), Neg(1)), JInt(0), Dc(0, Neg(1)), Dc(25, Neg(1))>>
D23 == O2(A, Ar(FNums1), B, ObjArr(FNums1))
FNums2 == <<Dc(25, Neg(2)), Dc(375, Neg(2)), JInt(Neg(2)), Dc(10, Neg(1)), JInt(1), Dc(25, Neg(1)), Dc(250, Neg(2))>>     \* maximum not last, ties, 1.0 and 1
D24 == Ar(FNums2)
D25 == O2(A, Ar(<<Dc(25, Neg(1))>>), B, ObjArr(<<Dc(Neg(5), Neg(1))>>))                          \* one element
D26 == O2(A, Dc(15, Neg(1)), B, Dc(Neg(25), Neg(2)))                                              \* scalars
FNums5 == <<Dc(1, Neg(1)), Dc(2, Neg(1)), Dc(Neg(7), Neg(1)), Dc(101, Neg(2)), Dc(12, Neg(1)), JInt(1)>>  \* not dyadic: sum / avg are don't-care
D27 == O2(A, Ar(FNums5), B, ObjArr(FNums5))
\* strings for to_number: json-numbers and near misses
T15 == <<49, 46, 53>>
NumStringsCore == { T15, <<45, 48, 46, 50, 53>>, <<49, 101, 50>>, <<49, 69, 50>>, <<49, 101, 43, 50>>, <<50, 53, 101, 45, 49>>, <<49, 46, 53, 101, 49>>,
                    <<48, 46, 48>>, <<45, 48>>, <<48>>, <<49, 46, 48>>, <<48, 46, 53, 48>>, <<45, 49>>, <<49, 48, 48>>, <<45, 48, 46, 48>>, <<48, 101, 48>>,
                    \* not json-numbers
                    <<46, 53>>, <<53, 46>>, <<48, 49>>, <<43, 49>>, <<32, 49>>, <<49, 32>>, <<48, 120, 49, 48>>, <<97, 98, 99>>, <<>>, <<45>>, <<49, 101>>,
                    <<49, 46, 101, 50>>, <<73, 110, 102, 105, 110, 105, 116, 121>>, <<78, 97, 78>>, <<110, 97, 110>>, <<105, 110, 102>>, <<45, 48, 49>>,
                    <<48, 48>>, <<49, 95, 48>>, <<49, 46, 53, 46, 50>>, <<45, 45, 49>>, <<49, 101, 50, 46, 53>>, <<45, 46, 53>>, <<49, 44, 53>>,
                    <<49, 101, 45>>, <<101, 50>>, <<46>>, <<49, 46, 53, 102>>, <<43, 46, 53>>, <<49, 46, 53, 32>>, <<9, 49, 46, 53>> }
StrSeq1 == <<T15, <<45, 48, 46, 50, 53>>, <<49, 101, 50>>, <<46, 53>>, <<48, 49>>, <<49, 46, 48>>, <<97, 98, 99>>, <<50, 53, 101, 45, 49>>, <<49, 32>>>>
D28 == O2(A, Ar([i \in 1..Len(StrSeq1) |-> S(StrSeq1[i])]), B, S(<<50, 46, 53>>))
D29 == O2(A, Ar(<<Dc(25, Neg(1)), Dc(Neg(25), Neg(1)), Dc(125, Neg(3)), JInt(3), Dc(30, Neg(1)), Dc(Neg(375), Neg(2))>>),
          B, ObjArr(<<Dc(5, Neg(1)), Dc(5, Neg(1)), Dc(Neg(10), Neg(1)), JInt(Neg(1)), Dc(75, Neg(2))>>))            \* ties at both ends of b
Docs == <<D1, D2, D3, D4, D5, D6, D7, D8, D9, D10, D11, D12, D13, D14, D15, D16, D17, D18, D19, D20, D21, D22, D23, D24, D25, D26, D27, D28, D29>>
DocSel == CASE Mode = "wrap" -> <<1, 2, 3, 4, 5, 6, 7, 8>>
            [] Mode = "fn" -> <<1, 3, 4, 5, 6>>
            [] Mode = "slice" -> <<7, 9, 10, 11, 12, 13, 3, 1, 4>>
            [] Mode = "stable" -> <<16, 17, 18, 19, 20, 21, 22>>
            [] Mode = "cmp" -> <<15, 6>>
            [] Mode = "ident" -> <<14, 1>>
            [] Mode \in {"frac", "fracarr"} -> <<26>>
            [] Mode = "fracdoc" -> <<23, 24, 25, 26, 27, 28, 29, 7>>
            [] OTHER -> <<>>
\* the documents as the evaluator sees them (canonical numbers)
DocsN == [i \in 1..Len(Docs) |-> NormV(Docs[i])]

-----------------------------------------------------------------------------
(* Appending a postfix to an expression, as appending text to the           *)
(* expression string does: inside the right-hand side of an open            *)
(* projection if there is one, else around the whole expression.  (Whether   *)
(* the result is a legal, unambiguous expression is decided by Renderable.) *)
Node(k, p, l) == CASE k = "sub" -> <<"sub", l, p>> [] k = "idx" -> <<"idx", l, p>> [] k = "prj" -> <<"prj", l, Cur>>
                   [] k = "vpr" -> <<"vpr", l, Cur>> [] k = "slc" -> <<"slc", l, p, Cur>> [] k = "fil" -> <<"fil", l, p, Cur>>
RECURSIVE PostRhs(_, _, _)
PostRhs(r, k, p) ==
  IF r = Cur THEN (IF k = "sub" THEN p ELSE Node(k, p, Cur))
  ELSE IF r[1] \in {"prj", "vpr"} THEN <<r[1], r[2], PostRhs(r[3], k, p)>>
  ELSE IF r[1] = "slc" THEN <<"slc", r[2], r[3], PostRhs(r[4], k, p)>>
  ELSE IF r[1] = "fil" THEN <<"fil", r[2], r[3], PostRhs(r[4], k, p)>>
  ELSE Node(k, p, r)
Post(x, k, p) ==
  IF k = "flt" THEN <<"flt", x, Cur>>
  ELSE IF x[1] \in {"prj", "vpr", "flt"} THEN <<x[1], x[2], PostRhs(x[3], k, p)>>
  ELSE IF x[1] = "slc" THEN <<"slc", x[2], x[3], PostRhs(x[4], k, p)>>
  ELSE IF x[1] = "fil" THEN <<"fil", x[2], x[3], PostRhs(x[4], k, p)>>
  ELSE Node(k, p, x)

\* W1, W2, W3 name the sibling alphabet (core < mid < full) of the first, second, third layer of wrapping
LayerSet == IF depth <= 1 THEN W1 ELSE IF depth = 2 THEN W2 ELSE W3
Lv == CASE LayerSet = "core" -> 1 [] LayerSet = "mid" -> 2 [] LayerSet = "full" -> 3
Pick(c, m, f) == IF Lv = 1 THEN c ELSE IF Lv = 2 THEN c \cup m ELSE c \cup m \cup f

Sl(a, b, c) == <<a, b, c>>
Slices == Pick({Sl(N(1), Ab, Ab), Sl(Ab, Ab, N(Neg(1)))},
               {Sl(Ab, N(Neg(1)), Ab), Sl(Ab, Ab, N(2))},
               {Sl(N(0), N(2), Ab), Sl(Ab, Ab, N(0)), Sl(N(Neg(2)), Ab, Ab)})
FilConds == Pick({Fa, Cmp("eq", Fa, I(1))},
                 {Cmp("gt", Cur, I(1)), Not(Fa)},
                 {Cmp("ne", Fb, L(JNull)), <<"and", Fa, Fb>>, Cmp("eq", Fn("type", <<Cur>>), Raw(<<97,114,114,97,121>>))})
DotRhs == Pick({Fa, Fb},
               {<<"mls", <<Fa, Fb>>>>, Fn("length", <<Cur>>)},
               {<<"mhs", <<<<A, Fa>>>>>>, Fn("type", <<Cur>>), Fn("not_null", <<Fa, Fb>>), Fn("foo", <<Cur>>), Fn("keys", <<Cur>>)})
Indexes == Pick({0, Neg(1)}, {1}, {2, Neg(3)})
PostWraps(x) == { Post(x, "sub", p) : p \in DotRhs } \cup { Post(x, "idx", n) : n \in Indexes }
                \cup { Post(x, "prj", 0), Post(x, "vpr", 0), Post(x, "flt", 0), Par(x) }
                \cup { Post(x, "slc", s) : s \in Slices } \cup { Post(x, "fil", c) : c \in FilConds }

PipeR == Pick({Fa, <<"idx", Cur, 0>>, <<"prj", Cur, Cur>>, <<"flt", Cur, Cur>>},
              {Fn("length", <<Cur>>), <<"vpr", Cur, Cur>>, Cur},
              {<<"fil", Cur, Fa, Cur>>, <<"slc", Cur, Sl(Ab, Ab, N(Neg(1))), Cur>>, Fn("sort", <<Cur>>), <<"mls", <<Cur, Fa>>>>})
PipeL == Pick({Fa}, {Fb}, {Cur})
BoolX == Pick({Fa}, {I(1)}, {Fb, L(JNull), L(EmptyArr)})
CmpOps == Pick({"eq", "lt"}, {"ne", "ge"}, {"le", "gt"})
CmpX == Pick({I(1)}, {Fa}, {Raw(A), L(JNull)})
BinWraps(x) == { <<"pipe", x, r>> : r \in PipeR } \cup { <<"pipe", l, x>> : l \in PipeL }
               \cup UNION { { <<"or", x, y>>, <<"or", y, x>>, <<"and", x, y>>, <<"and", y, x>> } : y \in BoolX }
               \cup { Not(x) }
               \cup UNION { { Cmp(op, x, y), Cmp(op, y, x) } : op \in CmpOps, y \in CmpX }
SelWraps(x) == { <<"mls", <<x>>>>, <<"mls", <<x, Fa>>>>, <<"mls", <<Fb, x>>>>, <<"mhs", <<<<A, x>>>>>> }
               \cup (IF Lv = 3 THEN { <<"mhs", <<<<A, x>>, <<B, Fb>>>>>>, <<"mhs", <<<<B, Fa>>, <<A, x>>>>>> } ELSE {})
Fn1 == Pick({"length", "sort", "to_array", "not_null", "keys", "sum"},
            {"values", "reverse", "max", "type", "abs", "to_number", "to_string", "min", "avg"},
            {"ceil", "floor", "merge", "foo", "map", "contains"})
OA1 == O1(A, JInt(1))
FnWraps(x) == { Fn(n, <<x>>) : n \in Fn1 }
   \cup Pick({ Fn("contains", <<x, I(1)>>), Fn("map", <<Ref(x), Fa>>), Fn("map", <<Ref(Fa), x>>), Fn("sort_by", <<x, Ref(Fa)>>),
               Fn("join", <<Raw(<<44>>), x>>) },
             { Fn("max_by", <<x, Ref(Fa)>>), Fn("min_by", <<x, Ref(Fb)>>), Fn("sort_by", <<Fa, Ref(x)>>), Fn("contains", <<x, Raw(A)>>),
               Fn("starts_with", <<x, Raw(A)>>), Fn("ends_with", <<x, Raw(B)>>), Fn("merge", <<x, L(OA1)>>), Fn("not_null", <<x, Fa>>),
               Fn("not_null", <<Fa, x>>) },
             { Fn("abs", <<x, x>>), Fn("max_by", <<Fa, Ref(x)>>), Fn("contains", <<Fa, x>>), Fn("join", <<x, Fb>>), Fn("merge", <<L(OA1), x>>),
               Fn("sort_by", <<x, Fa>>), Fn("map", <<x, Fa>>), Fn("length", <<Ref(x)>>) })
RhsL == Pick({Fa}, {Cur}, {})
RhsWraps(x) == UNION { { <<"prj", l, x>>, <<"flt", l, x>>, <<"vpr", l, x>>, <<"fil", l, Fa, x>>, <<"fil", l, x, Cur>>,
                         <<"slc", l, Sl(N(1), Ab, Ab), x>> } : l \in RhsL }
\* an expression is generated when its string reading is unambiguous
Gen(y) == Renderable(y)
Wraps(x) == { y \in PostWraps(x) \cup BinWraps(x) \cup SelWraps(x) \cup FnWraps(x) \cup RhsWraps(x) : Gen(y) }

Bases == Pick({Cur, Fa, Fb}, {}, {I(1), Raw(A), L(Ar(<<JInt(1), Ar(<<JInt(2)>>), JNull>>))})

-----------------------------------------------------------------------------
(* fn mode.  (The case sets take a dummy parameter so that TLC does not pre-compute them in every mode.) *)
AllFns == KnownFns \cup {"foo"}
ArrIS == Ar(<<JInt(1), S(A)>>)
ArgsBig == { L(JNull), L(JBool(TRUE)), I(Neg(1)), I(2), Raw(A), Raw(<<97, 98>>), Raw(<<>>), Raw(<<49>>), L(EmptyArr), L(Ar(<<JInt(2), JInt(1)>>)),
             L(Ar(<<S(B), S(A)>>)), L(ArrIS), L(EmptyObj), L(OA1), Fa, Cur, Ref(Fa), Ref(Cur) }
ArgsSmall == { L(JNull), I(2), Raw(A), L(OA1), L(O1(B, JInt(2))), Fa, Ref(Fa) }
FnCases(u) == { Fn(n, <<>>) : n \in AllFns } \cup { Fn(n, <<x>>) : n \in AllFns, x \in ArgsBig }
           \cup { Fn(n, <<x, y>>) : n \in { m \in AllFns : Arity(m) # 1 }, x \in ArgsBig, y \in ArgsBig }
           \cup { Fn(n, <<x, y>>) : n \in { m \in AllFns : Arity(m) = 1 }, x \in ArgsSmall, y \in ArgsSmall }
           \cup { Fn(n, <<x, y, z>>) : n \in {"merge", "not_null"}, x \in ArgsSmall, y \in ArgsSmall, z \in ArgsSmall }
           \cup { Fn(n, <<x, Fa, L(JNull)>>) : n \in AllFns, x \in ArgsSmall }
FnOuter(x) == { y \in { <<"prj", Fa, x>>, <<"pipe", x, <<"idx", Cur, 0>>>>, <<"idx", x, 0>>, <<"sub", x, Fa>>, <<"mls", <<x, Fa>>>>,
                        <<"flt", x, Cur>>, Fn("to_array", <<x>>), <<"or", x, Fa>>, Not(x), <<"fil", Fa, x, Cur>> } : Gen(y) }

(* slice mode *)
Parts == {Ab} \cup { N(i) : i \in 0..SlRange } \cup { N(Neg(i)) : i \in 1..SlRange }
SliceCases(u) == { <<"slc", Cur, Sl(a, b, c), Cur>> : a \in Parts, b \in Parts, c \in Parts }
              \cup { <<"slc", Fa, Sl(a, b, c), Fa>> : a \in Parts, b \in {Ab, N(1), N(Neg(1))}, c \in Parts }
              \cup { <<"idx", Cur, i>> : i \in (0 - SlRange - 2)..(SlRange + 2) }
              \* a second slice in one expression that omits a bound: after a pipe, in a multi-select, inside a projection
              \cup { <<"pipe", <<"slc", Fa, Sl(N(2), N(8), Ab), Cur>>, <<"slc", Cur, Sl(Ab, N(3), Ab), Cur>>>>,
                     <<"pipe", <<"slc", Fa, Sl(N(1), Ab, Ab), Cur>>, <<"slc", Cur, Sl(Ab, N(2), Ab), Cur>>>>,
                     <<"pipe", <<"slc", Fa, Sl(Ab, N(3), Ab), Cur>>, <<"slc", Cur, Sl(N(1), Ab, Ab), Cur>>>>,
                     <<"mls", <<<<"slc", Fa, Sl(N(1), Ab, Ab), Cur>>, <<"slc", Fb, Sl(Ab, N(2), Ab), Cur>>>>>>,
                     <<"mls", <<<<"slc", Fa, Sl(Ab, N(2), Ab), Cur>>, <<"slc", Fa, Sl(N(1), Ab, Ab), Cur>>>>>>,
                     <<"slc", Fa, Sl(N(1), N(3), Ab), <<"prj", Cur, <<"slc", Cur, Sl(Ab, N(1), Ab), Cur>>>>>>,
                     <<"slc", Fa, Sl(N(1), Ab, Ab), <<"slc", Cur, Sl(Ab, N(2), Ab), Cur>>>>,
                     <<"slc", Cur, Sl(Ab, N(3), Ab), <<"slc", Cur, Sl(N(1), Ab, Ab), Cur>>>>,
                     <<"slc", <<"slc", Fa, Sl(N(1), Ab, Ab), Cur>>, Sl(Ab, N(2), Ab), Cur>> }

(* cmp mode *)
AllOps == {"eq", "ne", "lt", "le", "gt", "ge"}
CV == { CmpVals[i] : i \in 1..Len(CmpVals) }
CmpCases(u) == { Cmp(op, L(x), L(y)) : op \in AllOps, x \in CV, y \in CV }
            \cup { <<"and", L(x), L(y)>> : x \in CV, y \in CV } \cup { <<"or", L(x), L(y)>> : x \in CV, y \in CV }
            \cup { Not(L(x)) : x \in CV } \cup { Not(Not(L(x))) : x \in CV }
            \cup { <<"fil", Cur, Cmp(op, Cur, L(y)), Cur>> : op \in AllOps, y \in CV }
            \cup { <<"fil", Cur, Cmp(op, L(y), Cur), Cur>> : op \in AllOps, y \in CV }
            \cup { <<"fil", Cur, Cur, Cur>>, <<"fil", Cur, Not(Cur), Cur>>, <<"prj", Cur, <<"mls", <<Not(Cur)>>>>>>, <<"prj", Cur, <<"mls", <<<<"or", Cur, I(7)>>>>>>>> }
            \cup { <<"or", <<"and", L(x), L(y)>>, L(z)>> : x \in {JNull, JInt(0)}, y \in {JBool(FALSE), S(A)}, z \in {EmptyArr, JInt(1)} }
            \cup { <<"or", L(x), <<"and", L(y), L(z)>>>> : x \in {JNull, JInt(0)}, y \in {JBool(FALSE), S(A)}, z \in {EmptyArr, JInt(1)} }
            \cup { <<"and", Par(<<"or", L(x), L(y)>>), L(z)>> : x \in {JNull, JInt(0)}, y \in {JBool(FALSE), S(A)}, z \in {EmptyArr, JInt(1)} }
            \cup { <<"or", Cmp("lt", L(x), L(y)), Cmp("eq", L(y), L(z))>> : x \in {JInt(0), JInt(1)}, y \in {JInt(1), S(A)}, z \in {JInt(1), JNull} }

(* stable mode *)
FK == <<"fld", KK>>  FID == <<"fld", KID>>
Rev1 == Sl(Ab, Ab, N(Neg(1)))
StableSubjects == { Cur, Fa, Fn("reverse", <<Cur>>), Fn("reverse", <<Fa>>), <<"slc", Cur, Rev1, Cur>>, <<"slc", Fa, Sl(N(1), Ab, Ab), Cur>> }
StableCases(u) ==
  UNION { { Fn("sort_by", <<x, Ref(FK)>>), <<"prj", Fn("sort_by", <<x, Ref(FK)>>), FID>>, <<"prj", Fn("sort_by", <<x, Ref(FK)>>), FK>>,
            <<"pipe", Fn("sort_by", <<x, Ref(FK)>>), <<"idx", Cur, 0>>>>, <<"sub", <<"idx", Fn("sort_by", <<x, Ref(FK)>>), Neg(1)>>, FID>>,
            Fn("reverse", <<Fn("sort_by", <<x, Ref(FK)>>)>>), Fn("map", <<Ref(FID), Fn("sort_by", <<x, Ref(FK)>>)>>),
            <<"prj", Fn("sort_by", <<Fn("sort_by", <<x, Ref(FID)>>), Ref(FK)>>), FID>>,
            <<"slc", Fn("sort_by", <<x, Ref(FK)>>), Sl(N(2), N(9), Ab), FID>>,
            <<"prj", Fn("sort_by", <<x, Ref(Fn("to_string", <<FK>>))>>), FID>>,
            <<"prj", Fn("sort_by", <<x, Ref(Fn("length", <<Fn("to_array", <<FK>>)>>))>>), FID>>,       \* one key for all: order unchanged
            Fn("max_by", <<x, Ref(FK)>>), Fn("min_by", <<x, Ref(FK)>>), <<"sub", Fn("max_by", <<x, Ref(FK)>>), FID>>,
            <<"sub", Fn("min_by", <<x, Ref(FID)>>), FID>>, <<"sub", Fn("max_by", <<x, Ref(FID)>>), FID>>,
            Fn("sort", <<x>>), Fn("sort", <<<<"prj", x, FK>>>>), Fn("sort", <<<<"prj", x, FID>>>>), Fn("reverse", <<Fn("sort", <<x>>)>>),
            <<"idx", Fn("sort", <<x>>), 0>>, Fn("max", <<x>>), Fn("min", <<x>>), Fn("sort_by", <<x, Ref(Cur)>>),
            Fn("max", <<<<"prj", x, FK>>>>), Fn("min", <<<<"prj", x, FK>>>>), Fn("length", <<Fn("sort_by", <<x, Ref(FK)>>)>>) }
          : x \in StableSubjects }

(* ident mode *)
IdentCases(u) == { <<"fld", k>> : k \in IdentKeys } \cup { <<"sub", Fa, <<"fld", k>>>> : k \in IdentKeys }
              \cup { <<"mhs", <<<<k, <<"fld", k>>>>, <<A, Cur>>>>>> : k \in IdentKeys \ {A} } \cup { L(S(k)) : k \in IdentKeys }
              \cup { Raw(k) : k \in IdentKeys \ {KBack, KNl} } \cup { Raw(<<97, 39, 98>>), Raw(<<39>>), Raw(<<>>), L(S(<<>>)) }
              \cup { L(JObj(k :> JInt(1))) : k \in IdentKeys \cup {<<>>} } \cup { L(Ar(<<S(k), S(A)>>)) : k \in IdentKeys }
              \cup { Cmp("eq", <<"fld", k>>, L(S(k))) : k \in IdentKeys } \cup { Cmp("eq", <<"fld", k>>, Raw(k)) : k \in IdentKeys \ {KBack, KNl} }
              \cup { <<"prj", <<"vpr", Cur, Cur>>, Fn("length", <<Cur>>)>>, Fn("keys", <<Cur>>), Fn("values", <<Cur>>), Fn("length", <<Fa>>),
                     <<"vpr", Fa, Fn("length", <<Cur>>)>>, Fn("sort", <<Fn("keys", <<Fa>>)>>), Fn("reverse", <<<<"fld", KAstral>>>>),
                     Fn("sort", <<Fn("values", <<Fa>>)>>), Fn("max", <<Fn("keys", <<Fa>>)>>), Fn("join", <<Raw(KAcute), Fn("sort", <<Fn("keys", <<Fa>>)>>)>>) }

(* frac modes.  Number alphabets: NumsA (scalar arguments, comparator operands), NumsS (pairs), NumsArr (array elements;  *)
(* all dyadic so that sums and averages are decided; 2 and 2.0 are the same number in two storage forms).               *)
FFull == W1 # "core"
NumsA(u) == { JInt(Neg(2)), Dc(Neg(15), Neg(1)), JInt(Neg(1)), Dc(Neg(5), Neg(1)), Dc(Neg(25), Neg(2)), JInt(0), Dc(25, Neg(2)), Dc(5, Neg(1)), JInt(1),
              Dc(10, Neg(1)), Dc(15, Neg(1)), JInt(2), Dc(20, Neg(1)), Dc(25, Neg(1)), Dc(375, Neg(2)), Dc(1, 2), Dc(12, Neg(1)), Dc(Neg(7), Neg(1)) }
            \cup (IF FFull THEN { Dc(1, Neg(1)), Dc(101, Neg(2)), Dc(0, Neg(1)), Dc(Neg(10), Neg(1)), JInt(3), Dc(275, Neg(2)), Dc(15, 0), Dc(250, Neg(2)),
                                  Dc(125, Neg(3)), Dc(Neg(375), Neg(2)), JInt(100), Dc(Neg(20), Neg(1)), Dc(9999, Neg(4)), Dc(Neg(1), Neg(3)), Dc(15, 1), Dc(1000, Neg(1)) }
                  ELSE {})
NumsS(u) == { Dc(Neg(15), Neg(1)), JInt(Neg(1)), Dc(Neg(25), Neg(2)), JInt(0), Dc(5, Neg(1)), JInt(2), Dc(20, Neg(1)), Dc(25, Neg(1)) }
NumsArr(u) == { Dc(Neg(15), Neg(1)), Dc(25, Neg(2)), JInt(2), Dc(20, Neg(1)), Dc(25, Neg(1)) }
              \cup (IF FFull THEN { Dc(Neg(5), Neg(1)), JInt(0), Dc(375, Neg(2)) } ELSE {})
NonNums == { JNull, JBool(TRUE), S(T15), S(<<>>), EmptyArr, EmptyObj }
NumFns1 == {"abs", "avg", "ceil", "floor", "max", "min", "sum", "sort", "reverse", "length", "to_number", "to_string", "to_array", "type", "not_null"}
FAbs == Fn("abs", <<Cur>>)

FracCases(u) ==
  LET NA == NumsA(0)  NS == NumsS(0) IN
  \* every built-in (and an unknown name) x number arguments
     { L(x) : x \in NA } \cup { Fn(n, <<L(x)>>) : n \in AllFns, x \in NA }
  \cup { Fn(n, <<L(x), L(y)>>) : n \in AllFns, x \in NS, y \in NS }
  \cup { Fn(n, <<L(x), L(y)>>) : n \in AllFns, x \in NS, y \in NonNums } \cup { Fn(n, <<L(y), L(x)>>) : n \in AllFns, x \in NS, y \in NonNums }
  \cup { Fn(n, <<Ref(Cur), L(x)>>) : n \in AllFns, x \in NS } \cup { Fn(n, <<L(x), Ref(Cur)>>) : n \in AllFns, x \in NS }
  \cup { Fn(n, <<L(Ar(<<x, y>>))>>) : n \in AllFns, x \in NS, y \in NS }
  \cup { Fn(n, <<L(Ar(<<x, y>>))>>) : n \in NumFns1, x \in NS, y \in NonNums }
  \cup { Fn(n, <<L(x), L(y), L(JNull)>>) : n \in AllFns, x \in {Dc(15, Neg(1))}, y \in NS }
  \* comparators: all pairs of numbers; a number against every other type; deep equality by value
  \cup { Cmp(op, L(x), L(y)) : op \in AllOps, x \in NA, y \in NA }
  \cup { Cmp(op, L(x), L(y)) : op \in AllOps, x \in NS, y \in NonNums } \cup { Cmp(op, L(y), L(x)) : op \in AllOps, x \in NS, y \in NonNums }
  \cup { Cmp(op, L(Ar(<<x>>)), L(Ar(<<y>>))) : op \in AllOps, x \in NS, y \in NS }
  \cup { Cmp(op, L(O1(A, x)), L(O1(A, y))) : op \in {"eq", "ne"}, x \in NS, y \in NS }
  \cup { Cmp(op, L(x), Fa) : op \in AllOps, x \in NA } \cup { Cmp(op, Fb, L(x)) : op \in AllOps, x \in NA }
  \cup { Cmp(op, L(x), Fn(n, <<L(y)>>)) : op \in {"eq", "lt", "ge"}, n \in {"abs", "ceil", "floor"}, x \in NS, y \in NS }
  \* truthiness: every number is true-like, 0 and 0.0 included
  \cup { Not(L(x)) : x \in NA } \cup { <<"or", L(x), L(y)>> : x \in NS, y \in NS } \cup { <<"and", L(x), L(y)>> : x \in NS, y \in NS }
  \* to_number over strings (raw string and JSON string literal); back and forth with to_string
  \cup { Fn("to_number", <<Raw(t)>>) : t \in NumStringsCore } \cup { Fn("to_number", <<L(S(t))>>) : t \in NumStringsCore }
  \cup { Fn("abs", <<Fn("to_number", <<Raw(t)>>)>>) : t \in NumStringsCore } \cup { Cmp("eq", Fn("to_number", <<Raw(t)>>), L(Dc(15, Neg(1)))) : t \in NumStringsCore }
  \cup { Fn("to_number", <<Fn("to_string", <<L(x)>>)>>) : x \in NA } \cup { Fn("to_string", <<Fn("to_number", <<Raw(t)>>)>>) : t \in NumStringsCore }
  \cup { Fn("length", <<Fn("to_string", <<L(x)>>)>>) : x \in NA } \cup { Fn("join", <<Raw(<<124>>), <<"mls", <<Fn("to_string", <<L(x)>>), Fn("to_string", <<L(y)>>)>>>>>>) : x \in NS, y \in NS }
  \* literals: in containers, multi-selects, indexes, pipes
  \cup { L(Ar(<<x, O1(A, y)>>)) : x \in NS, y \in NS } \cup { <<"idx", L(Ar(<<x, y>>)), 1>> : x \in NS, y \in NS }
  \cup { <<"mls", <<L(x), Fa, L(y)>>>> : x \in NS, y \in NS } \cup { <<"mhs", <<<<A, L(x)>>, <<B, Fb>>>>>> : x \in NA }
  \cup { <<"sub", L(O1(A, x)), Fa>> : x \in NA } \cup { <<"pipe", Fa, Fn(n, <<Cur>>)>> : n \in AllFns } \cup { <<"pipe", Fb, Fn(n, <<Cur>>)>> : n \in AllFns }
  \cup { Fn(n, <<<<"mls", <<Fa, Fb>>>>>>) : n \in AllFns } \cup { Fn(n, <<<<"mls", <<Fa, L(x)>>>>>>) : n \in NumFns1, x \in NA }
  \cup { Fn("contains", <<L(Ar(<<x, S(T15)>>)), L(y)>>) : x \in NA, y \in NS }

\* outer numeric wraps (second layer of the frac / fracdoc modes)
FracOuter(x) == { y \in { Fn("abs", <<x>>), Fn("ceil", <<x>>), Fn("floor", <<x>>), Fn("to_string", <<x>>), Fn("to_number", <<x>>), Fn("type", <<x>>),
                          Fn("sum", <<Fn("to_array", <<x>>)>>), Fn("avg", <<Fn("to_array", <<x>>)>>), Fn("max", <<<<"mls", <<x, L(Dc(15, Neg(1)))>>>>>>),
                          Fn("min", <<<<"mls", <<L(Dc(Neg(25), Neg(2))), x>>>>>>), Fn("sum", <<<<"mls", <<x, L(Dc(5, Neg(1)))>>>>>>),
                          Fn("sort", <<<<"mls", <<L(Dc(25, Neg(2))), x, I(1)>>>>>>),
                          Cmp("lt", x, L(Dc(15, Neg(1)))), Cmp("ge", L(Dc(20, Neg(1))), x), Cmp("eq", x, I(2)), Cmp("ne", L(Dc(Neg(15), Neg(1))), x),
                          <<"pipe", x, FAbs>>, <<"idx", x, 0>>, <<"idx", x, Neg(1)>>, Fn("not_null", <<x, L(Dc(5, Neg(1)))>>), Fn("sort", <<x>>), Fn("sum", <<x>>),
                          Fn("avg", <<x>>), Fn("max", <<x>>), Fn("min", <<x>>), Fn("reverse", <<x>>), <<"mls", <<x, x>>>>,
                          <<"fil", x, Cmp("gt", Cur, L(Dc(5, Neg(1)))), Cur>>, <<"prj", x, Fn("ceil", <<Cur>>)>>, Fn("map", <<Ref(Fn("floor", <<Cur>>)), x>>) } : Gen(y) }

(* fracarr mode: every array of 0..3 numbers (0..4 when full) *)
NumSeqs(n) == UNION { [1..m -> NumsArr(0)] : m \in 0..n }
ArrFns2(a) == { Fn("sort_by", <<a, Ref(Cur)>>), Fn("max_by", <<a, Ref(Cur)>>), Fn("min_by", <<a, Ref(Cur)>>), Fn("sort_by", <<a, Ref(FAbs)>>),
                Fn("max_by", <<a, Ref(FAbs)>>), Fn("min_by", <<a, Ref(Fn("ceil", <<Cur>>))>>), Fn("map", <<Ref(Fn("ceil", <<Cur>>)), a>>),
                Fn("map", <<Ref(Fn("floor", <<Cur>>)), a>>), Fn("map", <<Ref(FAbs), a>>), Fn("map", <<Ref(Fn("to_string", <<Cur>>)), a>>),
                Fn("contains", <<a, I(2)>>), Fn("contains", <<a, L(Dc(20, Neg(1)))>>), Fn("contains", <<a, L(Dc(250, Neg(2)))>>), Fn("contains", <<a, L(Dc(Neg(15), Neg(1)))>>),
                <<"fil", a, Cmp("lt", Cur, L(Dc(20, Neg(1)))), Cur>>, <<"fil", a, Cmp("ge", Cur, L(Dc(25, Neg(2)))), Cur>>, <<"fil", a, Cmp("eq", Cur, I(2)), Cur>>,
                <<"idx", Fn("sort", <<a>>), Neg(1)>>, Fn("sum", <<Fn("sort", <<a>>)>>), Fn("avg", <<Fn("reverse", <<a>>)>>), Fn("abs", <<Fn("sum", <<a>>)>>),
                Fn("ceil", <<Fn("avg", <<a>>)>>), Fn("floor", <<Fn("avg", <<a>>)>>), Fn("ceil", <<Fn("min", <<a>>)>>), Fn("floor", <<Fn("max", <<a>>)>>),
                Fn("to_string", <<Fn("avg", <<a>>)>>), Fn("to_string", <<Fn("sum", <<a>>)>>), Cmp("le", Fn("min", <<a>>), Fn("avg", <<a>>)),
                Cmp("eq", Fn("sum", <<a>>), Fn("sum", <<Fn("reverse", <<a>>)>>)) }
ObjFns(b) == { <<"prj", Fn("sort_by", <<b, Ref(FK)>>), FID>>, Fn("max_by", <<b, Ref(FK)>>), <<"sub", Fn("min_by", <<b, Ref(FK)>>), FID>>,
               <<"prj", Fn("sort_by", <<b, Ref(Fn("abs", <<FK>>))>>), FID>>, <<"fil", b, Cmp("gt", FK, L(Dc(5, Neg(1)))), FID>>,
               Fn("sum", <<<<"prj", b, FK>>>>), Fn("avg", <<<<"prj", b, FK>>>>), Fn("max", <<<<"prj", b, FK>>>>) }
\* first layer: the array literals themselves; second layer (MaxDepth = 2; spread over the TLC workers): the calls on each
FracArrCases(u) == { L(Ar(q)) : q \in NumSeqs(IF FFull THEN 4 ELSE 3) }
FracArrWraps(a) == LET q == a[2][2] IN
                   { y \in { Fn(n, <<a>>) : n \in (IF Len(q) <= 2 THEN AllFns ELSE NumFns1) } \cup (IF Len(q) <= 3 THEN ArrFns2(a) ELSE {})
                            \cup (IF Len(q) >= 1 /\ Len(q) <= 3 THEN ObjFns(L(ObjArr(q))) ELSE {}) : Gen(y) }

(* fracdoc mode: documents D23..D29 *)
BK == <<"prj", Fb, FK>>
DocSubjects == { Fa, Fb, Cur, BK, <<"slc", Fa, Sl(N(1), Ab, Ab), Cur>>, Fn("reverse", <<Fa>>), <<"slc", Cur, Sl(Ab, Ab, N(Neg(1))), Cur>>, <<"mls", <<Fa, Fb>>>> }
FracDocCases(u) ==
  LET NS == NumsS(0) IN
     { Fn(n, <<x>>) : n \in AllFns, x \in DocSubjects }
  \cup UNION { ArrFns2(x) : x \in {Fa, Cur, BK} } \cup UNION { ObjFns(x) : x \in {Fb, Cur} }
  \cup { <<"fil", x, Cmp(op, Cur, L(y)), Cur>> : x \in {Fa, Cur}, op \in AllOps, y \in NS }
  \cup { <<"fil", x, Cmp(op, L(y), Cur), Cur>> : x \in {Fa, Cur}, op \in AllOps, y \in NS }
  \cup { <<"fil", Fb, Cmp(op, FK, L(y)), FID>> : op \in AllOps, y \in NS } \cup { <<"fil", Fb, Cmp(op, L(y), FK), Cur>> : op \in AllOps, y \in NS }
  \cup { <<"fil", Fb, <<"and", Cmp("gt", FK, L(x)), Cmp("le", FK, L(y))>>, FID>> : x \in NS, y \in NS }
  \cup { <<"fil", Fb, Cmp(op, FK, FID), FID>> : op \in AllOps } \cup { <<"fil", Fa, Cmp(op, Cur, Fn(n, <<Cur>>)), Cur>> : op \in AllOps, n \in {"abs", "ceil", "floor"} }
  \cup { <<"prj", x, Fn(n, <<Cur>>)>> : x \in {Fa, Cur, BK}, n \in NumFns1 } \cup { Fn("map", <<Ref(Fn(n, <<Cur>>)), x>>) : x \in {Fa, Cur}, n \in NumFns1 }
  \cup { <<"idx", x, i>> : x \in {Fa, Cur}, i \in {0, 1, 2, 3, 4, Neg(1), Neg(2)} } \cup { Fn(n, <<<<"idx", Fa, i>>>>) : n \in NumFns1, i \in {0, 1, 3, 6, Neg(1)} }
  \cup { Cmp(op, x, y) : op \in AllOps, x \in {Fa, Fb, <<"idx", Fa, 0>>, <<"idx", Fa, 2>>}, y \in {Fa, Fb, <<"idx", Fa, 1>>, <<"idx", Fa, 3>>, L(Dc(15, Neg(1)))} }
  \cup { Fn("contains", <<x, L(y)>>) : x \in {Fa, Cur}, y \in NS \cup {Dc(150, Neg(2)), Dc(250, Neg(2)), JInt(100), S(T15)} }
  \cup { Fn(n, <<<<"mls", <<Fa, Fb, L(y)>>>>>>) : n \in NumFns1, y \in NS }
  \cup { Cur, Fa, Fb, BK, <<"flt", Cur, Cur>>, <<"vpr", Cur, Cur>>, <<"mhs", <<<<A, Fn("sum", <<Fa>>)>>, <<B, Fn("avg", <<Fa>>)>>>>>> }

-----------------------------------------------------------------------------
First == CASE Mode = "wrap" -> Bases [] Mode = "fn" -> FnCases(0) [] Mode = "slice" -> SliceCases(0) [] Mode = "cmp" -> CmpCases(0)
           [] Mode = "ident" -> IdentCases(0) [] Mode = "stable" -> StableCases(0) [] Mode = "docs" -> { I(i) : i \in 1..Len(Docs) }
           [] Mode = "frac" -> FracCases(0) [] Mode = "fracarr" -> FracArrCases(0) [] Mode = "fracdoc" -> FracDocCases(0)
Init == e = Cur /\ depth = 0
Next == \/ /\ depth = 0 /\ depth' = 1 /\ e' \in { x \in First : Gen(x) }
        \/ /\ depth >= 1 /\ depth < MaxDepth /\ depth' = depth + 1
           /\ CASE Mode = "wrap" -> e' \in Wraps(e)
                [] Mode = "fn" -> e' \in FnOuter(e)
                \* (an expression that is an error on every document of the mode is not wrapped further: the wrap is that error again)
                [] Mode \in {"frac", "fracdoc"} -> ~(\A i \in 1..Len(DocSel) : Search(e, DocsN[DocSel[i]])[1] = "err") /\ e' \in FracOuter(e)
                [] Mode = "fracarr" -> e' \in FracArrWraps(e)
                [] OTHER -> FALSE
View == e
RECURSIVE UsesFn(_, _)
UsesFn(x, n) == (x[1] = "fn" /\ x[2] = n) \/ \E i \in 1..Len(Children(x)) : UsesFn(Children(x)[i], n)

Enc(r) == IF r[1] = "err" THEN <<"e", r[2]>> ELSE IF r[1] = "dc" THEN <<"dc", r[2]>> ELSE <<"v", Wire(r)>>
\* prediction: the specification, strictly (xf = {}), under both member orders when the order can matter
Res(x, d, uo) == LET ra == Ev(x, d, Env("asc", {})) IN
                 IF uo THEN (LET rd == Ev(x, d, Env("desc", {})) IN IF ra = rd THEN Enc(ra) ELSE <<"od", Enc(ra), Enc(rd)>>) ELSE Enc(ra)
\* classification: names of the known-deviation classes the (expression, document) falls into
ValueDevs == KnownDeviations \cap ValueDeviationNames
DevsFor(x, d, ord) == LET strict == Ev(x, d, Env(ord, {})) IN
                      IF Ev(x, d, Env(ord, ValueDevs)) = strict THEN {}
                      ELSE LET s == { n \in ValueDevs : Ev(x, d, Env(ord, {n})) # strict } IN IF s = {} THEN ValueDevs ELSE s
Devs(x, d, uo, may, shape) == shape \cup (IF may THEN DevsFor(x, d, "asc") \cup (IF uo THEN DevsFor(x, d, "desc") ELSE {}) ELSE {})
CaseRec == LET uo == UsesOrder(e)
               may == ValueDevs # {} /\ (MayDeviate(e) \/ ("to_number-non-json-number" \in ValueDevs /\ UsesFn(e, "to_number")))
               shape == { n \in KnownDeviations \cap ShapeDeviationNames : ShapeDeviation(e, {n}) }
               base == [e |-> Show(e), ds |-> DocSel, r |-> [i \in 1..Len(DocSel) |-> Res(e, DocsN[DocSel[i]], uo)], se |-> StaticErr(e),
                        dev |-> [i \in 1..Len(DocSel) |-> SetToSeq(Devs(e, DocsN[DocSel[i]], uo, may, shape))]]
           IN IF EmitAst THEN [e |-> base.e, ds |-> base.ds, r |-> base.r, se |-> base.se, dev |-> base.dev, ast |-> AstWire(e)] ELSE base
Emit == IF depth = 0 THEN TRUE
        ELSE IF Mode = "docs" THEN PrintT(ToJson([doc |-> e[2][2], d |-> Wire(Docs[e[2][2]])]))
        ELSE PrintT(ToJson(CaseRec))

-----------------------------------------------------------------------------
(* Model-internal obligations: identities that follow from the              *)
(* specification text, checked on every (expression, document) enumerated.  *)
NoNulls(s) == SelectSeq(s, LAMBDA x : x[1] # "null")
Flat(s) == \A i \in 1..Len(s) : s[i][1] # "arr"
E1(x, v) == Search(x, v)
\* closed form of the number of elements a slice selects (RFC 9535 2.3.4.2.2 gives the same normalisation)
SliceCount(len, sl) == LET step == IF sl[3] = <<>> THEN 1 ELSE sl[3][1]
                           lo == IF sl[1] = <<>> THEN (IF step < 0 THEN len - 1 ELSE 0) ELSE Clamp(len, sl[1][1], step)
                           hi == IF sl[2] = <<>> THEN (IF step < 0 THEN 0 - 1 ELSE len) ELSE Clamp(len, sl[2][1], step)
                       IN IF step > 0 THEN (IF hi <= lo THEN 0 ELSE ((hi - lo - 1) \div step) + 1)
                          ELSE (IF hi >= lo THEN 0 ELSE ((lo - hi - 1) \div (0 - step)) + 1)
ValueLaws(R) ==
  /\ IsArrV(R) =>
       /\ LET f1 == E1(<<"flt", Cur, Cur>>, R) IN                       \* flatten is idempotent on flat lists
            Flat(f1[2]) => E1(<<"flt", Cur, Cur>>, f1) = f1
       /\ E1(<<"slc", Cur, Sl(Ab, Ab, Ab), Cur>>, R) = Ar(NoNulls(R[2]))     \* [:] is the identity projection
       /\ E1(<<"prj", Cur, Cur>>, R) = Ar(NoNulls(R[2]))                      \* [*] likewise
       /\ E1(<<"pipe", <<"slc", Cur, Sl(Ab, Ab, N(Neg(1))), Cur>>, <<"slc", Cur, Sl(Ab, Ab, N(Neg(1))), Cur>>>>, R) = Ar(NoNulls(R[2]))
       /\ E1(Fn("reverse", <<Fn("reverse", <<Cur>>)>>), R) = R
       /\ E1(Fn("length", <<Cur>>), R) = JInt(Len(R[2]))
       /\ E1(Fn("to_array", <<Cur>>), R) = R
       /\ (AllNum(R[2]) \/ AllStr(R[2])) =>
            /\ E1(Fn("sort", <<Cur>>), R) = E1(Fn("sort_by", <<Cur, Ref(Cur)>>), R)
            /\ E1(Fn("max", <<Cur>>), R) = E1(<<"idx", Fn("sort", <<Cur>>), Neg(1)>>, R)
            /\ E1(Fn("min", <<Cur>>), R) = E1(<<"idx", Fn("sort", <<Cur>>), 0>>, R)
            /\ E1(Fn("sort", <<Fn("sort", <<Cur>>)>>), R) = E1(Fn("sort", <<Cur>>), R)
       /\ E1(Fn("map", <<Ref(Fa), Cur>>), R)[1] = "arr"
       /\ Ar(NoNulls(E1(Fn("map", <<Ref(Fa), Cur>>), R)[2])) = E1(<<"prj", Cur, Fa>>, R)      \* map keeps nulls, projection drops them
  /\ IsObjV(R) =>
       /\ E1(Fn("length", <<Fn("keys", <<Cur>>)>>), R) = E1(Fn("length", <<Cur>>), R)
       /\ E1(Fn("length", <<Fn("values", <<Cur>>)>>), R) = E1(Fn("length", <<Cur>>), R)
       /\ E1(<<"vpr", Cur, Cur>>, R) = Ar(NoNulls(E1(Fn("values", <<Cur>>), R)[2]))
       /\ E1(Fn("merge", <<Cur, Cur>>), R) = R
  /\ ~Abn(R) =>
       /\ E1(Not(Not(Cur)), R) = JBool(Truthy(R))
       /\ E1(<<"or", Cur, Cur>>, R) = R /\ E1(<<"and", Cur, Cur>>, R) = R
       /\ E1(Cmp("eq", Cur, Cur), R) = JBool(TRUE) /\ E1(Cmp("ne", Cur, Cur), R) = JBool(FALSE)
       /\ E1(Fn("not_null", <<Cur, I(1)>>), R) = (IF R[1] = "null" THEN JInt(1) ELSE R)
       /\ E1(Fn("type", <<Cur>>), R)[1] = "str"
\* numbers (checked in every mode but the big "wrap" runs, whose number results are integers): results are canonical; floor(x) <= x <= ceil(x), both integers, equal iff x is one; abs(x) is x or its negative and
\* not negative; a one-element sum / avg / max / min is the element; to_number undoes to_string; trichotomy against 1.5;
\* sum is order-independent; avg * length = sum and min <= avg <= max
One(x) == <<"mls", <<x>>>>
NumLaws(R) ==
  /\ IsNum(R) =>
       LET fl == E1(Fn("floor", <<Cur>>), R)  ce == E1(Fn("ceil", <<Cur>>), R)  ab == E1(FAbs, R)
           back == E1(Fn("to_number", <<Fn("to_string", <<Cur>>)>>), R) IN
       /\ (R[1] = "dec" => R[3] < 0 /\ (AbsInt(R[2]) % 10) # 0)
       /\ fl[1] = "int" /\ ce[1] = "int" /\ ~NumLess(R, fl) /\ ~NumLess(ce, R)
       /\ ce[2] - fl[2] = (IF R[1] = "int" THEN 0 ELSE 1)
       /\ ~NumLess(ab, JInt(0)) /\ (ab = R \/ NumAdd(ab, R) = JInt(0)) /\ E1(FAbs, ab) = ab
       /\ E1(Fn("max", <<One(Cur)>>), R) = R /\ E1(Fn("min", <<One(Cur)>>), R) = R
       /\ (BinExact(R) => E1(Fn("sum", <<One(Cur)>>), R) = R /\ E1(Fn("avg", <<One(Cur)>>), R) = R)
       /\ (Abn(back) \/ back = R)
       /\ Cardinality({ op \in {"lt", "eq", "gt"} : E1(Cmp(op, Cur, L(Dc(15, Neg(1)))), R) = JBool(TRUE) }) = 1
       /\ E1(Cmp("le", Cur, L(Dc(15, Neg(1)))), R) = JBool(~NumLess(JDec(15, Neg(1)), R))
  /\ (IsArrV(R) /\ R[2] # <<>> /\ AllNum(R[2]) /\ AllBinExact(R[2])) =>
       LET sm == E1(Fn("sum", <<Cur>>), R)  av == E1(Fn("avg", <<Cur>>), R)  mx == E1(Fn("max", <<Cur>>), R)  mn == E1(Fn("min", <<Cur>>), R) IN
       /\ E1(Fn("sum", <<Fn("reverse", <<Cur>>)>>), R) = sm
       /\ (Abn(av) \/ (NumMulNat(av, Len(R[2])) = sm /\ ~NumLess(av, mn) /\ ~NumLess(mx, av)))
ExprLaws(x, d) ==
  \* a pipe and a sub-expression agree when the left side is not an open projection
  /\ (x[1] = "sub" => E1(<<"pipe", x[2], x[3]>>, d) = E1(x, d))
  /\ (x[1] = "pipe" /\ x[2][1] \in ClosedK /\ x[3][1] \in DotRhsK => E1(<<"sub", x[2], x[3]>>, d) = E1(x, d))
  \* parentheses do not change a value
  /\ E1(Par(x), d) = E1(x, d)
  \* De Morgan on truthiness
  /\ (x[1] = "and" /\ ~Abn(E1(x[2], d)) /\ ~Abn(E1(x[3], d)) =>
        E1(Not(Par(x)), d) = JBool(~Truthy(E1(x[2], d)) \/ ~Truthy(E1(x[3], d))))
  \* a slice selects the closed-form number of elements, all of them elements of the array
  /\ (x[1] = "slc" /\ x[2] = Cur /\ x[4] = Cur /\ IsArrV(d) /\ ~StepZero(x[3]) =>
        /\ Len(SliceOf(d[2], x[3])) = SliceCount(Len(d[2]), x[3])
        /\ \A i \in 1..Len(SliceOf(d[2], x[3])) : \E j \in 1..Len(d[2]) : d[2][j] = SliceOf(d[2], x[3])[i])
\* sort_by is stable: the result is ordered by key, and elements with equal keys keep their relative (id) order
StableLaw(d) == LET arr == IF IsArrV(d) THEN d ELSE E1(Fa, d)
                    r == E1(Fn("sort_by", <<Cur, Ref(FK)>>), arr)
                IN (IsArrV(arr) /\ ~Abn(r) /\ Len(arr[2]) > 0 /\ IsObjV(arr[2][1])) =>
                     /\ Len(r[2]) = Len(arr[2])
                     /\ \A i \in 1..(Len(r[2]) - 1) :
                          LET x == r[2][i][2]  y == r[2][i + 1][2] IN
                          \/ VLess(x[KK], y[KK])
                          \/ (x[KK] = y[KK] /\ x[KID][2] < y[KID][2])
Identities == depth >= 1 /\ Mode # "docs" =>
  /\ \A i \in 1..Len(DocSel) : LET d == DocsN[DocSel[i]]  R == E1(e, d) IN ExprLaws(e, d) /\ (Abn(R) \/ (ValueLaws(R) /\ (Mode = "wrap" \/ NumLaws(R))))
  /\ (Mode = "stable" => \A i \in 1..Len(DocSel) : StableLaw(DocsN[DocSel[i]]))
=============================================================================
